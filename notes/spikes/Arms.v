From Coq Require Import ZArith Lia Bool Morphisms Setoid.
Require Import Spike.MachInt.
Open Scope Z_scope.
Ltac Zify.zify_post_hook ::= Z.div_mod_to_equations.

(* concrete-width congruences with Proper instances so setoid rewriting works under + - * *)
Definition c32 := cong 32. Definition c64 := cong 64.
#[global] Instance c32_eq : Equivalence c32. Proof. apply cong_equiv. Qed.
#[global] Instance c64_eq : Equivalence c64. Proof. apply cong_equiv. Qed.
#[global] Instance c32_add : Proper (c32 ==> c32 ==> c32) Z.add. Proof. intros ? ? ? ? ? ?; apply cong_add; auto; lia. Qed.
#[global] Instance c32_sub : Proper (c32 ==> c32 ==> c32) Z.sub. Proof. intros ? ? ? ? ? ?; apply cong_sub; auto; lia. Qed.
#[global] Instance c32_mul : Proper (c32 ==> c32 ==> c32) Z.mul. Proof. intros ? ? ? ? ? ?; apply cong_mul; auto; lia. Qed.
#[global] Instance c32_opp : Proper (c32 ==> c32) Z.opp. Proof. intros ? ? ?; apply cong_opp; auto; lia. Qed.
#[global] Instance c64_add : Proper (c64 ==> c64 ==> c64) Z.add. Proof. intros ? ? ? ? ? ?; apply cong_add; auto; lia. Qed.
#[global] Instance c64_sub : Proper (c64 ==> c64 ==> c64) Z.sub. Proof. intros ? ? ? ? ? ?; apply cong_sub; auto; lia. Qed.
#[global] Instance c64_mul : Proper (c64 ==> c64 ==> c64) Z.mul. Proof. intros ? ? ? ? ? ?; apply cong_mul; auto; lia. Qed.
#[global] Instance c64_opp : Proper (c64 ==> c64) Z.opp. Proof. intros ? ? ?; apply cong_opp; auto; lia. Qed.
Lemma n32_I32 x : c32 (norm I32 x) x. Proof. apply (cong_norm I32). Qed.
Lemma n32_U32 x : c32 (norm U32 x) x. Proof. apply (cong_norm U32). Qed.
Lemma n32_I64 x : c32 (norm I64 x) x. Proof. apply (cong_narrow 32 64); [lia|apply (cong_norm I64)]. Qed.
Lemma n32_U64 x : c32 (norm U64 x) x. Proof. apply (cong_narrow 32 64); [lia|apply (cong_norm U64)]. Qed.
Lemma n64_I64 x : c64 (norm I64 x) x. Proof. apply (cong_norm I64). Qed.
Lemma n64_U64 x : c64 (norm U64 x) x. Proof. apply (cong_norm U64). Qed.
Lemma c32_mod x : c32 (x mod 2^32) x. Proof. apply (cong_umod 32); lia. Qed.
Lemma c64_mod x : c64 (x mod 2^64) x. Proof. apply (cong_umod 64); lia. Qed.

Lemma u64_of_u32 x : norm U64 (norm U32 x) = norm U32 x.
Proof. unfold norm; cbn [signed bits]. apply umod_small. pose proof (umod_range 32 x ltac:(lia)).
  change (2^64) with 18446744073709551616. change (2^32) with 4294967296 in *. lia. Qed.
Lemma to_c32 x y : c32 x y -> norm U32 x = y mod 2^32.
Proof. intros H. exact H. Qed.
Lemma to_c64 x y : c64 x y -> norm U64 x = y mod 2^64.
Proof. intros H. exact H. Qed.

Ltac strip32 := repeat first [ setoid_rewrite n32_I32 | setoid_rewrite n32_U32 | setoid_rewrite n32_I64 | setoid_rewrite n32_U64 | setoid_rewrite c32_mod ].
Ltac strip64 := repeat first [ setoid_rewrite n64_I64 | setoid_rewrite n64_U64 | setoid_rewrite c64_mod ].
Ltac solve_mod32 := unfold cast, wrapping_add, wrapping_sub, wrapping_mul, wrapping_neg; rewrite ?u64_of_u32; apply to_c32; strip32; reflexivity.
Ltac solve_mod64 := unfold cast, wrapping_add, wrapping_sub, wrapping_mul, wrapping_neg; apply to_c64; strip64; reflexivity.

Section Arms.
  Variables rd rs imm : Z.
  (* translator output *)
  Definition arm_ADD32_IMM := cast U64 (cast U32 (wrapping_add I32 (cast I32 rd) imm)).
  Definition arm_SUB32_REG := cast U64 (cast U32 (wrapping_sub I32 (cast I32 rd) (cast I32 rs))).
  Definition arm_MUL32_IMM := cast U64 (cast U32 (wrapping_mul I32 (cast I32 rd) imm)).
  Definition arm_MUL64_IMM := wrapping_mul U64 rd (cast U64 imm).
  Definition arm_SUB64_IMM := wrapping_sub U64 rd (cast U64 imm).
  Definition arm_NEG64_fixed := cast U64 (wrapping_neg I64 (cast I64 rd)).
  (* spec *)
  Definition alu32 (f : Z -> Z -> Z) a b := (f (a mod 2^32) (b mod 2^32)) mod 2^32.
  Definition alu64 (f : Z -> Z -> Z) a b := (f a (b mod 2^64)) mod 2^64.

  Lemma ADD32_IMM_ok : arm_ADD32_IMM = alu32 Z.add rd imm.
  Proof. unfold arm_ADD32_IMM, alu32. Time solve_mod32. Qed.
  Lemma SUB32_REG_ok : arm_SUB32_REG = alu32 Z.sub rd rs.
  Proof. unfold arm_SUB32_REG, alu32. Time solve_mod32. Qed.
  Lemma MUL32_IMM_ok : arm_MUL32_IMM = alu32 Z.mul rd imm.
  Proof. unfold arm_MUL32_IMM, alu32. Time solve_mod32. Qed.
  Lemma MUL64_IMM_ok : arm_MUL64_IMM = alu64 Z.mul rd imm.
  Proof. unfold arm_MUL64_IMM, alu64. Time solve_mod64. Qed.
  Lemma SUB64_IMM_ok : arm_SUB64_IMM = alu64 Z.sub rd imm.
  Proof. unfold arm_SUB64_IMM, alu64. Time solve_mod64. Qed.
  Lemma NEG64_ok : arm_NEG64_fixed = (- rd) mod 2^64.
  Proof. unfold arm_NEG64_fixed. Time solve_mod64. Qed.
  (* a mutated arm must NOT go through *)
  Definition arm_ADD32_IMM_mut := cast U64 (cast U32 (wrapping_sub I32 (cast I32 rd) imm)).
  Lemma mut_fails : arm_ADD32_IMM_mut = alu32 Z.add rd imm.
  Proof. unfold arm_ADD32_IMM_mut, alu32. Fail solve_mod32. Abort.
End Arms.
