From Coq Require Import ZArith Lia List Bool.
Import ListNotations.
Open Scope Z_scope.

(* combine's four outcomes *)
Inductive pres (A : Type) := PeekOk (a : A) (rest : list Z) | CommitOk (a : A) (rest : list Z) | PeekErr | CommitErr.
Arguments PeekOk {A}. Arguments CommitOk {A}. Arguments PeekErr {A}. Arguments CommitErr {A}.
Definition parser A := list Z -> pres A.

Definition satisfy (f : Z -> bool) : parser Z := fun s =>
  match s with c :: r => if f c then CommitOk c r else PeekErr | [] => PeekErr end.
Definition commit {A} (r : pres A) : pres A := match r with PeekOk a s => CommitOk a s | PeekErr => CommitErr | x => x end.
Definition bind {A B} (p : parser A) (f : A -> parser B) : parser B := fun s =>
  match p s with
  | PeekOk a r => f a r
  | CommitOk a r => commit (f a r)
  | PeekErr => PeekErr | CommitErr => CommitErr end.
Definition ret {A} (a : A) : parser A := fun s => PeekOk a s.
Definition por {A} (p q : parser A) : parser A := fun s => match p s with PeekErr => q s | r => r end.
Definition attempt {A} (p : parser A) : parser A := fun s => match p s with CommitErr => PeekErr | r => r end.
Definition optional {A} (p : parser A) : parser (option A) := fun s =>
  match p s with PeekOk a r => PeekOk (Some a) r | CommitOk a r => CommitOk (Some a) r | CommitErr => CommitErr | PeekErr => PeekOk None s end.
(* many: fuel = length of input suffices because each successful iteration must commit (consume) *)
Fixpoint many_f {A} (fuel : nat) (p : parser A) (s : list Z) (acc : list A) (consumed : bool) : pres (list A) :=
  match fuel with
  | O => CommitErr
  | S f => match p s with
           | CommitOk a r => many_f f p r (a :: acc) true
           | PeekOk a r => CommitErr                      (* combine would loop forever; never happens for our parsers *)
           | PeekErr => if consumed then CommitOk (rev acc) s else PeekOk (rev acc) s
           | CommitErr => CommitErr end end.
Definition many {A} (p : parser A) : parser (list A) := fun s => many_f (S (length s)) p s [] false.
Definition many1 {A} (p : parser A) : parser (list A) := bind p (fun a => bind (many p) (fun l => ret (a :: l))).

Definition is_digit (c : Z) := (48 <=? c) && (c <=? 57).
Definition is_hex (c : Z) := is_digit c || ((97 <=? c) && (c <=? 102)) || ((65 <=? c) && (c <=? 70)).
Definition hexval (c : Z) := if is_digit c then c - 48 else if (97 <=? c) then c - 87 else c - 55.
Definition chr (c : Z) : parser Z := satisfy (Z.eqb c).

Definition from_hex (ds : list Z) : Z := fold_left (fun acc d => acc * 16 + hexval d) ds 0.
(* u64::from_str_radix(..).unwrap() as i64 : Panic if >= 2^64 — here just the value *)
Definition hex_lit : parser Z := bind (chr 48) (fun _ => bind (chr 120) (fun _ => bind (many1 (satisfy is_hex)) (fun ds => ret (from_hex ds)))).

(* printer: Rust {:#x} for a non-negative magnitude *)
Definition hexchar (d : Z) : Z := if d <? 10 then 48 + d else 87 + d.
Fixpoint hex_digits (fuel : nat) (n : Z) (acc : list Z) : list Z :=
  match fuel with O => acc | S f => if n <? 16 then hexchar n :: acc else hex_digits f (n / 16) (hexchar (n mod 16) :: acc) end.
Definition print_hex (n : Z) : list Z := 48 :: 120 :: hex_digits 64 n [].

Eval vm_compute in (print_hex 255, print_hex 0, hex_lit (print_hex 4660 ++ [44; 32])).
