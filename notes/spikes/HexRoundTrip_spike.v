From Coq Require Import ZArith Lia List Bool.
Import ListNotations.
Require Import S2.Parsec.
Open Scope Z_scope.

Definition stops (f : Z -> bool) (rest : list Z) := match rest with [] => True | c :: _ => f c = false end.

(* many (satisfy f) over a run of f-characters followed by a stopping rest *)
Lemma many_f_satisfy f ds : forall fuel rest acc consumed,
  Forall (fun d => f d = true) ds -> stops f rest -> (length ds < fuel)%nat ->
  many_f fuel (satisfy f) (ds ++ rest) acc consumed =
    (if consumed || negb (Nat.eqb (length ds) 0) then CommitOk (rev acc ++ ds) rest else PeekOk (rev acc ++ ds) rest).
Proof.
  induction ds as [|d ds IH]; intros fuel rest acc consumed Hall Hst Hf.
  - destruct fuel as [|fuel]; [simpl in Hf; lia|]. cbn [app many_f length Nat.eqb negb]. rewrite app_nil_r, orb_false_r.
    destruct rest as [|c r]; cbn [satisfy]. { now destruct consumed. }
    cbn in Hst. rewrite Hst. now destruct consumed.
  - destruct fuel as [|fuel]; [simpl in Hf; lia|]. inversion Hall as [|? ? Hd Hds]; subst.
    cbn [app many_f satisfy]. rewrite Hd. rewrite IH; auto; [|simpl in Hf; lia].
    cbn [orb length Nat.eqb negb]. rewrite orb_true_r. cbn [rev]. now rewrite <- app_assoc.
Qed.
Lemma many_satisfy f ds rest : Forall (fun d => f d = true) ds -> stops f rest -> ds <> [] ->
  many (satisfy f) (ds ++ rest) = CommitOk ds rest.
Proof.
  intros Hall Hst Hne. unfold many. rewrite many_f_satisfy; auto.
  - destruct ds; [congruence|]. reflexivity.
  - rewrite app_length. lia.
Qed.
Lemma many1_satisfy f d ds rest : Forall (fun d => f d = true) (d :: ds) -> stops f rest ->
  many1 (satisfy f) ((d :: ds) ++ rest) = CommitOk (d :: ds) rest.
Proof.
  intros Hall Hst. inversion Hall as [|? ? Hd Hds]; subst. unfold many1, bind at 1. cbn [app satisfy]. rewrite Hd.
  destruct ds as [|e ds].
  - unfold bind, many. cbn [app]. destruct rest as [|c r]; cbn [length many_f satisfy]; [reflexivity|].
    cbn in Hst. rewrite Hst. reflexivity.
  - unfold bind. rewrite (many_satisfy f (e :: ds) rest); auto; try congruence.
Qed.

(* printer facts *)
Lemma hexchar_hex d : 0 <= d < 16 -> is_hex (hexchar d) = true /\ hexval (hexchar d) = d.
Proof.
  intros H. unfold hexchar. destruct (Z.ltb_spec d 10).
  - assert (E: is_digit (48 + d) = true) by (unfold is_digit; apply andb_true_iff; split; apply Z.leb_le; lia).
    unfold is_hex, hexval. rewrite E. split; [reflexivity|lia].
  - assert (E: is_digit (87 + d) = false) by (unfold is_digit; apply andb_false_iff; right; apply Z.leb_gt; lia).
    assert (F: (97 <=? 87 + d) = true) by (apply Z.leb_le; lia).
    assert (G: (87 + d <=? 102) = true) by (apply Z.leb_le; lia).
    unfold is_hex, hexval. rewrite E, F, G. split; [reflexivity|lia].
Qed.
Lemma from_hex_app acc0 ds : fold_left (fun acc d => acc * 16 + hexval d) ds acc0 = acc0 * 16 ^ Z.of_nat (length ds) + from_hex ds.
Proof.
  unfold from_hex. revert acc0. induction ds as [|d ds IH]; intros acc0.
  - cbn. lia.
  - cbn [fold_left length]. rewrite IH, (IH (0 * 16 + hexval d)). rewrite Nat2Z.inj_succ, Z.pow_succ_r by lia. ring.
Qed.
Lemma hex_digits_S f n acc : hex_digits (S f) n acc = if n <? 16 then hexchar n :: acc else hex_digits f (n / 16) (hexchar (n mod 16) :: acc).
Proof. reflexivity. Qed.
Lemma hex_digits_spec : forall fuel n acc, 0 <= n < 16 ^ Z.of_nat (S fuel) ->
  Forall (fun d => is_hex d = true) acc ->
  exists ds, hex_digits (S fuel) n acc = ds ++ acc /\ ds <> [] /\ Forall (fun d => is_hex d = true) ds /\ from_hex ds = n.
Proof.
  induction fuel as [|fuel IH]; intros n acc Hn Hacc.
  - rewrite hex_digits_S. change (16 ^ Z.of_nat 1) with 16 in Hn. destruct (Z.ltb_spec n 16); [|lia].
    exists [hexchar n]. destruct (hexchar_hex n ltac:(lia)) as [A B]. repeat split; auto; try congruence; try (unfold from_hex; cbn [fold_left]; lia).
  - rewrite hex_digits_S. destruct (Z.ltb_spec n 16).
    + exists [hexchar n]. destruct (hexchar_hex n ltac:(lia)) as [A B]. repeat split; auto; try congruence; try (unfold from_hex; cbn [fold_left]; lia).
    + assert (Hq: 0 <= n / 16 < 16 ^ Z.of_nat (S fuel)).
      { rewrite (Nat2Z.inj_succ (S fuel)), Z.pow_succ_r in Hn by lia. split; [apply Z.div_pos; lia|apply Z.div_lt_upper_bound; lia]. }
      destruct (hexchar_hex (n mod 16) ltac:(apply Z.mod_pos_bound; lia)) as [A B].
      destruct (IH (n / 16) (hexchar (n mod 16) :: acc) Hq ltac:(constructor; auto)) as (ds & E & Hne & Hall & Hv).
      exists (ds ++ [hexchar (n mod 16)]). rewrite E, <- app_assoc. repeat split; auto.
      * destruct ds; cbn; congruence.
      * apply Forall_app; split; auto.
      * unfold from_hex. rewrite fold_left_app. cbn [fold_left]. fold (from_hex ds). rewrite Hv, B. pose proof (Z.div_mod n 16 ltac:(lia)). lia.
Qed.

Lemma bind_chr {B} c (k : Z -> parser B) s : bind (chr c) k (c :: s) = commit (k c s).
Proof. unfold bind, chr, satisfy. now rewrite Z.eqb_refl. Qed.
Theorem hex_roundtrip n rest : 0 <= n < 2^64 -> stops is_hex rest ->
  hex_lit (print_hex n ++ rest) = CommitOk n rest.
Proof.
  intros Hn Hst. unfold print_hex.
  assert (Hb: 0 <= n < 16 ^ Z.of_nat 64).
  { change (16 ^ Z.of_nat 64) with (2^256). split; [lia|]. eapply Z.lt_le_trans; [apply Hn|]. apply Z.pow_le_mono_r; lia. }
  destruct (hex_digits_spec 63 n [] Hb ltac:(constructor)) as (ds & E & Hne & Hall & Hv).
  rewrite E, app_nil_r. destruct ds as [|d ds]; [congruence|].
  unfold hex_lit. change ((48 :: 120 :: d :: ds) ++ rest) with (48 :: 120 :: ((d :: ds) ++ rest)).
  rewrite bind_chr, bind_chr. unfold bind. rewrite (many1_satisfy is_hex d ds rest Hall Hst). cbn [commit ret]. now rewrite Hv.
Qed.
Print Assumptions hex_roundtrip.
