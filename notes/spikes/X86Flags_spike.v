From Coq Require Import ZArith Lia Bool.
Open Scope Z_scope.
Ltac Zify.zify_post_hook ::= Z.div_mod_to_equations.
(* x86 CMP a, b at width w computes a - b and sets flags *)
Section W.
  Variable w : Z. Hypothesis Hw : 0 < w.
  Let M := 2^w. Let H := 2^(w-1).
  Definition sgn (x : Z) := if x <? 2^(w-1) then x else x - 2^w.       (* x in [0,2^w) *)
  Definition res (a b : Z) := (a - b) mod 2^w.
  Definition ZF a b := res a b =? 0.
  Definition CF a b := a <? b.                                         (* borrow *)
  Definition SF a b := 2^(w-1) <=? res a b.
  Definition OF a b := negb ((- 2^(w-1) <=? sgn a - sgn b) && (sgn a - sgn b <? 2^(w-1))).
  (* jcc conditions *)
  Definition cc_A a b := negb (CF a b) && negb (ZF a b).
  Definition cc_AE a b := negb (CF a b).
  Definition cc_G a b := negb (ZF a b) && Bool.eqb (SF a b) (OF a b).
  Definition cc_GE a b := Bool.eqb (SF a b) (OF a b).
  Definition cc_L a b := negb (Bool.eqb (SF a b) (OF a b)).

  Variables a b : Z. Hypothesis Ha : 0 <= a < 2^w. Hypothesis Hb : 0 <= b < 2^w.
  Lemma pow_split : 2^w = 2 * 2^(w-1). Proof. rewrite <- Z.pow_succ_r by lia. f_equal. lia. Qed.
  Lemma cc_A_ok : cc_A a b = (b <? a).
  Proof.
    unfold cc_A, CF, ZF, res. assert (Hm: 0 < 2^w) by (apply Z.pow_pos_nonneg; lia).
    set (m := 2^w) in *. clearbody m.
    destruct (Z_lt_le_dec (a - b) 0) as [L|L].
    - assert (E: (a - b) mod m = a - b + m) by (symmetry; apply Z.mod_unique with (-1); lia). rewrite E.
      destruct (Z.ltb_spec a b), (Z.ltb_spec b a), (Z.eqb_spec (a - b + m) 0); cbn; try reflexivity; lia.
    - assert (E: (a - b) mod m = a - b) by (apply Z.mod_small; lia). rewrite E.
      destruct (Z.ltb_spec a b), (Z.ltb_spec b a), (Z.eqb_spec (a - b) 0); cbn; try reflexivity; lia.
  Qed.
  Lemma cc_L_ok : cc_L a b = (sgn a <? sgn b).
  Proof.
    unfold cc_L, SF, OF, res, sgn. pose proof pow_split as P. assert (Hp: 0 < 2^(w-1)) by (apply Z.pow_pos_nonneg; lia).
    set (h := 2^(w-1)) in *. rewrite P in *. clearbody h.
    assert (Hm: forall k, 0 <= a - b + k * (2*h) < 2*h -> (a - b) mod (2*h) = a - b + k*(2*h)).
    { intros k Hk. symmetry. apply Z.mod_unique with (-k); lia. }
    destruct (Z.ltb_spec a h), (Z.ltb_spec b h);
    (destruct (Z_lt_le_dec (a - b) 0); [rewrite (Hm 1) by lia | rewrite (Hm 0) by lia]);
    repeat match goal with |- context [?x <=? ?y] => destruct (Z.leb_spec x y) | |- context [?x <? ?y] => destruct (Z.ltb_spec x y) end; cbn; try reflexivity; try lia.
  Qed.
End W.
Check cc_L_ok.
