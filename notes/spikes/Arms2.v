From Coq Require Import ZArith Lia Bool.
Require Import Spike.MachInt.
Open Scope Z_scope.
Ltac Zify.zify_post_hook ::= Z.div_mod_to_equations.
Arguments Z.pow : simpl never. Arguments Z.mul : simpl never.

Ltac fold_pows := 
  change (2^64) with 18446744073709551616 in *; change (2^63) with 9223372036854775808 in *;
  change (2^32) with 4294967296 in *; change (2^31) with 2147483648 in *;
  change (2^16) with 65536 in *; change (2^8) with 256 in *.

Lemma mod_mod_divides x a b : 0 < b -> (b | a) -> 0 < a -> (x mod a) mod b = x mod b.
Proof. intros Hb [k Hk] Ha. symmetry. apply Znumtheory.Zmod_div_mod; try lia. exists k; lia. Qed.

Lemma shl_mod w a n : 0 <= w -> 0 <= n -> (Z.shiftl a n) mod 2^w = (a * 2^n) mod 2^w.
Proof. intros. now rewrite Z.shiftl_mul_pow2. Qed.

Section S.
  Variables rd rs imm : Z.
  Hypothesis Hrd : 0 <= rd < 2^64. Hypothesis Hrs : 0 <= rs < 2^64. Hypothesis Himm : - 2^31 <= imm < 2^31.

  Definition arm_LSH32_REG := cast U64 (wrapping_shl U32 (cast U32 rd) (cast U32 rs)).
  Definition spec_LSH32 a b := ((a mod 2^32) * 2^(b mod 32)) mod 2^32.
  Lemma LSH32_REG_ok : arm_LSH32_REG = spec_LSH32 rd rs.
  Proof.
    unfold arm_LSH32_REG, spec_LSH32, cast, wrapping_shl, norm; cbn [signed bits]. unfold umod.
    rewrite (Z.mod_small (_ mod 2^32) (2^64)) by (pose proof (Z.mod_pos_bound (Z.shiftl (rd mod 2^32) ((rs mod 2^32) mod 32)) (2^32)); fold_pows; lia).
    rewrite Z.shiftl_mul_pow2 by (apply Z.mod_pos_bound; lia).
    rewrite (mod_mod_divides rs (2^32) 32) by (try lia; exists (2^27); reflexivity). reflexivity.
  Qed.

  Definition arm_RSH32_IMM := cast U64 (wrapping_shr U32 (cast U32 rd) (cast U32 imm)).
  Definition spec_RSH32 a b := (a mod 2^32) / 2^(b mod 32).
  Lemma RSH32_IMM_ok : arm_RSH32_IMM = spec_RSH32 rd imm.
  Proof.
    unfold arm_RSH32_IMM, spec_RSH32, cast, wrapping_shr, norm; cbn [signed bits]. unfold umod.
    rewrite (mod_mod_divides imm (2^32) 32) by (try lia; exists (2^27); reflexivity).
    rewrite Z.shiftr_div_pow2 by (apply Z.mod_pos_bound; lia).
    assert (0 < 2^(imm mod 32)) by (apply Z.pow_pos_nonneg; [lia|apply Z.mod_pos_bound; lia]).
    assert (0 <= rd mod 2^32 < 2^32) by (apply Z.mod_pos_bound; fold_pows; lia).
    assert (0 <= (rd mod 2^32) / 2^(imm mod 32) <= rd mod 2^32).
    { generalize dependent (2^(imm mod 32)). generalize dependent (rd mod 2^32). clear. intros a Ha p Hp.
      split. apply Z.div_pos; lia. apply Z.div_le_upper_bound; [lia|]. assert (1 <= p) by lia. nia. }
    generalize dependent ((rd mod 2^32) / 2^(imm mod 32)). generalize dependent (rd mod 2^32). clear. intros a Ha q Hq.
    rewrite !Z.mod_small; fold_pows; lia.
  Qed.

  (* { reg = (reg as i32).wrapping_shr(imm as u32) as u64; reg &= U32MAX } *)
  Definition arm_ARSH32_IMM := Z.land (cast U64 (wrapping_shr I32 (cast I32 rd) (cast U32 imm))) (2^32 - 1).
  Definition spec_ARSH32 a b := ((smod 32 a) / 2^(b mod 32)) mod 2^32.
  Lemma smod_range w x : 0 < w -> - 2^(w-1) <= smod w x < 2^(w-1).
  Proof. intros. unfold smod. cbv zeta. pose proof (Z.mod_pos_bound x (2^w) ltac:(apply Z.pow_pos_nonneg; lia)).
    assert (2^w = 2 * 2^(w-1)) by (rewrite <- Z.pow_succ_r by lia; f_equal; lia).
    destruct (Z.ltb_spec (x mod 2^w) (2^(w-1))); lia. Qed.
  Lemma smod_idem w x : 0 < w -> - 2^(w-1) <= x < 2^(w-1) -> smod w x = x.
  Proof. intros Hw Hx. unfold smod. cbv zeta.
    assert (E: 2^w = 2 * 2^(w-1)) by (rewrite <- Z.pow_succ_r by lia; f_equal; lia).
    assert (P: 0 < 2^(w-1)) by (apply Z.pow_pos_nonneg; lia).
    destruct (Z.ltb_spec (x mod 2^w) (2^(w-1))) as [L|L].
    - destruct (Z_lt_le_dec x 0).
      + exfalso. assert (x mod 2^w = x + 2^w) by (symmetry; apply Z.mod_unique with (-1); lia). lia.
      + apply Z.mod_small; lia.
    - destruct (Z_lt_le_dec x 0).
      + assert (x mod 2^w = x + 2^w) by (symmetry; apply Z.mod_unique with (-1); lia). lia.
      + exfalso. rewrite Z.mod_small in L; lia.
  Qed.
  Lemma ARSH32_IMM_ok : arm_ARSH32_IMM = spec_ARSH32 rd imm.
  Proof.
    unfold arm_ARSH32_IMM, spec_ARSH32, cast, wrapping_shr, norm; cbn [signed bits]. unfold umod at 1.
    change (2^32 - 1) with (Z.ones 32). rewrite Z.land_ones by lia.
    rewrite (mod_mod_divides _ (2^64) (2^32)) by (try (fold_pows; lia); exists (2^32); reflexivity).
    unfold umod. rewrite (mod_mod_divides imm (2^32) 32) by (try lia; exists (2^27); reflexivity).
    rewrite Z.shiftr_div_pow2 by (apply Z.mod_pos_bound; lia).
    (* smod 32 (q) = q because |q| <= |smod 32 rd| *)
    set (a := smod 32 rd). pose proof (smod_range 32 rd ltac:(lia)) as Ha. fold a in Ha.
    assert (P: 0 < 2^(imm mod 32)) by (apply Z.pow_pos_nonneg; [lia|apply Z.mod_pos_bound; lia]).
    rewrite (smod_idem 32 (a / 2^(imm mod 32))); [reflexivity|lia|].
    change (32-1) with 31 in *. generalize dependent (2^(imm mod 32)). clearbody a. intros p Hp. clear - Ha Hp.
    assert (1 <= p) by lia. fold_pows. split.
    - apply Z.div_le_lower_bound; [lia|]. nia.
    - apply Z.div_lt_upper_bound; [lia|]. nia.
  Qed.

  (* reg <<= imm as u64 & 0x3f : u64 `<<` panics only if amount >= 64 *)
  Definition checked_shl64 (a n : Z) : option Z := if (0 <=? n) && (n <? 64) then Some ((Z.shiftl a n) mod 2^64) else None.
  Definition arm_LSH64_IMM := checked_shl64 rd (Z.land (cast U64 imm) 63).
  Lemma LSH64_IMM_ok : arm_LSH64_IMM = Some ((rd * 2^(imm mod 64)) mod 2^64).
  Proof.
    unfold arm_LSH64_IMM, checked_shl64, cast, norm; cbn [signed bits]. unfold umod.
    change 63 with (Z.ones 6). rewrite Z.land_ones by lia.
    rewrite (mod_mod_divides imm (2^64) (2^6)) by (try (fold_pows; lia); try reflexivity; exists (2^58); reflexivity).
    change (2^6) with 64. pose proof (Z.mod_pos_bound imm 64 ltac:(lia)).
    destruct (Z.leb_spec 0 (imm mod 64)); [|lia]. destruct (Z.ltb_spec (imm mod 64) 64); [|lia]. cbn [andb].
    now rewrite Z.shiftl_mul_pow2 by lia.
  Qed.

  Definition arm_JSGT_IMM32 := cast I32 rd >? imm.
  Lemma JSGT_IMM32_ok : arm_JSGT_IMM32 = (smod 32 rd >? smod 32 imm).
  Proof. unfold arm_JSGT_IMM32, cast, norm; cbn [signed bits]. rewrite (smod_idem 32 imm); [reflexivity|lia|change (32-1) with 31; lia]. Qed.

  Definition arm_OR32_IMM := cast U64 (Z.lor (cast U32 rd) (cast U32 imm)).
  Lemma OR32_IMM_ok : arm_OR32_IMM = Z.lor (rd mod 2^32) (imm mod 2^32).
  Proof.
    unfold arm_OR32_IMM, cast, norm; cbn [signed bits]. unfold umod. apply Z.mod_small.
    pose proof (Z.mod_pos_bound rd (2^32) ltac:(fold_pows; lia)). pose proof (Z.mod_pos_bound imm (2^32) ltac:(fold_pows; lia)).
    split. apply Z.lor_nonneg; lia.
    apply Z.log2_lt_cancel. rewrite Z.log2_pow2 by lia.
    destruct (Z.eq_dec (Z.lor (rd mod 2^32) (imm mod 2^32)) 0) as [->|NZ]; [cbn; lia|].
    rewrite Z.log2_lor by lia.
    apply Z.max_lub_lt.
    - destruct (Z.eq_dec (rd mod 2^32) 0) as [->|?]; [cbn;lia|]. apply Z.log2_lt_pow2; lia.
    - destruct (Z.eq_dec (imm mod 2^32) 0) as [->|?]; [cbn;lia|]. apply Z.log2_lt_pow2; lia.
  Qed.
End S.
