let rec z_of_int n = if n = 0 then Model.Z0 else if n > 0 then Model.Zpos (pos_of_int n) else Model.Zneg (pos_of_int (-n))
and pos_of_int n = if n = 1 then Model.XH else if n land 1 = 0 then Model.XO (pos_of_int (n lsr 1)) else Model.XI (pos_of_int (n lsr 1))
let rec int_of_pos = function Model.XH -> 1 | Model.XO p -> 2 * int_of_pos p | Model.XI p -> 2 * int_of_pos p + 1
let () =
  let n = int_of_string Sys.argv.(1) in
  let t = Unix.gettimeofday () in
  let r = Model.run (z_of_int n) in
  let dt = Unix.gettimeofday () -. t in
  (match r with Model.Zpos p -> Printf.printf "low bits %d\n" ((int_of_pos p) land 0xffff) | _ -> print_endline "0/neg");
  Printf.printf "%d steps in %.3fs (%.2f us/step)\n" n dt (1e6 *. dt /. float n)
