#!/usr/bin/env python3
"""Feasibility spike: tokenise Rust, pull the `match insn.opc { ... }` arms out of interpreter.rs,
parse each arm body with a small recursive-descent expression/statement parser, report coverage."""
import re, sys, collections

TOK = re.compile(r'''
  (?P<ws>\s+|//[^\n]*|/\*.*?\*/)
 |(?P<num>0x[0-9a-fA-F_]+|\d[\d_]*)(?P<suf>(?:u|i)(?:8|16|32|64|128|size))?
 |(?P<str>"(?:\\.|[^"\\])*")
 |(?P<life>'[A-Za-z_]\w*(?!'))
 |(?P<id>[A-Za-z_]\w*!?)
 |(?P<op><<=|>>=|\.\.=|::|->|=>|==|!=|<=|>=|&&|\|\||<<|>>|\+=|-=|\*=|/=|%=|\|=|&=|\^=|\.\.|[-+*/%&|^!<>=.,;:#\[\](){}?@$])
''', re.S | re.X)

def tokenize(src):
    out=[]; i=0
    while i < len(src):
        m = TOK.match(src, i)
        if not m: raise SyntaxError("lex at %r" % src[i:i+20])
        i = m.end()
        if m.group('ws'): continue
        if m.group('num') is not None: out.append(('num', m.group('num'), m.group('suf')))
        elif m.group('str') is not None: out.append(('str', m.group('str')))
        elif m.group('life') is not None: out.append(('life', m.group('life')))
        elif m.group('id') is not None: out.append(('id', m.group('id')))
        else: out.append(('op', m.group('op')))
    return out

BINPREC = [ ['||'], ['&&'], ['==','!=','<','>','<=','>='], ['|'], ['^'], ['&'], ['<<','>>'], ['+','-'], ['*','/','%'] ]
ASSIGN = {'=','+=','-=','*=','/=','%=','|=','&=','^=','<<=','>>='}

class P:
    def __init__(s, toks): s.t=toks; s.i=0
    def peek(s, k=0): return s.t[s.i+k] if s.i+k < len(s.t) else ('eof',)
    def isop(s, v, k=0): p=s.peek(k); return p[0]=='op' and p[1]==v
    def eat(s, v=None):
        p=s.peek()
        if v is not None and not (p[0]=='op' and p[1]==v or p[0]=='id' and p[1]==v): raise SyntaxError("expected %s got %s at %d" % (v,p,s.i))
        s.i+=1; return p
    # statements
    def block(s):
        s.eat('{'); stmts=[]
        while not s.isop('}'):
            stmts.append(s.stmt())
        s.eat('}'); return ('block', stmts)
    def stmt(s):
        p=s.peek()
        if p==('id','let'):
            s.eat(); mut = s.peek()==('id','mut') and s.eat()
            name=s.eat()[1]; ty=None
            if s.isop(':'): s.eat(); ty=s.type_()
            s.eat('='); e=s.expr(); s.eat(';'); return ('let', name, ty, e)
        e=s.expr()
        if s.peek()[0]=='op' and s.peek()[1] in ASSIGN:
            op=s.eat()[1]; r=s.expr(); e=('assign', op, e, r)
        if s.isop(';'): s.eat(); return ('stmt', e)
        return ('tail', e)
    def type_(s):
        toks=[]
        if s.isop('*'): s.eat(); toks.append('*'); toks.append(s.eat()[1])  # *const / *mut
        toks.append(s.eat()[1])
        while s.isop('::'): s.eat(); toks.append(s.eat()[1])
        return ' '.join(toks)
    def expr(s, lvl=0):
        if lvl == len(BINPREC): return s.cast()
        l = s.expr(lvl+1)
        while s.peek()[0]=='op' and s.peek()[1] in BINPREC[lvl] and not (s.peek()[1] in ('<','>') and False):
            op=s.eat()[1]; r=s.expr(lvl+1); l=('bin', op, l, r)
        return l
    def cast(s):
        e=s.unary()
        while s.peek()==('id','as'):
            s.eat(); e=('as', e, s.type_())
        return e
    def unary(s):
        if s.isop('-') or s.isop('!') or s.isop('*') or s.isop('&'):
            op=s.eat()[1]; return ('un', op, s.unary())
        return s.postfix()
    def postfix(s):
        e=s.atom()
        while True:
            if s.isop('.'):
                s.eat(); name=s.eat()[1]
                if s.isop('::'):  # turbofish
                    s.eat(); s.eat('<'); s.type_(); s.eat('>')
                if s.isop('('): e=('mcall', e, name, s.args())
                else: e=('field', e, name)
            elif s.isop('['):
                s.eat(); ix=s.expr()
                if s.isop('..=') or s.isop('..'): op=s.eat()[1]; hi=s.expr(); ix=('range',op,ix,hi)
                s.eat(']'); e=('index', e, ix)
            elif s.isop('('): e=('call', e, s.args())
            elif s.isop('?'): s.eat(); e=('try', e)
            else: return e
    def args(s):
        s.eat('('); a=[]
        while not s.isop(')'):
            a.append(s.expr())
            if s.isop(','): s.eat()
        s.eat(')'); return a
    def atom(s):
        p=s.peek()
        if p[0]=='num': s.eat(); return ('num', int(p[1].replace('_',''),0), p[2])
        if p[0]=='str': s.eat(); return ('str', p[1])
        if s.isop('('):
            s.eat(); e=s.expr()
            if s.isop(','):  # tuple
                items=[e]
                while s.isop(','): s.eat(); items.append(s.expr()) if not s.isop(')') else None
                s.eat(')'); return ('tuple', items)
            s.eat(')'); return ('paren', e)
        if s.isop('{'): return s.block()
        if p==('id','unsafe'): s.eat(); return ('unsafe', s.block())
        if p==('id','if'):
            s.eat(); c=s.expr_nostruct(); t=s.block(); f=None
            if s.peek()==('id','else'):
                s.eat(); f = s.atom() if s.peek()==('id','if') else s.block()
            return ('if', c, t, f)
        if p==('id','match'):
            s.eat(); scrut=s.expr_nostruct(); s.eat('{'); arms=[]
            while not s.isop('}'):
                pats=[s.pattern()]
                while s.isop('|'): s.eat(); pats.append(s.pattern())
                guard=None
                if s.peek()==('id','if'): s.eat(); guard=s.expr()
                s.eat('=>'); body=s.expr()
                if s.peek()[0]=='op' and s.peek()[1] in ASSIGN: op=s.eat()[1]; body=('assign',op,body,s.expr())
                if s.isop(','): s.eat()
                arms.append((pats,guard,body))
            s.eat('}'); return ('match', scrut, arms)
        if p==('id','return'): s.eat(); return ('return', s.expr())
        if p[0]=='id':
            s.eat(); name=p[1]
            while s.isop('::'):
                s.eat()
                if s.isop('<'): s.eat(); ty=s.type_(); s.eat('>'); name+='::<%s>'%ty
                else: name+='::'+s.eat()[1]
            if name.endswith('!'):  # macro call: keep raw tokens
                open_=s.eat()[1]; close={'(' :')','[':']','{':'}'}[open_]; depth=1; raw=[]
                while depth:
                    q=s.eat()
                    if q[0]=='op' and q[1]==open_: depth+=1
                    if q[0]=='op' and q[1]==close: depth-=1
                    if depth: raw.append(q)
                return ('macro', name, raw)
            return ('path', name)
        raise SyntaxError("atom %s at %d" % (p, s.i))
    def expr_nostruct(s): return s.expr()
    def pattern(s):
        p=s.eat()
        if p[0]=='num': return ('pnum', p[1])
        name=p[1]
        while s.isop('::'): s.eat(); name+='::'+s.eat()[1]
        return ('ppath', name)

def extract_match(src, fn_name, scrut='insn.opc'):
    i = src.index('fn '+fn_name)
    j = src.index('match '+scrut, i)
    k = src.index('{', j); depth=0; e=k
    while True:
        if src[e]=='{': depth+=1
        elif src[e]=='}':
            depth-=1
            if depth==0: break
        e+=1
    return src[j:e+1]

def split_arms(toks):
    """toks of `match X { arms }` -> list of (attrs, pattern toks, guard toks, body toks)"""
    # find first '{'
    i=0
    while not (toks[i][0]=='op' and toks[i][1]=='{'): i+=1
    i+=1; arms=[]
    while not (toks[i][0]=='op' and toks[i][1]=='}'):
        attrs=[]
        while toks[i]==('op','#'):
            j=i+1; depth=0
            while True:
                if toks[j]==('op','['): depth+=1
                if toks[j]==('op',']'):
                    depth-=1
                    if depth==0: break
                j+=1
            attrs.append(toks[i:j+1]); i=j+1
        j=i
        while toks[j]!=('op','=>'): j+=1
        head=toks[i:j]; j+=1
        # body: until top-level ',' (depth 0) or a block end followed by optional ','
        depth=0; b=j
        while True:
            t=toks[b]
            if t[0]=='op' and t[1] in '([{': depth+=1
            elif t[0]=='op' and t[1] in ')]}':
                if depth==0: break
                depth-=1
                if depth==0 and t[1]=='}' and toks[j]==('op','{'):
                    b+=1; break
            elif t==('op',',') and depth==0: break
            b+=1
        body=toks[j:b]
        if toks[b]==('op',','): b+=1
        arms.append((attrs, head, body)); i=b
    return arms

if __name__=='__main__':
    path, fn = sys.argv[1], sys.argv[2]
    scrut = sys.argv[3] if len(sys.argv)>3 else 'insn.opc'
    src=open(path).read()
    m=extract_match(src, fn, scrut)
    toks=tokenize(m)
    arms=split_arms(toks)
    ok=0; bad=[]
    kinds=collections.Counter()
    for attrs, head, body in arms:
        try:
            p=P(body+[('op',';')]); 
            e=p.expr()
            if p.peek()[0]=='op' and p.peek()[1] in ASSIGN: op=p.eat()[1]; e=('assign',op,e,p.expr())
            if not p.isop(';'): raise SyntaxError("trailing %s" % (p.peek(),))
            ok+=1; kinds[e[0]]+=1
        except Exception as ex:
            bad.append((' '.join(t[1] for t in head), str(ex)))
    print("%s::%s: %d arms, %d parsed, %d failed" % (path.split('/')[-1], fn, len(arms), ok, len(bad)))
    print("  body kinds:", dict(kinds))
    for h,e in bad[:10]: print("  FAIL", h, "->", e)
