From Coq Require Import ZArith List Extraction ExtrOcamlBasic.
Open Scope Z_scope.
Fixpoint iter (n : nat) (x : Z) : Z :=
  match n with O => x | S k => iter k ((Z.lxor (x * 6364136223846793005 + 1442695040888963407) (Z.shiftr x 13)) mod 18446744073709551616) end.
Definition run (k : Z) := iter (Z.to_nat k) 42.
Set Extraction Output Directory "ex".
Extraction "model.ml" run.
