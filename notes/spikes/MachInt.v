From Coq Require Import ZArith Lia Bool Morphisms Setoid.
Open Scope Z_scope.
Ltac Zify.zify_post_hook ::= Z.div_mod_to_equations.

Inductive ity := U8 | U16 | U32 | U64 | I8 | I16 | I32 | I64.
Definition bits (t : ity) : Z := match t with U8|I8 => 8 | U16|I16 => 16 | U32|I32 => 32 | U64|I64 => 64 end.
Definition signed (t : ity) : bool := match t with I8|I16|I32|I64 => true | _ => false end.
Definition umod (w x : Z) := x mod 2^w.
Definition smod (w x : Z) := let y := x mod 2^w in if y <? 2^(w-1) then y else y - 2^w.
Definition norm (t : ity) (x : Z) := if signed t then smod (bits t) x else umod (bits t) x.
Definition cast (to : ity) (x : Z) := norm to x.
Definition wrapping_add t a b := norm t (a + b).
Definition wrapping_sub t a b := norm t (a - b).
Definition wrapping_mul t a b := norm t (a * b).
Definition wrapping_neg t a := norm t (- a).
Definition wrapping_shl t a n := norm t (Z.shiftl a (n mod bits t)).
Definition wrapping_shr t a n := norm t (Z.shiftr a (n mod bits t)).

Definition cong (w a b : Z) := a mod 2^w = b mod 2^w.
Lemma pow2_nz w : 0 <= w -> 2^w <> 0. Proof. intros; apply Z.pow_nonzero; lia. Qed.
Section Cong.
  Variable w : Z. Hypothesis Hw : 0 <= w.
  Global Instance cong_equiv : Equivalence (cong w).
  Proof. split; unfold cong; [now intros ?|now intros ? ? ?|intros ? ? ? H1 H2; now rewrite H1]. Qed.
  Lemma cong_add a a' b b' : cong w a a' -> cong w b b' -> cong w (a + b) (a' + b').
  Proof. unfold cong; intros Ha Hb. rewrite Z.add_mod, Ha, Hb, <- Z.add_mod; auto using pow2_nz. Qed.
  Lemma cong_sub a a' b b' : cong w a a' -> cong w b b' -> cong w (a - b) (a' - b').
  Proof. unfold cong; intros Ha Hb. rewrite Zminus_mod, Ha, Hb, <- Zminus_mod; auto. Qed.
  Lemma cong_mul a a' b b' : cong w a a' -> cong w b b' -> cong w (a * b) (a' * b').
  Proof. unfold cong; intros Ha Hb. rewrite Z.mul_mod, Ha, Hb, <- Z.mul_mod; auto using pow2_nz. Qed.
  Lemma cong_opp a a' : cong w a a' -> cong w (- a) (- a').
  Proof. intros H. change (-a) with (0 - a). replace (- a') with (0 - a') by lia. replace (-a) with (0 - a) by lia. apply cong_sub; [reflexivity|exact H]. Qed.
  Lemma cong_umod x : cong w (umod w x) x.
  Proof. unfold cong, umod. apply Z.mod_mod, pow2_nz, Hw. Qed.
  Lemma cong_smod x : cong w (smod w x) x.
  Proof. unfold cong, smod. cbv zeta. destruct (_ <? _).
    - apply Z.mod_mod, pow2_nz, Hw.
    - rewrite Zminus_mod, Z_mod_same_full, Z.sub_0_r, !Z.mod_mod; auto using pow2_nz. Qed.
End Cong.
(* narrower congruence follows from wider *)
Lemma cong_narrow v w a b : 0 <= v <= w -> cong w a b -> cong v a b.
Proof.
  unfold cong; intros Hvw H.
  assert (E: 2^w = 2^v * 2^(w-v)) by (rewrite <- Z.pow_add_r by lia; f_equal; lia).
  assert (Hv: 0 < 2^v) by (apply Z.pow_pos_nonneg; lia).
  assert (Hq: 0 < 2^(w-v)) by (apply Z.pow_pos_nonneg; lia).
  assert (Da: a mod 2^v = (a mod 2^w) mod 2^v) by (apply Znumtheory.Zmod_div_mod; try lia; exists (2^(w-v)); lia).
  assert (Db: b mod 2^v = (b mod 2^w) mod 2^v) by (apply Znumtheory.Zmod_div_mod; try lia; exists (2^(w-v)); lia).
  rewrite Da, Db, H. reflexivity.
Qed.
Lemma cong_norm t x : cong (bits t) (norm t x) x.
Proof. unfold norm. destruct t; cbn [signed bits]; first [apply cong_umod | apply cong_smod]; lia. Qed.
Lemma umod_eq_of_cong w a b : cong w a b -> umod w a = umod w b.
Proof. exact (fun H => H). Qed.
Lemma umod_small w x : 0 <= x < 2^w -> umod w x = x.
Proof. intros; unfold umod; now apply Z.mod_small. Qed.
Lemma umod_range w x : 0 <= w -> 0 <= umod w x < 2^w.
Proof. intros; unfold umod; apply Z.mod_pos_bound, Z.pow_pos_nonneg; lia. Qed.
