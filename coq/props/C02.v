(** C02 -- the interpreter confines every load and store to the program's own memory.
    Proofs: theories/MemLemmas.v (semantics of the regenerated check_mem, store frame lemma),
    theories/InterpArmsMem.v (every access arm performs that check on the bytes it touches). *)
From Coq Require Import ZArith List Bool.
From RbpfV Require Import MachInt Ebpf Cases Mem InterpDefs WellFormed Verifier Isa ArmBase MemLemmas Interp
  InterpArmsMem InterpProofs.
From RbpfV.gen Require Import Interp.
Import ListNotations.
Open Scope Z_scope.

(** the regenerated bounds check passes iff all bytes lie in the metadata buffer, the packet, the
    stack or one registered range, without wrap-around -- for every address, width and layout *)
Theorem C02_check_mem_iff : forall E a n kind, env_ok E -> 0 <= a < 2 ^ 64 -> 0 < n <= 8 ->
  chk_mem E a n kind = if access_ok E a n then Ok tt else Err kind.
Proof. exact chk_mem_sem. Qed.

(** in particular it never panics: null, 2^64 - k, wrapped and empty-region addresses give Ok/Err *)
Corollary C02_check_never_panics : forall E a n kind, env_ok E -> 0 <= a < 2 ^ 64 -> 0 < n <= 8 ->
  chk_mem E a n kind = Ok tt \/ chk_mem E a n kind = Err kind.
Proof. intros. rewrite chk_mem_sem by assumption. destruct (access_ok E a n); auto. Qed.

(** every access arm (ldx/st/stx/xadd/ldabs/ldind, all widths) checks exactly the bytes it then
    reads or writes: it equals the ISA arm, which is defined by [access_ok] at the access width;
    so an access wholly inside a region is never refused and any other one is an error *)
Theorem C02_access_arms : forall E i reg next fidx stacks m o,
  wf_insn i -> regs_ok reg -> env_ok E -> mem_ok m ->
  In o [0x61; 0x69; 0x71; 0x79; 0x62; 0x6a; 0x72; 0x7a; 0x63; 0x6b; 0x73; 0x7b; 0xc3; 0xdb;
        0x20; 0x28; 0x30; 0x38; 0x40; 0x48; 0x50; 0x58] -> opc i = o ->
  gen_interp_arm o E i (cast USZ (dst i)) (cast USZ (src i)) reg next fidx stacks m
  = conv (isa_exec E i reg next fidx stacks m).
Proof.
  intros E i reg next fidx stacks m o Hw Hr He Hm Hin Ho.
  assert (C : In o [0x61; 0x69; 0x71; 0x79] \/ In o [0x62; 0x6a; 0x72; 0x7a; 0x63; 0x6b; 0x73; 0x7b]
              \/ In o [0xc3; 0xdb] \/ In o [0x20; 0x28; 0x30; 0x38] \/ In o [0x40; 0x48; 0x50; 0x58])
    by (cbn in Hin |- *; tauto).
  destruct C as [C|[C|[C|[C|C]]]];
    [apply ldx_arms|apply st_arms|apply xadd_arms|apply ldabs_arms|apply ldind_arms]; assumption.
Qed.

(** a store changes nothing but the addressed bytes of the region that contains them *)
Theorem C02_store_frame : forall m a b k r r',
  nth_error m k = Some r -> nth_error (mwrite m a b) k = Some r' ->
  r_base r' = r_base r /\ length (r_data r') = length (r_data r) /\
  forall j, (Z.of_nat j < a - r_base r \/ a - r_base r + len b <= Z.of_nat j) -> nth j (r_data r') 0 = nth j (r_data r) 0.
Proof. exact mwrite_frame. Qed.

(** a refused access ends the run with the memory exactly as it was before that instruction *)
Theorem C02_refused_unchanged : forall fuel E s e,
  gen_interp_loop_cond E s = Ok true -> gen_interp_loop_body E s = Err e ->
  run_steps (S fuel) E s = OErr e (snd s).
Proof. intros fuel E s e Hc Hb. cbn [run_steps]. now rewrite Hc, Hb. Qed.

Print Assumptions C02_check_mem_iff.
Print Assumptions C02_access_arms.
Print Assumptions C02_store_frame.
Print Assumptions C02_refused_unchanged.
