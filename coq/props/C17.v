(** C17 -- instruction encoding and decoding are inverse, and all encoders agree.
    Statements only; proofs live in theories/CodecProofs.v over the model regenerated from
    src/ebpf.rs and src/insn_builder.rs (coq/gen/Codec.v, coq/gen/Builder.v). *)
From Coq Require Import ZArith List.
From RbpfV Require Import MachInt Ebpf CodecProofs.
From RbpfV.gen Require Import Codec Builder.
Import ListNotations.
Open Scope Z_scope.

(** the array encoder produces the specified layout, for every value of every field *)
Theorem C17_array_layout : forall i, wf_insn i -> gen_to_array i = Ok (spec_encode i).
Proof. exact to_array_spec. Qed.

(** the vector encoder and the instruction builder's serializer produce the same bytes *)
Theorem C17_vec_layout : forall i, wf_insn i -> gen_to_vec i = Ok (spec_encode i).
Proof. exact to_vec_spec. Qed.
Theorem C17_builder_layout : forall i, wf_insn i -> gen_builder_into_bytes i = Ok (spec_encode i).
Proof. exact builder_spec. Qed.

(** decoding at instruction index k of any program reads the specified slot, and panics
    (never reads out of bounds) when the slot is not entirely inside the program *)
Theorem C17_decode_layout : forall prog idx,
  bytes_ok prog -> 0 <= idx -> 8 * (idx + 1) <= len prog -> len prog < 2 ^ 63 ->
  gen_get_insn prog idx = Ok (spec_decode_slot (slot prog idx)).
Proof. exact get_insn_spec. Qed.
Theorem C17_decode_out_of_range_panics : forall prog idx,
  0 <= idx < 2 ^ 64 -> 8 * (idx + 1) > len prog -> len prog < 2 ^ 63 ->
  exists s, gen_get_insn prog idx = Panic s.
Proof. exact get_insn_panics. Qed.

(** the layout is a bijection: decode . encode = id on well-formed instructions ... *)
Theorem C17_decode_encode : forall i, wf_insn i -> spec_decode_slot (spec_encode i) = i.
Proof. exact decode_encode. Qed.
(** ... and encode . decode = id on every 8-byte slot, whose decoding is well-formed *)
Theorem C17_encode_decode : forall b, length b = 8%nat -> bytes_ok b ->
  spec_encode (spec_decode_slot b) = b.
Proof. exact encode_decode. Qed.
Theorem C17_decode_wf : forall b, length b = 8%nat -> bytes_ok b -> wf_insn (spec_decode_slot b).
Proof. exact decode_wf. Qed.

(** composition on the generated code, at every instruction index of a program *)
Theorem C17_roundtrip_at_index : forall pre i post k,
  wf_insn i -> bytes_ok pre -> bytes_ok post -> 0 <= k -> length pre = Z.to_nat (8 * k) ->
  len (pre ++ spec_encode i ++ post) < 2 ^ 63 ->
  gen_get_insn (pre ++ spec_encode i ++ post) k = Ok i.
Proof. exact get_insn_at_index. Qed.

(** non-vacuity: a non-trivial instruction meets the hypotheses and round-trips *)
Example C17_example :
  let i := {| opc := 0xb7; dst := 2; src := 1; off := -2; imm := -2023406815 |} in
  wf_insnb i = true /\ gen_to_array i = Ok [0xb7; 0x12; 0xfe; 0xff; 0x21; 0x43; 0x65; 0x87]
  /\ gen_get_insn ([1;2;3;4;5;6;7;8] ++ [0xb7; 0x12; 0xfe; 0xff; 0x21; 0x43; 0x65; 0x87]) 1 = Ok i.
Proof. vm_compute. repeat split. Qed.

Print Assumptions C17_array_layout.
Print Assumptions C17_vec_layout.
Print Assumptions C17_builder_layout.
Print Assumptions C17_decode_layout.
Print Assumptions C17_decode_out_of_range_panics.
Print Assumptions C17_decode_encode.
Print Assumptions C17_encode_decode.
Print Assumptions C17_decode_wf.
Print Assumptions C17_roundtrip_at_index.
