(** C08 -- helper calls follow the documented contract (interpreter part: statements about the ISA
    step, which the regenerated interpreter equals on every reachable state, C01_step_refines).
    Proofs: theories/InterpCalls.v. *)
From Coq Require Import ZArith List Bool.
From RbpfV Require Import MachInt Ebpf Cases Mem InterpDefs WellFormed Verifier Isa MemLemmas Interp InterpProofs InterpCalls.
Import ListNotations.
Open Scope Z_scope.

(** exactly the function registered under the id, applied once to (r1..r5); its value goes to r0;
    pc advances; frames and memory are as before *)
Theorem C08_helper_call : forall E reg pc fidx stacks m st' f,
  opc (insn_at (e_prog E) pc) = op_call -> src (insn_at (e_prog E) pc) = 0 ->
  refresh_usage E stacks fidx pc = Ok st' ->
  e_helpers E (u32 (imm (insn_at (e_prog E) pc))) = Some f ->
  isa_step E (reg, pc, fidx, stacks, m) =
  Ok (SNext (upd reg 0 (f (rd reg 1) (rd reg 2) (rd reg 3) (rd reg 4) (rd reg 5)), pc + 1, fidx, st', m)).
Proof. exact helper_call_step. Qed.

(** r1-r10 (so in particular r6-r10) keep their values *)
Theorem C08_other_registers : forall reg v k, 1 <= k <= 10 -> rd (upd reg 0 v) k = rd reg k.
Proof. exact helper_call_keeps. Qed.

(** an id that is not registered is an error when reached, and nothing else happens *)
Theorem C08_unknown_helper : forall E reg pc fidx stacks m st',
  opc (insn_at (e_prog E) pc) = op_call -> src (insn_at (e_prog E) pc) = 0 ->
  refresh_usage E stacks fidx pc = Ok st' ->
  e_helpers E (u32 (imm (insn_at (e_prog E) pc))) = None ->
  isa_step E (reg, pc, fidx, stacks, m) = Err EUnknownHelper.
Proof. exact unknown_helper_step. Qed.

Print Assumptions C08_helper_call.
Print Assumptions C08_other_registers.
Print Assumptions C08_unknown_helper.
