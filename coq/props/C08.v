(** C08 -- helper calls follow the documented contract.  Interpreter: statements about the ISA step, which the regenerated
    interpreter equals on every reachable state (C01_step_refines); proofs in theories/InterpCalls.v.  x86-64 JIT: the
    instructions emitted around `emit_call` (regenerated into coq/gen/JitMisc.v) put eBPF r1..r5 in the System V argument
    registers, push an even number of words, take the result from rax and give back r6..r10 and the JIT's own r10 -- for any
    helper that honours the ABI (theories/JitMiscProofs.v).  Cranelift: the call instruction built by translate_program is
    keyed by the unsigned immediate, reads r1..r5 in order and defines r0 (theories/ClMiscProofs.v).  What the machine code
    does at run time (alignment established by the prologue included) is exercised by checks/C08.py. *)
From Coq Require Import ZArith List Bool.
From RbpfV Require Import MachInt Ebpf Cases Mem InterpDefs WellFormed Verifier Isa MemLemmas Interp InterpProofs InterpCalls.
From RbpfV Require Import X86Sem X86Seq ClMiscProofs JitMiscProofs ClStep JitStep.
From RbpfV.gen Require Import JitLogic JitMisc ClMisc.
Import ListNotations.
Open Scope Z_scope.

(** exactly the function registered under the id, applied once to (r1..r5); its value goes to r0;
    pc advances; frames and memory are as before *)
Theorem C08_helper_call : forall E reg pc fidx stacks m st' f,
  opc (insn_at (e_prog E) pc) = op_call -> src (insn_at (e_prog E) pc) = 0 ->
  refresh_usage E stacks fidx pc = Ok st' ->
  e_helpers E (u32 (imm (insn_at (e_prog E) pc))) = Some f ->
  isa_step E (reg, pc, fidx, stacks, m) =
  Ok (SNext (upd reg 0 (f (rd reg 1) (rd reg 2) (rd reg 3) (rd reg 4) (rd reg 5)), pc + 1, fidx, st', m)).
Proof. exact helper_call_step. Qed.

(** r1-r10 (so in particular r6-r10) keep their values *)
Theorem C08_other_registers : forall reg v k, 1 <= k <= 10 -> rd (upd reg 0 v) k = rd reg k.
Proof. exact helper_call_keeps. Qed.

(** an id that is not registered is an error when reached, and nothing else happens *)
Theorem C08_unknown_helper : forall E reg pc fidx stacks m st',
  opc (insn_at (e_prog E) pc) = op_call -> src (insn_at (e_prog E) pc) = 0 ->
  refresh_usage E stacks fidx pc = Ok st' ->
  e_helpers E (u32 (imm (insn_at (e_prog E) pc))) = None ->
  isa_step E (reg, pc, fidx, stacks, m) = Err EUnknownHelper.
Proof. exact unknown_helper_step. Qed.

(** x86-64 JIT: see the header; [ereg k] is the x86 register of eBPF register k, [sysv_args] = rdi, rsi, rdx, rcx, r8 and
    [sysv_callee_saved] = rbx, rbp, r12-r15 *)
Theorem C08_jit_call_contract : forall R stk, (forall r, 0 <= R r < 2 ^ 64) ->
  exists R1 fl1,
    run_seq gen_jit_call_pre R stk = Some (XFall {| x_r := R1; x_stk := R 10 :: R 10 :: stk; x_fl := fl1 |})
    /\ map R1 sysv_args = map (fun k => R (ereg k)) [1; 2; 3; 4; 5]%nat
    /\ (forall r, r <> 1 -> R1 r = R r)
    /\ forall R2 fl2, (forall r, In r sysv_callee_saved -> R2 r = R1 r) ->
       exists R3 fl3,
         srun 3 gen_jit_call_post {| x_r := R2; x_stk := R 10 :: R 10 :: stk; x_fl := fl2 |}
           = Some (XFall {| x_r := R3; x_stk := stk; x_fl := fl3 |})
         /\ R3 (ereg 0) = R2 0
         /\ R3 10 = R 10
         /\ forall k, In k [6; 7; 8; 9; 10]%nat -> R3 (ereg k) = R (ereg k).
Proof. exact jit_helper_call_contract. Qed.

(** the same as one step of the compiled program (JitStep.jit_exec): in the register-map relation [jrel], the emitted call
    site, around any helper that returns in rax, keeps the callee-saved registers and leaves [g r] elsewhere, applies exactly
    the function registered under the unsigned immediate to (r1, r2, r3, r4, r5), stores its value in r0, leaves r6-r10 (and
    the JIT's R10) unchanged, memory untouched, and continues at the next instruction; r1-r5 then hold the helper's garbage *)
Theorem C08_jit_call_step : forall g E i reg R next m f,
  ArmBase.regs_ok reg -> jrel reg R -> env_ok E -> wf_insn i ->
  opc i = op_call -> src i = 0 -> e_helpers E (u32 (imm i)) = Some f ->
  exists R', jit_exec g E i next R m = Ok (JNext R' next m) /\
    jrel (clobber g (set_reg reg 0 (f (rd reg 1) (rd reg 2) (rd reg 3) (rd reg 4) (rd reg 5)))) R' /\ R' 10 = R 10.
Proof. exact jit_call_sim. Qed.

(** Cranelift, as one step of the compiled program (ClStep.cl_exec): a helper call whose helper is registered is exactly
    the ISA step (r0 := f(r1..r5), nothing else changes); an unregistered id or a local call is refused *)
Theorem C08_cranelift_call_step : forall E i reg next fidx stacks m f, wf_insn i -> opc i = op_call -> src i = 0 ->
  e_helpers E (u32 (imm i)) = Some f ->
  cl_exec E i reg next fidx stacks m = isa_exec E i reg next fidx stacks m.
Proof. exact cl_call_step. Qed.

(** both compilers look the helper up under the unsigned immediate and refuse an unregistered id at compile time *)
Theorem C08_compiled_call_key : forall i, - 2 ^ 31 <= imm i < 2 ^ 31 ->
  gen_jit_call_key i = u32 (imm i) /\ gen_jit_call_unknown_is_error = true /\
  gen_cl_call_key i = u32 (imm i) /\ gen_cl_call_args = [1; 2; 3; 4; 5] /\ gen_cl_call_result = 0.
Proof. exact compiled_call_key. Qed.

Print Assumptions C08_helper_call.
Print Assumptions C08_jit_call_contract.
Print Assumptions C08_compiled_call_key.
Print Assumptions C08_other_registers.
Print Assumptions C08_unknown_helper.
Print Assumptions C08_jit_call_step.
Print Assumptions C08_cranelift_call_step.
