(** C09 -- each VM kind presents the documented execution context.  Interpreter: the register initialisation regenerated from
    interpreter.rs (theories/InterpProofs.v).  Cranelift: the registers defined by build_function_prelude, regenerated into
    coq/gen/Clir.v (theories/ClirProofs.v).  x86-64 JIT: the prologue emitted by jit_compile for each VM kind, regenerated into
    coq/gen/JitFrame.v, under the stack machine X86Stk.v (theories/JitFrameProofs.v).  lib.rs: the arguments each VM kind's execute_program / _jit / _cranelift hands to its
    engine and the stores into the fixed metadata buffer, regenerated into coq/gen/LibWrap.v (theories/LibWrapProofs.v).
    checks/C09.py probes all of it on every VM kind and engine. *)
From Coq Require Import ZArith List Bool.
From RbpfV Require Import MachInt Ebpf Cases Mem InterpDefs WellFormed Verifier Isa MemLemmas Interp InterpProofs.
From RbpfV Require Import ClirSem ClirProofs X86Sem X86Seq X86Stk JitFrameProofs LibWrapProofs.
From RbpfV Require Import JitStep JitRun JitEntry.
From RbpfV.gen Require Import Interp Clir JitFrame LibWrap.
Import ListNotations.
Open Scope Z_scope.

(** entry registers: r1 = metadata buffer if non-empty, else packet if non-empty, else 0;
    r10 = top of the 512-byte stack; everything else 0 *)
Theorem C09_entry_registers : forall E, env_ok E -> gen_init_regs E = Ok (isa_init_regs E).
Proof. exact init_regs_spec. Qed.

Theorem C09_entry_values : forall E,
  rd (isa_init_regs E) 10 = e_stack_base E + e_stack_len E /\
  rd (isa_init_regs E) 1 = (if negb (e_mbuff_len E =? 0) then e_mbuff_base E
                            else if negb (e_mem_len E =? 0) then e_mem_base E else 0) /\
  (forall k, In k [0; 2; 3; 4; 5; 6; 7; 8; 9] -> rd (isa_init_regs E) k = 0).
Proof.
  intros E. split; [reflexivity|]. split; [reflexivity|].
  intros k Hk. cbn in Hk. repeat (destruct Hk as [<-|Hk]; [reflexivity|]). destruct Hk.
Qed.

(** absolute and indirect packet loads address the packet data *)
Theorem C09_ldabs_addresses_packet : forall E i reg next fidx stacks m o,
  wf_insn i -> ArmBase.regs_ok reg -> env_ok E -> mem_ok m -> In o [0x20; 0x28; 0x30; 0x38] -> opc i = o ->
  gen_interp_arm o E i (cast USZ (dst i)) (cast USZ (src i)) reg next fidx stacks m
  = ArmBase.conv (isa_exec E i reg next fidx stacks m).
Proof. intros. now apply InterpArmsMem.ldabs_arms. Qed.

(** Cranelift: with the parameters p0..p3 = (packet pointer, packet length, metadata pointer, metadata length) and the 512-byte
    stack slot at ss, the prelude defines r1 = metadata pointer if the metadata buffer is non-empty, else the packet pointer;
    r10 = end of the stack slot = upper bound of the stack region of the bounds check; and otherwise only r2 *)
Theorem C09_cranelift_entry : forall p0 p1 p2 p3 ss sz,
  0 <= p0 < 2 ^ 64 -> 0 <= p2 < 2 ^ 64 -> 0 <= p3 < 2 ^ 64 -> 0 <= ss -> 0 <= sz -> ss + sz < 2 ^ 64 ->
  let regs := gen_prelude_regs p0 p1 p2 p3 ss sz in
  reg_lookup 1 regs = Some (if p3 =? 0 then p0 else p2) /\
  reg_lookup 10 regs = Some (ss + sz) /\
  reg_lookup 10 regs = Some (v_stack_end (gen_prelude_vars p0 p1 p2 p3 ss sz)) /\
  map fst regs = [1; 2; 10].
Proof. exact prelude_regs. Qed.

(** x86-64 JIT.  The compiled function is entered (System V) with rdi = metadata pointer, rdx = packet pointer, rcx = packet
    length, r8 / r9 = the two offsets of the fixed metadata buffer, rsp = R0 4.  Each prologue ends with `call +5; jmp exit`
    (the call skips exactly the 5-byte jmp); before that, it leaves: rdi (eBPF r1) = the packet pointer without metadata
    buffer, the metadata pointer with one; r10 (base of absolute / indirect loads) = the packet pointer; rbp (eBPF r10) = rsp
    after saving rbp, rbx, r13, r14, r15, and rsp 512 + 8 bytes lower -- so [r10 - 512, r10) is private to the program; for
    the fixed kind the words at metadata + r8 and metadata + r9 hold the packet start and end *)
Theorem C09_jit_prologue_no_metadata : forall R0 m0, (forall r, 0 <= R0 r < 2 ^ 64) -> 1024 <= R0 4 ->
  ends_with_landing gen_jit_prologue_nombuff /\
  exists R, krun (body_of gen_jit_prologue_nombuff) (R0, m0) = Some (R, m5 R0 m0) /\
    R 7 = R0 2 /\ R 10 = R0 2 /\ framed R0 R /\ saved R0 (m5 R0 m0) /\ forall r, ~ In r [4; 5; 7; 10] -> R r = R0 r.
Proof. exact jit_prologue_nombuff. Qed.

Theorem C09_jit_prologue_metadata : forall R0 m0, (forall r, 0 <= R0 r < 2 ^ 64) -> 1024 <= R0 4 ->
  ends_with_landing gen_jit_prologue_mbuff /\
  exists R, krun (body_of gen_jit_prologue_mbuff) (R0, m0) = Some (R, m5 R0 m0) /\
    R 7 = R0 7 /\ R 10 = R0 2 /\ framed R0 R /\ saved R0 (m5 R0 m0) /\ forall r, ~ In r [4; 5; 10] -> R r = R0 r.
Proof. exact jit_prologue_mbuff. Qed.

Theorem C09_jit_prologue_fixed_metadata : forall R0 m0, (forall r, 0 <= R0 r < 2 ^ 64) -> 1024 <= R0 4 ->
  apart (A1 R0) (A2 R0) -> apart (A2 R0) (A1 R0) -> (forall a, In a (slots R0) -> apart (A1 R0) a /\ apart (A2 R0) a) ->
  ends_with_landing gen_jit_prologue_fixed /\
  exists R, krun (body_of gen_jit_prologue_fixed) (R0, m0) = Some (R, mfix R0 m0) /\
    R 7 = R0 7 /\ R 10 = R0 2 /\ framed R0 R /\
    load8 (mfix R0 m0) (A1 R0) = R0 2 /\ load8 (mfix R0 m0) (A2 R0) = mem_end R0 /\ saved R0 (mfix R0 m0) /\
    (forall r, ~ In r [4; 5; 8; 9; 10] -> R r = R0 r) /\
    (forall x, 8 <= (x - A1 R0) mod 2 ^ 64 -> 8 <= (x - A2 R0) mod 2 ^ 64 -> mfix R0 m0 x = m5 R0 m0 x).
Proof. exact jit_prologue_fixed. Qed.

(** lib.rs, end to end.  [interp_r1], [jit_r1 flags], [cl_r1] give r1 at entry as a function of the arguments an engine
    receives -- by C09_entry_values, C09_jit_entry_r1 and C09_cranelift_entry_r1 below; the wrappers regenerated from lib.rs
    make that the metadata buffer for the two metadata VMs, the packet (0 if empty) for the raw VM and 0 for the no-data VM *)
Theorem C09_jit_entry_r1 : forall flags R0 m0, (forall r, 0 <= R0 r < 2 ^ 64) -> 1024 <= R0 4 ->
  (fst flags = false -> snd flags = false) ->
  (flags = (true, true) -> apart (A1 R0) (A2 R0) /\ apart (A2 R0) (A1 R0) /\ forall a, In a (slots R0) -> apart (A1 R0) a /\ apart (A2 R0) a) ->
  exists R m, krun (body_of (prologue_of flags)) (R0, m0) = Some (R, m) /\
              R 7 = jit_r1 flags [R0 7; R0 6; R0 2; R0 1; R0 8; R0 9] /\ R 10 = R0 2.
Proof. exact jit_r1_is_prologue. Qed.

Theorem C09_cranelift_entry_r1 : forall p0 p1 p2 p3 ss sz,
  0 <= p0 < 2 ^ 64 -> 0 <= p2 < 2 ^ 64 -> 0 <= p3 < 2 ^ 64 -> 0 <= ss -> 0 <= sz -> ss + sz < 2 ^ 64 ->
  reg_lookup 1 (gen_prelude_regs p0 p1 p2 p3 ss sz) = Some (cl_r1 [p0; p1; p2; p3]).
Proof. exact cl_r1_is_prelude. Qed.

Theorem C09_r1_every_kind_every_engine : forall mem_ptr mem_len mb_ptr mb_len buf_ptr buf_len d e dangling,
  (mb_len <> 0 ->
     interp_r1 (w_args (gen_wrap_mbuff_interp mem_ptr mem_len mb_ptr mb_len buf_ptr buf_len d e dangling)) = mb_ptr /\
     jit_r1 gen_jit_flags_mbuff (w_args (gen_wrap_mbuff_jit mem_ptr mem_len mb_ptr mb_len buf_ptr buf_len d e dangling)) = mb_ptr /\
     cl_r1 (w_args (gen_wrap_mbuff_cl mem_ptr mem_len mb_ptr mb_len buf_ptr buf_len d e dangling)) = mb_ptr) /\
  (buf_len <> 0 ->
     interp_r1 (w_args (gen_wrap_fixed_interp mem_ptr mem_len mb_ptr mb_len buf_ptr buf_len d e dangling)) = buf_ptr /\
     jit_r1 gen_jit_flags_fixed (w_args (gen_wrap_fixed_jit mem_ptr mem_len mb_ptr mb_len buf_ptr buf_len d e dangling)) = buf_ptr /\
     cl_r1 (w_args (gen_wrap_fixed_cl mem_ptr mem_len mb_ptr mb_len buf_ptr buf_len d e dangling)) = buf_ptr) /\
  (interp_r1 (w_args (gen_wrap_raw_interp mem_ptr mem_len mb_ptr mb_len buf_ptr buf_len d e dangling)) = (if mem_len =? 0 then 0 else mem_ptr) /\
   jit_r1 gen_jit_flags_raw (w_args (gen_wrap_raw_jit mem_ptr mem_len mb_ptr mb_len buf_ptr buf_len d e dangling)) = (if mem_len =? 0 then 0 else mem_ptr) /\
   cl_r1 (w_args (gen_wrap_raw_cl mem_ptr mem_len mb_ptr mb_len buf_ptr buf_len d e dangling)) = (if mem_len =? 0 then 0 else mem_ptr)) /\
  (interp_r1 (w_args (gen_wrap_nodata_interp mem_ptr mem_len mb_ptr mb_len buf_ptr buf_len d e dangling)) = 0 /\
   jit_r1 gen_jit_flags_nodata (w_args (gen_wrap_nodata_jit mem_ptr mem_len mb_ptr mb_len buf_ptr buf_len d e dangling)) = 0 /\
   cl_r1 (w_args (gen_wrap_nodata_cl mem_ptr mem_len mb_ptr mb_len buf_ptr buf_len d e dangling)) = 0).
Proof. exact wrappers_r1. Qed.

(** the fixed-metadata VM: on every execution (the stores are unconditional) the interpreter and Cranelift wrappers put the
    packet address at offset d and the address one past the packet at offset e of the internal buffer, or fail; the JIT
    wrapper passes buffer, packet and offsets to the prologue, which makes the same two stores (C09_fixed_jit_words); no
    other wrapper writes anything *)
Theorem C09_fixed_metadata_words : forall mem_ptr mem_len mb_ptr mb_len buf_ptr buf_len d e dangling,
  w_writes (gen_wrap_fixed_interp mem_ptr mem_len mb_ptr mb_len buf_ptr buf_len d e dangling) = [(true, d, mem_ptr); (true, e, (mem_ptr + mem_len) mod 2 ^ 64)] /\
  w_writes (gen_wrap_fixed_cl mem_ptr mem_len mb_ptr mb_len buf_ptr buf_len d e dangling) = [(true, d, mem_ptr); (true, e, (mem_ptr + mem_len) mod 2 ^ 64)] /\
  w_fail (gen_wrap_fixed_interp mem_ptr mem_len mb_ptr mb_len buf_ptr buf_len d e dangling) = ((buf_len <? (d + 8) mod 2 ^ 64) || (buf_len <? (e + 8) mod 2 ^ 64)) /\
  w_fail (gen_wrap_fixed_cl mem_ptr mem_len mb_ptr mb_len buf_ptr buf_len d e dangling) = w_fail (gen_wrap_fixed_interp mem_ptr mem_len mb_ptr mb_len buf_ptr buf_len d e dangling) /\
  w_args (gen_wrap_fixed_jit mem_ptr mem_len mb_ptr mb_len buf_ptr buf_len d e dangling) = [buf_ptr; buf_len; (if mem_len =? 0 then 0 else mem_ptr); mem_len; d; e] /\
  w_fail (gen_wrap_fixed_jit mem_ptr mem_len mb_ptr mb_len buf_ptr buf_len d e dangling) = false /\
  Forall (fun w : wrap => w_writes w = [] /\ w_fail w = false)
    [gen_wrap_mbuff_interp mem_ptr mem_len mb_ptr mb_len buf_ptr buf_len d e dangling; gen_wrap_mbuff_jit mem_ptr mem_len mb_ptr mb_len buf_ptr buf_len d e dangling;
     gen_wrap_mbuff_cl mem_ptr mem_len mb_ptr mb_len buf_ptr buf_len d e dangling; gen_wrap_raw_interp mem_ptr mem_len mb_ptr mb_len buf_ptr buf_len d e dangling;
     gen_wrap_raw_jit mem_ptr mem_len mb_ptr mb_len buf_ptr buf_len d e dangling; gen_wrap_raw_cl mem_ptr mem_len mb_ptr mb_len buf_ptr buf_len d e dangling;
     gen_wrap_nodata_interp mem_ptr mem_len mb_ptr mb_len buf_ptr buf_len d e dangling; gen_wrap_nodata_jit mem_ptr mem_len mb_ptr mb_len buf_ptr buf_len d e dangling;
     gen_wrap_nodata_cl mem_ptr mem_len mb_ptr mb_len buf_ptr buf_len d e dangling; gen_wrap_fixed_jit mem_ptr mem_len mb_ptr mb_len buf_ptr buf_len d e dangling].
Proof. exact wrappers_fixed_words. Qed.

Theorem C09_fixed_jit_words : forall R0 m0 mem_ptr mem_len buf_ptr buf_len d e,
  (forall r, 0 <= R0 r < 2 ^ 64) -> 1024 <= R0 4 ->
  [R0 7; R0 6; R0 2; R0 1; R0 8; R0 9] = [buf_ptr; buf_len; mem_ptr; mem_len; d; e] ->
  apart (A1 R0) (A2 R0) -> apart (A2 R0) (A1 R0) -> (forall a, In a (slots R0) -> apart (A1 R0) a /\ apart (A2 R0) a) ->
  exists R, krun (body_of gen_jit_prologue_fixed) (R0, m0) = Some (R, mfix R0 m0) /\
    load8 (mfix R0 m0) ((d + buf_ptr) mod 2 ^ 64) = mem_ptr /\
    load8 (mfix R0 m0) ((e + buf_ptr) mod 2 ^ 64) = (mem_ptr + mem_len) mod 2 ^ 64 /\ R 7 = buf_ptr.
Proof. exact fixed_jit_words. Qed.

(** the state the prologue leaves is an entry state of the run theorems C03_run_refines / C03_jit_agrees_with_interpreter: with
    the packet where rdx points and the stack the 512 bytes below rbp, every register is a 64-bit value, R10 is the packet
    address, rdi (eBPF r1) holds what the interpreter puts in r1 and rbp (eBPF r10) the top of the stack *)
Theorem C09_jit_entry_no_metadata : forall R0 m0 E, (forall r, 0 <= R0 r < 2 ^ 64) -> 1024 <= R0 4 ->
  e_mem_base E = R0 2 -> e_stack_base E + e_stack_len E = R0 4 - 40 -> e_mbuff_len E = 0 -> e_mem_len E <> 0 ->
  exists R, krun (body_of gen_jit_prologue_nombuff) (R0, m0) = Some (R, m5 R0 m0) /\
    (forall x, 0 <= R x < 2 ^ 64) /\ R 10 = e_mem_base E /\ R (ez 1) = rd (isa_init_regs E) 1 /\
    R (ez 10) = e_stack_base E + e_stack_len E.
Proof. exact jit_entry_no_metadata. Qed.

Theorem C09_jit_entry_metadata : forall R0 m0 E, (forall r, 0 <= R0 r < 2 ^ 64) -> 1024 <= R0 4 ->
  e_mem_base E = R0 2 -> e_stack_base E + e_stack_len E = R0 4 - 40 -> e_mbuff_len E <> 0 -> e_mbuff_base E = R0 7 ->
  exists R, krun (body_of gen_jit_prologue_mbuff) (R0, m0) = Some (R, m5 R0 m0) /\
    (forall x, 0 <= R x < 2 ^ 64) /\ R 10 = e_mem_base E /\ R (ez 1) = rd (isa_init_regs E) 1 /\
    R (ez 10) = e_stack_base E + e_stack_len E.
Proof. exact jit_entry_metadata. Qed.

Print Assumptions C09_entry_registers.
Print Assumptions C09_r1_every_kind_every_engine.
Print Assumptions C09_fixed_metadata_words.
Print Assumptions C09_fixed_jit_words.
Print Assumptions C09_jit_entry_r1.
Print Assumptions C09_cranelift_entry_r1.
Print Assumptions C09_jit_prologue_no_metadata.
Print Assumptions C09_jit_prologue_metadata.
Print Assumptions C09_jit_prologue_fixed_metadata.
Print Assumptions C09_cranelift_entry.
Print Assumptions C09_entry_values.
Print Assumptions C09_jit_entry_no_metadata.
Print Assumptions C09_jit_entry_metadata.
