(** C09 -- each VM kind presents the documented execution context (interpreter part).
    Proofs: theories/InterpProofs.v (register initialisation regenerated from interpreter.rs). *)
From Coq Require Import ZArith List Bool.
From RbpfV Require Import MachInt Ebpf Cases Mem InterpDefs WellFormed Verifier Isa MemLemmas Interp InterpProofs.
From RbpfV.gen Require Import Interp.
Import ListNotations.
Open Scope Z_scope.

(** entry registers: r1 = metadata buffer if non-empty, else packet if non-empty, else 0;
    r10 = top of the 512-byte stack; everything else 0 *)
Theorem C09_entry_registers : forall E, env_ok E -> gen_init_regs E = Ok (isa_init_regs E).
Proof. exact init_regs_spec. Qed.

Theorem C09_entry_values : forall E,
  rd (isa_init_regs E) 10 = e_stack_base E + e_stack_len E /\
  rd (isa_init_regs E) 1 = (if negb (e_mbuff_len E =? 0) then e_mbuff_base E
                            else if negb (e_mem_len E =? 0) then e_mem_base E else 0) /\
  (forall k, In k [0; 2; 3; 4; 5; 6; 7; 8; 9] -> rd (isa_init_regs E) k = 0).
Proof.
  intros E. split; [reflexivity|]. split; [reflexivity|].
  intros k Hk. cbn in Hk. repeat (destruct Hk as [<-|Hk]; [reflexivity|]). destruct Hk.
Qed.

(** absolute and indirect packet loads address the packet data *)
Theorem C09_ldabs_addresses_packet : forall E i reg next fidx stacks m o,
  wf_insn i -> ArmBase.regs_ok reg -> env_ok E -> mem_ok m -> In o [0x20; 0x28; 0x30; 0x38] -> opc i = o ->
  gen_interp_arm o E i (cast USZ (dst i)) (cast USZ (src i)) reg next fidx stacks m
  = ArmBase.conv (isa_exec E i reg next fidx stacks m).
Proof. intros. now apply InterpArmsMem.ldabs_arms. Qed.

Print Assumptions C09_entry_registers.
Print Assumptions C09_entry_values.
