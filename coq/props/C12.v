(** C12 -- compiling any verified program returns Ok or Err and never panics or overruns.
    PARTIAL.  What is proved (theories/JitLogicProofs.v, over definitions regenerated from src/jit.rs and the
    regenerated verifier): on every accepted program the jump-target bookkeeping of the x86-64 JIT stays in range, and
    the register map is injective and avoids the scratch registers; the assertion emit_bytes! makes before each write of the
    second pass holds for every write inside the length the first pass counted, the last byte of an image that fills its pages
    exactly included (theories/JitMemProofs.v over coq/gen/JitMem.v).  What is not modelled: that the two passes emit the same
    number of bytes (they run the same code on the same arguments: C20_jit_memory_size) and the whole of Cranelift's builder -- those are covered by compiling corpora of
    verifier-accepted programs in a child process (checks/C12.py). *)
From Coq Require Import ZArith List Bool.
From RbpfV Require Import MachInt Ebpf WellFormed Verifier JitLogicProofs.
From RbpfV Require Import ClCfgProofs JitMemProofs.
From RbpfV.gen Require Import JitLogic Opcodes ClCfg JitMem.
Import ListNotations.
Open Scope bool_scope.
Open Scope Z_scope.

(** every conditional / unconditional jump of an accepted program records a target that is an instruction start, and
    `pc_locs[target as usize]` is inside the vector of nslots + 1 entries that jit_compile allocates *)
Theorem C12_jit_jump_targets : forall p, bytes_ok p -> acc p -> forall k,
  In k (starts p) -> is_jump (opc (insn_at p k)) = true ->
  gen_jit_pc_locs_len p = Ok (nslots p + 1) /\
  exists t, gen_jit_jump_target k (insn_at p k) = Ok t /\ In t (starts p) /\ 0 <= gen_jit_resolve_index t < nslots p + 1.
Proof. intros p Hb Ha k Hk Hj. split; [now apply pc_locs_len|now apply jit_jump_targets_in_range]. Qed.

(** the same for eBPF-to-eBPF calls *)
Theorem C12_jit_call_targets : forall p, bytes_ok p -> acc p -> forall k,
  In k (starts p) -> opc (insn_at p k) = op_call -> src (insn_at p k) = 1 ->
  exists t, gen_jit_call_target k (insn_at p k) = Ok t /\ In t (starts p) /\ 0 <= gen_jit_resolve_index t < nslots p + 1.
Proof. exact jit_call_targets_in_range. Qed.

(** map_register: 11 distinct x86 registers, none of them RCX, R10, R11 or RSP *)
Theorem C12_register_map :
  List.length gen_register_map = 11%nat /\ NoDup gen_register_map /\
  Forall (fun r => 0 <= r < 16 /\ ~ In r gen_jit_scratch) gen_register_map.
Proof. exact register_map_ok. Qed.

(** Cranelift: blocks are registered for exactly the instructions whose arm looks one up -- every jump, exit and tail call --
    so `insn_targets[insn_ptr]` cannot fail; on an accepted program computing a jump's target pc never panics *)
Theorem C12_cranelift_blocks_registered :
  forallb (fun o => is_jump o || (o =? op_exit) || (o =? op_tail_call)) gen_cl_cfg_ops = true /\
  forallb (fun o => negb (is_jump o || (o =? op_exit) || (o =? op_tail_call)) || existsb (Z.eqb o) gen_cl_cfg_ops) (map Z.of_nat (seq 0 256)) = true /\
  gen_cl_cfg_two_slots = [op_lddw] /\
  forallb (fun o => is_cond_jump o) gen_cl_cond_jump_ops = true /\
  forallb (fun o => negb (is_cond_jump o) || existsb (Z.eqb o) gen_cl_cond_jump_ops) (map Z.of_nat (seq 0 256)) = true.
Proof. exact cfg_ops_are_the_block_enders. Qed.

Theorem C12_cranelift_targets_total : forall p, bytes_ok p -> acc p -> forall k,
  In k (starts p) -> is_jump (opc (insn_at p k)) = true ->
  gen_cl_target_pc k (insn_at p k) = Ok (k + 1 + off (insn_at p k)) /\ In (k + 1 + off (insn_at p k)) (starts p) /\
  gen_cl_next_pc k = Ok (k + 1).
Proof. exact cl_jump_targets. Qed.

(** the bound asserted by emit_bytes! in the writing pass: with the buffer sized by JitMemory::new from the length the sizing
    pass reached, a write of [size] bytes at [offset] that ends inside that length passes it -- also when the image ends exactly
    at the end of the buffer *)
Theorem C12_jit_emit_fits : forall code_len len offset size,
  0 <= offset -> 0 <= size -> offset + size <= code_len -> code_len + 8192 < 2 ^ 64 ->
  gen_jit_mem_size_std code_len = Ok len -> gen_emit_bytes_fits offset size len = Ok true.
Proof. exact emit_bytes_fits. Qed.

Example C12_emit_fits_example :
  gen_jit_mem_size_std 8192 = Ok 8192 /\ gen_emit_bytes_fits 8191 1 8192 = Ok true /\ gen_emit_bytes_fits 8191 2 8192 = Ok false.
Proof. vm_compute. repeat split. Qed.

Print Assumptions C12_jit_jump_targets.
Print Assumptions C12_jit_call_targets.
Print Assumptions C12_register_map.
Print Assumptions C12_cranelift_blocks_registered.
Print Assumptions C12_cranelift_targets_total.
Print Assumptions C12_jit_emit_fits.
