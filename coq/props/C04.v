(** C04 -- Cranelift-compiled code computes the same result as the interpreter.
    PARTIAL.  Proved (theories/ClAluProofs.v, over the IR regenerated from src/cranelift.rs on every run and the value
    semantics of theories/ClirSem.v): for each of the 50 ALU opcodes (32/64-bit, immediate/register; byte swaps excepted)
    and all operand values, the IR built by translate_program defines the destination register to exactly the value the
    ISA specification gives, and its divisions never trap.  and its divisions never trap; and for each of the 44 conditional jumps the value tested by brif is non-zero iff the ISA
    condition holds.  Not modelled: the block structure (which block brif targets), memory arms other
    than their bounds check (C11), helper calls, Cranelift's code generation.  Those are exercised by checks/C04.py against
    the interpreter (= the ISA by theorem C01); the refusal of local calls is checked there too. *)
From Coq Require Import ZArith List.
From RbpfV Require Import MachInt Ebpf ClirSem Isa ClAluProofs ClJmpProofs ClMemProofs.
From RbpfV.gen Require Import ClAlu ClJmp ClMem.
Import ListNotations.
Open Scope Z_scope.

(** [isa_alu_value o i rd rs] is the ISA's result (Isa.alu on the operands reduced to the width of the opcode class,
    immediates sign-extended); [newval r rd] reads "destination left as it was" when r = None *)
Theorem C04_alu_arms : forall i rd rs,
  0 <= rd < 2 ^ 64 -> 0 <= rs < 2 ^ 64 -> - 2 ^ 31 <= imm i < 2 ^ 31 ->
  Forall (fun o => exists r, gen_cl_alu o i rd rs = Ok r /\ newval r rd = newval (isa_alu_value o i rd rs) rd) cl_alu_ops.
Proof. exact cl_alu_arms. Qed.

(** conditional jumps: for each of the 44 opcodes (64/32-bit, immediate/register, jset included) and all operand values, the
    value handed to `brif` is non-zero -- the branch to the jump target is taken -- exactly when the ISA condition holds *)
Theorem C04_jump_conditions : forall i rd rs,
  0 <= rd < 2 ^ 64 -> 0 <= rs < 2 ^ 64 ->
  Forall (fun o => negb (gen_cl_jmp o i rd rs =? 0) = isa_jump_taken o i rd rs) cl_jmp_ops.
Proof. exact cl_jmp_arms. Qed.

(** memory instructions: for each of the 22 load / store / atomic-add opcodes the access built by translate_program is the
    ISA's: same kind and width, effective address (base + offset) mod 2^64 = the ISA address (packet start + immediate
    [+ source register] for absolute / indirect loads, register + offset otherwise), same stored / added value modulo the
    width, loaded value zero-extended into the ISA's destination register *)
Theorem C04_memory_accesses : forall i rd rs mb,
  0 <= rd < 2 ^ 64 -> 0 <= rs < 2 ^ 64 -> 0 <= mb < 2 ^ 64 -> - 2 ^ 15 <= off i < 2 ^ 15 -> - 2 ^ 31 <= imm i < 2 ^ 31 ->
  Forall (fun o => access_matches o i rd rs mb) cl_mem_ops.
Proof. exact cl_mem_arms. Qed.

(** non-vacuity: 50 opcodes; a division by a zero register gives 0, a 32-bit modulo by zero keeps all 64 bits *)
Example C04_example :
  List.length cl_alu_ops = 50%nat /\ List.length cl_jmp_ops = 44%nat /\ List.length cl_mem_ops = 22%nat /\
  gen_cl_jmp 0x25 {| opc := 0x25; dst := 1; src := 0; off := 2; imm := 0x40 |} (2 ^ 32) 0 = 1 /\
  gen_cl_alu 0x3c {| opc := 0x3c; dst := 1; src := 2; off := 0; imm := 0 |} 77 0 = Ok (Some 0) /\
  gen_cl_alu 0x9c {| opc := 0x9c; dst := 1; src := 2; off := 0; imm := 0 |} 0x123456789abcdef0 (2 ^ 32) = Ok (Some 0x123456789abcdef0) /\
  gen_cl_alu 0xc7 {| opc := 0xc7; dst := 1; src := 0; off := 0; imm := 4 |} (2 ^ 63) 0 = Ok (Some 0xf800000000000000).
Proof. vm_compute. repeat split. Qed.

Print Assumptions C04_alu_arms.
Print Assumptions C04_jump_conditions.
Print Assumptions C04_memory_accesses.
