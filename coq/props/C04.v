(** C04 -- Cranelift-compiled code computes the same result as the interpreter.
    PARTIAL.  Proved (theories/ClAluProofs.v, over the IR regenerated from src/cranelift.rs on every run and the value
    semantics of theories/ClirSem.v): for each of the 50 ALU opcodes (32/64-bit, immediate/register; byte swaps excepted)
    and all operand values, the IR built by translate_program defines the destination register to exactly the value the
    ISA specification gives, and its divisions never trap; for each of the 44 conditional jumps the value tested by brif is
    non-zero iff the ISA condition holds; each of the 22 memory opcodes makes the ISA's access; the byte swaps at each width
    and the wide load define the ISA's value; the helper call has the ISA's shape (theories/ClMiscProofs.v).
    The block structure: on an accepted program each jump's target pc is the ISA's (an instruction start), `brif` goes to the
    block of that pc when the condition holds and to the block of the next pc otherwise, `ja` to the target block
    (theories/ClCfgProofs.v).  Composed (theories/ClStep.v, theories/ClRun.v): [cl_exec], the effect on registers and memory
    of the IR built for one instruction (arm value -> set_dst; bounds check -> access; condition -> successor), is the ISA
    step whenever the ISA step succeeds (C04_step_refines); and a whole run of it from the registers the regenerated prelude
    defines returns the ISA's value and memory for every budget (C04_run_refines).  Not modelled: how the blocks are laid
    out and sealed (Cranelift's FunctionBuilder), what the called helper does, Cranelift's code generation.  Those are exercised by checks/C04.py against
    the interpreter (= the ISA by theorem C01); the refusal of local calls is checked there too. *)
From Coq Require Import ZArith List String Bool.
From RbpfV Require Import MachInt Ebpf Cases ClirSem Mem Stack Helpers InterpDefs Isa MemLemmas Interp ClAluProofs ClJmpProofs ClMemProofs ClMiscProofs WellFormed Verifier
  ClCfgProofs InterpProofs ClStep ClRun JitStep JitRun IsaDef DefRun.
From RbpfV.gen Require Import Opcodes ClAlu ClJmp ClMem ClMisc ClCfg.
Import ListNotations.
Open Scope Z_scope.

(** [isa_alu_value o i rd rs] is the ISA's result (Isa.alu on the operands reduced to the width of the opcode class,
    immediates sign-extended); [newval r rd] reads "destination left as it was" when r = None *)
Theorem C04_alu_arms : forall i rd rs,
  0 <= rd < 2 ^ 64 -> 0 <= rs < 2 ^ 64 -> - 2 ^ 31 <= imm i < 2 ^ 31 ->
  Forall (fun o => exists r, gen_cl_alu o i rd rs = Ok r /\ newval r rd = newval (isa_alu_value o i rd rs) rd) cl_alu_ops.
Proof. exact cl_alu_arms. Qed.

(** conditional jumps: for each of the 44 opcodes (64/32-bit, immediate/register, jset included) and all operand values, the
    value handed to `brif` is non-zero -- the branch to the jump target is taken -- exactly when the ISA condition holds *)
Theorem C04_jump_conditions : forall i rd rs,
  0 <= rd < 2 ^ 64 -> 0 <= rs < 2 ^ 64 ->
  Forall (fun o => negb (gen_cl_jmp o i rd rs =? 0) = isa_jump_taken o i rd rs) cl_jmp_ops.
Proof. exact cl_jmp_arms. Qed.

(** memory instructions: for each of the 22 load / store / atomic-add opcodes the access built by translate_program is the
    ISA's: same kind and width, effective address (base + offset) mod 2^64 = the ISA address (packet start + immediate
    [+ source register] for absolute / indirect loads, register + offset otherwise), same stored / added value modulo the
    width, loaded value zero-extended into the ISA's destination register *)
Theorem C04_memory_accesses : forall i rd rs mb,
  0 <= rd < 2 ^ 64 -> 0 <= rs < 2 ^ 64 -> 0 <= mb < 2 ^ 64 -> - 2 ^ 15 <= off i < 2 ^ 15 -> - 2 ^ 31 <= imm i < 2 ^ 31 ->
  Forall (fun o => access_matches o i rd rs mb) cl_mem_ops.
Proof. exact cl_mem_arms. Qed.

(** byte swaps (le / be at 16, 32, 64 bits; x86-64 host) define the destination to the ISA's to_little / to_big *)
Theorem C04_byte_swaps : forall big w rd rs, In w [16; 32; 64] -> 0 <= rd < 2 ^ 64 ->
  newval (gen_cl_endian big w rd rs) rd = isa_endian_value big w rd.
Proof. exact cl_endian_arms. Qed.

(** the wide load builds the constant low + high * 2^32 (mod 2^64) without overflowing on the way *)
Theorem C04_wide_load : forall lo hi, - 2 ^ 31 <= lo < 2 ^ 31 -> - 2 ^ 31 <= hi < 2 ^ 31 ->
  gen_cl_lddw lo hi = Ok (u64 (u32 lo + u32 hi * 2 ^ 32)).
Proof. exact cl_lddw_arm. Qed.

(** helper calls: local calls are refused at compile time, the helper is the one registered under the unsigned
    immediate, it receives r1..r5 in order and its result defines r0 *)
Theorem C04_helper_call_shape : forall i, - 2 ^ 31 <= imm i < 2 ^ 31 ->
  gen_cl_call_refuses_local = true /\ gen_cl_call_key i = u32 (imm i) /\ gen_cl_call_args = [1; 2; 3; 4; 5] /\ gen_cl_call_result = 0.
Proof. exact cl_call_shape. Qed.

(** control flow: for every jump of an accepted program the pc whose block is the "taken" successor is k + 1 + offset -- the
    ISA's target, an instruction start -- and the other successor is the block of k + 1; the conversion to u32 never panics *)
Theorem C04_jump_blocks : forall p, bytes_ok p -> acc p -> forall k,
  In k (starts p) -> is_jump (opc (insn_at p k)) = true ->
  gen_cl_target_pc k (insn_at p k) = Ok (k + 1 + off (insn_at p k)) /\ In (k + 1 + off (insn_at p k)) (starts p) /\
  gen_cl_next_pc k = Ok (k + 1).
Proof. exact cl_jump_targets. Qed.

(** the pair stored for a jump is (block of the next pc, block of the target pc); `brif` takes the second when the condition
    is true and the first otherwise; conditional-jump arms cover exactly the conditional jumps *)
Theorem C04_brif_successors :
  gen_cl_targets_pair = ("next_pc", "target_pc")%string /\ gen_cl_brif_taken_is_second = true /\ gen_cl_brif_else_is_first = true.
Proof. exact brif_blocks. Qed.

(** one instruction: under what the verifier establishes about it (well-formed fields, destination a register, byte-swap
    width 16/32/64, the second slot of a wide load present) and what compilation requires (helper calls only, helper
    registered), with no registered extra ranges and real (non-null) packet / metadata slices: whenever the ISA step
    succeeds, the IR built for the instruction has exactly its effect -- registers, next pc, memory, returned value.
    A packet-relative load on an empty packet is excluded (lib.rs passes a null packet pointer then). *)
Theorem C04_step_refines : forall E, env_ok E -> e_allowed E = [] ->
  (e_mem_len E <> 0 -> e_mem_base E <> 0) -> (e_mbuff_len E <> 0 -> e_mbuff_base E <> 0) ->
  forall i reg next fidx stacks m st,
  wf_insn i -> ArmBase.regs_ok reg -> mem_ok m -> 0 <= dst i <= 10 -> In (opc i) cl_ops ->
  ((opc i =? op_le) || (opc i =? op_be) = true -> In (imm i) [16; 32; 64]) ->
  (opc i = op_lddw -> wf_insn (insn_at (e_prog E) next)) ->
  (opc i = op_call -> src i = 0 /\ e_helpers E (u32 (imm i)) <> None) ->
  (opc i = op_exit -> fidx = 0) ->
  (opc i mod 8 = 0 -> e_mem_len E <> 0) ->
  isa_exec E i reg next fidx stacks m = Ok st -> cl_exec E i reg next fidx stacks m = Ok st.
Proof. exact cl_exec_refines. Qed.

(** every opcode the verifier accepts is one Cranelift translates *)
Theorem C04_accepted_opcodes_translated : forall o, supported o = true -> In o cl_ops.
Proof. exact supported_cl. Qed.

(** the entry registers of compiled code are the interpreter's, except r2 (length of what r1 points to) *)
Theorem C04_entry_registers : forall E, env_ok E ->
  cl_init_regs E = upd (isa_init_regs E) 2 (if e_mbuff_len E =? 0 then e_mem_len E else e_mbuff_len E).
Proof. exact cl_init_regs_spec. Qed.

(** whole executions, every budget: on an accepted program whose calls are helper calls to registered helpers, the compiled
    program returns the value and leaves the memory of the ISA run from the same entry registers *)
Theorem C04_run_refines : forall E m0 fuel r m',
  bytes_ok (e_prog E) -> acc (e_prog E) -> env_ok E -> mem_ok m0 ->
  e_allowed E = [] -> (e_mem_len E <> 0 -> e_mem_base E <> 0) -> (e_mbuff_len E <> 0 -> e_mbuff_base E <> 0) ->
  (forall k, In k (starts (e_prog E)) ->
     (opc (insn_at (e_prog E) k) = op_call ->
        src (insn_at (e_prog E) k) = 0 /\ e_helpers E (u32 (imm (insn_at (e_prog E) k))) <> None) /\
     (opc (insn_at (e_prog E) k) mod 8 = 0 -> e_mem_len E <> 0)) ->
  isa_steps fuel E (cl_init_regs E, 0, 0, stacks0, m0) = ODone r m' ->
  cl_run fuel E m0 = ODone r m'.
Proof. exact cl_run_refines. Qed.

(** non-vacuity of the run theorem: ldxw r0,[r1+0]; add r0,5; stxw [r10-4],r0; ldxw r3,[r10-4]; mov r0,r3; be32 r0; exit
    on the packet 01 02 03 04 meets the hypotheses and returns bswap32(0x04030201 + 5) in both *)
Definition run_prog : list Z := hexbytes 56 0x61100000000000000700000005000000630afcff0000000061a3fcff00000000bf30000000000000dc000000200000009500000000000000.
Definition run_env : ienv :=
  mk_env run_prog (fun _ => None) (usage_map run_prog None)
         {| r_base := 0x10000000; r_data := [] |} {| r_base := 0x20000000; r_data := [1; 2; 3; 4] |} 0x30000000 [].
Definition run_mem : mem :=
  mk_mem {| r_base := 0x10000000; r_data := [] |} {| r_base := 0x20000000; r_data := [1; 2; 3; 4] |} 0x30000000
         {| r_base := 0x40000000; r_data := [] |}.
Example C04_run_example :
  accb run_prog = true /\ bytes_okb run_prog = true /\ e_allowed run_env = [] /\
  (exists m, isa_steps 100 run_env (cl_init_regs run_env, 0, 0, stacks0, run_mem) = ODone 0x06020304 m /\
             cl_run 100 run_env run_mem = ODone 0x06020304 m).
Proof. split; [vm_compute; reflexivity|]. split; [vm_compute; reflexivity|]. split; [reflexivity|]. eexists. split; vm_compute; reflexivity. Qed.

(** C04 in the property's own terms (see C03_jit_agrees_with_interpreter for the tracked run [isa_steps_d]): whenever the
    tracked ISA run returns -- termination, accesses in bounds, nothing undefined read (r2, which Cranelift sets to a length
    at entry, included) -- the interpreter and the Cranelift code return that value and leave that memory *)
Theorem C04_cranelift_agrees_with_interpreter : forall E m0 fuel r m',
  bytes_ok (e_prog E) -> acc (e_prog E) -> env_ok E -> mem_ok m0 -> d7_free E ->
  e_allowed E = [] -> (e_mem_len E <> 0 -> e_mem_base E <> 0) -> (e_mbuff_len E <> 0 -> e_mbuff_base E <> 0) ->
  (forall k, In k (starts (e_prog E)) ->
     (opc (insn_at (e_prog E) k) = op_call ->
        src (insn_at (e_prog E) k) = 0 /\ e_helpers E (u32 (imm (insn_at (e_prog E) k))) <> None) /\
     (opc (insn_at (e_prog E) k) mod 8 = 0 -> e_mem_len E <> 0)) ->
  isa_steps_d fuel E D0 (isa_init_regs E, 0, 0, stacks0, m0) = ODone r m' ->
  Interp.run fuel E m0 = ODone r m' /\ cl_run fuel E m0 = ODone r m'.
Proof. exact cranelift_agrees_with_interpreter. Qed.

Example C04_defined_run_example :
  exists m, isa_steps_d 100 run_env D0 (isa_init_regs run_env, 0, 0, stacks0, run_mem) = ODone 0x06020304 m /\
            Interp.run 100 run_env run_mem = ODone 0x06020304 m /\ cl_run 100 run_env run_mem = ODone 0x06020304 m.
Proof. eexists. split; [vm_compute; reflexivity|]. split; vm_compute; reflexivity. Qed.

(** non-vacuity: 50 opcodes; a division by a zero register gives 0, a 32-bit modulo by zero keeps all 64 bits *)
Example C04_example :
  List.length cl_alu_ops = 50%nat /\ List.length cl_jmp_ops = 44%nat /\ List.length cl_mem_ops = 22%nat /\
  gen_cl_be16 0x1234abcd 0 = Some 0xcdab /\ gen_cl_le32 (2 ^ 64 - 1) 0 = Some 0xffffffff /\
  gen_cl_lddw (-1) (-2) = Ok 0xfffffffeffffffff /\
  gen_cl_jmp 0x25 {| opc := 0x25; dst := 1; src := 0; off := 2; imm := 0x40 |} (2 ^ 32) 0 = 1 /\
  gen_cl_alu 0x3c {| opc := 0x3c; dst := 1; src := 2; off := 0; imm := 0 |} 77 0 = Ok (Some 0) /\
  gen_cl_alu 0x9c {| opc := 0x9c; dst := 1; src := 2; off := 0; imm := 0 |} 0x123456789abcdef0 (2 ^ 32) = Ok (Some 0x123456789abcdef0) /\
  gen_cl_alu 0xc7 {| opc := 0xc7; dst := 1; src := 0; off := 0; imm := 4 |} (2 ^ 63) 0 = Ok (Some 0xf800000000000000).
Proof. vm_compute. repeat split. Qed.

Print Assumptions C04_alu_arms.
Print Assumptions C04_jump_conditions.
Print Assumptions C04_memory_accesses.
Print Assumptions C04_byte_swaps.
Print Assumptions C04_wide_load.
Print Assumptions C04_helper_call_shape.
Print Assumptions C04_jump_blocks.
Print Assumptions C04_brif_successors.
Print Assumptions C04_step_refines.
Print Assumptions C04_accepted_opcodes_translated.
Print Assumptions C04_entry_registers.
Print Assumptions C04_run_refines.
Print Assumptions C04_cranelift_agrees_with_interpreter.
