(** C07 -- eBPF-to-eBPF calls preserve the caller's frame and callee-saved registers.
    Interpreter: statements about the ISA step, which the regenerated interpreter loop equals on every
    reachable state (C01_step_refines); proofs in theories/InterpCalls.v.  x86-64 JIT: the sequence emit_local_call emits
    (regenerated into coq/gen/JitFrame.v) under the stack machine X86Stk.v: r6..r9 come back -- and the frame pointer is not
    lowered, which is known finding D18 (theories/JitFrameProofs.v). *)
From Coq Require Import ZArith List Bool.
From RbpfV Require Import MachInt Ebpf Cases Mem InterpDefs WellFormed Verifier Isa MemLemmas Interp InterpProofs
  InterpArmsCall InterpCalls.
From RbpfV Require Import X86Sem X86Stk JitFrameProofs.
From RbpfV Require Import Stack StackRsProofs.
From RbpfV.gen Require Import JitFrame StackRs.
Import ListNotations.
Open Scope Z_scope.

(** the call itself: r0-r9 untouched, r6-r9 and the return address saved, r10 lowered by the frame
    size recorded for the calling function, execution continues at pc + 1 + displacement *)
Theorem C07_call : forall E reg pc fidx stacks m s',
  opc (insn_at (e_prog E) pc) = op_call -> src (insn_at (e_prog E) pc) = 1 ->
  isa_step E (reg, pc, fidx, stacks, m) = Ok (SNext s') ->
  exists st' u fr,
    fidx < 8 /\
    s' = (upd reg 10 (u64 (rd reg 10 - u)), pc + 1 + imm (insn_at (e_prog E) pc), fidx + 1, st', m) /\
    frame_get st' fidx = Ok fr /\ f_ret fr = pc + 1 /\ f_regs fr = [rd reg 6; rd reg 7; rd reg 8; rd reg 9] /\ f_usage fr = u.
Proof. exact local_call_step. Qed.

(** call, any callee execution (further calls and returns included), matching return: execution
    resumes after the call with r6-r10 as before the call; call and return leave r0-r5 alone *)
Theorem C07_call_return : forall E s s_in s_n s_out,
  bytes_ok (e_prog E) -> acc (e_prog E) -> env_ok E -> Inv E s ->
  opc (insn_at (e_prog E) (pc_of s)) = op_call -> src (insn_at (e_prog E) (pc_of s)) = 1 ->
  isa_step E s = Ok (SNext s_in) ->
  run_above E (fidx_of s) s_in s_n ->
  fidx_of s_n = fidx_of s + 1 -> opc (insn_at (e_prog E) (pc_of s_n)) = op_exit ->
  isa_step E s_n = Ok (SNext s_out) ->
  pc_of s_out = pc_of s + 1 /\ fidx_of s_out = fidx_of s /\
  (forall r, 6 <= r <= 10 -> rd (regs_of s_out) r = rd (regs_of s) r) /\
  (forall r, 0 <= r <= 5 -> rd (regs_of s_out) r = rd (regs_of s_n) r) /\
  (forall r, 0 <= r <= 9 -> rd (regs_of s_in) r = rd (regs_of s) r).
Proof. exact call_return. Qed.

(** nesting deeper than 8 is an error value, never a crash (C05 covers "never a panic") *)
Theorem C07_depth_limit : forall E reg pc stacks m st',
  opc (insn_at (e_prog E) pc) = op_call -> src (insn_at (e_prog E) pc) = 1 ->
  refresh_usage E stacks 8 pc = Ok st' ->
  isa_step E (reg, pc, 8, stacks, m) = Err ECallDepth.
Proof. exact call_depth_step. Qed.

(** x86-64 JIT: around the call, rbx, r13, r14, r15 (eBPF r6..r9) are saved on the machine stack and restored, whatever the
    callee did to them, as long as it returns with rsp back and leaves the four words alone; no register other than rsp is
    changed before the call -- so the callee is entered with the caller's frame pointer rbp = eBPF r10 (D18) *)
Theorem C07_jit_local_call : forall R m, (forall r, 0 <= R r < 2 ^ 64) -> 64 <= R 4 ->
  gen_jit_local_call = lc_pre ++ XCallPc :: lc_post /\
  exists R1 m1, krun lc_pre (R, m) = Some (R1, m1) /\
    R1 4 = R 4 - 40 /\ (forall r, r <> 4 -> R1 r = R r) /\
    load8 m1 (R 4 - 8) = R 3 /\ load8 m1 (R 4 - 16) = R 13 /\ load8 m1 (R 4 - 24) = R 14 /\ load8 m1 (R 4 - 32) = R 15 /\
    forall R2 m2, R2 4 = R 4 - 40 ->
      load8 m2 (R 4 - 8) = R 3 -> load8 m2 (R 4 - 16) = R 13 -> load8 m2 (R 4 - 24) = R 14 -> load8 m2 (R 4 - 32) = R 15 ->
      exists R3, krun lc_post (R2, m2) = Some (R3, m2) /\
        R3 4 = R 4 /\ R3 3 = R 3 /\ R3 13 = R 13 /\ R3 14 = R 14 /\ R3 15 = R 15 /\
        forall r, ~ In r [3; 4; 13; 14; 15] -> R3 r = R2 r.
Proof. exact jit_local_call. Qed.

(** src/stack.rs is the model Stack.usage_map: from the expressions regenerated from stack.rs -- a calculator's result is used
    as it is (no clamping, no rounding), the default is 256, the table has a key for pc 0 and for the target
    `(idx as isize + 1 + imm as isize) as usize` of every local call -- the table of frame sizes is [usage_map] *)
Theorem C07_stack_rs_pieces :
  (forall u, gen_stack_usage_value (Some u) = u) /\ gen_stack_usage_value None = 256 /\
  (forall r, gen_stack_usage_type true r = Some r) /\ (forall r, gen_stack_usage_type false r = None) /\
  (forall o s, gen_stack_is_local_call o s = (o =? op_call) && (s =? 1)) /\
  (forall idx imm, 0 <= idx < 2 ^ 62 -> - 2 ^ 31 <= imm < 2 ^ 31 -> gen_stack_call_key idx imm = Ok (cast USZ (idx + 1 + imm))).
Proof. exact stack_rs_pieces. Qed.

Theorem C07_usage_map_is_stack_rs : forall prog calc pc,
  usage_map prog calc pc =
  if (pc =? 0) || inb pc (call_targets prog)
  then Some (gen_stack_usage_value (gen_stack_usage_type (is_some calc) (match calc with Some c => cast U16 (c pc) | None => 0 end)))
  else None.
Proof. exact usage_map_from_stack_rs. Qed.

Print Assumptions C07_call.
Print Assumptions C07_call_return.
Print Assumptions C07_depth_limit.
Print Assumptions C07_jit_local_call.
Print Assumptions C07_stack_rs_pieces.
Print Assumptions C07_usage_map_is_stack_rs.
