(** C07 -- eBPF-to-eBPF calls preserve the caller's frame and callee-saved registers (interpreter).
    Statements are about the ISA step, which the regenerated interpreter loop equals on every
    reachable state (C01_step_refines). Proofs: theories/InterpCalls.v. *)
From Coq Require Import ZArith List Bool.
From RbpfV Require Import MachInt Ebpf Cases Mem InterpDefs WellFormed Verifier Isa MemLemmas Interp InterpProofs
  InterpArmsCall InterpCalls.
Import ListNotations.
Open Scope Z_scope.

(** the call itself: r0-r9 untouched, r6-r9 and the return address saved, r10 lowered by the frame
    size recorded for the calling function, execution continues at pc + 1 + displacement *)
Theorem C07_call : forall E reg pc fidx stacks m s',
  opc (insn_at (e_prog E) pc) = op_call -> src (insn_at (e_prog E) pc) = 1 ->
  isa_step E (reg, pc, fidx, stacks, m) = Ok (SNext s') ->
  exists st' u fr,
    fidx < 8 /\
    s' = (upd reg 10 (u64 (rd reg 10 - u)), pc + 1 + imm (insn_at (e_prog E) pc), fidx + 1, st', m) /\
    frame_get st' fidx = Ok fr /\ f_ret fr = pc + 1 /\ f_regs fr = [rd reg 6; rd reg 7; rd reg 8; rd reg 9] /\ f_usage fr = u.
Proof. exact local_call_step. Qed.

(** call, any callee execution (further calls and returns included), matching return: execution
    resumes after the call with r6-r10 as before the call; call and return leave r0-r5 alone *)
Theorem C07_call_return : forall E s s_in s_n s_out,
  bytes_ok (e_prog E) -> acc (e_prog E) -> env_ok E -> Inv E s ->
  opc (insn_at (e_prog E) (pc_of s)) = op_call -> src (insn_at (e_prog E) (pc_of s)) = 1 ->
  isa_step E s = Ok (SNext s_in) ->
  run_above E (fidx_of s) s_in s_n ->
  fidx_of s_n = fidx_of s + 1 -> opc (insn_at (e_prog E) (pc_of s_n)) = op_exit ->
  isa_step E s_n = Ok (SNext s_out) ->
  pc_of s_out = pc_of s + 1 /\ fidx_of s_out = fidx_of s /\
  (forall r, 6 <= r <= 10 -> rd (regs_of s_out) r = rd (regs_of s) r) /\
  (forall r, 0 <= r <= 5 -> rd (regs_of s_out) r = rd (regs_of s_n) r) /\
  (forall r, 0 <= r <= 9 -> rd (regs_of s_in) r = rd (regs_of s) r).
Proof. exact call_return. Qed.

(** nesting deeper than 8 is an error value, never a crash (C05 covers "never a panic") *)
Theorem C07_depth_limit : forall E reg pc stacks m st',
  opc (insn_at (e_prog E) pc) = op_call -> src (insn_at (e_prog E) pc) = 1 ->
  refresh_usage E stacks 8 pc = Ok st' ->
  isa_step E (reg, pc, 8, stacks, m) = Err ECallDepth.
Proof. exact call_depth_step. Qed.

Print Assumptions C07_call.
Print Assumptions C07_call_return.
Print Assumptions C07_depth_limit.
