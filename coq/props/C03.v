(** C03 -- x86-64 JIT-compiled code computes the same result as the interpreter.
    PARTIAL.  The machine code emitted by src/jit.rs and its execution by the CPU are not modelled in Coq.  What is
    proved: (1) the reference the compiled code is compared with -- the interpreter -- computes exactly what the ISA
    specification defines (theorem C01, restated here), so a difference from the interpreter is a difference from the
    ISA; (2) the logic of the JIT that is independent of instruction encodings: the register map is injective and avoids
    the scratch registers, and on every accepted program each recorded jump / call target is an instruction start inside
    the table resolve_jumps indexes; (3) the x86-64 encoders (emit_alu*, emit_mov, emit_push/pop, emit_load, emit_store,
    emit_load_imm with REX / ModRM / displacement selection) append exactly the bytes of the encoding specification X86Enc.v
    for every register, displacement and immediate; (4) for the 38 ALU opcodes emitted directly, the emitted instruction
    sequence computes the ISA value under the x86 semantics X86Sem.v, and for the 44 conditional jumps the emitted cmp/test +
    condition code branch iff the ISA condition holds, and the 22 memory opcodes make the ISA access; (5) for the 12 mul / div /
    mod opcodes the sequence built by emit_muldivmod (pushes, divisor in rcx, MUL / DIV, result moves, pops, the zero-divisor
    test and the jump inside the sequence) leaves the ISA value in the destination, restores rax, rdx and the stack and
    never raises #DE, under the sequence machine X86Seq.v whose instruction lengths are those the encoders are proved to
    emit; (6) the byte swaps at each width (and / mov / rol16+and / bswap) and the wide load define the ISA value; (7) the
    epilogue restores the caller's registers and returns eBPF r0 in rax (stack machine X86Stk.v); (8) composed
    (theories/JitStep.v, JitRun.v): with eBPF register k in x86 register REGISTER_MAP[k] and R10 = packet address, the
    sequence emitted for any accepted instruction other than a call simulates the ISA step whenever that succeeds
    (C03_step_simulates), the sequence around a helper call gives the helper r1..r5, defines r0 and brings r6..r10 back
    whatever the helper leaves in the caller-saved registers (C03_helper_call_simulates), and the code of a whole program
    whose calls are helper calls returns the ISA's value and memory for every input, budget, content of the other
    registers and garbage left by the helpers (C03_run_refines).  The other opcodes (helper
    calls: C08; local calls: C07; prologue: C09; exit = ret) and what the CPU does with the bytes are exercised by checks/C03.py (every opcode x every register
    pair x boundary immediates / displacements x control-flow shapes x 4 VM kinds) against the interpreter. *)
From Coq Require Import ZArith List Bool.
From RbpfV Require Import MachInt Ebpf Cases Mem Stack Helpers InterpDefs Interp MemLemmas InterpProofs ClMemProofs ClStep ClRun JitStep JitRun IsaDef DefRun Isa WellFormed Verifier JitLogicProofs X86Enc JitEncProofs X86Sem X86Seq ClAluProofs ClJmpProofs JitArmsProofs JitMulDivProofs ClMiscProofs JitMiscProofs X86Stk JitFrameProofs.
From RbpfV.gen Require Import JitLogic JitEnc JitArms JitMulDiv JitMisc JitFrame.
Import ListNotations.
Open Scope Z_scope.

Theorem C03_register_map :
  List.length gen_register_map = 11%nat /\ NoDup gen_register_map /\
  Forall (fun r => 0 <= r < 16 /\ ~ In r gen_jit_scratch) gen_register_map.
Proof. exact register_map_ok. Qed.

Theorem C03_jump_targets : forall p, bytes_ok p -> acc p -> forall k,
  In k (starts p) -> is_jump (opc (insn_at p k)) = true ->
  exists t, gen_jit_jump_target k (insn_at p k) = Ok t /\ In t (starts p) /\ 0 <= gen_jit_resolve_index t < nslots p + 1.
Proof. exact jit_jump_targets_in_range. Qed.

Theorem C03_call_targets : forall p, bytes_ok p -> acc p -> forall k,
  In k (starts p) -> opc (insn_at p k) = op_call -> src (insn_at p k) = 1 ->
  exists t, gen_jit_call_target k (insn_at p k) = Ok t /\ In t (starts p) /\ 0 <= gen_jit_resolve_index t < nslots p + 1.
Proof. exact jit_call_targets_in_range. Qed.

(** resolve_jumps writes the displacement that makes the jump land on the recorded location of its target *)
Theorem C03_jump_fixup : forall offset_loc target_loc,
  0 <= offset_loc -> offset_loc + 4 < 2 ^ 31 -> 0 <= target_loc < 2 ^ 31 ->
  exists rel, gen_jit_rel32 offset_loc target_loc = Ok rel /\ (offset_loc + 4) + rel = target_loc /\ - 2 ^ 31 <= rel < 2 ^ 31.
Proof. exact jit_rel32_lands. Qed.

(** the x86-64 encoders of jit.rs (regenerated) append exactly the bytes of the encoding specification X86Enc.v:
    register-direct ALU forms, with immediates, mov, push / pop, loads and stores of every width with every base / value
    register and every 32-bit displacement (mod 00 / disp8 / disp32 selection, rbp / r13 needing a displacement), mov imm64 *)
Theorem C03_enc_alu : forall mem w op reg rm, In w [0; 1] -> 0 <= op < 256 -> 0 <= reg < 16 -> 0 <= rm < 16 ->
  (if w =? 1 then gen_emit_alu64 mem op reg rm else gen_emit_alu32 mem op reg rm) = Ok (mem ++ x_alu w op reg rm).
Proof. exact emit_alu_spec. Qed.
Theorem C03_enc_alu64_imm32 : forall mem op ext rm imm, 0 <= op < 256 -> 0 <= ext < 16 -> 0 <= rm < 16 ->
  gen_emit_alu64_imm32 mem op ext rm imm = Ok (mem ++ x_alu 1 op ext rm ++ le_bytes 4 (imm mod 2 ^ 32)).
Proof. exact emit_alu64_imm32_spec. Qed.
Theorem C03_enc_alu32_imm32 : forall mem op ext rm imm, 0 <= op < 256 -> 0 <= ext < 16 -> 0 <= rm < 16 ->
  gen_emit_alu32_imm32 mem op ext rm imm = Ok (mem ++ x_alu 0 op ext rm ++ le_bytes 4 (imm mod 2 ^ 32)).
Proof. exact emit_alu32_imm32_spec. Qed.
Theorem C03_enc_mov : forall mem src dst, 0 <= src < 16 -> 0 <= dst < 16 -> gen_emit_mov mem src dst = Ok (mem ++ x_alu 1 137 src dst).
Proof. exact emit_mov_spec. Qed.
Theorem C03_enc_push_pop : forall mem r, 0 <= r < 16 ->
  gen_emit_push mem r = Ok (mem ++ x_push r) /\ gen_emit_pop mem r = Ok (mem ++ x_pop r).
Proof. exact emit_push_pop_spec. Qed.
Theorem C03_enc_load : forall mem size base reg d, In size [8; 16; 32; 64] -> 0 <= base < 16 -> 0 <= reg < 16 -> - 2 ^ 31 <= d < 2 ^ 31 ->
  gen_emit_load mem size base reg d = Ok (mem ++ x_load size base reg d).
Proof. exact emit_load_spec. Qed.
Theorem C03_enc_store : forall mem size reg base d, In size [8; 16; 32; 64] -> 0 <= reg < 16 -> 0 <= base < 16 -> - 2 ^ 31 <= d < 2 ^ 31 ->
  gen_emit_store mem size reg base d = Ok (mem ++ x_store size reg base d).
Proof. exact emit_store_spec. Qed.
Theorem C03_enc_load_imm : forall mem r imm, 0 <= r < 16 -> - 2 ^ 63 <= imm < 2 ^ 63 ->
  gen_emit_load_imm mem r imm = Ok (mem ++ x_load_imm r imm).
Proof. exact emit_load_imm_spec. Qed.

(** per-opcode emission, ALU: for each of the 38 ALU opcodes translated directly (all but mul / div / mod and the byte swaps),
    the x86 instructions jit_compile emits (regenerated; semantics X86Sem.v) leave the ISA value in the destination's x86
    register and change no register other than it and the scratch RCX -- all operand values, all register assignments *)
Theorem C03_alu_arms : forall i R d s,
  (forall r, 0 <= R r < 2 ^ 64) -> d <> 1 -> - 2 ^ 31 <= imm i < 2 ^ 31 ->
  Forall (fun o => arm_ok o i R d s) jit_alu_ops.
Proof. exact jit_alu_arms. Qed.

(** per-opcode emission, conditional jumps: for each of the 44 opcodes the flag-setting instruction (cmp / test, 64- or 32-bit,
    register or sign-extended immediate) and the condition code handed to emit_jcc make the x86 branch taken exactly when
    the ISA condition holds *)
Theorem C03_jump_conditions : forall i R d s,
  (forall r, 0 <= R r < 2 ^ 64) ->
  Forall (fun o => xcond (fst (gen_jit_jmp o i d s)) (snd (gen_jit_jmp o i d s)) R = Some (isa_jump_taken o i (R d) (R s))) cl_jmp_ops.
Proof. exact jit_jmp_arms. Qed.

(** per-opcode emission, memory: the access made by the instruction(s) emitted for each of the 22 load / store / atomic-add
    opcodes is the ISA access (kind, width, effective address, stored / added value modulo the width, destination register);
    for absolute / indirect packet loads with R10 = packet address and a non-negative immediate *)
Theorem C03_memory_accesses_regs : forall i R d s,
  (forall r, 0 <= R r < 2 ^ 64) -> s <> 11 -> - 2 ^ 15 <= off i < 2 ^ 15 -> - 2 ^ 31 <= imm i < 2 ^ 31 ->
  Forall (fun o => jit_access_matches o i R d s) [0x61; 0x69; 0x71; 0x79; 0x62; 0x6a; 0x72; 0x7a; 0x63; 0x6b; 0x73; 0x7b; 0xc3; 0xdb].
Proof. exact jit_mem_arms_regs. Qed.
Theorem C03_memory_accesses_packet : forall i R d s,
  (forall r, 0 <= R r < 2 ^ 64) -> s <> 11 -> - 2 ^ 15 <= off i < 2 ^ 15 -> 0 <= imm i < 2 ^ 31 ->
  Forall (fun o => jit_access_matches o i R d s) [0x20; 0x28; 0x30; 0x38; 0x40; 0x48; 0x50; 0x58].
Proof. exact jit_mem_arms_packet. Qed.

(** non-vacuity: `mov rbx, [r13+0]` needs a displacement byte; `mov [rdi-129], r9d` takes the 4-byte form *)
(** mul / div / mod (the 12 opcodes jit_compile sends through emit_muldivmod, 32/64-bit, immediate/register): from any
    registers R and stack, running the emitted sequence ends -- by falling through or by jumping to the code of instruction
    pc + 1 -- with the ISA value in the destination (0 for a division by zero, unchanged for a modulo by zero), every other
    register except the scratch rcx as before (rax and rdx restored) and the stack as before; no step is stuck, so DIV never
    faults (zero divisor or quotient overflow) *)
Theorem C03_muldiv_arms : forall i pc R stk d s,
  (forall r, 0 <= R r < 2 ^ 64) -> 0 <= d < 16 -> d <> 1 -> d <> 4 -> s <> 1 -> - 2 ^ 31 <= imm i < 2 ^ 31 ->
  Forall (fun o =>
    exists R' fl, (run_seq (gen_jit_muldivmod pc o s d (imm i)) R stk = Some (XFall {| x_r := R'; x_stk := stk; x_fl := fl |})
                \/ run_seq (gen_jit_muldivmod pc o s d (imm i)) R stk = Some (XGoto (pc + 1) {| x_r := R'; x_stk := stk; x_fl := fl |}))
      /\ R' d = newval (isa_alu_value o i (R d) (R s)) (R d)
      /\ forall r, r <> d -> r <> 1 -> R' r = R r) gen_jit_muldiv_ops.
Proof. exact jit_muldiv_arms. Qed.

(** each abstract instruction of those sequences is one encoder call, which appends exactly the bytes whose length the
    sequence machine uses for the jump inside the division sequence *)
Theorem C03_muldiv_bytes : forall mem x, xi_wf x -> exists b, xbytes x = Some b /\ emit_xi mem x = Ok (mem ++ b).
Proof. exact emit_xi_bytes. Qed.

Example C03_enc_example :
  gen_emit_load [] 64 13 3 0 = Ok [0x49; 0x8b; 0x5d; 0x00] /\
  gen_emit_store [] 32 9 7 (-129) = Ok [0x44; 0x89; 0x8f; 0x7f; 0xff; 0xff; 0xff] /\
  gen_emit_load [] 8 7 0 127 = Ok [0x0f; 0xb6; 0x47; 0x7f] /\ gen_emit_load [] 8 7 0 128 = Ok [0x0f; 0xb6; 0x87; 0x80; 0; 0; 0].
Proof. vm_compute. repeat split. Qed.

(** byte swaps: le16 = and r32, 0xffff; le32 = mov r32, r32; le64 = nothing; be16 = rol r16, 8 then and r32, 0xffff;
    be32 / be64 = bswap: each leaves the ISA's to_little / to_big value in the destination and touches nothing else *)
Theorem C03_byte_swaps : forall big w R stk d, In w [16; 32; 64] -> (forall r, 0 <= R r < 2 ^ 64) ->
  exists R' fl, run_seq (gen_jit_endian big w d) R stk = Some (XFall {| x_r := R'; x_stk := stk; x_fl := fl |})
             /\ R' d = isa_endian_value big w (R d) /\ forall r, r <> d -> R' r = R r.
Proof. exact jit_endian_arms. Qed.

(** the wide load: the constant computed by jit_compile from the two immediates is low + high * 2^32 (mod 2^64) and the
    emitted mov leaves it in the destination *)
Theorem C03_wide_load : forall lo hi R stk d, - 2 ^ 31 <= lo < 2 ^ 31 -> - 2 ^ 31 <= hi < 2 ^ 31 ->
  exists v, gen_jit_lddw_value lo hi = Ok v /\
  exists R' fl, run_seq (gen_jit_lddw d v) R stk = Some (XFall {| x_r := R'; x_stk := stk; x_fl := fl |})
             /\ R' d = u64 (u32 lo + u32 hi * 2 ^ 32) /\ forall r, r <> d -> R' r = R r.
Proof. exact jit_lddw_arm. Qed.

(** the epilogue (the landing of the final exit): with rsp where the prologue left it and the five words saved by the
    prologue intact, it returns with the caller's rsp, rbp, rbx, r13, r14, r15 and leaves every other register -- rax, which
    is eBPF r0, the result -- as the program left it (the prologue theorems are in C09) *)
Theorem C03_epilogue : forall R0, (forall r, 0 <= R0 r < 2 ^ 64) -> 1024 <= R0 4 -> forall R m,
  R 4 = R0 4 - 40 - (gen_jit_stack_size + 8) -> saved R0 m ->
  gen_jit_epilogue = removelast gen_jit_epilogue ++ [XRet] /\
  exists R', krun (removelast gen_jit_epilogue) (R, m) = Some (R', m) /\
    R' 4 = R0 4 /\ R' 5 = R0 5 /\ R' 3 = R0 3 /\ R' 13 = R0 13 /\ R' 14 = R0 14 /\ R' 15 = R0 15 /\
    forall r, ~ In r [3; 4; 5; 13; 14; 15] -> R' r = R r.
Proof. exact jit_epilogue. Qed.

(** non-vacuity of the mul / div / mod theorem: 100 / 7 in rdi, a division by zero, a 32-bit modulo, the empty sequence *)
Definition C03_regs (r : Z) : Z := if r =? 7 then 100 else if r =? 6 then 7 else if r =? 2 then 2 ^ 40 + 9 else 0.
Example C03_muldiv_example :
  (match run_seq (gen_jit_muldivmod 3 0x3f 6 7 0) C03_regs [55] with Some (XFall st) => (x_r st 7, x_r st 0, x_r st 2, x_stk st) | _ => (-1, 0, 0, []) end)
    = (14, 0, 2 ^ 40 + 9, [55]) /\
  (match run_seq (gen_jit_muldivmod 3 0x3f 0 7 0) C03_regs [] with Some (XGoto t st) => (t, x_r st 7) | _ => (-1, -1) end) = (4, 0) /\
  (match run_seq (gen_jit_muldivmod 3 0x9c 7 2 0) C03_regs [] with Some (XFall st) => x_r st 2 | _ => -1 end) = 9 /\
  gen_jit_muldivmod 3 0x94 6 7 0 = [] /\ List.length gen_jit_muldiv_ops = 12%nat /\
  (match run_seq (gen_jit_be16 2) C03_regs [] with Some (XFall st) => x_r st 2 | _ => -1 end) = 0x0900 /\
  gen_jit_lddw_value (-1) (-2) = Ok (-4294967297).
Proof. vm_compute. repeat split. Qed.

(** one instruction: [jrel reg R] = every x86 register is a 64-bit value and R (REGISTER_MAP[k]) = eBPF register k.  For
    every opcode the verifier accepts except the calls, under what the verifier establishes about the instruction: if the
    ISA step succeeds, the emitted sequence ends -- at the ISA's next pc, with the ISA's memory -- in a related register
    file with R10 unchanged; `exit` returns the ISA's value.  (The JIT makes no bounds check: nothing is said about steps
    the ISA refuses.  A packet-relative load with a negative immediate is excluded: the JIT sign-extends it.) *)
Theorem C03_step_simulates : forall g E i reg R next fidx stacks m st,
  ArmBase.regs_ok reg -> jrel reg R -> R 10 = e_mem_base E -> mem_ok m ->
  wf_insn i -> 0 <= dst i <= 10 -> 0 <= src i <= 10 -> In (opc i) cl_ops -> opc i <> op_call ->
  ((opc i =? op_le) || (opc i =? op_be) = true -> In (imm i) [16; 32; 64]) ->
  (opc i = op_lddw -> wf_insn (insn_at (e_prog E) next)) ->
  (opc i = op_exit -> fidx = 0) ->
  (opc i mod 8 = 0 -> 0 <= imm i) ->
  isa_exec E i reg next fidx stacks m = Ok st ->
  match st with
  | SNext (reg', pc', _, _, m') =>
      ArmBase.regs_ok reg' -> exists R', jit_exec g E i next R m = Ok (JNext R' pc' m') /\ jrel reg' R' /\ R' 10 = R 10
  | SRet r m' => jit_exec g E i next R m = Ok (JRet r m')
  end.
Proof. exact jit_exec_simulates. Qed.

(** a helper call (C08): the emitted sequence (mov rcx <- r9; push r10 twice; call; pop r10 twice) around any helper that
    honours the System V ABI -- returns in rax, keeps rbx, rbp, r12-r15, leaves [g r] (anything) in every other register --
    gives the registered function the values of r1..r5, puts its result in r0 and brings r6..r10 and R10 back; r1..r5 then
    hold the helper's garbage, which [clobber g] writes into the eBPF view *)
Theorem C03_helper_call_simulates : forall g E i reg R next m f,
  ArmBase.regs_ok reg -> jrel reg R -> env_ok E -> wf_insn i ->
  opc i = op_call -> src i = 0 -> e_helpers E (u32 (imm i)) = Some f ->
  exists R', jit_exec g E i next R m = Ok (JNext R' next m) /\
    jrel (clobber g (set_reg reg 0 (f (rd reg 1) (rd reg 2) (rd reg 3) (rd reg 4) (rd reg 5)))) R' /\ R' 10 = R 10.
Proof. exact jit_call_sim. Qed.

(** whole executions: every accepted program whose calls are helper calls, every input, every budget, every register file
    the prologue can leave (R10 = packet address, rbp = top of the 512-byte stack: C09_jit_prologue_...; all other
    registers arbitrary), every garbage [clob] the helpers may leave in the caller-saved registers.  The reference
    [isa_steps_c] is the ISA run in which r1-r5 hold that garbage after a helper call: a program "does not depend on r1-r5
    after a helper call" when its ISA result is the same for every [clob], and then this is the plain ISA result. *)
Theorem C03_run_refines : forall E m0 clob fuel R0 r m',
  bytes_ok (e_prog E) -> acc (e_prog E) -> env_ok E -> mem_ok m0 ->
  (forall k, In k (starts (e_prog E)) ->
     (opc (insn_at (e_prog E) k) = op_call ->
        src (insn_at (e_prog E) k) = 0 /\ e_helpers E (u32 (imm (insn_at (e_prog E) k))) <> None) /\
     (opc (insn_at (e_prog E) k) mod 8 = 0 -> 0 <= imm (insn_at (e_prog E) k))) ->
  (forall x, 0 <= R0 x < 2 ^ 64) -> R0 10 = e_mem_base E -> R0 (ez 10) = e_stack_base E + e_stack_len E ->
  isa_steps_c clob fuel E (regs_of R0, 0, 0, stacks0, m0) = ODone r m' ->
  jit_steps clob fuel E (R0, 0, m0) = ODone r m'.
Proof. exact jit_run_refines. Qed.

(** without helper calls the reference is the plain ISA run *)
Theorem C03_reference_without_calls : forall E clob fuel,
  (forall k, opc (insn_at (e_prog E) k) <> op_call) -> forall s, isa_steps_c clob fuel E s = isa_steps fuel E s.
Proof. exact isa_steps_c_nocall. Qed.

(** non-vacuity: the program
    ldxw r0,[r1+0]; add r0,5; stxw [r10-4],r0; mov r1,r0; call 1; ldxw r3,[r10-4]; add r0,r3; be32 r0; exit
    with helper 1 = (fun a _ _ _ _ => a + 1), on the packet 01 02 03 04, from a register file with junk in the unmapped and
    unwritten registers and junk left by the helper *)
Definition jrun_prog : list Z := hexbytes 72 0x61100000000000000700000005000000630afcff00000000bf01000000000000850000000100000061a3fcff000000000f30000000000000dc000000200000009500000000000000.
Definition jrun_helpers (k : Z) : option helper := if k =? 1 then Some (fun a _ _ _ _ => (a + 1) mod 2 ^ 64) else None.
Definition jrun_env : ienv :=
  mk_env jrun_prog jrun_helpers (usage_map jrun_prog None)
         {| r_base := 0x10000000; r_data := [] |} {| r_base := 0x20000000; r_data := [1; 2; 3; 4] |} 0x30000000 [].
Definition jrun_mem : mem :=
  mk_mem {| r_base := 0x10000000; r_data := [] |} {| r_base := 0x20000000; r_data := [1; 2; 3; 4] |} 0x30000000
         {| r_base := 0x40000000; r_data := [] |}.
Definition jrun_R0 : regs := fun x => if x =? 10 then 0x20000000 else if x =? 7 then 0x20000000 else if x =? 5 then 0x30000200 else 0xdead0000 + x.
Definition jrun_clob (f : nat) (r : Z) : Z := 0xbad00000 + Z.of_nat f * 16 + r.
Example C03_run_example :
  accb jrun_prog = true /\ bytes_okb jrun_prog = true /\ jrun_R0 10 = e_mem_base jrun_env /\
  jrun_R0 (ez 10) = e_stack_base jrun_env + e_stack_len jrun_env /\
  (exists m, isa_steps_c jrun_clob 100 jrun_env (regs_of jrun_R0, 0, 0, stacks0, jrun_mem) = ODone 0x0d040608 m /\
             jit_steps jrun_clob 100 jrun_env (jrun_R0, 0, jrun_mem) = ODone 0x0d040608 m).
Proof.
  split; [vm_compute; reflexivity|]. split; [vm_compute; reflexivity|]. split; [reflexivity|]. split; [vm_compute; reflexivity|].
  eexists. split; vm_compute; reflexivity.
Qed.

(** C03 in the property's own terms.  [isa_steps_d] (theories/DefRun.v) is the ISA run that tracks which registers hold a
    defined value -- r1 and r10 at entry; a helper call defines r0 and un-defines r1-r5 -- and stops when an instruction
    would read an undefined one ([reads], theories/IsaDef.v).  Whenever it returns (the program terminates within the
    budget, every access is in bounds, nothing undefined is read), the interpreter and the x86-64 code return that value and
    leave that memory: for every accepted program whose calls are helper calls, every input and budget, every content of
    the registers the prologue does not set and every garbage left by helpers. *)
Theorem C03_jit_agrees_with_interpreter : forall E m0 clob fuel R0 r m',
  bytes_ok (e_prog E) -> acc (e_prog E) -> env_ok E -> mem_ok m0 -> d7_free E ->
  (forall k, In k (starts (e_prog E)) ->
     (opc (insn_at (e_prog E) k) = op_call ->
        src (insn_at (e_prog E) k) = 0 /\ e_helpers E (u32 (imm (insn_at (e_prog E) k))) <> None) /\
     (opc (insn_at (e_prog E) k) mod 8 = 0 -> 0 <= imm (insn_at (e_prog E) k))) ->
  (forall x, 0 <= R0 x < 2 ^ 64) -> R0 10 = e_mem_base E ->
  R0 (ez 1) = rd (isa_init_regs E) 1 -> R0 (ez 10) = e_stack_base E + e_stack_len E ->
  isa_steps_d fuel E D0 (isa_init_regs E, 0, 0, stacks0, m0) = ODone r m' ->
  Interp.run fuel E m0 = ODone r m' /\ jit_steps clob fuel E (R0, 0, m0) = ODone r m'.
Proof. exact jit_agrees_with_interpreter. Qed.

(** what "depending on undefined state" means here: two register files that agree on the defined registers are taken by
    the same ISA step to files that agree on the registers defined afterwards, with the same next pc, memory and value *)
Theorem C03_undefined_registers_do_not_matter : forall E i D reg1 reg2 next fidx stacks m st1,
  agree D reg1 reg2 -> wf_insn i -> 0 <= dst i <= 10 -> 0 <= src i <= 10 -> In (opc i) cl_ops ->
  (opc i = op_call -> src i = 0) -> (opc i = op_exit -> fidx = 0) ->
  forallb (fun r => inl r D) (reads i) = true ->
  isa_exec E i reg1 next fidx stacks m = Ok st1 ->
  match st1 with
  | SNext (r1, pc1, f1, s1, m1) =>
      ArmBase.regs_ok r1 -> exists r2, isa_exec E i reg2 next fidx stacks m = Ok (SNext (r2, pc1, f1, s1, m1)) /\ agree (defd_after D i) r1 r2
  | SRet v m1 => isa_exec E i reg2 next fidx stacks m = Ok (SRet v m1)
  end.
Proof. exact isa_exec_agree. Qed.

(** non-vacuity of the tracked run: ldxw r0,[r1+0]; mov r2,0; mov r3,0; mov r4,0; mov r5,0; mov r1,r0; call 1; be32 r0; exit
    reads only defined registers and returns in the tracked run, the interpreter and the compiled code *)
Definition drun_prog : list Z := hexbytes 72 0x6110000000000000b702000000000000b703000000000000b704000000000000b705000000000000bf010000000000008500000001000000dc000000200000009500000000000000.
Definition drun_env : ienv :=
  mk_env drun_prog jrun_helpers (usage_map drun_prog None)
         {| r_base := 0x10000000; r_data := [] |} {| r_base := 0x20000000; r_data := [1; 2; 3; 4] |} 0x30000000 [].
Example C03_defined_run_example :
  accb drun_prog = true /\ bytes_okb drun_prog = true /\
  jrun_R0 (ez 1) = rd (isa_init_regs drun_env) 1 /\
  (exists m, isa_steps_d 100 drun_env D0 (isa_init_regs drun_env, 0, 0, stacks0, jrun_mem) = ODone 0x02020304 m /\
             Interp.run 100 drun_env jrun_mem = ODone 0x02020304 m /\
             jit_steps jrun_clob 100 drun_env (jrun_R0, 0, jrun_mem) = ODone 0x02020304 m).
Proof.
  split; [vm_compute; reflexivity|]. split; [vm_compute; reflexivity|]. split; [vm_compute; reflexivity|].
  eexists. split; [vm_compute; reflexivity|]. split; vm_compute; reflexivity.
Qed.


Print Assumptions C03_register_map.
Print Assumptions C03_jump_fixup.
Print Assumptions C03_enc_alu.
Print Assumptions C03_enc_load.
Print Assumptions C03_enc_store.
Print Assumptions C03_enc_load_imm.
Print Assumptions C03_alu_arms.
Print Assumptions C03_jump_conditions.
Print Assumptions C03_memory_accesses_regs.
Print Assumptions C03_memory_accesses_packet.
Print Assumptions C03_muldiv_arms.
Print Assumptions C03_muldiv_bytes.
Print Assumptions C03_byte_swaps.
Print Assumptions C03_wide_load.
Print Assumptions C03_epilogue.
Print Assumptions C03_jump_targets.
Print Assumptions C03_call_targets.
Print Assumptions C03_step_simulates.
Print Assumptions C03_run_refines.
Print Assumptions C03_helper_call_simulates.
Print Assumptions C03_reference_without_calls.
Print Assumptions C03_jit_agrees_with_interpreter.
Print Assumptions C03_undefined_registers_do_not_matter.
