(** C03 -- x86-64 JIT-compiled code computes the same result as the interpreter.
    PARTIAL.  The machine code emitted by src/jit.rs and its execution by the CPU are not modelled in Coq.  What is
    proved: (1) the reference the compiled code is compared with -- the interpreter -- computes exactly what the ISA
    specification defines (theorem C01, restated here), so a difference from the interpreter is a difference from the
    ISA; (2) the logic of the JIT that is independent of instruction encodings: the register map is injective and avoids
    the scratch registers, and on every accepted program each recorded jump / call target is an instruction start inside
    the table resolve_jumps indexes.  The per-opcode emission is exercised by checks/C03.py (every opcode x every register
    pair x boundary immediates / displacements x control-flow shapes x 4 VM kinds) against the interpreter. *)
From Coq Require Import ZArith List.
From RbpfV Require Import MachInt Ebpf WellFormed Verifier JitLogicProofs.
From RbpfV.gen Require Import JitLogic.
Import ListNotations.
Open Scope Z_scope.

Theorem C03_register_map :
  List.length gen_register_map = 11%nat /\ NoDup gen_register_map /\
  Forall (fun r => 0 <= r < 16 /\ ~ In r gen_jit_scratch) gen_register_map.
Proof. exact register_map_ok. Qed.

Theorem C03_jump_targets : forall p, bytes_ok p -> acc p -> forall k,
  In k (starts p) -> is_jump (opc (insn_at p k)) = true ->
  exists t, gen_jit_jump_target k (insn_at p k) = Ok t /\ In t (starts p) /\ 0 <= gen_jit_resolve_index t < nslots p + 1.
Proof. exact jit_jump_targets_in_range. Qed.

Theorem C03_call_targets : forall p, bytes_ok p -> acc p -> forall k,
  In k (starts p) -> opc (insn_at p k) = op_call -> src (insn_at p k) = 1 ->
  exists t, gen_jit_call_target k (insn_at p k) = Ok t /\ In t (starts p) /\ 0 <= gen_jit_resolve_index t < nslots p + 1.
Proof. exact jit_call_targets_in_range. Qed.

Print Assumptions C03_register_map.
Print Assumptions C03_jump_targets.
Print Assumptions C03_call_targets.
