(** C05 -- a program accepted by the default verifier can never crash the interpreter.
    Proof: theories/InterpProofs.v (invariant [Inv], preserved by every step of the regenerated loop;
    the verifier facts it rests on come from C06's theorem over the regenerated verifier). *)
From Coq Require Import ZArith List Bool.
From RbpfV Require Import MachInt Ebpf Cases Mem InterpDefs WellFormed Verifier Isa MemLemmas Interp InterpProofs.
From RbpfV.gen Require Import Interp.
Import ListNotations.
Open Scope Z_scope.

(** For every byte string the verifier model accepts, every user-space environment (packet,
    metadata, ranges, any helper set, any stack-usage map), every initial memory and every budget,
    the run ends with a value, an error value or an exhausted budget -- never a panic (which is how
    the model represents reading outside the program, reaching `unreachable!()`, indexing a
    non-existent register or frame, and every arithmetic overflow of a debug build). *)
Theorem C05_no_crash : forall E m0 fuel,
  bytes_ok (e_prog E) -> acc (e_prog E) -> env_ok E -> mem_ok m0 -> run fuel E m0 <> OPanic.
Proof. exact interp_never_panics. Qed.

(** the invariant behind it: every reachable state executes a real instruction of the program
    (never the second half of a wide load, never past the end), with a well-formed register file
    and frame stack *)
Theorem C05_step_safe : forall E s,
  bytes_ok (e_prog E) -> acc (e_prog E) -> env_ok E -> Inv E s ->
  match gen_interp_loop_body E s with
  | Ok (Next s') => Inv E s' | Ok (Ret _) => True | Err _ => True | Panic _ => False | OutOfFuel => False
  end.
Proof. intros E s Hb Ha He. exact (body_safe E Hb Ha He s). Qed.

Print Assumptions C05_no_crash.
Print Assumptions C05_step_safe.
