(** C01 -- the interpreter returns the value the eBPF ISA defines.
    [run] drives coq/gen/Interp.v (interpreter.rs regenerated: check_mem, register initialisation,
    every arm of the instruction loop); [isa_run] is the specification theories/Isa.v.
    Proofs: theories/InterpArms*.v, theories/InterpProofs.v. *)
From Coq Require Import ZArith List Bool.
From RbpfV Require Import MachInt Ebpf Cases Mem InterpDefs WellFormed Verifier Isa MemLemmas Interp InterpProofs
  Stack Helpers.
From RbpfV.gen Require Import Interp.
Import ListNotations.
Open Scope Z_scope.

(** For every accepted program, every environment of a user-space execution (any packet,
    metadata buffer, registered ranges, helper set, stack-usage map), every initial memory and
    every instruction budget: the interpreter's outcome -- returned value and final bytes, or error
    kind and bytes at that point, or budget exhaustion -- is the ISA's.
    [d7_free] excludes exactly the instruction forms of known finding D7 (below). *)
Theorem C01_interp_refines_isa : forall E m0 fuel,
  bytes_ok (e_prog E) -> acc (e_prog E) -> env_ok E -> mem_ok m0 -> d7_free E ->
  run fuel E m0 = isa_run fuel E m0.
Proof. exact interp_refines_isa. Qed.

(** one iteration of the regenerated loop is one ISA step, on every reachable state *)
Theorem C01_step_refines : forall E s,
  bytes_ok (e_prog E) -> acc (e_prog E) -> env_ok E -> Inv E s ->
  (let '(_, pc, _, _, _) := s in no_d7 (insn_at (e_prog E) pc)) ->
  gen_interp_loop_body E s = ArmBase.conv (isa_step E s).
Proof. intros E s Hb Ha He. exact (body_refines E Hb Ha He s). Qed.

(** known finding D7 is real and is exactly this class: `lddw r1, -2 ; jeq r1, -2, +1 ; mov r0, 1 ;
    exit ; mov r0, 2 ; exit` is accepted, the ISA takes the branch (r0 = 2), the interpreter
    does not (r0 = 1) *)
Definition d7_prog : list Z :=
  hexbytes 56 0x18010000feffffff00000000ffffffff15010200feffffffb7000000010000009500000000000000b7000000020000009500000000000000.
Definition d7_env : ienv :=
  mk_env d7_prog (fun _ => None) (usage_map d7_prog None)
         {| r_base := 0x10000000; r_data := [] |} {| r_base := 0x20000000; r_data := [] |} 0x30000000 [].
Definition d7_mem : mem :=
  mk_mem {| r_base := 0x10000000; r_data := [] |} {| r_base := 0x20000000; r_data := [] |} 0x30000000
         {| r_base := 0x40000000; r_data := [] |}.

Theorem C01_known_D7_witness :
  accb d7_prog = true /\
  (exists r m, run 10 d7_env d7_mem = ODone r m /\ r = 1) /\
  (exists r m, isa_run 10 d7_env d7_mem = ODone r m /\ r = 2) /\
  ~ d7_free d7_env.
Proof.
  split; [vm_compute; reflexivity|]. split; [eexists; eexists; split; [vm_compute; reflexivity|reflexivity]|].
  split; [eexists; eexists; split; [vm_compute; reflexivity|reflexivity]|].
  intros H. specialize (H 2). unfold no_d7 in H.
  assert (In 2 (starts (e_prog d7_env))) as S by (vm_compute; auto).
  specialize (H S). assert (In (opc (insn_at (e_prog d7_env) 2)) L_jimm) as J by (vm_compute; auto).
  specialize (H J). vm_compute in H. apply H. reflexivity.
Qed.

(** non-vacuity: a program with a negative immediate in a signed jump, a shift by 65 and a
    backward edge meets every hypothesis and returns *)
Definition ex_prog : list Z := hexbytes 72 0xb700000000000000b7010000030000000700000005000000bf02000000000000670200004100000007010000ffffffff6501fbffffffffff0f200000000000009500000000000000.
Definition ex_env : ienv :=
  mk_env ex_prog (fun _ => None) (usage_map ex_prog None)
         {| r_base := 0x10000000; r_data := [] |} {| r_base := 0x20000000; r_data := [1; 2; 3; 4] |} 0x30000000 [].
Definition ex_mem : mem :=
  mk_mem {| r_base := 0x10000000; r_data := [] |} {| r_base := 0x20000000; r_data := [1; 2; 3; 4] |} 0x30000000
         {| r_base := 0x40000000; r_data := [] |}.
Example C01_example :
  accb ex_prog = true /\ bytes_okb ex_prog = true /\
  (forall k, In k (starts ex_prog) -> inb (opc (insn_at ex_prog k)) L_jimm = false) /\
  exists r m, run 100 ex_env ex_mem = ODone r m /\ isa_run 100 ex_env ex_mem = ODone r m.
Proof.
  split; [vm_compute; reflexivity|]. split; [vm_compute; reflexivity|]. split.
  - intros k Hk. vm_compute in Hk. repeat (destruct Hk as [<-|Hk]; [vm_compute; reflexivity|]). destruct Hk.
  - eexists; eexists. split; vm_compute; reflexivity.
Qed.

Print Assumptions C01_interp_refines_isa.
Print Assumptions C01_step_refines.
Print Assumptions C01_known_D7_witness.
