(** C01 -- placeholder until InterpProofs is in place *)
From RbpfV Require Import Isa Interp.
