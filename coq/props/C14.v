(** C14 -- the assembler is total: any text yields Ok or Err, never a panic.
    Statement only; proofs in theories/AsmProofs.v.  The model is: the parser of src/asm_parser.rs hand-modelled
    with the semantics of the combine crate (theories/AsmParser.v), the functions of src/assembler.rs regenerated
    on every run (coq/gen/Asm.v: instruction map, insn, operands_tuple, encode, the lddw second slot incl. its
    `operands[1]` indexing and `.unwrap()`), the encoder regenerated from src/ebpf.rs (coq/gen/Codec.v), and the
    glue loop of assemble_internal/assemble (theories/AsmModel.v). *)
From Coq Require Import ZArith List String.
From RbpfV Require Import MachInt Ebpf AsmDefs AsmParser AsmModel AsmProofs.
Import ListNotations.
Open Scope Z_scope.

(** For every classification of the non-ASCII characters and every input string (list of Unicode scalar values):
    the result is Ok or Err -- not a panic (integer parsing, sign multiplication, operands[1], insn().unwrap()),
    and not fuel exhaustion (the parser's repetitions terminate within the length of the input). *)
Theorem C14_assemble_total : forall (U : uclass) (s : list Z),
  match assemble U s with Ok _ | Err _ => True | Panic _ | OutOfFuel => False end.
Proof. exact assemble_total. Qed.

(** the parser alone: total, and every operand it returns is a 64-bit value (register numbers non-negative) *)
Theorem C14_parse_total : forall (U : uclass) (s : list Z),
  match parse U s with Ok is => Forall instr_ok is | Err _ => True | _ => False end.
Proof. exact parse_total. Qed.

(** non-vacuity: the model assembles real text, and rejects (as Err) literals beyond 64 bits and the most negative
    hexadecimal literal overflow *)
Definition U_ascii : uclass := {| u_alnum := fun _ => false; u_alpha := fun _ => false; u_space := fun _ => false |}.
Definition cps (s : string) : list Z := Fmt.bytes_of_string s.
Example C14_example :
  assemble U_ascii (cps "lddw r1, -0x8000000000000000
                         exit") = Ok [0x18; 1; 0; 0; 0; 0; 0; 0;  0; 0; 0; 0; 0; 0; 0; 0x80;  0x95; 0; 0; 0; 0; 0; 0; 0]
  /\ assemble U_ascii (cps "mov r1, 99999999999999999999999999999999999999") = Err 0
  /\ assemble U_ascii (cps "mov r1, 0x10000000000000000") = Err 0
  /\ assemble U_ascii (cps "mov r99999999999999999999, 1") = Err 0
  /\ assemble U_ascii (cps "lddw r1") = Err 0.
Proof. vm_compute. repeat split. Qed.

Print Assumptions C14_assemble_total.
Print Assumptions C14_parse_total.
