(** C15 -- disassembly reports every instruction's true fields and never panics.
    Statements only; proofs live in theories/DisasmProofs.v over the model regenerated from
    src/disassembler.rs (coq/gen/Disasm.v) and the decoder regenerated from src/ebpf.rs (coq/gen/Codec.v).
    The specification (mnemonic table, operand rendering, merging of wide loads) is theories/DisasmSpec.v. *)
From Coq Require Import ZArith List String.
From RbpfV Require Import MachInt Ebpf Fmt DisasmDefs DisasmSpec DisasmProofs.
From RbpfV.gen Require Import Codec Disasm.
Import ListNotations.
Open Scope Z_scope.

(** For every byte string made of whole instructions on which the specification is defined (supported
    opcodes, wide loads followed by their second half, call kinds 0/1 -- [hl_list] returns [Some]), the
    disassembler returns exactly the specified entries: one per instruction, wide loads merged, fields equal
    to the decoded fields, name = the opcode's mnemonic, text = the operands in assembler syntax.
    In particular the result is [Ok]: no panic, for every offset (including -32768) and immediate. *)
Theorem C15_disassembly_is_specified : forall p t,
  bytes_ok p -> len p mod 8 = 0 -> len p < 2 ^ 63 ->
  hl_list (decode_all p) = Some t ->
  forall fuel, (Z.to_nat (nsl p) < fuel)%nat -> gen_to_insn_vec fuel p = Ok t.
Proof. exact disasm_correct. Qed.

Theorem C15_never_panics : forall p,
  bytes_ok p -> len p mod 8 = 0 -> len p < 2 ^ 63 -> hl_list (decode_all p) <> None ->
  exists t, gen_to_insn_vec (S (Z.to_nat (nsl p))) p = Ok t.
Proof.
  intros p Hb Hm Hx Hn. destruct (hl_list (decode_all p)) as [t|] eqn:E; [|contradiction].
  exists t. apply disasm_correct; auto.
Qed.

(** what an entry holds *)
Theorem C15_entry_fields : forall name sh i x,
  let h := hl_entry name sh i x in
  h_opc h = opc i /\ h_dst h = dst i /\ h_src h = src i /\ h_off h = off i /\ h_imm h = x /\ h_name h = name
  /\ h_desc h = render name sh i x.
Proof. intros. repeat split. Qed.

(** non-vacuity: a program with a negative-most offset, a negative immediate, a wide load with both sign
    bits set, a local call and an exit is in the domain and disassembles as specified *)
Example C15_example :
  let p := [0x7b; 0xa1; 0x00; 0x80; 0; 0; 0; 0;               (* stxdw [r1-0x8000], r10 *)
            0xb4; 0x0f; 0; 0; 0xff; 0xff; 0xff; 0xff;          (* mov32 r15, 0xffffffff *)
            0x18; 0x03; 0; 0; 0x01; 0; 0; 0x80;  0; 0; 0; 0; 0xef; 0xbe; 0xad; 0xde;   (* lddw r3, 0xdeadbeef80000001 *)
            0x85; 0x10; 0; 0; 0x02; 0; 0; 0;                   (* callx 0x2 *)
            0x05; 0; 0x00; 0x80; 0; 0; 0; 0;                   (* ja -0x8000 *)
            0x95; 0; 0; 0; 0; 0; 0; 0] in
  bytes_okb p = true /\ len p mod 8 = 0 /\
  option_map (map h_desc) (hl_list (decode_all p)) =
    Some ["stxdw [r1-0x8000], r10"; "mov32 r15, 0xffffffff"; "lddw r3, 0xdeadbeef80000001"; "callx 0x2"; "ja -0x8000"; "exit"]%string /\
  option_map (map h_imm) (hl_list (decode_all p)) = Some [0; -1; -2401053090464661503; 2; 0; 0] /\
  (exists t, gen_to_insn_vec 10 p = Ok t /\ hl_list (decode_all p) = Some t).
Proof. vm_compute. repeat split. eexists. split; reflexivity. Qed.

Print Assumptions C15_disassembly_is_specified.
Print Assumptions C15_never_panics.
Print Assumptions C15_entry_fields.
