(** C10 -- loading, verifying and compiling stay consistent over any history of API calls.
    theories/VmApi.v: implementation state machine, abstract specification, refinement.  The state machine is tied to the
    code twice: the effect lists of the state-changing methods are regenerated from lib.rs (coq/gen/ApiFx.v) and running
    them in program order is proved equal to it (C10_model_is_the_code, theories/ApiFxProofs.v); and checks/C10.py compares
    it with the real VM kinds on histories of calls. *)
From Coq Require Import ZArith List Bool.
From RbpfV Require Import VmApi ApiFx ApiFxProofs.
From RbpfV.gen Require Import ApiFx.
Import ListNotations.
Open Scope Z_scope.

Section C10.
Variables (prog vf helpers : Type) (accepts : vf -> prog -> bool) (vdefault : vf)
          (hadd : helpers -> Z -> helpers) (value : prog -> helpers -> Z + unit) (compilable : prog -> helpers -> bool).

(** for every VM produced by [new] and every finite history of calls, the implementation answers
    exactly as the specification in which compiled code is a function of the loaded program *)
Theorem C10_refinement : forall p h0 i ops,
  i_new prog vf accepts vdefault helpers p h0 = Some i ->
  i_run prog vf accepts helpers hadd value compilable i ops
  = a_run prog vf accepts helpers hadd value compilable (abs prog vf helpers i) ops.
Proof. exact (new_refines prog vf accepts vdefault helpers hadd value compilable). Qed.

(** a set_program / set_verifier call that returns an error leaves the VM exactly as before *)
Theorem C10_failed_call_is_noop : forall a o,
  snd (a_step prog vf accepts helpers hadd value compilable a o) = RErrVerifier ->
  fst (a_step prog vf accepts helpers hadd value compilable a o) = a.
Proof. exact (failed_call_is_noop prog vf accepts helpers hadd value compilable). Qed.

(** the loaded program was accepted by the verifier in force (when loaded, or when the verifier was installed) *)
Theorem C10_loaded_is_verified : forall a o,
  a_inv prog vf accepts helpers a -> a_inv prog vf accepts helpers (fst (a_step prog vf accepts helpers hadd value compilable a o)).
Proof. exact (a_inv_step prog vf accepts helpers hadd value compilable). Qed.

(** the hand-written state machine is what lib.rs does: for set_program, set_verifier, register_helper,
    set_stack_usage_calculator, jit_compile and cranelift_compile of EbpfVmMbuff (to which the other VM kinds delegate, or whose
    effects they repeat -- checked by the translator), executing the regenerated effects in order, stopping at the first
    failing step with the state as it is then, gives the state and answer of [i_step] *)
Theorem C10_model_is_the_code : forall s,
  (forall p, fx_call prog vf accepts helpers hadd compilable gen_fx_set_program (AProg prog vf p) s
             = i_step prog vf accepts helpers hadd value compilable s (OSetProgram prog vf p)) /\
  (forall v, fx_call prog vf accepts helpers hadd compilable gen_fx_set_verifier (AVf prog vf v) s
             = i_step prog vf accepts helpers hadd value compilable s (OSetVerifier prog vf v)) /\
  (forall id, fx_call prog vf accepts helpers hadd compilable gen_fx_register_helper (AId prog vf id) s
             = i_step prog vf accepts helpers hadd value compilable s (ORegisterHelper prog vf id)) /\
  fx_call prog vf accepts helpers hadd compilable gen_fx_set_stack_usage_calculator (ANone prog vf) s
    = i_step prog vf accepts helpers hadd value compilable s (OSetCalc prog vf) /\
  fx_call prog vf accepts helpers hadd compilable gen_fx_jit_compile (ANone prog vf) s
    = i_step prog vf accepts helpers hadd value compilable s (OJitCompile prog vf) /\
  fx_call prog vf accepts helpers hadd compilable gen_fx_cranelift_compile (ANone prog vf) s
    = i_step prog vf accepts helpers hadd value compilable s (OCraneliftCompile prog vf).
Proof. exact (fx_is_api prog vf accepts helpers hadd value compilable). Qed.

(** executions never change the state *)
Theorem C10_execution_is_pure : forall a o, o = OExec prog vf \/ o = OExecJit prog vf \/ o = OExecCranelift prog vf ->
  fst (a_step prog vf accepts helpers hadd value compilable a o) = a.
Proof. exact (exec_pure prog vf accepts helpers hadd value compilable). Qed.
End C10.

Print Assumptions C10_refinement.
Print Assumptions C10_failed_call_is_noop.
Print Assumptions C10_loaded_is_verified.
Print Assumptions C10_execution_is_pure.
Print Assumptions C10_model_is_the_code.
