(** C10 -- loading, verifying and compiling stay consistent over any history of API calls.
    theories/VmApi.v: implementation state machine (program, verifier, helpers, compiled code of both engines, stack-usage
    calculator and the frame-size table), abstract specification, refinement.  The state machine is tied to the code twice:
    the effect lists of the state-changing methods are regenerated from lib.rs (coq/gen/ApiFx.v) and running them in program
    order is proved equal to it (C10_model_is_the_code, theories/ApiFxProofs.v); and checks/C10.py compares it with the real
    VM kinds on histories of calls. *)
From Coq Require Import ZArith List Bool.
From RbpfV Require Import VmApi ApiFx ApiFxProofs.
From RbpfV.gen Require Import ApiFx.
Import ListNotations.
Open Scope Z_scope.

Section C10.
Variables (prog vf helpers calc : Type) (accepts : vf -> prog -> bool) (vdefault : vf)
          (hadd : helpers -> Z -> helpers) (cdefault : calc)
          (value : prog -> helpers -> option (prog * calc) -> Z + unit) (cvalue : prog -> helpers -> Z + unit)
          (compilable : prog -> helpers -> bool).
Notation i_run' := (i_run prog vf accepts helpers hadd calc value cvalue compilable).
Notation i_step' := (i_step prog vf accepts helpers hadd calc value cvalue compilable).
Notation a_run' := (a_run prog vf accepts helpers hadd calc value cvalue compilable).
Notation a_step' := (a_step prog vf accepts helpers hadd calc value cvalue compilable).
Notation fx_call' := (fx_call prog vf accepts helpers hadd calc compilable).

(** for every VM produced by [new] and every finite history of calls, the implementation answers exactly as the
    specification in which compiled code is a function of the loaded program and the interpreter runs the loaded program
    with the frame sizes of that program under the calculator most recently installed *)
Theorem C10_refinement : forall p h0 i ops,
  i_new prog vf accepts vdefault helpers calc cdefault p h0 = Some i ->
  i_run' i ops = a_run' (abs prog vf helpers calc i) ops.
Proof. exact (new_refines prog vf accepts vdefault helpers hadd calc cdefault value cvalue compilable). Qed.

(** a set_program / set_verifier call that returns an error leaves the VM exactly as before *)
Theorem C10_failed_call_is_noop : forall a o,
  snd (a_step' a o) = RErrVerifier -> fst (a_step' a o) = a.
Proof. exact (failed_call_is_noop prog vf accepts helpers hadd calc value cvalue compilable). Qed.

(** the loaded program was accepted by the verifier in force (when loaded, or when the verifier was installed) *)
Theorem C10_loaded_is_verified : forall a o,
  a_inv prog vf accepts helpers calc a -> a_inv prog vf accepts helpers calc (fst (a_step' a o)).
Proof. exact (a_inv_step prog vf accepts helpers hadd calc value cvalue compilable). Qed.

(** the hand-written state machine is what lib.rs does: for set_program, set_verifier, register_helper,
    set_stack_usage_calculator, jit_compile and cranelift_compile of EbpfVmMbuff (to which the other VM kinds delegate, or whose
    effects they repeat -- checked by the translator), executing the regenerated effects in order, stopping at the first
    failing step with the state as it is then, gives the state and answer of [i_step] -- the frame-size table included: it is
    computed from the program being loaded with the calculator in force, and recomputed for the loaded program when a
    calculator is installed *)
Theorem C10_model_is_the_code : forall s,
  (forall p, fx_call' gen_fx_set_program (AProg prog vf calc p) s = i_step' s (OSetProgram prog vf calc p)) /\
  (forall v, fx_call' gen_fx_set_verifier (AVf prog vf calc v) s = i_step' s (OSetVerifier prog vf calc v)) /\
  (forall id, fx_call' gen_fx_register_helper (AId prog vf calc id) s = i_step' s (ORegisterHelper prog vf calc id)) /\
  (forall c, fx_call' gen_fx_set_stack_usage_calculator (ACalc prog vf calc c) s = i_step' s (OSetCalc prog vf calc c)) /\
  fx_call' gen_fx_jit_compile (ANone prog vf calc) s = i_step' s (OJitCompile prog vf calc) /\
  fx_call' gen_fx_cranelift_compile (ANone prog vf calc) s = i_step' s (OCraneliftCompile prog vf calc).
Proof. exact (fx_is_api prog vf accepts helpers hadd calc value cvalue compilable). Qed.

(** executions never change the state *)
Theorem C10_execution_is_pure : forall a o, o = OExec prog vf calc \/ o = OExecJit prog vf calc \/ o = OExecCranelift prog vf calc ->
  fst (a_step' a o) = a.
Proof. exact (exec_pure prog vf accepts helpers hadd calc value cvalue compilable). Qed.

(** the interpreter's answer depends on the loaded program, the helpers and the calculator in force -- never on a program
    loaded before or on the order of the calls that led there *)
Theorem C10_interpreter_uses_the_loaded_programs_frames : forall a p,
  a_loaded prog vf helpers calc a = Some p ->
  snd (a_step' a (OExec prog vf calc))
  = exec_out (value p (a_helpers prog vf helpers calc a) (Some (p, a_calc prog vf helpers calc a))).
Proof. exact (exec_uses_loaded_frames prog vf accepts helpers hadd calc value cvalue compilable). Qed.
End C10.

Print Assumptions C10_refinement.
Print Assumptions C10_failed_call_is_noop.
Print Assumptions C10_loaded_is_verified.
Print Assumptions C10_execution_is_pure.
Print Assumptions C10_model_is_the_code.
Print Assumptions C10_interpreter_uses_the_loaded_programs_frames.
