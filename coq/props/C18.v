(** C18 -- atomic add really is atomic under concurrent executions.
    theories/AtomicSpec.v: the interleaving theorem; coq/gen/Atomic.v: which primitive each engine's
    XADD arm uses (regenerated from the sources); the single-thread effect and the alignment error are
    the xadd arms of C01/C02 (theories/InterpArmsMem.v).
    PARTIAL: that `fetch_add` / `lock add` / Cranelift `atomic_rmw add` are indivisible is the
    guarantee of the hardware and of the compilers, not proved. *)
From Coq Require Import ZArith List Bool.
From RbpfV Require Import MachInt Ebpf Mem InterpDefs Isa ArmBase MemLemmas InterpArmsMem AtomicSpec.
From RbpfV.gen Require Import Interp Atomic.
Import ListNotations.
Open Scope Z_scope.

(** for every number of threads, every list of addends per thread and every interleaving: when all
    adds are indivisible steps the final word is init + sum of all addends (mod 2^w) -- none is lost *)
Theorem C18_atomic_sum : forall w init ts sched word' ts', 0 <= w -> 0 <= init < 2 ^ w ->
  run_atomic w init ts sched = (word', ts') -> total ts' = 0 -> Forall (fun l => l = []) ts' ->
  word' = (init + total ts) mod 2 ^ w /\ 0 <= word' < 2 ^ w.
Proof. exact atomic_sum. Qed.

(** the property discriminates: a load/store pair in place of the atomic step loses updates *)
Theorem C18_split_rmw_loses : exists ts sched, run_split 64 0 ts sched = 1 /\
  zsum (map (fun th => zsum (pending th)) ts) = 2.
Proof. exact split_loses_update. Qed.

(** which model describes the code: every engine's XADD arm uses an atomic read-modify-write *)
Theorem C18_engines_use_atomic_rmw :
  gen_interp_st_w_xadd_atomic = true /\ gen_interp_st_dw_xadd_atomic = true /\
  gen_jit_st_w_xadd_lock_add = true /\ gen_jit_st_dw_xadd_lock_add = true /\ gen_cl_xadd_atomic_rmw = true.
Proof. repeat split; reflexivity. Qed.

(** single execution: the word gets src truncated to the width added, no other byte changes, a
    misaligned address is an error that leaves memory unchanged (the interpreter arms = ISA arms) *)
Theorem C18_single_thread_effect : forall E i reg next fidx stacks m o,
  wf_insn i -> regs_ok reg -> env_ok E -> mem_ok m -> In o [0xc3; 0xdb] -> opc i = o ->
  gen_interp_arm o E i (cast USZ (dst i)) (cast USZ (src i)) reg next fidx stacks m
  = conv (isa_exec E i reg next fidx stacks m).
Proof. intros. now apply xadd_arms. Qed.

Print Assumptions C18_atomic_sum.
Print Assumptions C18_split_rmw_loses.
Print Assumptions C18_engines_use_atomic_rmw.
Print Assumptions C18_single_thread_effect.
