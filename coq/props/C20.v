(** C20 -- behaviour is the same with and without the standard library.
    There is no theorem specific to C20: the models over which C01/C02/C05/C06/C17 are proved are
    regenerated from regions of the source that contain no code selected by the `std` feature
    (checks/C20.py verifies this on every run), so those theorems describe both builds; the
    cfg-dependent glue (error type, `easy_parse` vs `parse`, JIT memory) is compared by running the
    two builds on the same corpora. *)
From RbpfV Require Import Verifier Interp.
