(** C20 -- behaviour is the same with and without the standard library.
    PARTIAL.  (1) The models over which C01/C02/C05/C06/C17 are proved are regenerated from regions of the source that
    contain no code selected by the `std` feature (checks/C20.py verifies this on every run), so those theorems describe
    both builds.  (2) The cfg-dependent JIT glue is modelled from both of its versions (coq/gen/JitMem.v, coq/gen/LibWrap.v;
    theories/JitMemProofs.v): the two JitMemory::new compute the same buffer size and make the same passes, the no_std one
    refuses caller-supplied memory exactly when it is too short or not page-aligned, and every VM kind compiles with the same
    flags in both builds.  (3) The rest of the cfg-dependent glue (error type, `easy_parse` vs `parse`, hash maps) is compared
    by running the two builds on the same corpora. *)
From Coq Require Import ZArith Bool.
From Coq Require Import List.
From RbpfV Require Import MachInt Verifier Interp JitMemProofs ApiFx ApiFxProofs.
From RbpfV.gen Require Import JitMem LibWrap ApiFx.
Import ListNotations.
Open Scope Z_scope.

(** both builds size the code buffer alike: a multiple of the page size, at least one page, at least the code length *)
Theorem C20_jit_memory_size : forall code_len, 0 <= code_len -> code_len + 8192 < 2 ^ 64 ->
  gen_jit_mem_size_no_std code_len = gen_jit_mem_size_std code_len /\
  exists size, gen_jit_mem_size_std code_len = Ok size /\ size mod 4096 = 0 /\ code_len <= size /\ 4096 <= size.
Proof. exact mem_size_both. Qed.

(** the no_std build turns the caller's memory down exactly when it is shorter than that size or not page-aligned: memory
    such as the default build allocates for itself (page-aligned, of that size) is always accepted *)
Theorem C20_no_std_memory_refusal : forall ptr len size,
  gen_jit_mem_refuses_no_std ptr len size = Ok ((len <? size) || negb (ptr mod 4096 =? 0)).
Proof. exact no_std_refusal. Qed.
Theorem C20_no_std_accepts_what_std_allocates : forall ptr len size,
  ptr mod 4096 = 0 -> size <= len -> gen_jit_mem_refuses_no_std ptr len size = Ok false.
Proof. exact no_std_accepts_aligned. Qed.

(** each VM kind asks for the same prologue variant in both builds *)
Theorem C20_jit_flags_agree :
  gen_jit_flags_mbuff_no_std = gen_jit_flags_mbuff /\ gen_jit_flags_fixed_no_std = gen_jit_flags_fixed /\
  gen_jit_flags_raw_no_std = gen_jit_flags_raw /\ gen_jit_flags_nodata_no_std = gen_jit_flags_nodata.
Proof. exact jit_flags_agree. Qed.

(** the state-changing API methods have the same effects in both builds; the only difference is that the no_std jit_compile
    takes the caller-supplied executable memory, and it does so after checking that a program is loaded *)
Theorem C20_api_effects_agree :
  gen_fx_set_program_no_std = gen_fx_set_program /\ gen_fx_set_verifier_no_std = gen_fx_set_verifier /\
  gen_fx_register_helper_no_std = gen_fx_register_helper /\
  gen_fx_set_stack_usage_calculator_no_std = gen_fx_set_stack_usage_calculator /\
  gen_fx_cranelift_compile_no_std = gen_fx_cranelift_compile /\
  filter not_take gen_fx_jit_compile_no_std = gen_fx_jit_compile /\
  (exists rest, gen_fx_jit_compile_no_std = FxRequireProg :: FxTakeExecMem :: rest).
Proof. exact no_std_effects_agree. Qed.

(** set_jit_exec_memory (every VM kind; exists only without std) stores the caller's memory and does nothing else: run against
    the API state machine of C10 it leaves program, verifier, helpers, frame sizes and compiled code as they are, so code
    compiled earlier keeps running, as in the default build where the call does not exist *)
Theorem C20_exec_memory_setter_is_neutral :
  gen_fx_set_jit_exec_memory_no_std = [FxSetExecMem] /\
  forall (prog vf helpers calc : Type) (accepts : vf -> prog -> bool) (hadd : helpers -> Z -> helpers)
         (compilable : prog -> helpers -> bool) (a : arg prog vf calc) (s : VmApi.ist prog vf helpers calc),
    fx_call prog vf accepts helpers hadd calc compilable gen_fx_set_jit_exec_memory_no_std a s = (s, VmApi.RUnit).
Proof. exact exec_memory_setter_is_neutral. Qed.

Print Assumptions C20_jit_memory_size.
Print Assumptions C20_api_effects_agree.
Print Assumptions C20_exec_memory_setter_is_neutral.
Print Assumptions C20_no_std_memory_refusal.
Print Assumptions C20_no_std_accepts_what_std_allocates.
Print Assumptions C20_jit_flags_agree.
