(** C11 -- Cranelift-compiled code never touches memory outside the program's regions.
    Statements only; proofs in theories/ClirProofs.v over the IR that src/cranelift.rs builds in insert_bounds_check
    and in the prelude, regenerated on every run (coq/gen/Clir.v).  The semantics of the IR instructions is the model
    theories/ClirSem.v; that Cranelift's code generator implements it is trusted and exercised by the correspondence. *)
From Coq Require Import ZArith String List.
From RbpfV Require Import Mem Stack Helpers InterpDefs Isa MemLemmas ClAluProofs ClJmpProofs ClStep.
From RbpfV Require Import MachInt Ebpf ClirSem ClirProofs ClMemProofs.
From RbpfV.gen Require Import Clir ClMem.
Open Scope Z_scope.

(** For every base value, 16-bit offset, access width 1..8 and values of the region variables: execution continues past
    the check exactly when the access [a, a+size) with a = (base + offset) mod 2^64 does not wrap and lies entirely in the
    stack, or in the packet data (when present), or in the metadata buffer (when present); otherwise it traps. *)
Theorem C11_bounds_check : forall V size base off,
  vars_ok V -> u64 base -> - 2 ^ 15 <= off < 2 ^ 15 -> 0 < size <= 8 ->
  gen_bounds_check V size base off = true <-> access_allowed V ((base + off) mod 2 ^ 64) size.
Proof. exact bounds_check_iff. Qed.

(** the region variables are the function's parameters: [mem, mem+len), [mbuf, mbuf+len) and the 512-byte stack slot *)
Theorem C11_regions : forall p0 p1 p2 p3 ss sz,
  u64 p0 -> 0 <= p1 -> p0 + p1 < 2 ^ 64 -> u64 p2 -> 0 <= p3 -> p2 + p3 < 2 ^ 64 -> u64 ss -> 0 <= sz -> ss + sz < 2 ^ 64 ->
  let V := gen_prelude_vars p0 p1 p2 p3 ss sz in
  v_stack_start V = ss /\ v_stack_end V = ss + sz /\ v_mem_start V = p0 /\ v_mem_end V = p0 + p1 /\
  v_mbuf_start V = p2 /\ v_mbuf_end V = p2 + p3 /\ vars_ok V.
Proof. exact prelude_vars. Qed.

(** reg_load, reg_store and reg_atomic_add each begin with the check, on the type, base and offset of the access that follows *)
Theorem C11_check_precedes_access :
  gen_reg_load_access = ("ty", "base", "offset")%string /\
  gen_reg_store_access = ("ty", "base", "offset")%string /\
  gen_reg_atomic_add_access = ("ty", "base", "offset")%string.
Proof. exact accesses_are_the_checked_ones. Qed.

(** which accesses the instructions make: for each of the 22 load / store / atomic-add opcodes, width and effective address
    (the three values handed to the check) are the ISA's -- absolute / indirect loads address packet start + immediate
    [+ source register] and pass offset 0 *)
Theorem C11_checked_access_is_the_isa_access : forall i rd rs mb,
  0 <= rd < 2 ^ 64 -> 0 <= rs < 2 ^ 64 -> 0 <= mb < 2 ^ 64 -> - 2 ^ 15 <= off i < 2 ^ 15 -> - 2 ^ 31 <= imm i < 2 ^ 31 ->
  Forall (fun o => access_matches o i rd rs mb) cl_mem_ops.
Proof. exact cl_mem_arms. Qed.

(** non-vacuity: with a 32-byte packet at 0x1000, no metadata buffer and the stack at 0x8000, an 8-byte access at the last
    8 bytes passes, one byte further traps, and so does an access wrapping the address space *)
(** as a property of the compiled step (ClStep.cl_exec: the regenerated memory arm behind the regenerated bounds check, over
    the regions of the regenerated prelude): a load, store or atomic add either completes having made its access -- the ISA's
    width at the ISA's address -- entirely inside the stack, the packet (when present) or the metadata buffer (when present)
    and without wrapping, or traps (Err ETrap) before touching memory, exactly when the access is not of that kind *)
Theorem C11_compiled_step_safe : forall E, env_ok E -> forall i reg next fidx stacks m,
  wf_insn i -> ArmBase.regs_ok reg -> In (opc i) cl_mem_ops ->
  let a := gen_cl_mem (opc i) i (rd reg (dst i)) (rd reg (src i)) (cl_p0 E) in
  (exists st, cl_exec E i reg next fidx stacks m = Ok st /\ access_allowed (clV E) ((a_base a + a_off a) mod 2 ^ 64) (a_bytes a))
  \/ (cl_exec E i reg next fidx stacks m = Err ETrap /\ ~ access_allowed (clV E) ((a_base a + a_off a) mod 2 ^ 64) (a_bytes a)).
Proof. exact cl_exec_mem_safe. Qed.

Example C11_example :
  let V := gen_prelude_vars 0x1000 32 0 0 0x8000 512 in
  gen_bounds_check V 8 0x1000 24 = true /\ gen_bounds_check V 8 0x1000 25 = false /\
  gen_bounds_check V 8 (2 ^ 64 - 4) 0 = false /\ gen_bounds_check V 1 0x8200 (-1) = true /\ gen_bounds_check V 1 0x8200 0 = false
  /\ gen_bounds_check V 4 0 0 = false.
Proof. vm_compute. repeat split. Qed.

Print Assumptions C11_bounds_check.
Print Assumptions C11_regions.
Print Assumptions C11_check_precedes_access.
Print Assumptions C11_checked_access_is_the_isa_access.
Print Assumptions C11_compiled_step_safe.
