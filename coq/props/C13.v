(** C13 -- the assembler emits exactly the encoding each mnemonic and operand list denotes.
    Statements only; proofs in theories/AsmEncode.v (and AsmProofs.v).  The specification is theories/AsmSpec.v:
    mnemonic table by ISA numbering, operand shapes, range limits, the lddw split, unused fields zero.
    The code side is regenerated from src/assembler.rs and src/ebpf.rs on every run; the parser is the
    hand-written model theories/AsmParser.v (tied to src/asm_parser.rs by the correspondence). *)
From Coq Require Import ZArith List String.
From RbpfV Require Import MachInt Ebpf AsmDefs AsmParser AsmModel AsmSpec AsmProofs AsmEncode TextParse GenText AsmText.
From RbpfV.gen Require Import Asm.
Import ListNotations.
Open Scope Z_scope.

(** one instruction: for EVERY mnemonic string and EVERY operand list with 64-bit operand values (what the parser
    can return), the regenerated instruction map + encode + insn + lddw second slot give exactly the specified
    slot(s) -- and an error exactly when the specification gives none (unknown mnemonic, wrong operand shape,
    register > 15, offset outside [-32768, 32767], immediate outside [-2^31, 2^31-1]). *)
Theorem C13_instruction : forall name ops, Forall op_ok ops ->
  enc_instr name ops = res_of (denote name ops).
Proof. exact enc_instr_spec. Qed.

(** whole input: if the text parses to [parsed], the result is the specified bytes of the denoted slots in source
    order (8 per slot, 16 for lddw, unused fields zero) -- or an error and no bytes when some instruction denotes nothing *)
Theorem C13_program : forall U s parsed,
  parse U s = Ok parsed ->
  assemble U s = res_of (option_map bytes_of_insns (denote_prog parsed)).
Proof. exact assemble_after_parse. Qed.

(** END TO END, for every text in the documented syntax: optional leading white space; instruction lines made of a mnemonic,
    white space and operands separated by `,` + any white space; numbers with optional sign in decimal or `0x` hexadecimal
    (either case, any leading zeros: GenText.glit), registers `r` + digits, memory operands `[rN]` / `[rN+lit]` / `[rN-lit]`;
    lines separated by white space.  The bytes are the specified encoding of what the text spells ([gline_val]: the mnemonic
    and the denoted operand values), in source order; an error and no bytes when some instruction denotes nothing. *)
Theorem C13_text : forall U lead l, ws_ok lead -> gprog_wf l ->
  assemble U (lead ++ gprog_text l) =
  res_of (option_map bytes_of_insns (denote_prog (map (fun x => gline_val (fst x)) l))).
Proof. exact assemble_text. Qed.

(** text the parser rejects yields an error and no bytes *)
Theorem C13_parse_error : forall U s, (forall parsed, parse U s <> Ok parsed) -> exists e, assemble U s = Err e.
Proof. exact assemble_parse_error. Qed.

(** the regenerated instruction map and the specification's table have the same keys, shapes and opcodes *)
Theorem C13_tables_agree : forall key,
  match map_get key gen_instruction_map with
  | Some (ty, o) => map_get key asm_table = Some (conv ty, o) /\ 0 <= o < 256
                    /\ (needs_x ty = true -> Z.lor o 8 = o + 8 /\ o + 8 < 256)
  | None => map_get key asm_table = None
  end.
Proof. exact lookup_agree. Qed.

(** non-vacuity *)
Definition U_ascii : uclass := {| u_alnum := fun _ => false; u_alpha := fun _ => false; u_space := fun _ => false |}.
Definition cps (s : string) : list Z := Fmt.bytes_of_string s.
Example C13_example :
  parse U_ascii (cps "stxdw [r10-0x8000], r15
    jsge32 r3, -2147483648, +0x7fff
    lddw r9, 0xdeadbeef80000001") =
  Ok [(cps "stxdw", [Memory 10 (-32768); Register 15]); (cps "jsge32", [Register 3; Integer (-2147483648); Integer 32767]);
      (cps "lddw", [Register 9; Integer (-2401053090464661503)])]
  /\ option_map bytes_of_insns (denote_prog [(cps "stxdw", [Memory 10 (-32768); Register 15]);
        (cps "jsge32", [Register 3; Integer (-2147483648); Integer 32767]); (cps "lddw", [Register 9; Integer (-2401053090464661503)])])
     = Some [0x7b; 0xfa; 0x00; 0x80; 0; 0; 0; 0;   0x76; 0x03; 0xff; 0x7f; 0; 0; 0; 0x80;
             0x18; 0x09; 0; 0; 0x01; 0; 0; 0x80;   0; 0; 0; 0; 0xef; 0xbe; 0xad; 0xde]
  /\ denote (cps "mov") [Register 16; Integer 1] = None
  /\ denote (cps "ja") [Integer 32768] = None
  /\ denote (cps "mov32") [Register 1; Integer 2147483648] = None
  /\ denote (cps "exit") [Integer 1] = None.
Proof. vm_compute. repeat split. Qed.

(** non-vacuity of C13_text: leading blank and newline; `add64<TAB> r007,<NL> +0x00FF`; then, after a blank, `ldxdw r1,[r10-8]`;
    trailing newline -- the hypotheses hold and the bytes are the expected ones *)
Definition ex_prog : list (gline * list Z) :=
  [ (GLine (cps "add64") [9; 32] (Some (GReg (cps "007"), [([10; 32], GInt (GHex SPlus (cps "00FF")))])), [32]);
    (GLine (cps "ldxdw") [32] (Some (GReg (cps "1"), [([], GMem (cps "10") (Some (GDec SMinus (cps "8"))))])), [10]) ].
Example C13_text_example :
  ws_ok [32; 10] /\ gprog_wf ex_prog /\
  ([32; 10] ++ gprog_text ex_prog = cps " 
add64	 r007,
 +0x00FF ldxdw r1,[r10-8]
") /\
  assemble U_ascii ([32; 10] ++ gprog_text ex_prog) = Ok [0x07; 0x07; 0; 0; 0xff; 0; 0; 0;  0x79; 0xa1; 0xf8; 0xff; 0; 0; 0; 0].
Proof.
  split; [repeat constructor|]. split.
  { cbn [gprog_wf ex_prog gline_wf gop_wf more_wf]. unfold TextParse.name_ok, greg_wf, glit_wf, has_sign, ws_ok.
    repeat split; try discriminate; try (intros; discriminate); repeat constructor; vm_compute; try reflexivity; try discriminate. }
  split; vm_compute; reflexivity.
Qed.

Print Assumptions C13_instruction.
Print Assumptions C13_program.
Print Assumptions C13_text.
Print Assumptions C13_parse_error.
Print Assumptions C13_tables_agree.
