(** C16 -- assembling the disassembler's output reproduces the program.
    Statements only; proofs in theories/RoundTripFinal.v (resting on DisasmProofs, TextParse/NumText/RenderText, AsmEncode).
    Model of the round trip: [roundtrip p] = regenerated disassembler (coq/gen/Disasm.v), lines joined with a newline, then
    the assembler model (parser hand-modelled in AsmParser.v; assembler.rs and ebpf.rs regenerated).
    Scope of the theorems: programs in the disassembler's domain whose instructions are [renderable] -- every opcode
    except tail_call (its mnemonic contains an underscore and does not parse as an identifier) and byte swaps with a
    width other than 16/32/64; for those the assembler rejects the text, which is evaluated by checks/C16.py, not proved. *)
From Coq Require Import ZArith List String.
From RbpfV Require Import MachInt Ebpf Fmt DisasmDefs DisasmSpec DisasmProofs AsmDefs AsmParser AsmModel AsmSpec AsmProofs AsmEncode RoundTrip RoundTripProofs TextParse RenderText RoundTripFinal.
From RbpfV.gen Require Import Codec Disasm Asm.
Import ListNotations.
Open Scope Z_scope.

(** THE ROUND TRIP, for every program of any length and all field values: the result is the canonical form of the program
    (fields an instruction uses kept, the others cleared) when every instruction is expressible -- its mnemonic exists in
    the assembler and its 32-bit immediate, if it has one, is non-negative (any 64-bit value for lddw) -- and an error otherwise *)
Theorem C16_roundtrip : forall p t,
  bytes_ok p -> len p mod 8 = 0 -> len p < 2 ^ 63 ->
  hl_list (decode_all p) = Some t -> all_renderable (decode_all p) = true ->
  roundtrip p = if all_expressible (decode_all p) then Ok (bytes_of_insns (canon (decode_all p))) else Err 0.
Proof. exact roundtrip_spec. Qed.

(** first sentence of the property: expressible instructions, unused fields zero (canonical form) => the original bytes *)
Theorem C16_reproduces_program : forall p t,
  bytes_ok p -> len p mod 8 = 0 -> len p < 2 ^ 63 ->
  hl_list (decode_all p) = Some t -> all_renderable (decode_all p) = true ->
  all_expressible (decode_all p) = true -> canon (decode_all p) = decode_all p ->
  roundtrip p = Ok p.
Proof. exact roundtrip_exact. Qed.

(** second sentence: whenever the assembler accepts the text, the result is the canonical form, never another instruction *)
Theorem C16_accepts_only_canonical : forall p t q,
  bytes_ok p -> len p mod 8 = 0 -> len p < 2 ^ 63 ->
  hl_list (decode_all p) = Some t -> all_renderable (decode_all p) = true ->
  roundtrip p = Ok q -> q = bytes_of_insns (canon (decode_all p)).
Proof. exact roundtrip_canonical. Qed.

(** the parser model reads back any program text made of well-formed printed lines (the closing lemma) *)
Theorem C16_parser_reads_printed_text : forall U ls, Forall (line_ok) ls ->
  parse U (prog_text ls) = Ok (map (fun x => ival (fst x) (snd x)) ls).
Proof. exact parse_prog_text. Qed.

(** first half: the text handed to the assembler is the specified rendering of the program's instructions *)
Theorem C16_text_is_specified : forall p t,
  bytes_ok p -> len p mod 8 = 0 -> len p < 2 ^ 63 -> hl_list (decode_all p) = Some t ->
  roundtrip p = assemble U_none (join_lines (map h_desc t)).
Proof. exact roundtrip_text. Qed.

(** second half: whatever that text parses to, the bytes are the specified encoding of it, or an error *)
Theorem C16_bytes_of_parsed_text : forall s parsed,
  parse U_none s = Ok parsed -> assemble U_none s = res_of (option_map bytes_of_insns (denote_prog parsed)).
Proof. exact (assemble_after_parse U_none). Qed.

(** the round trip never panics on a program in the disassembler's domain *)
Theorem C16_no_panic : forall p t,
  bytes_ok p -> len p mod 8 = 0 -> len p < 2 ^ 63 -> hl_list (decode_all p) = Some t ->
  match roundtrip p with Ok _ | Err _ => True | _ => False end.
Proof. exact roundtrip_total. Qed.

(** non-vacuity: a canonical program with extreme operands round-trips in the model; a non-canonical one gives its canonical form *)
Example C16_example :
  let p := [0x7b; 0xa1; 0x00; 0x80; 0; 0; 0; 0;  0x18; 0x03; 0; 0; 0x01; 0; 0; 0x80;  0; 0; 0; 0; 0xef; 0xbe; 0xad; 0xde;
            0x85; 0x10; 0; 0; 0x02; 0; 0; 0;  0x05; 0; 0x00; 0x80; 0; 0; 0; 0;  0x95; 0; 0; 0; 0; 0; 0; 0] in
  roundtrip p = Ok p /\
  roundtrip [0xb7; 0x21; 0x34; 0x12; 5; 0; 0; 0] = Ok [0xb7; 0x01; 0; 0; 5; 0; 0; 0].
Proof. vm_compute. split; reflexivity. Qed.

Print Assumptions C16_roundtrip.
Print Assumptions C16_reproduces_program.
Print Assumptions C16_accepts_only_canonical.
Print Assumptions C16_parser_reads_printed_text.
Print Assumptions C16_text_is_specified.
Print Assumptions C16_bytes_of_parsed_text.
Print Assumptions C16_no_panic.
