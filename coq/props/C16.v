(** C16 -- assembling the disassembler's output reproduces the program.
    What is proved here is the two halves on which the round trip rests (each over code regenerated from the source),
    and the statement of the round trip as an executable specification used by the correspondence check.
    PARTIAL: the lemma that the parser model reads the rendered text back (parse (render i) = operands of i, for all
    field values) is not proved; it is evaluated on every generated program by checks/C16.py. *)
From Coq Require Import ZArith List String.
From RbpfV Require Import MachInt Ebpf Fmt DisasmDefs DisasmSpec DisasmProofs AsmDefs AsmParser AsmModel AsmSpec AsmProofs AsmEncode RoundTrip RoundTripProofs.
From RbpfV.gen Require Import Codec Disasm Asm.
Import ListNotations.
Open Scope Z_scope.

(** first half: the text handed to the assembler is the specified rendering of the program's instructions *)
Theorem C16_text_is_specified : forall p t,
  bytes_ok p -> len p mod 8 = 0 -> len p < 2 ^ 63 -> hl_list (decode_all p) = Some t ->
  roundtrip p = assemble U_none (join_lines (map h_desc t)).
Proof. exact roundtrip_text. Qed.

(** second half: whatever that text parses to, the bytes are the specified encoding of it, or an error *)
Theorem C16_bytes_of_parsed_text : forall s parsed,
  parse U_none s = Ok parsed -> assemble U_none s = res_of (option_map bytes_of_insns (denote_prog parsed)).
Proof. exact (assemble_after_parse U_none). Qed.

(** the round trip never panics on a program in the disassembler's domain *)
Theorem C16_no_panic : forall p t,
  bytes_ok p -> len p mod 8 = 0 -> len p < 2 ^ 63 -> hl_list (decode_all p) = Some t ->
  match roundtrip p with Ok _ | Err _ => True | _ => False end.
Proof. exact roundtrip_total. Qed.

(** non-vacuity: a canonical program with extreme operands round-trips in the model; a non-canonical one gives its canonical form *)
Example C16_example :
  let p := [0x7b; 0xa1; 0x00; 0x80; 0; 0; 0; 0;  0x18; 0x03; 0; 0; 0x01; 0; 0; 0x80;  0; 0; 0; 0; 0xef; 0xbe; 0xad; 0xde;
            0x85; 0x10; 0; 0; 0x02; 0; 0; 0;  0x05; 0; 0x00; 0x80; 0; 0; 0; 0;  0x95; 0; 0; 0; 0; 0; 0; 0] in
  roundtrip p = Ok p /\
  roundtrip [0xb7; 0x21; 0x34; 0x12; 5; 0; 0; 0] = Ok [0xb7; 0x01; 0; 0; 5; 0; 0; 0].
Proof. vm_compute. split; reflexivity. Qed.

Print Assumptions C16_text_is_specified.
Print Assumptions C16_bytes_of_parsed_text.
Print Assumptions C16_no_panic.
