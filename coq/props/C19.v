(** C19 -- the built-in helpers compute their documented functions.
    gather_bytes, the byte count of bpf_trace_printf and the range reduction of rand are regenerated
    from helpers.rs (coq/gen/Helpers.v); memfrob / strcmp are modelled on byte strings and sqrti with
    Flocq's binary64 (both tied to the code by the correspondence).  Proofs: theories/HelperProofs.v. *)
From Coq Require Import ZArith List Bool.
From RbpfV Require Import MachInt HelperProofs Sqrt64 Sqrt64Proofs.
From RbpfV.gen Require Import Helpers.
Import ListNotations.
Open Scope Z_scope.

Theorem C19_gather_bytes : forall a1 a2 a3 a4 a5,
  gen_gather_bytes a1 a2 a3 a4 a5 = Ok (gather_spec a1 a2 a3 a4 a5).
Proof. exact gather_bytes_ok. Qed.

(** bpf_trace_printf returns 29 (the fixed text "bpf_trace_printf: 0x, 0x, 0x\n") plus the number of
    hexadecimal digits of its three printed arguments, and never panics *)
Theorem C19_trace_printf_count : forall a3 a4 a5,
  0 <= a3 < 2 ^ 64 -> 0 <= a4 < 2 ^ 64 -> 0 <= a5 < 2 ^ 64 ->
  gen_trace_printf_ret a3 a4 a5 = Ok (29 + hexlen a3 + hexlen a4 + hexlen a5).
Proof. exact trace_printf_ok. Qed.

(** rand(min, max): never panics; lies in [min, max] when min < max -- for every generator output n *)
Theorem C19_rand_range : forall n mn mx, 0 <= n < 2 ^ 64 -> 0 <= mn < 2 ^ 64 -> 0 <= mx < 2 ^ 64 ->
  exists r, gen_rand_reduce n mn mx = Ok r /\ 0 <= r < 2 ^ 64 /\ (mn < mx -> mn <= r <= mx).
Proof. exact rand_reduce_ok. Qed.

(** memfrob: applying it twice restores the bytes; lengths and byte-ness are kept *)
Theorem C19_memfrob_involutive : forall l, memfrob_bytes (memfrob_bytes l) = l.
Proof. exact memfrob_involutive. Qed.

(** strcmp on NUL-terminated buffers: 0 exactly for equal strings *)
Theorem C19_strcmp_zero_iff : forall a b, In 0 a -> In 0 b -> Forall (fun x => 0 <= x) a -> Forall (fun x => 0 <= x) b ->
  (strcmp_model a b = 0 <-> cstr a = cstr b).
Proof. exact strcmp_zero_iff. Qed.

(** sqrti: `(x as f64).sqrt() as u64`, modelled with Flocq's binary64 ([sqrti_model], compared with the implementation on the
    correspondence grid), is the exact integer square root for every argument below 2^52 (theories/Sqrt64Proofs.v; uses the
    standard library's classical axioms for the real numbers) *)
Theorem C19_sqrti_exact : forall x, 0 <= x < 2 ^ 52 -> sqrti_model x = Z.sqrt x.
Proof. exact sqrti_exact. Qed.

(** above 2^52 the result is the truncated rounded root, not always the integer root; samples by computation: *)
Example C19_sqrti_samples :
  map sqrti_model [0; 1; 2; 3; 4; 15; 16; 17; 2 ^ 52 - 1; 2 ^ 64 - 1]
  = [0; 1; 1; 1; 2; 3; 4; 4; 67108863; 4294967296].
Proof. vm_compute. reflexivity. Qed.

Print Assumptions C19_gather_bytes.
Print Assumptions C19_trace_printf_count.
Print Assumptions C19_rand_range.
Print Assumptions C19_memfrob_involutive.
Print Assumptions C19_strcmp_zero_iff.
Print Assumptions C19_sqrti_samples.
Print Assumptions C19_sqrti_exact.
