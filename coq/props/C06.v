(** C06 -- the default verifier accepts exactly the well-formed programs.
    [check_model] is verifier.rs regenerated (coq/gen/Verifier.v) run with fuel [length p + 1];
    [WellFormed] is the specification in theories/WellFormed.v. Proofs: theories/VerifierProofs.v. *)
From Coq Require Import ZArith List Bool.
From RbpfV Require Import MachInt Ebpf Cases WellFormed Verifier VerifierProofs.
Import ListNotations.
Open Scope Z_scope.

(** acceptance is exactly well-formedness, for every byte string *)
Theorem C06_verifier_iff : forall p, bytes_ok p -> (check_model p = Ok tt <-> WellFormed p).
Proof. exact verifier_iff. Qed.

(** a refusal is an error value: never a panic, and the fuel is never exhausted (termination) *)
Theorem C06_never_panics : forall p, bytes_ok p -> check_model p = Ok tt \/ check_model p = Err 0.
Proof. exact verifier_total. Qed.

(** non-vacuity: a program with a wide load, a backward jump over it, a local call and an exit is
    well-formed and accepted; the same program with the jump landing in the wide load's second half,
    or the call landing there, or ending in a conditional jump, is refused by both *)
Example C06_example_accept :
  let p := hexbytes 56 0x180100000500000000000000070000008510000001000000950000000000000005000000fcffffffb7000000000000009500000000000000 in
  bytes_okb p = true /\ wellformedb p = true /\ check_model p = Ok tt.
Proof. vm_compute. repeat split. Qed.
Example C06_example_reject :
  let jump_into_lddw := hexbytes 32 0x180100000500000000000000070000000500feff000000009500000000000000 in
  let call_into_lddw := hexbytes 32 0x1801000005000000000000000700000085100000feffffff9500000000000000 in
  let ends_in_cond_jump := hexbytes 16 0xb7000000000000001500feff00000000 in
  map wellformedb [jump_into_lddw; call_into_lddw; ends_in_cond_jump] = [false; false; false] /\
  map check_model [jump_into_lddw; call_into_lddw; ends_in_cond_jump] = [Err 0; Err 0; Err 0].
Proof. vm_compute. repeat split. Qed.

Print Assumptions C06_verifier_iff.
Print Assumptions C06_never_panics.
