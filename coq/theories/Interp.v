(** The interpreter model: the generated loop (coq/gen/Interp.v) driven step by step so that the
    memory at the point of an error is observable too. *)
From Coq Require Import ZArith List Bool.
From RbpfV Require Import MachInt Ebpf Mem InterpDefs.
From RbpfV.gen Require Import Opcodes Codec Interp.
Import ListNotations.
Open Scope Z_scope.

Fixpoint run_steps (fuel : nat) (E : ienv) (s : istate) : outcome :=
  match fuel with
  | O => OFuel
  | S f =>
      match gen_interp_loop_cond E s with
      | Ok true =>
          match gen_interp_loop_body E s with
          | Ok (Next s') => run_steps f E s'
          | Ok (Ret (r, m)) => ODone r m
          | Err e => OErr e (mem_of s)
          | Panic _ => OPanic
          | OutOfFuel => OFuel
          end
      | Ok false => OPanic          (* `unreachable!()` after the loop *)
      | Err e => OErr e (mem_of s)
      | Panic _ => OPanic
      | OutOfFuel => OFuel
      end
  end.

Definition run (fuel : nat) (E : ienv) (m0 : mem) : outcome :=
  match gen_init_regs E with
  | Ok reg => run_steps fuel E (reg, 0, 0, stacks0, m0)
  | Err e => OErr e m0
  | Panic _ => OPanic
  | OutOfFuel => OFuel
  end.

(** environment and initial memory for one execution of the EbpfVmMbuff kind:
    regions are [mbuff; mem; stack; xmem] *)
Definition mk_env (prog : list Z) (H : Z -> option helper) (U : Z -> option Z)
    (mbuff mem_ : region) (stack_base : Z) (allowed : list (Z * Z)) : ienv :=
  {| e_prog := prog; e_helpers := H; e_usage := U;
     e_mbuff_base := r_base mbuff; e_mbuff_len := r_len mbuff;
     e_mem_base := r_base mem_; e_mem_len := r_len mem_;
     e_stack_base := stack_base; e_stack_len := 512; e_allowed := allowed |}.
Definition mk_mem (mbuff mem_ : region) (stack_base : Z) (xmem : region) : mem :=
  [mbuff; mem_; {| r_base := stack_base; r_data := repeat 0 512 |}; xmem].
