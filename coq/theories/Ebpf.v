(** eBPF instruction record, byte-slice primitives, and the *specified* slot layout. *)
From Coq Require Import ZArith List Bool Lia.
From RbpfV Require Import MachInt.
Import ListNotations.
Open Scope Z_scope.

Record insn := { opc : Z; dst : Z; src : Z; off : Z; imm : Z }.

Definition insn_eqb (a b : insn) : bool :=
  (opc a =? opc b) && (dst a =? dst b) && (src a =? src b) && (off a =? off b) && (imm a =? imm b).

Definition len (l : list Z) : Z := Z.of_nat (length l).

(** Rust slice indexing `s[i]`: panics when out of range *)
Definition slice_get (site : Z) (s : list Z) (i : Z) : res Z :=
  if (0 <=? i) && (i <? len s) then Ok (nth (Z.to_nat i) s 0) else Panic site.

(** `&s[a..]` followed by byteorder's LittleEndian::read_xN (which indexes `[..N]`) *)
Definition slice_from (site : Z) (s : list Z) (a n : Z) : res (list Z) :=
  if (0 <=? a) && (a + n <=? len s) then Ok (firstn (Z.to_nat n) (skipn (Z.to_nat a) s)) else Panic site.
Definition slice_read_u16 site s a := b <- slice_from site s a 2 ;; Ok (of_le_bytes b).
Definition slice_read_u32 site s a := b <- slice_from site s a 4 ;; Ok (of_le_bytes b).
Definition slice_read_i16 site s a := b <- slice_from site s a 2 ;; Ok (norm I16 (of_le_bytes b)).
Definition slice_read_i32 site s a := b <- slice_from site s a 4 ;; Ok (norm I32 (of_le_bytes b)).

(** * Specification of the 8-byte slot (from the eBPF ISA: opcode, regs byte with dst in the low
    nibble, 16-bit LE offset, 32-bit LE immediate) -- written independently of ebpf.rs *)
Definition wf_insn (i : insn) : Prop :=
  0 <= opc i < 256 /\ 0 <= dst i < 16 /\ 0 <= src i < 16 /\
  - 2 ^ 15 <= off i < 2 ^ 15 /\ - 2 ^ 31 <= imm i < 2 ^ 31.
Definition wf_insnb (i : insn) : bool :=
  (0 <=? opc i) && (opc i <? 256) && (0 <=? dst i) && (dst i <? 16) && (0 <=? src i) && (src i <? 16)
  && (- 2 ^ 15 <=? off i) && (off i <? 2 ^ 15) && (- 2 ^ 31 <=? imm i) && (imm i <? 2 ^ 31).

Definition spec_encode (i : insn) : list Z :=
  [opc i; src i * 16 + dst i] ++ le_bytes 2 (off i mod 2 ^ 16) ++ le_bytes 4 (imm i mod 2 ^ 32).

Definition spec_decode_slot (b : list Z) : insn :=
  {| opc := nth 0 b 0;
     dst := nth 1 b 0 mod 16;
     src := nth 1 b 0 / 16;
     off := smod 16 (of_le_bytes (firstn 2 (skipn 2 b)));
     imm := smod 32 (of_le_bytes (firstn 4 (skipn 4 b))) |}.

Definition is_byte (b : Z) : Prop := 0 <= b < 256.
Definition bytes_ok (l : list Z) : Prop := Forall is_byte l.
Definition bytes_okb (l : list Z) : bool := forallb (fun b => (0 <=? b) && (b <? 256)) l.
