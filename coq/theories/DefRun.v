(** C03 / C04 in the property's own terms.  [isa_steps_d] is the ISA run that also tracks which registers hold a defined
    value (at entry: r1 and r10; a helper call defines r0 and un-defines r1-r5) and stops with an error when an instruction
    would read an undefined one.  When it returns a value, every ISA run from registers that agree on the defined ones --
    whatever the others hold, whatever helpers leave in r1-r5 -- returns that value and that memory (isa_steps_agree); hence
    so do the interpreter (C01), the x86-64 code (JitRun) and the Cranelift code (ClRun). *)
From Coq Require Import ZArith Lia Bool List.
From RbpfV Require Import MachInt BitLemmas ListLemmas ArmBase Ebpf X86Sem Mem Stack Helpers InterpDefs WellFormed Verifier Isa MemLemmas
  VerifierArms VerifierProofs Interp InterpProofs ClAluProofs ClJmpProofs ClMemProofs ClStep ClRun JitStep JitRun IsaDef.
Import ListNotations.
Open Scope Z_scope.

Definition clob_opt (g : option (Z -> Z)) (reg : list Z) : list Z := match g with Some g => clobber g reg | None => reg end.
Definition isa_step_o (g : option (Z -> Z)) (E : ienv) (s : istate) : res stepres :=
  let '(_, pc, _, _, _) := s in
  match isa_step E s with
  | Ok (SNext (reg', pc', f', st', m')) =>
      if is_helper_call (insn_at (e_prog E) pc) then Ok (SNext (clob_opt g reg', pc', f', st', m'))
      else Ok (SNext (reg', pc', f', st', m'))
  | r => r
  end.
Fixpoint isa_steps_o (gs : nat -> option (Z -> Z)) (fuel : nat) (E : ienv) (s : istate) : outcome :=
  match fuel with
  | O => OFuel
  | S f => match isa_step_o (gs f) E s with
           | Ok (SNext s') => isa_steps_o gs f E s'
           | Ok (SRet r m) => ODone r m
           | Err e => OErr e (snd s)
           | Panic _ => OPanic
           | OutOfFuel => OFuel
           end
  end.

Lemma isa_steps_o_none E fuel : forall s, isa_steps_o (fun _ => None) fuel E s = isa_steps fuel E s.
Proof.
  induction fuel as [|f IH]; intros s; [reflexivity|]. cbn [isa_steps_o isa_steps]. unfold isa_step_o.
  destruct s as [[[[reg pc] fidx] stacks] m].
  destruct (isa_step E (reg, pc, fidx, stacks, m)) as [[[[[[reg' pc'] f'] st'] m']|v mv]|e|x|]; try reflexivity.
  cbn [clob_opt]. destruct (is_helper_call _); apply IH.
Qed.
Lemma isa_steps_o_some E clob fuel : forall s, isa_steps_o (fun f => Some (clob f)) fuel E s = isa_steps_c clob fuel E s.
Proof.
  induction fuel as [|f IH]; intros s; [reflexivity|]. cbn [isa_steps_o isa_steps_c]. unfold isa_step_o, isa_step_c.
  destruct s as [[[[reg pc] fidx] stacks] m].
  destruct (isa_step E (reg, pc, fidx, stacks, m)) as [[[[[[reg' pc'] f'] st'] m']|v mv]|e|x|]; try reflexivity.
  cbn [clob_opt]. destruct (is_helper_call _); apply IH.
Qed.

(** the tracked run *)
Fixpoint isa_steps_d (fuel : nat) (E : ienv) (D : list Z) (s : istate) : outcome :=
  match fuel with
  | O => OFuel
  | S f =>
    let '(reg, pc, fidx, stacks, m) := s in
    let i := insn_at (e_prog E) pc in
    if forallb (fun r => inl r D) (reads i) then
      match isa_step E s with
      | Ok (SNext s') => isa_steps_d f E (defd_after D i) s'
      | Ok (SRet r m') => ODone r m'
      | Err e => OErr e m
      | Panic _ => OPanic
      | OutOfFuel => OFuel
      end
    else OErr EUndefined m
  end.

(** it is a restriction of the ISA run *)
Lemma isa_steps_d_isa E fuel : forall D s r m', isa_steps_d fuel E D s = ODone r m' -> isa_steps fuel E s = ODone r m'.
Proof.
  induction fuel as [|f IH]; intros D s r m' H; [discriminate H|].
  cbn [isa_steps_d] in H. cbn [isa_steps]. destruct s as [[[[reg pc] fidx] stacks] m].
  destruct (forallb _ _); [|discriminate H].
  destruct (isa_step E (reg, pc, fidx, stacks, m)) as [[s'|v mv]|e|x|]; try discriminate H; [now apply (IH _ _ _ _ H)|exact H].
Qed.

Lemma isa_exec_fidx0 E i reg next stacks m reg' pc' f' st' m' : (opc i = op_call -> src i = 0) ->
  isa_exec E i reg next 0 stacks m = Ok (SNext (reg', pc', f', st', m')) -> f' = 0.
Proof.
  intros Hc. unfold isa_exec, isa_exec_dec. cbv zeta.
  destruct (Z.eqb_spec (opc i) op_call) as [Q|_]; [rewrite (Hc Q); change (0 =? 0) with true|]; change (0 <? 0) with false; cbv iota;
  repeat match goal with
  | |- (if ?c then _ else _) = _ -> _ => destruct c
  | |- match ?x with _ => _ end = _ -> _ => destruct x
  end; intros [= ]; subst; reflexivity.
Qed.

Lemma agree_clobber D g a b : agree D a b -> (forall k, 1 <= k <= 5 -> inl k D = false) -> agree D a (clobber g b).
Proof.
  intros (Ha & Hb & H) Hn. split; [exact Ha|]. split; [now apply clobber_ok|].
  intros k Hk Hin. rewrite rd_clobber by assumption.
  destruct (Z.leb_spec 1 k); destruct (Z.leb_spec k 5); cbn [andb]; try (apply H; assumption).
  rewrite Hn in Hin by lia. discriminate Hin.
Qed.

Section Agree.
Variable E : ienv.
Hypothesis Hb : bytes_ok (e_prog E).
Hypothesis Hacc : acc (e_prog E).
Hypothesis He : env_ok E.
Hypothesis Hprog : forall k, In k (starts (e_prog E)) -> opc (insn_at (e_prog E) k) = op_call -> src (insn_at (e_prog E) k) = 0.

Theorem isa_steps_agree gs fuel : forall D reg1 reg2 pc stacks m r m',
  Inv E (reg1, pc, 0, stacks, m) -> Inv E (reg2, pc, 0, stacks, m) -> agree D reg1 reg2 ->
  isa_steps_d fuel E D (reg1, pc, 0, stacks, m) = ODone r m' ->
  isa_steps_o gs fuel E (reg2, pc, 0, stacks, m) = ODone r m'.
Proof.
  induction fuel as [|f IH]; intros D reg1 reg2 pc stacks m r m' HI1 HI2 Hag H; [discriminate H|].
  cbn [isa_steps_d] in H. cbn [isa_steps_o]. unfold isa_step_o.
  destruct (forallb (fun r => inl r D) (reads (insn_at (e_prog E) pc))) eqn:Hrd; [|discriminate H].
  destruct (isa_step E (reg1, pc, 0, stacks, m)) as [st|e|x|] eqn:Hs1; try discriminate H.
  pose proof HI1 as (Hpc & Hr1 & _).
  pose proof (verifier_facts E Hb Hacc pc Hpc) as V. destruct (vf_wf E pc V) as (W1 & W2 & W3 & W4 & W5).
  assert (Hd : 0 <= dst (insn_at (e_prog E) pc) <= 10) by (destruct (vf_dst E pc V) as [Dd|[Dd _]]; lia).
  assert (Hsr : 0 <= src (insn_at (e_prog E) pc) <= 10) by (pose proof (vf_src E pc V); lia).
  pose proof Hs1 as Hs1'. unfold isa_step in Hs1.
  unfold isa_step at 1.
  destruct (refresh_usage E stacks 0 pc) as [st2| | |] eqn:Ru; cbn [bind] in *; try discriminate Hs1.
  pose proof (isa_exec_agree E _ D reg1 reg2 (pc + 1) 0 st2 m st Hag (vf_wf E pc V) Hd Hsr (supported_cl _ (vf_sup E pc V))
                (Hprog pc Hpc) (fun _ => eq_refl) Hrd Hs1) as X.
  destruct st as [[[[[r1 pc1] f1] s1] m1]|v mv].
  - pose proof (step_preserves E Hb Hacc He _ _ HI1 Hs1') as HI1'. pose proof HI1' as (_ & Hr1' & _).
    destruct (X Hr1') as (r2 & Hx & Hag').
    assert (F0 : f1 = 0) by (eapply isa_exec_fidx0; [exact (Hprog pc Hpc)|exact Hs1]). subst f1.
    assert (Hs2 : isa_step E (reg2, pc, 0, stacks, m) = Ok (SNext (r2, pc1, 0, s1, m1))) by (unfold isa_step; rewrite Ru; cbn [bind]; exact Hx).
    pose proof (step_preserves E Hb Hacc He _ _ HI2 Hs2) as HI2'.
    rewrite Hx.
    destruct (is_helper_call (insn_at (e_prog E) pc)) eqn:Hh.
    + (* helper call: r1-r5 are no longer defined, so the garbage does not matter *)
      apply andb_true_iff in Hh as [Ho _]. apply Z.eqb_eq in Ho.
      assert (Ed : defd_after D (insn_at (e_prog E) pc) = 0 :: filter (fun r => negb (inl r [1; 2; 3; 4; 5])) D).
      { unfold defd_after. cbv zeta. rewrite Ho. reflexivity. }
      rewrite Ed in *.
      assert (Hn : forall k, 1 <= k <= 5 -> inl k (0 :: filter (fun r => negb (inl r [1; 2; 3; 4; 5])) D) = false).
      { intros k Hk. rewrite inl_cons. destruct (Z.eqb_spec k 0); [lia|]. cbn [orb].
        destruct (inl k (filter _ D)) eqn:Q; [|reflexivity]. apply inl_true_In, filter_In in Q as [_ Q].
        assert (T : inl k [1; 2; 3; 4; 5] = true) by (assert (C : k = 1 \/ k = 2 \/ k = 3 \/ k = 4 \/ k = 5) by lia;
          destruct C as [->|[->|[->|[->| ->]]]]; reflexivity).
        rewrite T in Q. discriminate Q. }
      destruct (gs f) as [g|]; cbn [clob_opt].
      * apply (IH (0 :: filter (fun r => negb (inl r [1; 2; 3; 4; 5])) D) r1 (clobber g r2) pc1 s1 m1 r m' HI1'); [|now apply agree_clobber|exact H].
        now apply inv_clobber.
      * apply (IH _ r1 r2 pc1 s1 m1 r m' HI1' HI2' Hag' H).
    + apply (IH _ r1 r2 pc1 s1 m1 r m' HI1' HI2' Hag' H).
  - rewrite X. exact H.
Qed.
End Agree.

(** ** the three engines against the tracked run.  At entry r1 and r10 are defined. *)
Definition D0 : list Z := [1; 10].

Lemma inl_D0 k : inl k D0 = true -> k = 1 \/ k = 10.
Proof. intros H. apply inl_true_In in H. cbn [In D0] in H. destruct H as [<-|[<-|[]]]; auto. Qed.

(** the interpreter (regenerated interpreter.rs) *)
Theorem defined_run_interpreter E m0 fuel r m' :
  bytes_ok (e_prog E) -> acc (e_prog E) -> env_ok E -> mem_ok m0 -> d7_free E ->
  isa_steps_d fuel E D0 (isa_init_regs E, 0, 0, stacks0, m0) = ODone r m' ->
  Interp.run fuel E m0 = ODone r m'.
Proof.
  intros Hb Ha He Hm Hd H. rewrite (interp_refines_isa E m0 fuel Hb Ha He Hm Hd). unfold isa_run.
  now apply (isa_steps_d_isa E fuel D0).
Qed.

Lemma regs_of_inv E m0 R0 : bytes_ok (e_prog E) -> acc (e_prog E) -> env_ok E -> mem_ok m0 ->
  (forall x, 0 <= R0 x < 2 ^ 64) -> R0 (ez 10) = e_stack_base E + e_stack_len E -> Inv E (regs_of R0, 0, 0, stacks0, m0).
Proof.
  intros Hb Ha He Hm HR Hsp. destruct (regs_of_rel R0 HR) as [Hok _].
  pose proof (init_inv E m0 Hb Ha He Hm) as (Hpc & _ & Hf & Hfr & _ & _ & Hrets).
  refine (conj Hpc (conj Hok (conj Hf (conj Hfr (conj Hm (conj _ Hrets)))))).
  destruct He as [_ _ (S1 & S2 & S3) _ _].
  unfold usage_sum. change (Z.to_nat 0) with 0%nat. cbn [firstn map fold_right].
  change (rd (regs_of R0) 10) with (R0 (ez 10)). rewrite Hsp, S2. lia.
Qed.

(** the x86-64 code: any register file the prologue can leave (r1 and r10 as the interpreter has them, R10 = packet address,
    anything elsewhere) and any garbage left by helpers *)
Theorem defined_run_jit E m0 clob fuel R0 r m' :
  bytes_ok (e_prog E) -> acc (e_prog E) -> env_ok E -> mem_ok m0 ->
  (forall k, In k (starts (e_prog E)) ->
     (opc (insn_at (e_prog E) k) = op_call ->
        src (insn_at (e_prog E) k) = 0 /\ e_helpers E (u32 (imm (insn_at (e_prog E) k))) <> None) /\
     (opc (insn_at (e_prog E) k) mod 8 = 0 -> 0 <= imm (insn_at (e_prog E) k))) ->
  (forall x, 0 <= R0 x < 2 ^ 64) -> R0 10 = e_mem_base E ->
  R0 (ez 1) = rd (isa_init_regs E) 1 -> R0 (ez 10) = e_stack_base E + e_stack_len E ->
  isa_steps_d fuel E D0 (isa_init_regs E, 0, 0, stacks0, m0) = ODone r m' ->
  jit_steps clob fuel E (R0, 0, m0) = ODone r m'.
Proof.
  intros Hb Ha He Hm Hp HR H10 H1 Hsp H.
  apply (jit_run_refines E m0 clob fuel R0 r m' Hb Ha He Hm Hp HR H10 Hsp).
  rewrite <- isa_steps_o_some.
  apply (isa_steps_agree E Hb Ha He (fun k Hk Ho => proj1 (proj1 (Hp k Hk) Ho)) _ fuel D0 (isa_init_regs E) (regs_of R0) 0 stacks0 m0 r m');
    [now apply init_inv|now apply regs_of_inv| |exact H].
  pose proof (init_inv E m0 Hb Ha He Hm) as (_ & Hok & _). destruct (regs_of_rel R0 HR) as [Hok2 _].
  split; [exact Hok|]. split; [exact Hok2|]. intros k Hk Hin. destruct (inl_D0 k Hin) as [-> | ->].
  - rewrite <- H1. reflexivity.
  - change (rd (regs_of R0) 10) with (R0 (ez 10)). rewrite Hsp. reflexivity.
Qed.

(** the Cranelift code *)
Theorem defined_run_cranelift E m0 fuel r m' :
  bytes_ok (e_prog E) -> acc (e_prog E) -> env_ok E -> mem_ok m0 ->
  e_allowed E = [] -> (e_mem_len E <> 0 -> e_mem_base E <> 0) -> (e_mbuff_len E <> 0 -> e_mbuff_base E <> 0) ->
  (forall k, In k (starts (e_prog E)) ->
     (opc (insn_at (e_prog E) k) = op_call ->
        src (insn_at (e_prog E) k) = 0 /\ e_helpers E (u32 (imm (insn_at (e_prog E) k))) <> None) /\
     (opc (insn_at (e_prog E) k) mod 8 = 0 -> e_mem_len E <> 0)) ->
  isa_steps_d fuel E D0 (isa_init_regs E, 0, 0, stacks0, m0) = ODone r m' ->
  cl_run fuel E m0 = ODone r m'.
Proof.
  intros Hb Ha He Hm Hn H1 H2 Hp H.
  apply (cl_run_refines E m0 fuel r m' Hb Ha He Hm Hn H1 H2 Hp).
  rewrite <- isa_steps_o_none.
  apply (isa_steps_agree E Hb Ha He (fun k Hk Ho => proj1 (proj1 (Hp k Hk) Ho)) _ fuel D0 (isa_init_regs E) (cl_init_regs E) 0 stacks0 m0 r m');
    [now apply init_inv|now apply cl_init_inv| |exact H].
  pose proof (init_inv E m0 Hb Ha He Hm) as (_ & Hok & _). pose proof (cl_init_inv E m0 Hb Ha He Hm) as (_ & Hok2 & _).
  split; [exact Hok|]. split; [exact Hok2|]. intros k Hk Hin. rewrite (cl_init_regs_spec E He).
  destruct (inl_D0 k Hin) as [-> | ->]; rewrite rd_upd_other by lia; reflexivity.
Qed.

(** C03: whenever the tracked run returns -- the program terminates, every access is in bounds, and no instruction reads a
    register that holds no defined value -- the interpreter and the x86-64 code return that same value and leave that same
    memory *)
Theorem jit_agrees_with_interpreter E m0 clob fuel R0 r m' :
  bytes_ok (e_prog E) -> acc (e_prog E) -> env_ok E -> mem_ok m0 -> d7_free E ->
  (forall k, In k (starts (e_prog E)) ->
     (opc (insn_at (e_prog E) k) = op_call ->
        src (insn_at (e_prog E) k) = 0 /\ e_helpers E (u32 (imm (insn_at (e_prog E) k))) <> None) /\
     (opc (insn_at (e_prog E) k) mod 8 = 0 -> 0 <= imm (insn_at (e_prog E) k))) ->
  (forall x, 0 <= R0 x < 2 ^ 64) -> R0 10 = e_mem_base E ->
  R0 (ez 1) = rd (isa_init_regs E) 1 -> R0 (ez 10) = e_stack_base E + e_stack_len E ->
  isa_steps_d fuel E D0 (isa_init_regs E, 0, 0, stacks0, m0) = ODone r m' ->
  Interp.run fuel E m0 = ODone r m' /\ jit_steps clob fuel E (R0, 0, m0) = ODone r m'.
Proof.
  intros Hb Ha He Hm Hd Hp HR H10 H1 Hsp H. split; [now apply defined_run_interpreter|now apply defined_run_jit].
Qed.

(** C04: the same for the Cranelift code *)
Theorem cranelift_agrees_with_interpreter E m0 fuel r m' :
  bytes_ok (e_prog E) -> acc (e_prog E) -> env_ok E -> mem_ok m0 -> d7_free E ->
  e_allowed E = [] -> (e_mem_len E <> 0 -> e_mem_base E <> 0) -> (e_mbuff_len E <> 0 -> e_mbuff_base E <> 0) ->
  (forall k, In k (starts (e_prog E)) ->
     (opc (insn_at (e_prog E) k) = op_call ->
        src (insn_at (e_prog E) k) = 0 /\ e_helpers E (u32 (imm (insn_at (e_prog E) k))) <> None) /\
     (opc (insn_at (e_prog E) k) mod 8 = 0 -> e_mem_len E <> 0)) ->
  isa_steps_d fuel E D0 (isa_init_regs E, 0, 0, stacks0, m0) = ODone r m' ->
  Interp.run fuel E m0 = ODone r m' /\ cl_run fuel E m0 = ODone r m'.
Proof.
  intros Hb Ha He Hm Hd Hn H1 H2 Hp H. split; [now apply defined_run_interpreter|now apply defined_run_cranelift].
Qed.
