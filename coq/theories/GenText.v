(** C13, text level: every spelling of the documented syntax is read by the parser model as the operands it denotes.
    Numbers: optional sign, decimal digits or `0x` + hexadecimal digits (either case), any number of leading zeros;
    registers `r` + decimal digits; memory operands `[rN]`, `[rN+lit]`, `[rN-lit]`; operands separated by a comma and any
    white space; at least one white-space character between a mnemonic and an operand that starts with a letter or digit;
    instructions separated by white space. *)
From Coq Require Import ZArith Lia Bool List.
From RbpfV Require Import MachInt BitLemmas ListLemmas AsmDefs AsmParser NumText TextParse.
Import ListNotations.
Open Scope Z_scope.
Ltac Zify.zify_post_hook ::= Z.div_mod_to_equations.

Section Gen.
Variable U : uclass.

(** ** literals *)
Inductive gsign := SNone | SPlus | SMinus.
Definition sign_text (s : gsign) : list Z := match s with SNone => [] | SPlus => [43] | SMinus => [45] end.
Definition sign_val (s : gsign) : Z := match s with SMinus => -1 | _ => 1 end.

Inductive glit := GDec (s : gsign) (ds : list Z) | GHex (s : gsign) (hs : list Z).
Definition glit_text (l : glit) : list Z :=
  match l with
  | GDec s ds => sign_text s ++ ds
  | GHex s hs => sign_text s ++ 48 :: 120 :: hs
  end.
(** what the literal denotes: decimal digits as a non-negative i64, hexadecimal digits as a u64 reinterpreted as i64,
    then the sign applied with wrap-around *)
Definition glit_val (l : glit) : Z :=
  match l with
  | GDec s ds => norm I64 (sign_val s * num_of 10 ds)
  | GHex s hs => norm I64 (sign_val s * norm I64 (num_of 16 hs))
  end.
Definition glit_wf (l : glit) : Prop :=
  match l with
  | GDec _ ds => ds <> [] /\ Forall (fun c => is_digit c = true) ds /\ num_of 10 ds < 2 ^ 63
  | GHex _ hs => hs <> [] /\ Forall (fun c => is_hex c = true) hs /\ num_of 16 hs < 2 ^ 64
  end.

Lemma digit_is_hex c : is_digit c = true -> is_hex c = true.
Proof. unfold is_hex. intros ->. reflexivity. Qed.

Lemma p_hex_digits hs rest : hs <> [] -> Forall (fun c => is_hex c = true) hs -> num_of 16 hs < 2 ^ 64 -> stops is_hex rest ->
  p_hex (48 :: 120 :: hs ++ rest) = POk true (norm I64 (num_of 16 hs)) rest.
Proof.
  intros N F V S. unfold p_hex. change ((48 =? 48) && (120 =? 120)) with true. cbv iota.
  rewrite span_app by assumption. destruct hs as [|h hs']; [contradiction|].
  cbv zeta. destruct (Z.ltb_spec (num_of 16 (h :: hs')) (2 ^ 64)); [reflexivity|lia].
Qed.

Lemma p_hex_not c0 c1 tl : negb ((c0 =? 48) && (c1 =? 120)) = true -> p_hex (c0 :: c1 :: tl) = PErr false.
Proof. intros H. unfold p_hex. apply negb_true_iff in H. now rewrite H. Qed.

Lemma p_dec_digits ds rest : ds <> [] -> Forall (fun c => is_digit c = true) ds -> num_of 10 ds < 2 ^ 63 -> stops is_digit rest ->
  p_dec (ds ++ rest) = POk true (num_of 10 ds) rest.
Proof.
  intros N F V S. unfold p_dec. rewrite span_app by assumption. destruct ds as [|d ds']; [contradiction|].
  cbv zeta. destruct (Z.ltb_spec (num_of 10 (d :: ds')) (2 ^ 63)); [reflexivity|lia].
Qed.

(** after a literal: not a hexadecimal digit (hence not a decimal one), and not `x` *)
Definition lit_end (rest : list Z) : Prop := match rest with [] => True | c :: _ => is_hex c = false /\ c <> 120 end.
Lemma lit_end_hex rest : lit_end rest -> stops is_hex rest.
Proof. destruct rest; [exact id|]. cbn. tauto. Qed.
Lemma lit_end_digit rest : lit_end rest -> stops is_digit rest.
Proof.
  destruct rest as [|c r]; [exact id|]. cbn. intros [H _]. unfold is_hex in H. destruct (is_digit c); [discriminate|reflexivity].
Qed.

Lemma p_hex_on_dec ds rest : ds <> [] -> Forall (fun c => is_digit c = true) ds -> lit_end rest -> p_hex (ds ++ rest) = PErr false.
Proof.
  intros N F E. destruct ds as [|d0 ds]; [contradiction|]. inversion F as [|? ? D0 F']; subst.
  destruct ds as [|d1 ds'].
  - cbn [app]. destruct rest as [|c r]; [reflexivity|]. destruct E as [_ E]. apply p_hex_not.
    destruct (Z.eqb_spec c 120); [contradiction|]. now rewrite andb_false_r.
  - cbn [app]. inversion F' as [|? ? D1 _]; subst. apply p_hex_not.
    assert (d1 <> 120). { intros ->. discriminate D1. }
    destruct (Z.eqb_spec d1 120); [contradiction|]. now rewrite andb_false_r.
Qed.

Lemma sign_split s tl : (match tl with [] => True | c :: _ => c <> 45 /\ c <> 43 end) ->
  (match sign_text s ++ tl with
   | c :: r => if c =? 45 then (-1, true, r) else if c =? 43 then (1, true, r) else (1, false, sign_text s ++ tl)
   | [] => (1, false, sign_text s ++ tl)
   end) = (sign_val s, match s with SNone => false | _ => true end, tl).
Proof.
  intros H. destruct s; cbn [sign_text sign_val app]; try reflexivity.
  destruct tl as [|c r]; [reflexivity|]. destruct H as [A B].
  destruct (Z.eqb_spec c 45); [contradiction|]. destruct (Z.eqb_spec c 43); [contradiction|]. reflexivity.
Qed.

Lemma p_integer_glit l rest : glit_wf l -> lit_end rest -> p_integer (glit_text l ++ rest) = POk true (glit_val l) rest.
Proof.
  intros W E. destruct l as [s ds|s hs]; cbn [glit_text glit_val glit_wf] in *.
  - destruct W as (N & F & V). unfold p_integer. rewrite <- app_assoc.
    rewrite sign_split.
    2:{ destruct ds as [|d ds']; [contradiction|]. cbn [app]. inversion F as [|? ? D _]; subst.
        split; intros ->; discriminate D. }
    rewrite p_hex_on_dec by assumption. rewrite p_dec_digits by (try assumption; now apply lit_end_digit). reflexivity.
  - destruct W as (N & F & V). unfold p_integer. rewrite <- app_assoc. cbn [app].
    rewrite sign_split by (split; discriminate).
    rewrite p_hex_digits by (try assumption; now apply lit_end_hex). reflexivity.
Qed.

(** ** registers *)
Definition greg_wf (ds : list Z) : Prop := ds <> [] /\ Forall (fun c => is_digit c = true) ds /\ num_of 10 ds < 2 ^ 63.

Lemma digit_not_alpha c : is_digit c = true -> is_alpha U c = false.
Proof.
  unfold is_digit, is_alpha, is_ascii_alpha. intros H. apply andb_true_iff in H as [A B]. apply Z.leb_le in A, B.
  destruct (Z.ltb_spec c 128); [|lia]. destruct (Z.leb_spec 97 c); [lia|]. destruct (Z.leb_spec 65 c); [lia|]. reflexivity.
Qed.

Lemma p_register_greg ds rest : greg_wf ds -> stops is_digit rest -> p_register U (114 :: ds ++ rest) = POk true (num_of 10 ds) rest.
Proof.
  intros (N & F & V) S. unfold p_register. change (114 =? 114) with true. cbv iota.
  assert (R : reg_digits (ds ++ rest) = POk true (num_of 10 ds) rest).
  { unfold reg_digits. rewrite span_app by assumption. destruct ds as [|d ds']; [contradiction|]. cbv zeta.
    destruct (Z.ltb_spec (num_of 10 (d :: ds')) (2 ^ 63)); [reflexivity|lia]. }
  destruct ds as [|d ds']; [contradiction|]. cbn [app] in *. inversion F as [|? ? D _]; subst.
  rewrite (digit_not_alpha d D). exact R.
Qed.

(** ** operands *)
Inductive gop := GReg (ds : list Z) | GInt (l : glit) | GMem (ds : list Z) (o : option glit).
Definition has_sign (l : glit) : Prop := match l with GDec s _ | GHex s _ => s <> SNone end.
Definition gop_text (o : gop) : list Z :=
  match o with
  | GReg ds => 114 :: ds
  | GInt l => glit_text l
  | GMem ds None => 91 :: 114 :: ds ++ [93]
  | GMem ds (Some l) => 91 :: 114 :: ds ++ glit_text l ++ [93]
  end.
Definition gop_val (o : gop) : operand :=
  match o with
  | GReg ds => Register (num_of 10 ds)
  | GInt l => Integer (glit_val l)
  | GMem ds None => Memory (num_of 10 ds) 0
  | GMem ds (Some l) => Memory (num_of 10 ds) (glit_val l)
  end.
Definition gop_wf (o : gop) : Prop :=
  match o with
  | GReg ds => greg_wf ds
  | GInt l => glit_wf l
  | GMem ds None => greg_wf ds
  | GMem ds (Some l) => greg_wf ds /\ glit_wf l /\ has_sign l      (* without a sign the digits would extend the register number *)
  end.

(** after an operand: end of input, `,`, `]` or white space *)
Definition op_end (rest : list Z) : Prop :=
  match rest with [] => True | c :: _ => c = 44 \/ c = 93 \/ (is_space U c = true /\ c < 128) \/ (is_space U c = true /\ is_hex c = false /\ c <> 120) end.

Lemma ascii_space_props c : is_space U c = true -> c < 128 -> is_hex c = false /\ c <> 120 /\ is_digit c = false.
Proof.
  unfold is_space. intros H L. destruct (Z.ltb_spec c 128); [|lia].
  assert (R : (9 <= c <= 13) \/ c = 32).
  { apply orb_true_iff in H as [H|H]; [left; apply andb_true_iff in H as [A B]; apply Z.leb_le in A, B; lia|right; now apply Z.eqb_eq]. }
  unfold is_hex, is_digit.
  repeat match goal with |- context [?a <=? ?b] => destruct (Z.leb_spec a b) end; cbn [andb orb]; repeat split; try reflexivity; try lia.
Qed.

Lemma op_end_lit rest : op_end rest -> lit_end rest.
Proof.
  destruct rest as [|c r]; [exact id|]. cbn. intros [->|[->|[[S L]|[S [H X]]]]].
  - split; [reflexivity|discriminate].
  - split; [reflexivity|discriminate].
  - destruct (ascii_space_props c S L) as (A & B & _). tauto.
  - tauto.
Qed.
Lemma op_end_digit rest : op_end rest -> stops is_digit rest.
Proof. intros H. apply lit_end_digit, op_end_lit, H. Qed.

Lemma glit_head l : glit_wf l -> exists c tl, glit_text l = c :: tl /\ c <> 114 /\ c <> 91 /\ (is_digit c = true \/ c = 43 \/ c = 45).
Proof.
  intros W. destruct l as [s ds|s hs]; cbn [glit_text glit_wf] in *.
  - destruct W as (N & F & _). destruct ds as [|d ds']; [contradiction|]. inversion F as [|? ? D _]; subst.
    destruct s; cbn [sign_text app]; eexists; eexists; (split; [reflexivity|]).
    + repeat split; try (intros ->; discriminate D). now left.
    + repeat split; try discriminate. tauto.
    + repeat split; try discriminate. tauto.
  - destruct s; cbn [sign_text app]; eexists; eexists; (split; [reflexivity|]); repeat split; try discriminate; tauto.
Qed.

Lemma p_integer_bracket tl : p_integer (91 :: tl) = PErr false.
Proof.
  unfold p_integer. change (91 =? 45) with false. change (91 =? 43) with false. cbv iota.
  unfold p_hex. destruct tl as [|c1 tl']; [unfold p_dec; cbn [span]; change (is_digit 91) with false; reflexivity|].
  change (91 =? 48) with false. cbn [andb]. unfold p_dec. cbn [span]. change (is_digit 91) with false. cbv iota. reflexivity.
Qed.

Lemma p_integer_close tl : p_integer (93 :: tl) = PErr false.
Proof.
  unfold p_integer. change (93 =? 45) with false. change (93 =? 43) with false. cbv iota.
  unfold p_hex. destruct tl as [|c1 tl']; [unfold p_dec; cbn [span]; change (is_digit 93) with false; reflexivity|].
  change (93 =? 48) with false. cbn [andb]. unfold p_dec. cbn [span]. change (is_digit 93) with false. cbv iota. reflexivity.
Qed.

Lemma p_operand_gop o rest : gop_wf o -> op_end rest -> p_operand U (gop_text o ++ rest) = POk true (gop_val o) rest.
Proof.
  intros W E. destruct o as [ds|l|ds [l|]]; cbn [gop_text gop_val gop_wf] in *.
  - unfold p_operand. cbn [app]. rewrite p_register_greg by (try assumption; now apply op_end_digit). reflexivity.
  - unfold p_operand. destruct (glit_head l W) as (c & tl & T & N1 & N2 & _). rewrite T. cbn [app].
    rewrite p_register_not_r by exact N1. rewrite (app_comm_cons tl rest c), <- T.
    rewrite p_integer_glit by (try assumption; now apply op_end_lit). reflexivity.
  - destruct W as (Wr & Wl & Hs). cbn [app]. unfold p_operand. rewrite p_register_not_r by discriminate.
    rewrite p_integer_bracket. unfold p_memory. change (91 =? 91) with true. cbv iota.
    rewrite <- !app_assoc.
    destruct (glit_head l Wl) as (c & tl & T & _ & _ & Hc).
    assert (Hc' : c = 43 \/ c = 45).
    { destruct l as [s ds'|s hs]; cbn [has_sign glit_text] in *; destruct s; try contradiction; cbn [sign_text app] in T; injection T as <- _; tauto. }
    rewrite p_register_greg; [|exact Wr|rewrite T; cbn [app stops]; destruct Hc' as [->| ->]; reflexivity].
    rewrite p_integer_glit; [|exact Wl|cbn [app lit_end]; split; [reflexivity|discriminate]].
    cbn [app]. unfold p_close. change (93 =? 93) with true. reflexivity.
  - cbn [app]. unfold p_operand. rewrite p_register_not_r by discriminate.
    rewrite p_integer_bracket. unfold p_memory. change (91 =? 91) with true. cbv iota.
    rewrite <- !app_assoc. rewrite p_register_greg; [|exact W|cbn [app stops]; reflexivity].
    cbn [app]. rewrite p_integer_close. unfold p_close. change (93 =? 93) with true. reflexivity.
Qed.
End Gen.

Section GenLines.
Variable U : uclass.

(** white space of the documented syntax: ASCII blanks, tabs, newlines *)
Definition is_ws (c : Z) : bool := ((9 <=? c) && (c <=? 13)) || (c =? 32).
Definition ws_ok (w : list Z) : Prop := Forall (fun c => is_ws c = true) w.

Lemma ws_space c : is_ws c = true -> is_space U c = true /\ c < 128 /\ is_alnum U c = false.
Proof.
  unfold is_ws. intros H.
  assert (R : (9 <= c <= 13) \/ c = 32).
  { apply orb_true_iff in H as [H|H]; [left; apply andb_true_iff in H as [A B]; apply Z.leb_le in A, B; lia|right; now apply Z.eqb_eq]. }
  unfold is_space, is_alnum, is_ascii_alpha, is_digit. destruct (Z.ltb_spec c 128); [|lia]. split; [exact H|]. split; [lia|].
  repeat match goal with |- context [?a <=? ?b] => destruct (Z.leb_spec a b) end; cbn [andb orb]; try reflexivity; lia.
Qed.

Lemma skip_ws w tl : ws_ok w -> (match tl with [] => True | c :: _ => is_space U c = false end) -> skip_spaces U (w ++ tl) = tl.
Proof.
  intros Hw Ht. unfold skip_spaces. rewrite span_app; [reflexivity| |exact Ht].
  eapply Forall_impl; [|exact Hw]. intros c Hc. apply (ws_space c Hc).
Qed.

Lemma gop_head o : gop_wf o -> exists c tl, gop_text o = c :: tl /\ is_space U c = false /\ c <> 44.
Proof.
  intros W. destruct o as [ds|l|ds ol].
  - eexists; eexists; split; [reflexivity|split; [reflexivity|discriminate]].
  - cbn [gop_wf gop_text] in *. destruct (glit_head l W) as (c & tl & T & _ & _ & Hc). exists c, tl. split; [exact T|].
    destruct Hc as [D|[->| ->]]; [|split; [reflexivity|discriminate]|split; [reflexivity|discriminate]].
    unfold is_digit in D. apply andb_true_iff in D as [A B]. apply Z.leb_le in A, B.
    split; [|lia]. unfold is_space. destruct (Z.ltb_spec c 128); [|lia].
    destruct (Z.leb_spec 9 c), (Z.leb_spec c 13); try lia; cbn [andb orb]; apply Z.eqb_neq; lia.
  - destruct ol; eexists; eexists; (split; [reflexivity|split; [reflexivity|discriminate]]).
Qed.

(** operand lists: `op , ws op , ws op` *)
Fixpoint gmore_text (l : list (list Z * gop)) : list Z :=
  match l with [] => [] | (w, o) :: l' => 44 :: w ++ gop_text o ++ gmore_text l' end.
Definition gops_text (o : gop) (l : list (list Z * gop)) : list Z := gop_text o ++ gmore_text l.

Definition more_wf (l : list (list Z * gop)) : Prop := Forall (fun x => ws_ok (fst x) /\ gop_wf (snd x)) l.

(** after an operand list: end of input or ASCII white space *)
Definition list_end (rest : list Z) : Prop := match rest with [] => True | c :: _ => is_ws c = true end.

Lemma gmore_op_end l rest : list_end rest -> op_end U (gmore_text l ++ rest).
Proof.
  intros H. destruct l as [|[w o] l]; cbn [gmore_text app].
  - destruct rest as [|c r]; [exact I|]. cbn in *. destruct (ws_space c H) as (A & B & _). right. right. left. tauto.
  - cbn. tauto.
Qed.

Lemma p_gmore l : forall fuel rest, (List.length l < fuel)%nat -> more_wf l -> list_end rest ->
  p_more U fuel (gmore_text l ++ rest) = POk (match l with [] => false | _ => true end) (map (fun x => gop_val (snd x)) l) rest.
Proof.
  induction l as [|[w o] l IH]; intros fuel rest Hf Hw Hr.
  - destruct fuel as [|f]; [cbn in Hf; lia|]. cbn [gmore_text app p_more map].
    assert (S : p_sep U rest = None).
    { unfold p_sep. destruct rest as [|c tl]; [reflexivity|]. cbn in Hr. destruct (Z.eqb_spec c 44); [subst; discriminate Hr|reflexivity]. }
    rewrite S. reflexivity.
  - destruct fuel as [|f]; [cbn in Hf; lia|]. inversion Hw as [|? ? [Hws Hgo] Hl]; subst. cbn [fst snd] in *.
    cbn [gmore_text app p_more]. unfold p_sep. change (44 =? 44) with true. cbv iota.
    rewrite <- !app_assoc. destruct (gop_head o Hgo) as (c & tl & T & NS & _).
    rewrite (skip_ws w) by (try assumption; rewrite T; exact NS).
    rewrite p_operand_gop by (try assumption; now apply gmore_op_end).
    cbn [List.length] in Hf. rewrite (IH f rest ltac:(lia) Hl Hr). cbn [map snd]. reflexivity.
Qed.

Lemma gmore_length l : (List.length l <= List.length (gmore_text l))%nat.
Proof. induction l as [|[w o] l IH]; cbn [gmore_text List.length]; [lia|]. rewrite !app_length. lia. Qed.

Lemma p_goperands o l rest : gop_wf o -> more_wf l -> list_end rest ->
  p_operands U (gops_text o l ++ rest) = POk true (gop_val o :: map (fun x => gop_val (snd x)) l) rest.
Proof.
  intros Ho Hl Hr. unfold p_operands, gops_text. rewrite <- app_assoc.
  rewrite p_operand_gop by (try assumption; now apply gmore_op_end).
  rewrite (p_gmore l (S (List.length (gmore_text l ++ rest))) rest); [reflexivity| |assumption|assumption].
  rewrite app_length. pose proof (gmore_length l). lia.
Qed.

(** instruction lines: mnemonic, white space, operand list *)
Inductive gline := GLine (name : list Z) (ws1 : list Z) (ops : option (gop * list (list Z * gop))).
Definition gline_text (g : gline) : list Z :=
  match g with
  | GLine n _ None => n
  | GLine n w (Some (o, l)) => n ++ w ++ gops_text o l
  end.
Definition gline_val (g : gline) : instr :=
  match g with
  | GLine n _ None => (n, [])
  | GLine n _ (Some (o, l)) => (n, gop_val o :: map (fun x => gop_val (snd x)) l)
  end.
Definition gline_wf (g : gline) : Prop :=
  match g with
  | GLine n _ None => name_ok n
  | GLine n w (Some (o, l)) => name_ok n /\ w <> [] /\ ws_ok w /\ gop_wf o /\ more_wf l
  end.

(** after a line: nothing, or non-empty white space followed by nothing or the next mnemonic *)
Definition gafter (sep rest : list Z) : Prop :=
  ws_ok sep /\ (rest = [] \/ (sep <> [] /\ starts_name U rest)).

Lemma p_ident_gen n rest : name_ok n -> (match rest with [] => True | c :: _ => is_alnum U c = false end) ->
  p_ident U (n ++ rest) = POk true n rest.
Proof.
  intros [Ha Hs] Hr. unfold p_ident.
  rewrite span_app; [| eapply Forall_impl; [|exact Ha]; intros c Hc; now apply alnum_ascii | exact Hr].
  destruct n; [destruct Hs|reflexivity].
Qed.

Lemma ws_head_props w tl : ws_ok w -> w <> [] -> exists c r, w ++ tl = c :: r /\ is_ws c = true.
Proof. intros H N. destruct w as [|c w']; [contradiction|]. inversion H; subst. exists c, (w' ++ tl). split; [reflexivity|assumption]. Qed.

Lemma skip_to rest sep : gafter sep rest -> skip_spaces U (sep ++ rest) = rest.
Proof.
  intros [Hs [->|[_ Hn]]].
  - rewrite app_nil_r. unfold skip_spaces. rewrite <- (app_nil_r sep). rewrite span_app; [reflexivity| |exact I].
    eapply Forall_impl; [|exact Hs]. intros c Hc. apply (ws_space c Hc).
  - apply skip_ws; [exact Hs|]. destruct rest as [|c r]; [exact I|]. destruct Hn as [L _]. now apply lower_not_space.
Qed.

Lemma p_gline g sep rest : gline_wf g -> gafter sep rest ->
  p_instruction U (gline_text g ++ sep ++ rest) = POk true (gline_val g) rest.
Proof.
  intros W A. pose proof (skip_to rest sep A) as SK. destruct A as [Hs Hr].
  assert (AN : match sep ++ rest with [] => True | c :: _ => is_alnum U c = false end).
  { destruct sep as [|c s']; cbn [app].
    - destruct Hr as [->|[N _]]; [exact I|contradiction].
    - inversion Hs; subst. apply (ws_space c); assumption. }
  unfold p_instruction. destruct g as [n w [[o l]|]]; cbn [gline_text gline_val gline_wf] in *.
  - destruct W as (Hn & Nw & Hw & Ho & Hl). rewrite <- !app_assoc.
    destruct (ws_head_props w (gops_text o l ++ sep ++ rest) Hw Nw) as (c & r & E & Hc).
    rewrite p_ident_gen; [|exact Hn|rewrite E; apply (ws_space c Hc)].
    destruct (gop_head o Ho) as (c2 & tl2 & T2 & NS & _).
    rewrite (skip_ws w) by (try assumption; unfold gops_text; rewrite T2; exact NS).
    rewrite p_goperands; [|assumption|assumption|].
    + rewrite SK. reflexivity.
    + destruct sep as [|c3 s']; cbn [app].
      * destruct Hr as [->|[N _]]; [exact I|contradiction].
      * inversion Hs; subst. assumption.
  - rewrite p_ident_gen by assumption. rewrite SK.
    assert (PO : p_operands U rest = POk false [] rest).
    { unfold p_operands. destruct Hr as [->|[_ Hn]]; [reflexivity|]. rewrite p_operand_name by exact Hn. reflexivity. }
    rewrite PO. f_equal. destruct Hr as [->|[_ Hn]]; [reflexivity|now apply skip_name].
Qed.

(** programs: leading white space, lines separated by non-empty white space, trailing white space *)
Fixpoint gprog_text (l : list (gline * list Z)) : list Z :=
  match l with [] => [] | (g, sep) :: l' => gline_text g ++ sep ++ gprog_text l' end.

Fixpoint gprog_wf (l : list (gline * list Z)) : Prop :=
  match l with
  | [] => True
  | (g, sep) :: l' => gline_wf g /\ ws_ok sep /\ (l' <> [] -> sep <> []) /\ gprog_wf l'
  end.

Lemma gline_starts g tl : gline_wf g -> starts_name U (gline_text g ++ tl).
Proof.
  intros W. destruct g as [n w [[o l]|]]; cbn [gline_text gline_wf] in *.
  - destruct W as (Hn & _). rewrite <- app_assoc. now apply name_starts.
  - now apply name_starts.
Qed.

Lemma p_gprog l : forall fuel, (List.length l < fuel)%nat -> gprog_wf l ->
  p_instructions U fuel (gprog_text l) = POk (match l with [] => false | _ => true end) (map (fun x => gline_val (fst x)) l) [].
Proof.
  induction l as [|[g sep] l IH]; intros fuel Hf W.
  - destruct fuel as [|f]; [cbn in Hf; lia|]. reflexivity.
  - destruct fuel as [|f]; [cbn in Hf; lia|]. destruct W as (Wg & Ws & Wn & Wl). cbn [gprog_text p_instructions].
    rewrite (p_gline g sep (gprog_text l)); [|exact Wg|].
    + cbn [List.length] in Hf. rewrite (IH f ltac:(lia) Wl). cbn [map fst]. reflexivity.
    + split; [exact Ws|]. destruct l as [|[g2 s2] l2]; [left; reflexivity|right]. split; [apply Wn; discriminate|].
      cbn [gprog_text]. destruct Wl as (Wg2 & _). now apply gline_starts.
Qed.

Lemma gprog_length l : gprog_wf l -> (List.length l <= List.length (gprog_text l))%nat.
Proof.
  induction l as [|[g sep] l IH]; intros W; [cbn; lia|]. destruct W as (Wg & _ & _ & Wl). cbn [gprog_text List.length].
  rewrite !app_length. specialize (IH Wl).
  assert (1 <= List.length (gline_text g))%nat.
  { destruct g as [n w [[o l2]|]]; cbn [gline_text gline_wf] in *.
    - destruct Wg as ([_ Hs] & _). rewrite app_length. destruct n; [destruct Hs|cbn [List.length]; lia].
    - destruct Wg as [_ Hs]. destruct n; [destruct Hs|cbn [List.length]; lia]. }
  lia.
Qed.

Theorem parse_gprog lead l : ws_ok lead -> gprog_wf l ->
  parse U (lead ++ gprog_text l) = Ok (map (fun x => gline_val (fst x)) l).
Proof.
  intros Hl W. unfold parse.
  assert (SK : skip_spaces U (lead ++ gprog_text l) = gprog_text l).
  { apply skip_ws; [exact Hl|]. destruct l as [|[g sep] l']; [exact I|]. destruct W as (Wg & _).
    pose proof (gline_starts g (sep ++ gprog_text l') Wg) as S. cbn [gprog_text].
    destruct (gline_text g ++ sep ++ gprog_text l') as [|c r]; [exact I|]. destruct S as [L _]. now apply lower_not_space. }
  rewrite SK. rewrite p_gprog; [reflexivity| |exact W]. pose proof (gprog_length l W). lia.
Qed.
End GenLines.
