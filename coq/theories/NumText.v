(** Printing and reading numbers: the digits Rust's formatter prints (Fmt.v) are read back by the assembler's
    parser model (AsmParser.v) to the same value.  Used by the round-trip theorem C16. *)
From Coq Require Import ZArith Lia Bool List Ascii String.
From RbpfV Require Import MachInt BitLemmas ListLemmas Fmt AsmDefs AsmParser.
Import ListNotations.
Open Scope Z_scope.
Ltac Zify.zify_post_hook ::= Z.div_mod_to_equations.

(** character code of a digit 0..15 as printed *)
Definition code (d : Z) : Z := if d <? 10 then 48 + d else 87 + d.

Lemma digit_char_code d : 0 <= d < 16 -> Z.of_nat (nat_of_ascii (digit_char d)) = code d.
Proof.
  intros H. unfold digit_char. fold (code d).
  assert (R : 48 <= code d < 256) by (unfold code; destruct (Z.ltb_spec d 10); lia).
  rewrite nat_ascii_embedding by (apply Nat2Z.inj_lt; rewrite Z2Nat.id by lia; cbn; lia).
  apply Z2Nat.id. lia.
Qed.

Lemma bytes_of_chars l : bytes_of_string (string_of_chars l) = map (fun c => Z.of_nat (nat_of_ascii c)) l.
Proof. induction l as [|c l IH]; [reflexivity|]. cbn [string_of_chars bytes_of_string map]. now rewrite IH. Qed.

Lemma bytes_fmt_unsigned b x : Forall (fun d => 0 <= d < 16) (digits b x) ->
  bytes_of_string (fmt_unsigned b x) = map code (digits b x).
Proof.
  intros H. unfold fmt_unsigned. rewrite bytes_of_chars, map_map.
  apply map_ext_in. intros d Hd. apply digit_char_code. exact (proj1 (Forall_forall _ _) H d Hd).
Qed.

(** digits, least significant first *)
Lemma digits_rev_spec b fuel : 2 <= b -> forall x, 0 <= x < b ^ Z.of_nat fuel -> (0 < fuel)%nat ->
  let r := digits_rev fuel b x in
  Forall (fun d => 0 <= d < b) r /\ r <> [] /\ fold_right (fun d acc => acc * b + d) 0 r = x.
Proof.
  intros Hb. induction fuel as [|f IH]; intros x Hx Hf; [lia|].
  cbn [digits_rev]. destruct (Z.ltb_spec x b) as [L|L].
  - cbv zeta. split; [constructor; [lia|constructor]|]. split; [discriminate|]. cbn [fold_right]. lia.
  - destruct f as [|f'].
    { change (Z.of_nat 1) with 1 in Hx. rewrite Z.pow_1_r in Hx. lia. }
    assert (Hq : 0 <= x / b < b ^ Z.of_nat (S f')).
    { rewrite (Nat2Z.inj_succ (S f')), Z.pow_succ_r in Hx by lia. split; [apply Z.div_pos; lia|apply Z.div_lt_upper_bound; lia]. }
    destruct (IH (x / b) Hq ltac:(lia)) as (A & B & C). cbv zeta.
    split; [constructor; [apply Z.mod_pos_bound; lia|exact A]|]. split; [discriminate|].
    cbn [fold_right]. rewrite C. pose proof (Z.div_mod x b ltac:(lia)). lia.
Qed.

Lemma fold_left_rev_right {A B} (f : A -> B -> A) (l : list B) (a : A) :
  fold_left f (rev l) a = fold_right (fun x acc => f acc x) a l.
Proof. rewrite <- fold_left_rev_right. rewrite rev_involutive. reflexivity. Qed.

Section Num.
Variable U : uclass.

Lemma digit_val_code d : 0 <= d < 16 -> digit_val (code d) = d.
Proof.
  intros H. unfold digit_val, code. destruct (Z.ltb_spec d 10).
  - destruct (Z.leb_spec (48 + d) 57); lia.
  - destruct (Z.leb_spec (87 + d) 57); [lia|]. destruct (Z.leb_spec (87 + d) 70); lia.
Qed.

Lemma is_hex_code d : 0 <= d < 16 -> is_hex (code d) = true.
Proof.
  intros H. unfold is_hex, is_digit, code. destruct (Z.ltb_spec d 10).
  - replace ((48 <=? 48 + d) && (48 + d <=? 57)) with true; [reflexivity|]. symmetry. apply andb_true_iff. split; apply Z.leb_le; lia.
  - replace ((97 <=? 87 + d) && (87 + d <=? 102)) with true; [now rewrite orb_true_r|]. symmetry. apply andb_true_iff. split; apply Z.leb_le; lia.
Qed.
Lemma is_digit_code d : 0 <= d < 10 -> is_digit (code d) = true.
Proof.
  intros H. unfold is_digit, code. destruct (Z.ltb_spec d 10); [|lia]. apply andb_true_iff. split; apply Z.leb_le; lia.
Qed.

(** the printed digits of x in base b (2 <= b <= 16, x < 2^64): all digits, non-empty, value x *)
Lemma digits_props b x : 2 <= b <= 16 -> 0 <= x < 2 ^ 64 ->
  Forall (fun d => 0 <= d < b) (digits b x) /\ digits b x <> [] /\ num_of b (map code (digits b x)) = x.
Proof.
  intros Hb Hx. unfold digits.
  assert (Hp : 0 <= x < b ^ Z.of_nat 64).
  { split; [lia|]. apply Z.lt_le_trans with (2 ^ 64); [lia|]. change (Z.of_nat 64) with 64. apply Z.pow_le_mono_l. lia. }
  destruct (digits_rev_spec b 64 ltac:(lia) x Hp ltac:(lia)) as (A & B & C).
  split; [apply Forall_rev; exact A|]. split.
  { intros E. apply B. rewrite <- (rev_involutive (digits_rev 64 b x)), E. reflexivity. }
  unfold num_of. rewrite map_rev, fold_left_rev_right.
  set (r := digits_rev 64 b x) in *. clearbody r. etransitivity; [|exact C]. clear B C.
  induction A as [|d r Hd _ IH]; [reflexivity|]. cbn [map fold_right]. rewrite IH. rewrite digit_val_code by lia. reflexivity.
Qed.

(** [span] stops where the predicate fails *)
Definition stops (f : Z -> bool) (rest : list Z) : Prop := match rest with [] => True | c :: _ => f c = false end.

Lemma span_app f l rest : Forall (fun c => f c = true) l -> stops f rest -> span f (l ++ rest) = (l, rest).
Proof.
  intros Hl Hr. induction Hl as [|c l Hc _ IH]; cbn [app span].
  - destruct rest as [|c r]; [reflexivity|]. cbn [stops] in Hr. cbn [span]. now rewrite Hr.
  - rewrite Hc, IH. reflexivity.
Qed.
End Num.
