(** C03 (ALU opcodes): for each of the 38 ALU opcodes that jit_compile translates directly (everything except mul / div /
    mod, which go through emit_muldivmod, and the byte swaps), running the x86 instructions it emits (regenerated into
    coq/gen/JitArms.v; semantics X86Sem.v) leaves the ISA value in the x86 register of the destination and changes no other
    register except the scratch register RCX -- for all operand values and all register assignments. *)
From Coq Require Import ZArith Lia Bool List.
From RbpfV Require Import MachInt BitLemmas ArmVals Ebpf X86Sem Mem Stack Helpers InterpDefs Isa ClAluProofs.
From RbpfV.gen Require Import Opcodes JitArms.
Import ListNotations.
Open Scope Z_scope.
Ltac Zify.zify_post_hook ::= Z.div_mod_to_equations.

Definition jit_alu_ops : list Z :=
  [0x04; 0x0c; 0x14; 0x1c; 0x44; 0x4c; 0x54; 0x5c; 0x64; 0x6c; 0x74; 0x7c; 0x84; 0xa4; 0xac; 0xb4; 0xbc; 0xc4; 0xcc;
   0x07; 0x0f; 0x17; 0x1f; 0x47; 0x4f; 0x57; 0x5f; 0x67; 0x6f; 0x77; 0x7f; 0x87; 0xa7; 0xaf; 0xb7; 0xbf; 0xc7; 0xcf].

Definition arm_ok (o : Z) (i : insn) (R : regs) (d s : Z) : Prop :=
  exists R', xrun (gen_jit_alu o i d s) R = Some R' /\
             R' d = newval (isa_alu_value o i (R d) (R s)) (R d) /\
             forall r, r <> d -> r <> 1 -> R' r = R r.

Lemma rset_same R r v : rset R r v r = v.
Proof. unfold rset. now rewrite Z.eqb_refl. Qed.
Lemma rset_other R r v x : x <> r -> rset R r v x = R x.
Proof. intros H. unfold rset. destruct (Z.eqb_spec x r); [contradiction|reflexivity]. Qed.

Lemma sgnw_smod W a : 0 < W -> 0 <= a < 2 ^ W -> sgnw W a = smod W a.
Proof. intros Hw Ha. unfold sgnw, smod. rewrite Z.mod_small by lia. reflexivity. Qed.

Ltac evx o :=
  unfold arm_ok, isa_alu_value;
  let v1 := eval vm_compute in (o mod 8 =? 7) in change (o mod 8 =? 7) with v1;
  let v2 := eval vm_compute in (o / 16) in change (o / 16) with v2;
  let v3 := eval vm_compute in (Z.testbit o 3) in change (Z.testbit o 3) with v3;
  cbv beta iota zeta delta [alu];
  unfold gen_jit_alu;
  match goal with |- exists R', xrun ?L ?R = _ /\ _ => let L2 := eval simpl in L in change L with L2 end;
  match goal with |- exists R', xrun (?f ?i ?d ?s) ?R = _ /\ _ => unfold f end.

Theorem jit_alu_arms i R d s :
  (forall r, 0 <= R r < 2 ^ 64) -> d <> 1 -> - 2 ^ 31 <= imm i < 2 ^ 31 ->
  Forall (fun o => arm_ok o i R d s) jit_alu_ops.
Proof.
  intros HR Hd Hi. unfold jit_alu_ops.
  pose proof (HR d) as Rd. pose proof (HR s) as Rs.
  assert (M32d : 0 <= R d mod 2 ^ 32 < 2 ^ 32) by (apply Z.mod_pos_bound; fold_pows; lia).
  repeat (apply Forall_cons;
    [ match goal with |- arm_ok ?o _ _ _ _ => evx o end;
      cbn [xrun xstep]; unfold binop, shift, wr, opw;
      repeat match goal with |- context [?a =? ?b] =>
        lazymatch a with Zpos _ => idtac | Z0 => idtac end; lazymatch b with Zpos _ => idtac | Z0 => idtac end;
        let v := eval vm_compute in (a =? b) in change (a =? b) with v end;
      cbv iota beta;
      rewrite ?rset_same, ?(rset_other R 1 _ d Hd);
      eexists; split; [reflexivity|]; split;
      [ rewrite ?rset_same, ?(rset_other _ 1 _ d Hd);
        rewrite ?(Z.mod_small (R d) (2 ^ 64)), ?(Z.mod_small (R s) (2 ^ 64)) by assumption;
        cbn [newval];
        rewrite ?(sgnw_smod 32 (R d mod 2 ^ 32)), ?(sgnw_smod 64 (R d)) by (assumption || lia)
      | intros r N1 N2; rewrite ?(rset_other _ d _ r N1), ?(rset_other _ 1 _ r N2); reflexivity ]
    | ]).
  all: try reflexivity.
  all: try apply Forall_nil.
  all: assert (Mi32 : 0 <= imm i mod 2 ^ 32 < 2 ^ 32) by (apply Z.mod_pos_bound; fold_pows; lia).
  all: assert (Mi64 : 0 <= imm i mod 2 ^ 64 < 2 ^ 64) by (apply Z.mod_pos_bound; fold_pows; lia).
  all: assert (Ms32 : 0 <= R s mod 2 ^ 32 < 2 ^ 32) by (apply Z.mod_pos_bound; fold_pows; lia).
  all: assert (C8 : forall W, W = 32 \/ W = 64 -> (cast I8 (imm i) mod 256) mod W = imm i mod W).
  all: try (intros W HW; unfold cast, norm; cbn [signed bits]; unfold smod; change (8 - 1) with 7; fold_pows;
            destruct (Z.ltb_spec (imm i mod 256) 128); destruct HW; subst W; lia).
  all: rewrite ?(C8 32), ?(C8 64) by tauto.
  all: try (rewrite ?Z.mod_mod by (fold_pows; lia); reflexivity).
  all: try (apply Z.mod_small; first [apply lor_range | apply land_range | apply lxor_range]; (assumption || lia)).
  all: try (rewrite Z.mod_small by (apply div_pow_range; [assumption|apply Z.mod_pos_bound; lia]); f_equal; f_equal; fold_pows; lia).
  all: try (f_equal; f_equal; f_equal; fold_pows; lia).
  all: try (unfold cast, norm; cbn [signed bits]; rewrite smod_mod by lia; reflexivity).
Qed.

(** ** conditional jumps: the flag-setting instruction and condition code chosen for each of the 44 opcodes make the x86
    branch taken exactly when the ISA condition holds *)
From RbpfV Require Import ClJmpProofs.

Theorem jit_jmp_arms i R d s :
  (forall r, 0 <= R r < 2 ^ 64) ->
  Forall (fun o => xcond (fst (gen_jit_jmp o i d s)) (snd (gen_jit_jmp o i d s)) R = Some (isa_jump_taken o i (R d) (R s))) cl_jmp_ops.
Proof.
  intros HR. unfold cl_jmp_ops. pose proof (HR d) as Rd. pose proof (HR s) as Rs.
  assert (M32d : 0 <= R d mod 2 ^ 32 < 2 ^ 32) by (apply Z.mod_pos_bound; fold_pows; lia).
  assert (M32s : 0 <= R s mod 2 ^ 32 < 2 ^ 32) by (apply Z.mod_pos_bound; fold_pows; lia).
  assert (M32i : 0 <= imm i mod 2 ^ 32 < 2 ^ 32) by (apply Z.mod_pos_bound; fold_pows; lia).
  assert (M64i : 0 <= imm i mod 2 ^ 64 < 2 ^ 64) by (apply Z.mod_pos_bound; fold_pows; lia).
  repeat (apply Forall_cons;
    [ match goal with |- xcond (fst (gen_jit_jmp ?o _ _ _)) _ _ = _ =>
        unfold isa_jump_taken;
        let v1 := eval vm_compute in (o mod 8 =? 5) in change (o mod 8 =? 5) with v1;
        let v2 := eval vm_compute in (o / 16) in change (o / 16) with v2;
        let v3 := eval vm_compute in (Z.testbit o 3) in change (Z.testbit o 3) with v3;
        cbv beta iota zeta delta [cond];
        unfold gen_jit_jmp;
        match goal with |- xcond (fst ?L) _ _ = _ => let L2 := eval simpl in L in change L with L2 end;
        match goal with |- xcond (fst (?f ?i ?d ?s)) _ _ = _ => unfold f end
      end;
      cbn [fst snd]; unfold xcond, flag_operands, opw;
      repeat match goal with |- context [?a =? ?b] =>
        lazymatch a with Zpos _ => idtac | Z0 => idtac end; lazymatch b with Zpos _ => idtac | Z0 => idtac end;
        let v := eval vm_compute in (a =? b) in change (a =? b) with v end;
      cbv iota beta; cbn [andb];
      rewrite ?(Z.mod_small (R d) (2 ^ 64)), ?(Z.mod_small (R s) (2 ^ 64)) by assumption;
      rewrite ?(sgnw_smod 32 (R d mod 2 ^ 32)), ?(sgnw_smod 32 (R s mod 2 ^ 32)), ?(sgnw_smod 32 (imm i mod 2 ^ 32)),
              ?(sgnw_smod 64 (R d)), ?(sgnw_smod 64 (R s)), ?(sgnw_smod 64 (imm i mod 2 ^ 64)) by (assumption || lia);
      reflexivity
    | ]).
  apply Forall_nil.
Qed.
