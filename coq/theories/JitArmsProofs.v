(** C03 (ALU opcodes): for each of the 38 ALU opcodes that jit_compile translates directly (everything except mul / div /
    mod, which go through emit_muldivmod, and the byte swaps), running the x86 instructions it emits (regenerated into
    coq/gen/JitArms.v; semantics X86Sem.v) leaves the ISA value in the x86 register of the destination and changes no other
    register except the scratch register RCX -- for all operand values and all register assignments. *)
From Coq Require Import ZArith Lia Bool List.
From RbpfV Require Import MachInt BitLemmas ArmVals Ebpf X86Sem Mem Stack Helpers InterpDefs Isa ClAluProofs.
From RbpfV.gen Require Import Opcodes JitArms.
Import ListNotations.
Open Scope Z_scope.
Ltac Zify.zify_post_hook ::= Z.div_mod_to_equations.

Definition jit_alu_ops : list Z :=
  [0x04; 0x0c; 0x14; 0x1c; 0x44; 0x4c; 0x54; 0x5c; 0x64; 0x6c; 0x74; 0x7c; 0x84; 0xa4; 0xac; 0xb4; 0xbc; 0xc4; 0xcc;
   0x07; 0x0f; 0x17; 0x1f; 0x47; 0x4f; 0x57; 0x5f; 0x67; 0x6f; 0x77; 0x7f; 0x87; 0xa7; 0xaf; 0xb7; 0xbf; 0xc7; 0xcf].

Definition arm_ok (o : Z) (i : insn) (R : regs) (d s : Z) : Prop :=
  exists R', xrun (gen_jit_alu o i d s) R = Some R' /\
             R' d = newval (isa_alu_value o i (R d) (R s)) (R d) /\
             forall r, r <> d -> r <> 1 -> R' r = R r.

Lemma rset_same R r v : rset R r v r = v.
Proof. unfold rset. now rewrite Z.eqb_refl. Qed.
Lemma rset_other R r v x : x <> r -> rset R r v x = R x.
Proof. intros H. unfold rset. destruct (Z.eqb_spec x r); [contradiction|reflexivity]. Qed.

Lemma sgnw_smod W a : 0 < W -> 0 <= a < 2 ^ W -> sgnw W a = smod W a.
Proof. intros Hw Ha. unfold sgnw, smod. rewrite Z.mod_small by lia. reflexivity. Qed.

Ltac evx o :=
  unfold arm_ok, isa_alu_value;
  let v1 := eval vm_compute in (o mod 8 =? 7) in change (o mod 8 =? 7) with v1;
  let v2 := eval vm_compute in (o / 16) in change (o / 16) with v2;
  let v3 := eval vm_compute in (Z.testbit o 3) in change (Z.testbit o 3) with v3;
  cbv beta iota zeta delta [alu];
  unfold gen_jit_alu;
  match goal with |- exists R', xrun ?L ?R = _ /\ _ => let L2 := eval simpl in L in change L with L2 end;
  match goal with |- exists R', xrun (?f ?i ?d ?s) ?R = _ /\ _ => unfold f end.

Theorem jit_alu_arms i R d s :
  (forall r, 0 <= R r < 2 ^ 64) -> d <> 1 -> - 2 ^ 31 <= imm i < 2 ^ 31 ->
  Forall (fun o => arm_ok o i R d s) jit_alu_ops.
Proof.
  intros HR Hd Hi. unfold jit_alu_ops.
  pose proof (HR d) as Rd. pose proof (HR s) as Rs.
  assert (M32d : 0 <= R d mod 2 ^ 32 < 2 ^ 32) by (apply Z.mod_pos_bound; fold_pows; lia).
  repeat (apply Forall_cons;
    [ match goal with |- arm_ok ?o _ _ _ _ => evx o end;
      cbn [xrun xstep]; unfold binop, shift, wr, opw;
      repeat match goal with |- context [?a =? ?b] =>
        lazymatch a with Zpos _ => idtac | Z0 => idtac end; lazymatch b with Zpos _ => idtac | Z0 => idtac end;
        let v := eval vm_compute in (a =? b) in change (a =? b) with v end;
      cbv iota beta;
      rewrite ?rset_same, ?(rset_other R 1 _ d Hd);
      eexists; split; [reflexivity|]; split;
      [ rewrite ?rset_same, ?(rset_other _ 1 _ d Hd);
        rewrite ?(Z.mod_small (R d) (2 ^ 64)), ?(Z.mod_small (R s) (2 ^ 64)) by assumption;
        cbn [newval];
        rewrite ?(sgnw_smod 32 (R d mod 2 ^ 32)), ?(sgnw_smod 64 (R d)) by (assumption || lia)
      | intros r N1 N2; rewrite ?(rset_other _ d _ r N1), ?(rset_other _ 1 _ r N2); reflexivity ]
    | ]).
  all: try reflexivity.
  all: try apply Forall_nil.
  all: assert (Mi32 : 0 <= imm i mod 2 ^ 32 < 2 ^ 32) by (apply Z.mod_pos_bound; fold_pows; lia).
  all: assert (Mi64 : 0 <= imm i mod 2 ^ 64 < 2 ^ 64) by (apply Z.mod_pos_bound; fold_pows; lia).
  all: assert (Ms32 : 0 <= R s mod 2 ^ 32 < 2 ^ 32) by (apply Z.mod_pos_bound; fold_pows; lia).
  all: assert (C8 : forall W, W = 32 \/ W = 64 -> (cast I8 (imm i) mod 256) mod W = imm i mod W).
  all: try (intros W HW; unfold cast, norm; cbn [signed bits]; unfold smod; change (8 - 1) with 7; fold_pows;
            destruct (Z.ltb_spec (imm i mod 256) 128); destruct HW; subst W; lia).
  all: rewrite ?(C8 32), ?(C8 64) by tauto.
  all: try (rewrite ?Z.mod_mod by (fold_pows; lia); reflexivity).
  all: try (apply Z.mod_small; first [apply lor_range | apply land_range | apply lxor_range]; (assumption || lia)).
  all: try (rewrite Z.mod_small by (apply div_pow_range; [assumption|apply Z.mod_pos_bound; lia]); f_equal; f_equal; fold_pows; lia).
  all: try (f_equal; f_equal; f_equal; fold_pows; lia).
  all: try (unfold cast, norm; cbn [signed bits]; rewrite smod_mod by lia; reflexivity).
Qed.

(** ** conditional jumps: the flag-setting instruction and condition code chosen for each of the 44 opcodes make the x86
    branch taken exactly when the ISA condition holds *)
From RbpfV Require Import ClJmpProofs.

Theorem jit_jmp_arms i R d s :
  (forall r, 0 <= R r < 2 ^ 64) ->
  Forall (fun o => xcond (fst (gen_jit_jmp o i d s)) (snd (gen_jit_jmp o i d s)) R = Some (isa_jump_taken o i (R d) (R s))) cl_jmp_ops.
Proof.
  intros HR. unfold cl_jmp_ops. pose proof (HR d) as Rd. pose proof (HR s) as Rs.
  assert (M32d : 0 <= R d mod 2 ^ 32 < 2 ^ 32) by (apply Z.mod_pos_bound; fold_pows; lia).
  assert (M32s : 0 <= R s mod 2 ^ 32 < 2 ^ 32) by (apply Z.mod_pos_bound; fold_pows; lia).
  assert (M32i : 0 <= imm i mod 2 ^ 32 < 2 ^ 32) by (apply Z.mod_pos_bound; fold_pows; lia).
  assert (M64i : 0 <= imm i mod 2 ^ 64 < 2 ^ 64) by (apply Z.mod_pos_bound; fold_pows; lia).
  repeat (apply Forall_cons;
    [ match goal with |- xcond (fst (gen_jit_jmp ?o _ _ _)) _ _ = _ =>
        unfold isa_jump_taken;
        let v1 := eval vm_compute in (o mod 8 =? 5) in change (o mod 8 =? 5) with v1;
        let v2 := eval vm_compute in (o / 16) in change (o / 16) with v2;
        let v3 := eval vm_compute in (Z.testbit o 3) in change (Z.testbit o 3) with v3;
        cbv beta iota zeta delta [cond];
        unfold gen_jit_jmp;
        match goal with |- xcond (fst ?L) _ _ = _ => let L2 := eval simpl in L in change L with L2 end;
        match goal with |- xcond (fst (?f ?i ?d ?s)) _ _ = _ => unfold f end
      end;
      cbn [fst snd]; unfold xcond, flag_operands, opw;
      repeat match goal with |- context [?a =? ?b] =>
        lazymatch a with Zpos _ => idtac | Z0 => idtac end; lazymatch b with Zpos _ => idtac | Z0 => idtac end;
        let v := eval vm_compute in (a =? b) in change (a =? b) with v end;
      cbv iota beta; cbn [andb];
      rewrite ?(Z.mod_small (R d) (2 ^ 64)), ?(Z.mod_small (R s) (2 ^ 64)) by assumption;
      rewrite ?(sgnw_smod 32 (R d mod 2 ^ 32)), ?(sgnw_smod 32 (R s mod 2 ^ 32)), ?(sgnw_smod 32 (imm i mod 2 ^ 32)),
              ?(sgnw_smod 64 (R d)), ?(sgnw_smod 64 (R s)), ?(sgnw_smod 64 (imm i mod 2 ^ 64)) by (assumption || lia);
      reflexivity
    | ]).
  apply Forall_nil.
Qed.

(** ** memory opcodes: the access made by the emitted instruction(s) is the ISA access.  R10 holds the packet address (set
    by the prologue); absolute / indirect loads agree with the ISA for non-negative immediates (the displacement is the
    sign-extended immediate, the ISA adds the zero-extended one; a negative immediate is out of bounds for the ISA) *)
From RbpfV Require Import WellFormed ClMemProofs.

Definition jit_access_matches (o : Z) (i : insn) (R : regs) (d s : Z) : Prop :=
  exists a, xrun_mem (gen_jit_mem o i d s) R = Some a /\
    x_kind a = isa_kind o /\ x_bytes a = size_of o /\
    x_addr a = isa_addr o i (R d) (R s) (R 10) /\
    x_val a = isa_val o i (R s) /\
    x_target a = (if o mod 8 =? 0 then 0 else if o mod 8 =? 1 then d else 16).

Theorem jit_mem_arms_packet i R d s :
  (forall r, 0 <= R r < 2 ^ 64) -> s <> 11 -> - 2 ^ 15 <= off i < 2 ^ 15 -> 0 <= imm i < 2 ^ 31 ->
  Forall (fun o => jit_access_matches o i R d s) [0x20; 0x28; 0x30; 0x38; 0x40; 0x48; 0x50; 0x58].
Proof.
  intros HR Hs Ho Hi. pose proof (HR d) as Rd. pose proof (HR s) as Rs. pose proof (HR 10) as R10.
  assert (CO : cast I32 (off i) = off i) by (apply norm_idem; unfold in_ty, tmin, tmax; cbn [signed bits]; fold_pows; lia).
  assert (U32 : u32 (imm i) = imm i) by (unfold u32; apply Z.mod_small; fold_pows; lia).
  repeat (apply Forall_cons;
    [ match goal with |- jit_access_matches ?o _ _ _ _ =>
        unfold jit_access_matches, isa_kind, isa_addr, isa_val, is_xadd, op_xadd_w, op_xadd_dw, size_of;
        let v0 := eval vm_compute in (o mod 8) in change (o mod 8) with v0;
        let v1 := eval vm_compute in (o / 32) in change (o / 32) with v1;
        let v2 := eval vm_compute in ((o / 8) mod 4) in change ((o / 8) mod 4) with v2;
        let v3 := eval vm_compute in (o =? 195) in change (o =? 195) with v3;
        let v4 := eval vm_compute in (o =? 219) in change (o =? 219) with v4;
        cbv beta iota zeta;
        unfold gen_jit_mem;
        match goal with |- exists a, xrun_mem ?L ?R = _ /\ _ => let L2 := eval simpl in L in change L with L2 end;
        match goal with |- exists a, xrun_mem (?f ?i ?d ?s) ?R = _ /\ _ => unfold f end
      end;
      cbn [xrun_mem xstep xaccess_of]; unfold binop, wr, opw;
      repeat match goal with |- context [?a =? ?b] =>
        lazymatch a with Zpos _ => idtac | Z0 => idtac end; lazymatch b with Zpos _ => idtac | Z0 => idtac end;
        let v := eval vm_compute in (a =? b) in change (a =? b) with v end;
      cbv iota beta; cbn [orb andb];
      eexists; split; [reflexivity|]; cbn [x_kind x_bytes x_addr x_val x_target];
      rewrite ?CO, ?U32, ?rset_same, ?(rset_other _ 11 _ s Hs), ?rset_same;
      unfold u64;
      repeat split; try reflexivity;
      try (rewrite ?(Z.mod_small (R 10) (2 ^ 64)), ?(Z.mod_small (R s) (2 ^ 64)) by assumption;
           rewrite ?Zplus_mod_idemp_l, ?Zplus_mod_idemp_r; first [reflexivity | f_equal; lia])
    | ]).
  apply Forall_nil.
Qed.

Theorem jit_mem_arms_regs i R d s :
  (forall r, 0 <= R r < 2 ^ 64) -> s <> 11 -> - 2 ^ 15 <= off i < 2 ^ 15 -> - 2 ^ 31 <= imm i < 2 ^ 31 ->
  Forall (fun o => jit_access_matches o i R d s) [0x61; 0x69; 0x71; 0x79; 0x62; 0x6a; 0x72; 0x7a; 0x63; 0x6b; 0x73; 0x7b; 0xc3; 0xdb].
Proof.
  intros HR Hs Ho Hi. pose proof (HR d) as Rd. pose proof (HR s) as Rs. pose proof (HR 10) as R10.
  assert (CO : cast I32 (off i) = off i) by (apply norm_idem; unfold in_ty, tmin, tmax; cbn [signed bits]; fold_pows; lia).
  assert (U32 : True) by exact I.
  repeat (apply Forall_cons;
    [ match goal with |- jit_access_matches ?o _ _ _ _ =>
        unfold jit_access_matches, isa_kind, isa_addr, isa_val, is_xadd, op_xadd_w, op_xadd_dw, size_of;
        let v0 := eval vm_compute in (o mod 8) in change (o mod 8) with v0;
        let v1 := eval vm_compute in (o / 32) in change (o / 32) with v1;
        let v2 := eval vm_compute in ((o / 8) mod 4) in change ((o / 8) mod 4) with v2;
        let v3 := eval vm_compute in (o =? 195) in change (o =? 195) with v3;
        let v4 := eval vm_compute in (o =? 219) in change (o =? 219) with v4;
        cbv beta iota zeta;
        unfold gen_jit_mem;
        match goal with |- exists a, xrun_mem ?L ?R = _ /\ _ => let L2 := eval simpl in L in change L with L2 end;
        match goal with |- exists a, xrun_mem (?f ?i ?d ?s) ?R = _ /\ _ => unfold f end
      end;
      cbn [xrun_mem xstep xaccess_of]; unfold binop, wr, opw;
      repeat match goal with |- context [?a =? ?b] =>
        lazymatch a with Zpos _ => idtac | Z0 => idtac end; lazymatch b with Zpos _ => idtac | Z0 => idtac end;
        let v := eval vm_compute in (a =? b) in change (a =? b) with v end;
      cbv iota beta; cbn [orb andb];
      eexists; split; [reflexivity|]; cbn [x_kind x_bytes x_addr x_val x_target];
      rewrite ?CO, ?rset_same, ?(rset_other _ 11 _ s Hs), ?rset_same;
      unfold u64;
      repeat split; try reflexivity;
      try (rewrite ?(Z.mod_small (R 10) (2 ^ 64)), ?(Z.mod_small (R s) (2 ^ 64)) by assumption;
           rewrite ?Zplus_mod_idemp_l, ?Zplus_mod_idemp_r; first [reflexivity | f_equal; lia])
    | ]).
  apply Forall_nil.
Qed.
