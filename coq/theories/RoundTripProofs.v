(** C16: the round trip rests on the C15 theorem (text = specified rendering) and the C13/C14 theorems. *)
From Coq Require Import ZArith Lia List String.
From RbpfV Require Import MachInt Ebpf Fmt DisasmDefs DisasmSpec DisasmProofs AsmDefs AsmParser AsmModel AsmSpec AsmProofs AsmEncode RoundTrip.
From RbpfV.gen Require Import Codec Disasm Asm.
Import ListNotations.
Open Scope Z_scope.

Lemma roundtrip_text p t :
  bytes_ok p -> len p mod 8 = 0 -> len p < 2 ^ 63 -> hl_list (decode_all p) = Some t ->
  roundtrip p = assemble U_none (join_lines (map h_desc t)).
Proof.
  intros Hb Hm Hx Ht. unfold roundtrip.
  rewrite (disasm_correct p t Hb Hm Hx Ht) by (unfold nsl; lia). reflexivity.
Qed.

Lemma roundtrip_total p t :
  bytes_ok p -> len p mod 8 = 0 -> len p < 2 ^ 63 -> hl_list (decode_all p) = Some t ->
  match roundtrip p with Ok _ | Err _ => True | _ => False end.
Proof.
  intros Hb Hm Hx Ht. rewrite (roundtrip_text p t Hb Hm Hx Ht). apply assemble_total.
Qed.
