(** C18: interleavings of concurrent atomic adds on one word.
    [run_atomic]: every add is one indivisible read-modify-write step (what `fetch_add`,
    `lock add` and Cranelift's `atomic_rmw add` provide -- trusted of hardware and compilers);
    [run_split]: the add is a read step followed by a write step (what a plain load/store pair does). *)
From Coq Require Import ZArith List Bool Lia.
Import ListNotations.
Open Scope Z_scope.

Definition zsum (l : list Z) : Z := fold_right Z.add 0 l.
Definition total (ts : list (list Z)) : Z := zsum (map zsum ts).

(** take the next addend of thread [t] *)
Fixpoint pop (ts : list (list Z)) (t : nat) : option (Z * list (list Z)) :=
  match ts, t with
  | [], _ => None
  | [] :: _, O => None
  | (a :: r) :: rest, O => Some (a, r :: rest)
  | l :: rest, S t' => match pop rest t' with Some (a, rest') => Some (a, l :: rest') | None => None end
  end.

(** atomic RMW: a scheduled thread adds its next addend in one step (a finished thread's turn is a no-op) *)
Fixpoint run_atomic (w : Z) (word : Z) (ts : list (list Z)) (sched : list nat) : Z * list (list Z) :=
  match sched with
  | [] => (word, ts)
  | t :: s => match pop ts t with
              | Some (a, ts') => run_atomic w ((word + a) mod 2 ^ w) ts' s
              | None => run_atomic w word ts s
              end
  end.

Lemma pop_total ts t a ts' : pop ts t = Some (a, ts') -> total ts = a + total ts'.
Proof.
  revert t a ts'. induction ts as [|l rest IH]; intros t a ts' H; [destruct t; discriminate|].
  destruct t as [|t].
  - destruct l as [|x r]; [discriminate|]. cbn in H. inversion H; subst. unfold total, zsum. cbn [map fold_right]. lia.
  - cbn in H. destruct (pop rest t) as [[b rest']|] eqn:E; [|destruct l; discriminate].
    assert (H' : Some (b, l :: rest') = Some (a, ts')) by (destruct l; exact H).
    inversion H'; subst. specialize (IH _ _ _ E). unfold total, zsum in *. cbn [map fold_right] in *. lia.
Qed.

(** the invariant: word + what is still to be added = initial word + everything, modulo 2^w *)
Lemma run_atomic_inv w : 0 <= w -> forall sched word ts word' ts',
  run_atomic w word ts sched = (word', ts') ->
  (word' + total ts') mod 2 ^ w = (word + total ts) mod 2 ^ w.
Proof.
  intros Hw. induction sched as [|t s IH]; intros word ts word' ts' H; cbn in H.
  - inversion H; reflexivity.
  - destruct (pop ts t) as [[a ts1]|] eqn:E.
    + rewrite (IH _ _ _ _ H). rewrite (pop_total _ _ _ _ E).
      rewrite Zplus_mod_idemp_l. f_equal. lia.
    + exact (IH _ _ _ _ H).
Qed.

(** no update is lost: whatever the interleaving, once every thread has finished the word holds
    the initial value plus the sum of all addends modulo 2^w *)
Theorem atomic_sum w init ts sched word' ts' : 0 <= w -> 0 <= init < 2 ^ w ->
  run_atomic w init ts sched = (word', ts') -> total ts' = 0 -> Forall (fun l => l = []) ts' ->
  word' = (init + total ts) mod 2 ^ w /\ 0 <= word' < 2 ^ w.
Proof.
  intros Hw Hi H Hdone _. pose proof (run_atomic_inv w Hw _ _ _ _ _ H) as Inv. rewrite Hdone, Z.add_0_r in Inv.
  assert (R : 0 <= word' < 2 ^ w).
  { clear Inv Hdone. revert init ts Hi H. induction sched as [|t s IH]; intros init ts Hi H; cbn in H.
    - inversion H; subst; exact Hi.
    - destruct (pop ts t) as [[a ts1]|]; [|eapply IH; eauto].
      eapply IH; [|exact H]. apply Z.mod_pos_bound. apply Z.pow_pos_nonneg; lia. }
  split; [|exact R]. rewrite <- Inv. symmetry. apply Z.mod_small. exact R.
Qed.

(** ** the non-atomic variant: read then write as two schedulable steps *)
Record tstate := { pending : list Z; latched : option Z }.   (* latched = value read, write still to come *)

Fixpoint step_split (w : Z) (word : Z) (ts : list tstate) (t : nat) : Z * list tstate :=
  match ts, t with
  | [], _ => (word, [])
  | th :: rest, O =>
      match latched th, pending th with
      | Some v, a :: r => ((v + a) mod 2 ^ w, {| pending := r; latched := None |} :: rest)     (* write *)
      | None, _ :: _ => (word, {| pending := pending th; latched := Some word |} :: rest)     (* read *)
      | _, [] => (word, th :: rest)
      end
  | th :: rest, S t' => let '(wd, rest') := step_split w word rest t' in (wd, th :: rest')
  end.
Fixpoint run_split (w : Z) (word : Z) (ts : list tstate) (sched : list nat) : Z :=
  match sched with [] => word | t :: s => let '(wd, ts') := step_split w word ts t in run_split w wd ts' s end.

(** a split read-modify-write loses updates: two threads adding 1 each, interleaved r1 r2 w1 w2 *)
Theorem split_loses_update :
  exists ts sched, run_split 64 0 ts sched = 1 /\
                   zsum (map (fun th => zsum (pending th)) ts) = 2.
Proof.
  exists [{| pending := [1]; latched := None |}; {| pending := [1]; latched := None |}], [0; 1; 0; 1]%nat.
  split; reflexivity.
Qed.
