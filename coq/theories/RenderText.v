(** The text the disassembler specification renders for an instruction (DisasmSpec.render) is a mnemonic followed by
    printed operands in the shape TextParse reads back. *)
From Coq Require Import ZArith Lia Bool List Ascii String.
From RbpfV Require Import MachInt BitLemmas ListLemmas Ebpf Fmt AsmDefs AsmParser AsmModel DisasmDefs DisasmSpec DisasmProofs NumText TextParse RoundTrip.
Import ListNotations.
Open Scope Z_scope.

Definition rops_of (sh : shape) (i : insn) (x : Z) : list rop :=
  match sh with
  | ShAluImm => [RReg (dst i); RHex (imm i mod 2 ^ 32)]
  | ShAluReg => [RReg (dst i); RReg (src i)]
  | ShUnary | ShEndian => [RReg (dst i)]
  | ShLdAbs | ShCall => [RHex (imm i mod 2 ^ 32)]
  | ShLdInd => [RReg (src i); RHex (imm i mod 2 ^ 32)]
  | ShLdReg => [RReg (dst i); RMem (src i) (off i)]
  | ShStImm => [RMem (dst i) (off i); RHex (imm i mod 2 ^ 32)]
  | ShStReg => [RMem (dst i) (off i); RReg (src i)]
  | ShJa => [ROff (off i)]
  | ShJmpImm => [RReg (dst i); RHex (imm i mod 2 ^ 32); ROff (off i)]
  | ShJmpReg => [RReg (dst i); RReg (src i); ROff (off i)]
  | ShNone => []
  | ShLddw => [RReg (dst i); RHex (x mod 2 ^ 64)]
  end.

Definition name_of (sh : shape) (name : string) (i : insn) : string :=
  match sh with ShEndian => (name ++ fmt_dec (imm i))%string | _ => name end.

Lemma render_text name sh i x :
  T (render name sh i x) = itext (T (name_of sh name i)) (rops_of sh i x).
Proof.
  destruct sh; unfold render, itext, name_of, rops_of, ops_text, more_text, rop_text, hex32;
    rewrite ?T_app; cbn [bytes_of_string];
    repeat (rewrite <- ?app_assoc; cbn [app]); rewrite ?app_nil_r; reflexivity.
Qed.

(** the lines of a program, following the recursion of DisasmSpec.hl_list *)
Definition line := (list Z * list rop)%type.
Definition line_of (name : string) (sh : shape) (i : insn) (x : Z) : line := (T (name_of sh name i), rops_of sh i x).

Fixpoint line_list (l : list insn) : option (list line) :=
  match l with
  | [] => Some []
  | i :: rest =>
    match lookup (opc i) mnemonics with
    | None => None
    | Some (name, ShLddw) =>
      match rest with
      | [] => None
      | i2 :: rest' => option_map (cons (line_of name ShLddw i (imm64_of (imm i) (imm i2)))) (line_list rest')
      end
    | Some (name, ShCall) =>
      if src i =? 0 then option_map (cons (line_of name ShCall i (imm i))) (line_list rest)
      else if src i =? 1 then option_map (cons (line_of "callx" ShCall i (imm i))) (line_list rest)
      else None
    | Some (name, sh) => option_map (cons (line_of name sh i (imm i))) (line_list rest)
    end
  end.

Lemma desc_entry name sh i x : T (h_desc (hl_entry name sh i x)) = itext (fst (line_of name sh i x)) (snd (line_of name sh i x)).
Proof. apply render_text. Qed.

Lemma hl_list_cons i rest : hl_list (i :: rest) =
    match lookup (opc i) mnemonics with
    | None => None
    | Some (name, ShLddw) =>
      match rest with
      | [] => None
      | i2 :: rest' => option_map (cons (hl_entry name ShLddw i (imm64_of (imm i) (imm i2)))) (hl_list rest')
      end
    | Some (name, ShCall) =>
      if src i =? 0 then option_map (cons (hl_entry name ShCall i (imm i))) (hl_list rest)
      else if src i =? 1 then option_map (cons (hl_entry "callx" ShCall i (imm i))) (hl_list rest)
      else None
    | Some (name, sh) => option_map (cons (hl_entry name sh i (imm i))) (hl_list rest)
    end.
Proof. reflexivity. Qed.
Lemma line_list_cons i rest : line_list (i :: rest) =
    match lookup (opc i) mnemonics with
    | None => None
    | Some (name, ShLddw) =>
      match rest with
      | [] => None
      | i2 :: rest' => option_map (cons (line_of name ShLddw i (imm64_of (imm i) (imm i2)))) (line_list rest')
      end
    | Some (name, ShCall) =>
      if src i =? 0 then option_map (cons (line_of name ShCall i (imm i))) (line_list rest)
      else if src i =? 1 then option_map (cons (line_of "callx" ShCall i (imm i))) (line_list rest)
      else None
    | Some (name, sh) => option_map (cons (line_of name sh i (imm i))) (line_list rest)
    end.
Proof. reflexivity. Qed.

(** induction principle following the one-or-two-step recursion *)
Lemma list2_ind {A} (P : list A -> Prop) :
  P [] -> (forall a, P [a]) -> (forall a b l, P l -> P (b :: l) -> P (a :: b :: l)) -> forall l, P l.
Proof.
  intros H0 H1 H2. assert (G : forall l, P l /\ forall a, P (a :: l)).
  { induction l as [|b l [IH1 IH2]]; [split; [exact H0|exact H1]|]. split; [apply IH2|]. intros a. apply H2; [exact IH1|apply IH2]. }
  intros l. apply G.
Qed.

Lemma hl_line_list l : forall t, hl_list l = Some t ->
  exists ls, line_list l = Some ls /\ map (fun h => T (h_desc h)) t = map (fun x => itext (fst x) (snd x)) ls.
Proof.
  induction l as [| a | a b l IHl IHbl] using list2_ind; intros t H.
  - cbn in H. injection H as <-. exists []. split; reflexivity.
  - cbn [hl_list line_list] in *. destruct (lookup (opc a) mnemonics) as [[name sh]|]; [|discriminate].
    destruct sh; cbn [option_map] in *;
      try (injection H as <-; eexists; split; [reflexivity|cbn [map]; now rewrite desc_entry]); try discriminate.
    destruct (src a =? 0); [cbn [option_map] in *; injection H as <-; eexists; split; [reflexivity|cbn [map]; now rewrite desc_entry]|].
    destruct (src a =? 1); [cbn [option_map] in *; injection H as <-; eexists; split; [reflexivity|cbn [map]; now rewrite desc_entry]|discriminate].
  - rewrite hl_list_cons in H. rewrite line_list_cons. destruct (lookup (opc a) mnemonics) as [[name sh]|]; [|discriminate].
    assert (G : forall n s x, option_map (cons (hl_entry n s a x)) (hl_list (b :: l)) = Some t ->
                exists ls, option_map (cons (line_of n s a x)) (line_list (b :: l)) = Some ls /\
                           map (fun h => T (h_desc h)) t = map (fun y => itext (fst y) (snd y)) ls).
    { intros n s x Hx. destruct (hl_list (b :: l)) as [t'|] eqn:E; [|discriminate]. cbn [option_map] in Hx. injection Hx as <-.
      destruct (IHbl t' eq_refl) as (ls & L1 & L2). rewrite L1. cbn [option_map]. eexists; split; [reflexivity|].
      cbn [map]. rewrite desc_entry, L2. reflexivity. }
    destruct sh; try (apply G; exact H).
    + destruct (src a =? 0); [apply G; exact H|]. destruct (src a =? 1); [apply G; exact H|discriminate].
    + cbv iota beta in H |- *. destruct (hl_list l) as [t'|] eqn:E; [|discriminate]. cbn [option_map] in H. injection H as <-.
      destruct (IHl t' eq_refl) as (ls & L1 & L2). rewrite L1. cbn [option_map]. eexists; split; [reflexivity|].
      cbn [map]. rewrite desc_entry, L2. reflexivity.
Qed.

(** joining the printed lines with newlines = the program text of TextParse *)
Lemma join_prog ss ls : map T ss = map (fun x : line => itext (fst x) (snd x)) ls ->
  RoundTrip.join_lines ss = prog_text ls.
Proof.
  revert ls. induction ss as [|s ss IH]; intros ls H; destruct ls as [|[n rs] ls]; try discriminate; [reflexivity|].
  cbn [map fst snd] in H. injection H as H1 H2.
  destruct ss as [|s2 ss']; destruct ls as [|y ls']; try discriminate.
  - cbn. exact H1.
  - change (RoundTrip.join_lines (s :: s2 :: ss')) with (T s ++ 10 :: RoundTrip.join_lines (s2 :: ss')).
    change (prog_text ((n, rs) :: y :: ls')) with (itext n rs ++ 10 :: prog_text (y :: ls')).
    rewrite H1, (IH (y :: ls') H2). reflexivity.
Qed.

(** ** the printed lines are well-formed input for TextParse *)
Definition name_okb (n : list Z) : bool :=
  forallb is_ascii_alnum n &&
  match n with
  | c :: tl => is_lower c && (negb (c =? 114) || match tl with c2 :: _ => is_ascii_alpha c2 | [] => false end)
  | [] => false
  end.
Lemma name_okb_ok n : name_okb n = true -> name_ok n.
Proof.
  unfold name_okb, name_ok. intros H. apply andb_true_iff in H as [A B]. split; [apply Forall_forall; intros c Hc; exact (proj1 (forallb_forall _ _) A c Hc)|].
  destruct n as [|c tl]; [discriminate|]. apply andb_true_iff in B as [B1 B2]. split; [exact B1|]. intros ->.
  change (negb (114 =? 114)) with false in B2. cbn [orb] in B2. destruct tl; [discriminate|exact B2].
Qed.

(** every mnemonic of the table is such a name, except `tail_call` (the underscore ends an identifier for the parser) *)
Lemma table_names_ok : forallb (fun e => name_okb (T (fst (snd e))) || String.eqb (fst (snd e)) "tail_call") mnemonics = true.
Proof. vm_compute. reflexivity. Qed.

Lemma lookup_name_ok o name sh : lookup o mnemonics = Some (name, sh) -> name <> "tail_call"%string -> name_ok (T name).
Proof.
  intros L N. apply DisasmProofs.lookup_in in L. apply name_okb_ok.
  pose proof (proj1 (forallb_forall _ _) table_names_ok _ L) as H. cbn [fst snd] in H.
  apply orb_true_iff in H as [H|H]; [exact H|]. apply String.eqb_eq in H. contradiction.
Qed.

Lemma name_ok_digits n ds : name_ok n -> Forall (fun d => 0 <= d < 10) ds -> name_ok (n ++ map code ds).
Proof.
  intros [A B] D. split.
  - apply Forall_app. split; [exact A|]. apply Forall_map. eapply Forall_impl; [|exact D]. intros d Hd. cbv beta in Hd.
    unfold is_ascii_alnum, code. destruct (Z.ltb_spec d 10); [|lia]. destruct (Z.ltb_spec (48 + d) 128); [|lia]. cbn [andb].
    apply orb_true_iff. right. unfold is_digit. apply andb_true_iff. split; apply Z.leb_le; lia.
  - destruct n as [|c tl]; [destruct B|]. cbn [app]. destruct B as [B1 B2]. split; [exact B1|]. intros E. specialize (B2 E).
    destruct tl; [destruct B2|exact B2].
Qed.

Definition endian_ok (sh : shape) (i : insn) : Prop := match sh with ShEndian => 0 <= imm i | _ => True end.

Lemma line_of_ok o name sh i x : (lookup o mnemonics = Some (name, sh) /\ name <> "tail_call"%string) \/ name = "callx"%string ->
  wf_insn i -> endian_ok sh i -> line_ok (line_of name sh i x).
Proof.
  intros Hn (Ho & Hd & Hs & Hf & Hi) He. unfold line_ok, line_of. cbn [fst snd].
  assert (N : name_ok (T name)).
  { destruct Hn as [[L NT]| ->]; [eapply lookup_name_ok; eassumption|apply name_okb_ok; vm_compute; reflexivity]. }
  assert (M32 : 0 <= imm i mod 2 ^ 32 < 2 ^ 64) by (pose proof (Z.mod_pos_bound (imm i) (2 ^ 32) ltac:(fold_pows; lia)); fold_pows; lia).
  assert (M64 : 0 <= x mod 2 ^ 64 < 2 ^ 64) by (apply Z.mod_pos_bound; fold_pows; lia).
  split.
  - destruct sh; cbn [name_of]; try exact N.
    cbn [endian_ok] in He. rewrite T_app. unfold fmt_dec. destruct (Z.ltb_spec (imm i) 0); [lia|].
    destruct (digits_props 10 (imm i) ltac:(lia) ltac:(fold_pows; lia)) as (A & _).
    rewrite bytes_fmt_unsigned by (eapply Forall_impl; [|exact A]; cbv beta; lia).
    apply name_ok_digits; assumption.
  - destruct sh; cbn [rops_of]; repeat constructor; cbn [rop_wf]; fold_pows; try lia.
Qed.
