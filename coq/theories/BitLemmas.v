(** Arithmetic / bit-level lemmas shared by all arm proofs. *)
From Coq Require Import ZArith Lia Bool List.
From RbpfV Require Import MachInt.
Import ListNotations.
Open Scope Z_scope.

Ltac Zify.zify_post_hook ::= Z.div_mod_to_equations.

Ltac fold_pows :=
  change (2 ^ 64) with 18446744073709551616 in *;
  change (2 ^ 63) with 9223372036854775808 in *;
  change (2 ^ 32) with 4294967296 in *;
  change (2 ^ 31) with 2147483648 in *;
  change (2 ^ 16) with 65536 in *;
  change (2 ^ 15) with 32768 in *;
  change (2 ^ 8) with 256 in *;
  change (2 ^ 7) with 128 in *;
  change (2 ^ 4) with 16 in *.

Lemma pow2_pos w : 0 <= w -> 0 < 2 ^ w.
Proof. intros; apply Z.pow_pos_nonneg; lia. Qed.

Lemma land_ones_mod x n : 0 <= n -> Z.land x (2 ^ n - 1) = x mod 2 ^ n.
Proof. intros. rewrite <- Z.land_ones by lia. f_equal. rewrite Z.ones_equiv. lia. Qed.

Lemma land_255 x : Z.land x 255 = x mod 256.
Proof. exact (land_ones_mod x 8 ltac:(lia)). Qed.
Lemma land_15 x : Z.land x 15 = x mod 16.
Proof. exact (land_ones_mod x 4 ltac:(lia)). Qed.

(** x & (ones n << m)  =  ((x >> m) mod 2^n) << m *)
Lemma land_mask_shift x n m : 0 <= n -> 0 <= m ->
  Z.land x ((2 ^ n - 1) * 2 ^ m) = ((x / 2 ^ m) mod 2 ^ n) * 2 ^ m.
Proof.
  intros Hn Hm.
  rewrite <- (land_ones_mod _ n) by lia.
  rewrite <- !Z.shiftl_mul_pow2, <- Z.shiftr_div_pow2 by lia.
  apply Z.bits_inj'. intros k Hk.
  rewrite Z.land_spec. rewrite !Z.shiftl_spec by lia.
  destruct (Z_lt_le_dec k m) as [L|L].
  - rewrite (Z.testbit_neg_r _ (k - m)) by lia. rewrite (Z.testbit_neg_r _ (k - m)) by lia. apply andb_false_r.
  - rewrite Z.land_spec, Z.shiftr_spec by lia. replace (k - m + m) with k by lia. reflexivity.
Qed.

Lemma testbit_small b n k : 0 <= b < 2 ^ n -> n <= k -> Z.testbit b k = false.
Proof.
  intros Hb Hk. destruct (Z.eq_dec b 0) as [->|]; [apply Z.bits_0|].
  apply Z.bits_above_log2; [lia|]. apply Z.lt_le_trans with n; [|lia].
  apply Z.log2_lt_pow2; lia.
Qed.

Lemma land_shiftl_small a b n : 0 <= n -> 0 <= b < 2 ^ n -> Z.land (Z.shiftl a n) b = 0.
Proof.
  intros Hn Hb. apply Z.bits_inj'; intros k Hk.
  rewrite Z.land_spec, Z.bits_0, Z.shiftl_spec by lia.
  destruct (Z_lt_le_dec k n).
  - rewrite (Z.testbit_neg_r a) by lia; reflexivity.
  - rewrite (testbit_small b n k) by lia. apply andb_false_r.
Qed.

Lemma lor_disjoint_add a b n : 0 <= n -> 0 <= b < 2 ^ n -> Z.lor (a * 2 ^ n) b = a * 2 ^ n + b.
Proof.
  intros Hn Hb. rewrite <- Z.shiftl_mul_pow2 by lia.
  pose proof (land_shiftl_small a b n Hn Hb) as H0.
  rewrite <- Z.lxor_lor by exact H0. symmetry. apply Z.add_nocarry_lxor. exact H0.
Qed.

Lemma smod_range w x : 0 < w -> - 2 ^ (w - 1) <= smod w x < 2 ^ (w - 1).
Proof.
  intros. unfold smod. cbv zeta.
  pose proof (Z.mod_pos_bound x (2 ^ w) (pow2_pos w ltac:(lia))).
  assert (2 ^ w = 2 * 2 ^ (w - 1)) by (rewrite <- Z.pow_succ_r by lia; f_equal; lia).
  destruct (Z.ltb_spec (x mod 2 ^ w) (2 ^ (w - 1))); lia.
Qed.

Lemma smod_idem w x : 0 < w -> - 2 ^ (w - 1) <= x < 2 ^ (w - 1) -> smod w x = x.
Proof.
  intros Hw Hx. unfold smod. cbv zeta.
  assert (E : 2 ^ w = 2 * 2 ^ (w - 1)) by (rewrite <- Z.pow_succ_r by lia; f_equal; lia).
  assert (P : 0 < 2 ^ (w - 1)) by (apply pow2_pos; lia).
  destruct (Z.ltb_spec (x mod 2 ^ w) (2 ^ (w - 1))) as [L|L].
  - destruct (Z_lt_le_dec x 0).
    + exfalso. assert (x mod 2 ^ w = x + 2 ^ w) by (symmetry; apply Z.mod_unique with (-1); lia). lia.
    + apply Z.mod_small; lia.
  - destruct (Z_lt_le_dec x 0).
    + assert (x mod 2 ^ w = x + 2 ^ w) by (symmetry; apply Z.mod_unique with (-1); lia). lia.
    + exfalso. rewrite Z.mod_small in L; lia.
Qed.

Lemma smod_mod w x : 0 < w -> smod w x mod 2 ^ w = x mod 2 ^ w.
Proof.
  intros. unfold smod. cbv zeta. pose proof (pow2_pos w ltac:(lia)).
  destruct (_ <? _).
  - apply Z.mod_mod; lia.
  - rewrite Zminus_mod, Z_mod_same_full, Z.sub_0_r, !Z.mod_mod; lia.
Qed.

Lemma smod_of_mod w x : 0 < w -> smod w (x mod 2 ^ w) = smod w x.
Proof. intros. unfold smod. rewrite Z.mod_mod by (pose proof (pow2_pos w); lia). reflexivity. Qed.

Lemma umod_range w x : 0 <= w -> 0 <= umod w x < 2 ^ w.
Proof. intros; unfold umod; apply Z.mod_pos_bound, pow2_pos; lia. Qed.
Lemma umod_small w x : 0 <= x < 2 ^ w -> umod w x = x.
Proof. intros; unfold umod; now apply Z.mod_small. Qed.

Lemma norm_in_ty t x : in_ty t (norm t x).
Proof.
  unfold in_ty, norm, tmin, tmax. destruct (signed t) eqn:S.
  - pose proof (smod_range (bits t) x ltac:(destruct t; cbn; lia)). lia.
  - pose proof (umod_range (bits t) x ltac:(destruct t; cbn; lia)). lia.
Qed.
Lemma norm_idem t x : in_ty t x -> norm t x = x.
Proof.
  unfold in_ty, norm, tmin, tmax. destruct (signed t) eqn:S; intros H.
  - apply smod_idem; [destruct t; cbn; lia | lia].
  - apply umod_small; lia.
Qed.
Lemma in_tyb_spec t x : in_tyb t x = true <-> in_ty t x.
Proof. unfold in_tyb, in_ty. rewrite andb_true_iff, !Z.leb_le. tauto. Qed.

Lemma le_bytes_length n x : length (le_bytes n x) = n.
Proof. revert x; induction n; intros; cbn; auto. Qed.

Lemma of_le_bytes_le_bytes n x : 0 <= x < 256 ^ Z.of_nat n -> of_le_bytes (le_bytes n x) = x.
Proof.
  revert x; induction n; intros x Hx.
  - cbn in *. lia.
  - cbn [le_bytes of_le_bytes]. rewrite IHn.
    + pose proof (Z.div_mod x 256 ltac:(lia)). lia.
    + rewrite Nat2Z.inj_succ, Z.pow_succ_r in Hx by lia. split.
      * apply Z.div_pos; lia.
      * apply Z.div_lt_upper_bound; lia.
Qed.

Lemma le_bytes_of_le_bytes l : Forall (fun b => 0 <= b < 256) l ->
  le_bytes (length l) (of_le_bytes l) = l.
Proof.
  induction 1 as [|b l Hb Hl IH]; cbn [length le_bytes of_le_bytes]; auto.
  cbv beta in Hb. f_equal.
  - generalize (of_le_bytes l); intro y. lia.
  - replace ((b + 256 * of_le_bytes l) / 256) with (of_le_bytes l); [exact IH|].
    generalize (of_le_bytes l); intro y. lia.
Qed.

Lemma of_le_bytes_range l : Forall (fun b => 0 <= b < 256) l ->
  0 <= of_le_bytes l < 256 ^ Z.of_nat (length l).
Proof.
  induction 1 as [|b l Hb Hl IH]; cbn [length of_le_bytes].
  - cbn; lia.
  - cbv beta in Hb. rewrite Nat2Z.inj_succ, Z.pow_succ_r by lia. lia.
Qed.

Lemma le_bytes_bytes n x : Forall (fun b => 0 <= b < 256) (le_bytes n x).
Proof. revert x; induction n; intros; cbn; constructor; auto. apply Z.mod_pos_bound; lia. Qed.

Lemma chk_ok t s x : in_ty t x -> chk t s x = Ok x.
Proof. intros H. unfold chk. apply in_tyb_spec in H. now rewrite H. Qed.

Lemma in_ty_usz x : 0 <= x < 2 ^ 64 -> in_ty USZ x.
Proof. unfold in_ty, tmin, tmax; cbn [signed bits]. lia. Qed.

