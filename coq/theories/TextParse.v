(** The assembler's parser model reads back the operand texts the disassembler prints (registers `rN`, `0x..` numbers,
    signed offsets `+0x..` / `-0x..`, memory operands `[rN+0x..]`), operand lists separated by ", ", and lines separated by
    a newline.  Used by the round-trip theorem C16. *)
From Coq Require Import ZArith Lia Bool List Ascii String.
From RbpfV Require Import MachInt BitLemmas ListLemmas Ebpf Fmt AsmDefs AsmParser DisasmSpec NumText.
Import ListNotations.
Open Scope Z_scope.
Ltac Zify.zify_post_hook ::= Z.div_mod_to_equations.

Notation T := bytes_of_string.

Lemma T_app a b : T (a ++ b)%string = (T a ++ T b)%list.
Proof. induction a as [|c a IH]; [reflexivity|]. cbn [append bytes_of_string app]. now rewrite IH. Qed.

Section Parse.
Variable U : uclass.

(** what may follow an operand in the printed text: end of input, ',' , newline, ']' *)
Definition sep_head (rest : list Z) : Prop := match rest with [] => True | c :: _ => c = 44 \/ c = 10 \/ c = 93 end.

Lemma sep_stops_hex rest : sep_head rest -> stops is_hex rest.
Proof. destruct rest as [|c r]; [exact id|]. cbn. intros [->|[->| ->]]; reflexivity. Qed.
Lemma sep_stops_digit rest : sep_head rest -> stops is_digit rest.
Proof. destruct rest as [|c r]; [exact id|]. cbn. intros [->|[->| ->]]; reflexivity. Qed.

(** ** numbers *)
Lemma T_hex n : 0 <= n < 2 ^ 64 -> T (hex n) = 48 :: 120 :: map code (digits 16 n).
Proof.
  intros H. unfold hex. rewrite T_app. cbn [bytes_of_string app].
  rewrite bytes_fmt_unsigned; [reflexivity|]. destruct (digits_props 16 n ltac:(lia) H) as (A & _). exact A.
Qed.

Lemma p_hex_text n rest : 0 <= n < 2 ^ 64 -> stops is_hex rest ->
  p_hex (T (hex n) ++ rest) = POk true (norm I64 n) rest.
Proof.
  intros H Hr. rewrite T_hex by exact H. cbn [app]. unfold p_hex. change ((48 =? 48) && (120 =? 120)) with true. cbv iota.
  destruct (digits_props 16 n ltac:(lia) H) as (A & B & C).
  rewrite span_app; [|apply Forall_map; eapply Forall_impl; [|exact A]; intros d Hd; cbv beta in Hd; apply is_hex_code; lia|exact Hr].
  destruct (map code (digits 16 n)) eqn:E; [apply map_eq_nil in E; contradiction|]. cbv zeta. rewrite C.
  destruct (Z.ltb_spec n (2 ^ 64)); [reflexivity|lia].
Qed.

Lemma T_hex_head n : 0 <= n < 2 ^ 64 -> exists tl, T (hex n) = 48 :: 120 :: tl.
Proof. intros H. rewrite T_hex by exact H. eexists; reflexivity. Qed.

(** unsigned `0x..` literal as printed for immediates *)
Lemma p_integer_hex n rest : 0 <= n < 2 ^ 64 -> stops is_hex rest ->
  p_integer (T (hex n) ++ rest) = POk true (norm I64 n) rest.
Proof.
  intros H Hr. pose proof (p_hex_text n rest H Hr) as PH.
  destruct (T_hex_head n H) as [tl E]. rewrite E in *. cbn [app] in *.
  unfold p_integer. change (48 =? 45) with false. change (48 =? 43) with false. cbv iota.
  rewrite PH. rewrite Z.mul_1_l. f_equal. apply norm_idem, norm_in_ty.
Qed.

(** signed offsets `+0x..` / `-0x..` *)
Lemma p_integer_soff o rest : - 2 ^ 63 < o < 2 ^ 63 -> stops is_hex rest ->
  p_integer (T (soff o) ++ rest) = POk true o rest.
Proof.
  intros H Hr. unfold soff. destruct (Z.leb_spec 0 o) as [P|P].
  - rewrite T_app. cbn [bytes_of_string app]. change (Z.of_nat (nat_of_ascii "+")) with 43.
    unfold p_integer. change (43 =? 45) with false. change (43 =? 43) with true. cbv iota.
    rewrite p_hex_text by (assumption || lia). rewrite Z.mul_1_l. f_equal.
    rewrite norm_idem by apply norm_in_ty. apply norm_idem. unfold in_ty, tmin, tmax; cbn [signed bits]. change (64 - 1) with 63. lia.
  - rewrite T_app. cbn [bytes_of_string app]. change (Z.of_nat (nat_of_ascii "-")) with 45.
    unfold p_integer. change (45 =? 45) with true. cbv iota.
    rewrite p_hex_text by (assumption || lia). f_equal.
    rewrite (norm_idem I64 (- o)) by (unfold in_ty, tmin, tmax; cbn [signed bits]; change (64 - 1) with 63; lia).
    replace (-1 * - o) with o by lia. apply norm_idem. unfold in_ty, tmin, tmax; cbn [signed bits]. change (64 - 1) with 63. lia.
Qed.

(** ** registers *)
Lemma T_reg d : 0 <= d < 2 ^ 63 -> T (reg d) = 114 :: map code (digits 10 d).
Proof.
  intros H. unfold reg. rewrite T_app. cbn [bytes_of_string app]. change (Z.of_nat (nat_of_ascii "r")) with 114.
  rewrite bytes_fmt_unsigned; [reflexivity|].
  destruct (digits_props 10 d ltac:(lia) ltac:(lia)) as (A & _). eapply Forall_impl; [|exact A]. cbv beta. lia.
Qed.

Lemma code_digit_not_alpha d : 0 <= d < 10 -> is_alpha U (code d) = false.
Proof.
  intros H. unfold is_alpha, is_ascii_alpha, code. destruct (Z.ltb_spec d 10); [|lia].
  destruct (Z.ltb_spec (48 + d) 128); [|lia].
  destruct (Z.leb_spec 97 (48 + d)); [lia|]. destruct (Z.leb_spec 65 (48 + d)); [lia|]. reflexivity.
Qed.

Lemma p_register_text d rest : 0 <= d < 2 ^ 63 -> stops is_digit rest ->
  p_register U (T (reg d) ++ rest) = POk true d rest.
Proof.
  intros H Hr. rewrite T_reg by exact H. cbn [app]. unfold p_register. change (114 =? 114) with true. cbv iota.
  destruct (digits_props 10 d ltac:(lia) ltac:(lia)) as (A & B & C).
  assert (S : span is_digit (map code (digits 10 d) ++ rest) = (map code (digits 10 d), rest)).
  { apply span_app; [|exact Hr]. apply Forall_map. eapply Forall_impl; [|exact A]. intros x Hx. cbv beta in Hx. apply is_digit_code. lia. }
  assert (R : reg_digits (map code (digits 10 d) ++ rest) = POk true d rest).
  { unfold reg_digits. rewrite S. destruct (map code (digits 10 d)) eqn:E; [apply map_eq_nil in E; contradiction|]. cbv zeta. rewrite C.
    destruct (Z.ltb_spec d (2 ^ 63)); [reflexivity|lia]. }
  destruct (digits 10 d) as [|d0 ds] eqn:E; [contradiction|]. cbn [map app] in *.
  inversion A as [|? ? Hd0 _]; subst. rewrite code_digit_not_alpha by lia. exact R.
Qed.

(** ** operands as printed *)
Inductive rop := RReg (d : Z) | RHex (n : Z) | ROff (o : Z) | RMem (d o : Z).

Definition rop_text (r : rop) : list Z :=
  match r with
  | RReg d => T (reg d)
  | RHex n => T (hex n)
  | ROff o => T (soff o)
  | RMem d o => 91 :: T (reg d) ++ T (soff o) ++ [93]
  end.
Definition rop_val (r : rop) : operand :=
  match r with
  | RReg d => Register d
  | RHex n => Integer (norm I64 n)
  | ROff o => Integer o
  | RMem d o => Memory d o
  end.
Definition rop_wf (r : rop) : Prop :=
  match r with
  | RReg d => 0 <= d < 2 ^ 63
  | RHex n => 0 <= n < 2 ^ 64
  | ROff o => - 2 ^ 63 < o < 2 ^ 63
  | RMem d o => 0 <= d < 2 ^ 63 /\ - 2 ^ 63 < o < 2 ^ 63
  end.

Lemma T_soff_head o : - 2 ^ 63 < o < 2 ^ 63 -> exists c tl, T (soff o) = c :: tl /\ (c = 43 \/ c = 45).
Proof.
  intros H. unfold soff. destruct (0 <=? o); rewrite T_app; cbn [bytes_of_string app]; eexists; eexists; (split; [reflexivity|]); [left|right]; reflexivity.
Qed.

Lemma p_register_not_r c tl : c <> 114 -> p_register U (c :: tl) = PErr false.
Proof. intros H. unfold p_register. destruct (Z.eqb_spec c 114); [contradiction|reflexivity]. Qed.

Lemma p_operand_text r rest : rop_wf r -> sep_head rest -> p_operand U (rop_text r ++ rest) = POk true (rop_val r) rest.
Proof.
  intros Hw Hr. destruct r as [d|n|o|d o]; cbn [rop_text rop_val rop_wf] in *.
  - unfold p_operand. rewrite p_register_text by (try assumption; now apply sep_stops_digit). reflexivity.
  - unfold p_operand. destruct (T_hex_head n Hw) as [tl E]. rewrite E. cbn [app]. rewrite p_register_not_r by discriminate.
    rewrite (app_comm_cons tl rest 120), (app_comm_cons _ rest 48), <- E.
    rewrite p_integer_hex by (try assumption; now apply sep_stops_hex). reflexivity.
  - unfold p_operand. destruct (T_soff_head o Hw) as (c & tl & E & Hc). rewrite E. cbn [app].
    rewrite p_register_not_r by (destruct Hc; subst; discriminate).
    rewrite (app_comm_cons tl rest c), <- E. rewrite p_integer_soff by (try assumption; now apply sep_stops_hex). reflexivity.
  - destruct Hw as [Hd Ho]. cbn [app]. unfold p_operand. rewrite p_register_not_r by discriminate.
    (* p_integer on '[' fails without consuming *)
    assert (PI : forall tl, p_integer (91 :: tl) = PErr false).
    { intros tl. unfold p_integer. change (91 =? 45) with false. change (91 =? 43) with false. cbv iota.
      unfold p_hex. destruct tl as [|c1 tl']; [unfold p_dec; cbn [span]; change (is_digit 91) with false; reflexivity|].
      change (91 =? 48) with false. cbn [andb]. unfold p_dec. cbn [span]. change (is_digit 91) with false. cbv iota. reflexivity. }
    rewrite PI. unfold p_memory. change (91 =? 91) with true. cbv iota.
    rewrite <- !app_assoc.
    destruct (T_soff_head o Ho) as (c & tl & E & Hc).
    rewrite p_register_text; [|exact Hd|rewrite E; cbn [app stops]; destruct Hc; subst; reflexivity].
    rewrite p_integer_soff; [|exact Ho|cbn [app stops]; reflexivity].
    cbn [app]. unfold p_close. change (93 =? 93) with true. reflexivity.
Qed.

(** the first character of an operand text is not white space, not ',' *)
Lemma rop_text_head r : rop_wf r -> exists c tl, rop_text r = c :: tl /\ (c = 114 \/ c = 48 \/ c = 43 \/ c = 45 \/ c = 91).
Proof.
  intros Hw. destruct r as [d|n|o|d o]; cbn [rop_text rop_wf] in *.
  - rewrite T_reg by exact Hw. eexists; eexists; split; [reflexivity|tauto].
  - destruct (T_hex_head n Hw) as [tl E]. rewrite E. eexists; eexists; split; [reflexivity|tauto].
  - destruct (T_soff_head o Hw) as (c & tl & E & Hc). rewrite E. eexists; eexists; split; [reflexivity|tauto].
  - eexists; eexists; split; [reflexivity|tauto].
Qed.

Lemma skip_spaces_head c tl : c = 114 \/ c = 48 \/ c = 43 \/ c = 45 \/ c = 91 -> skip_spaces U (c :: tl) = c :: tl.
Proof.
  intros H. unfold skip_spaces. cbn [span].
  assert (S : is_space U c = false) by (destruct H as [->|[->|[->|[->| ->]]]]; reflexivity). rewrite S. reflexivity.
Qed.

(** operand lists: texts joined with ", " *)
Fixpoint more_text (rs : list rop) : list Z :=
  match rs with [] => [] | r :: rs' => 44 :: 32 :: rop_text r ++ more_text rs' end.
Definition ops_text (rs : list rop) : list Z :=
  match rs with [] => [] | r :: rs' => rop_text r ++ more_text rs' end.

(** what follows an operand list: end of input or a newline *)
Definition line_end (rest : list Z) : Prop := match rest with [] => True | c :: _ => c = 10 end.

Lemma more_sep_head rs rest : line_end rest -> sep_head (more_text rs ++ rest).
Proof.
  intros H. destruct rs as [|r rs]; cbn [more_text app].
  - destruct rest as [|c tl]; [exact I|]. cbn in *. tauto.
  - cbn. tauto.
Qed.

Lemma p_more_text rs : forall fuel rest, (List.length rs < fuel)%nat -> Forall rop_wf rs -> line_end rest ->
  p_more U fuel (more_text rs ++ rest) = POk (match rs with [] => false | _ => true end) (map rop_val rs) rest.
Proof.
  induction rs as [|r rs IH]; intros fuel rest Hf Hw Hr.
  - destruct fuel as [|f]; [cbn in Hf; lia|]. cbn [more_text app p_more map].
    assert (S : p_sep U rest = None).
    { unfold p_sep. destruct rest as [|c tl]; [reflexivity|]. cbn in Hr. subst. reflexivity. }
    rewrite S. reflexivity.
  - destruct fuel as [|f]; [cbn in Hf; lia|]. inversion Hw as [|? ? Hr1 Hrs]; subst.
    cbn [more_text app p_more]. unfold p_sep. change (44 =? 44) with true. cbv iota.
    destruct (rop_text_head r Hr1) as (c & tl & E & Hc).
    assert (SK : skip_spaces U (32 :: (rop_text r ++ more_text rs) ++ rest) = (rop_text r ++ more_text rs) ++ rest).
    { unfold skip_spaces. cbn [span]. change (is_space U 32) with true. cbv iota.
      rewrite E. cbn [app]. pose proof (skip_spaces_head c ((tl ++ more_text rs) ++ rest) Hc) as K. unfold skip_spaces in K.
      destruct (span (is_space U) (c :: (tl ++ more_text rs) ++ rest)) as [a b]. cbn [snd] in *. exact K. }
    rewrite SK. rewrite <- app_assoc. rewrite p_operand_text by (try assumption; now apply more_sep_head).
    cbn [List.length] in Hf. rewrite (IH f rest ltac:(lia) Hrs Hr). cbn [map]. reflexivity.
Qed.

Lemma p_operand_line_end rest : line_end rest -> p_operand U rest = PErr false.
Proof.
  intros H. destruct rest as [|c tl]; [reflexivity|]. cbn in H. subst. unfold p_operand.
  rewrite p_register_not_r by discriminate.
  assert (PI : p_integer (10 :: tl) = PErr false).
  { unfold p_integer. change (10 =? 45) with false. change (10 =? 43) with false. cbv iota.
    unfold p_hex. destruct tl as [|c1 tl']; [unfold p_dec; cbn [span]; change (is_digit 10) with false; reflexivity|].
    change (10 =? 48) with false. cbn [andb]. unfold p_dec. cbn [span]. change (is_digit 10) with false. cbv iota. reflexivity. }
  rewrite PI. unfold p_memory. change (10 =? 91) with false. reflexivity.
Qed.

Lemma p_operands_text rs rest : Forall rop_wf rs -> line_end rest ->
  p_operands U (ops_text rs ++ rest) = POk (match rs with [] => false | _ => true end) (map rop_val rs) rest.
Proof.
  intros Hw Hr. destruct rs as [|r rs]; cbn [ops_text app map].
  - unfold p_operands. rewrite p_operand_line_end by exact Hr. reflexivity.
  - inversion Hw as [|? ? Hr1 Hrs]; subst. unfold p_operands. rewrite <- app_assoc.
    rewrite p_operand_text by (try assumption; now apply more_sep_head).
    rewrite (p_more_text rs (S (List.length (more_text rs ++ rest))) rest); [reflexivity| |assumption|assumption].
    clear. induction rs as [|r rs IH]; cbn [more_text List.length app]; [lia|]. rewrite !app_length in *. cbn [List.length] in *. lia.
Qed.
End Parse.

Section Lines.
Variable U : uclass.

Definition is_ascii_alnum (c : Z) : bool := (c <? 128) && (is_ascii_alpha c || is_digit c).
Definition is_lower (c : Z) : bool := (97 <=? c) && (c <=? 122).

(** a mnemonic as the disassembler prints it: ASCII letters and digits, starting with a lower-case letter; if it starts
    with `r`, a letter follows (so it cannot be mistaken for a register) *)
Definition name_ok (n : list Z) : Prop :=
  Forall (fun c => is_ascii_alnum c = true) n /\
  match n with
  | c :: tl => is_lower c = true /\ (c = 114 -> match tl with c2 :: _ => is_ascii_alpha c2 = true | [] => False end)
  | [] => False
  end.

Definition itext (name : list Z) (rs : list rop) : list Z :=
  name ++ match rs with [] => [] | _ => 32 :: ops_text rs end.
Definition ival (name : list Z) (rs : list rop) : instr := (name, map rop_val rs).

Lemma alnum_ascii c : is_ascii_alnum c = true -> is_alnum U c = true.
Proof. unfold is_ascii_alnum, is_alnum. intros H. apply andb_true_iff in H as [A B]. rewrite A. exact B. Qed.

Lemma lower_not_space c : is_lower c = true -> is_space U c = false.
Proof.
  unfold is_lower, is_space. intros H. apply andb_true_iff in H as [A B]. apply Z.leb_le in A, B.
  destruct (Z.ltb_spec c 128); [|lia]. destruct (Z.leb_spec 9 c), (Z.leb_spec c 13); try lia; cbn [andb orb]; apply Z.eqb_neq; lia.
Qed.

(** what follows an instruction line: nothing, or a newline and then the next mnemonic *)
Definition starts_name (l : list Z) : Prop :=
  match l with
  | c :: tl => is_lower c = true /\ (c = 114 -> match tl with c2 :: _ => is_alpha U c2 = true | [] => False end)
  | [] => False
  end.
Definition after_line (rest : list Z) : Prop :=
  match rest with [] => True | c :: rest' => c = 10 /\ starts_name rest' end.
Definition next_of (rest : list Z) : list Z := match rest with [] => [] | _ :: rest' => rest' end.

Lemma after_line_end rest : after_line rest -> line_end rest.
Proof. destruct rest; [exact id|]. cbn. tauto. Qed.

Lemma skip_after rest : after_line rest -> skip_spaces U rest = next_of rest.
Proof.
  destruct rest as [|c rest']; [reflexivity|]. intros [-> Hn]. unfold skip_spaces. cbn [span next_of].
  change (is_space U 10) with true. cbv iota.
  destruct rest' as [|c2 tl]; [destruct Hn|]. destruct Hn as [L _]. cbn [span]. rewrite (lower_not_space c2 L).
  destruct (span (is_space U) (c2 :: tl)); reflexivity.
Qed.

Lemma skip_name l : starts_name l -> skip_spaces U l = l.
Proof.
  destruct l as [|c tl]; [intros []|]. intros [L _]. unfold skip_spaces. cbn [span]. now rewrite (lower_not_space c L).
Qed.

Lemma p_operand_name l : starts_name l -> p_operand U l = PErr false.
Proof.
  destruct l as [|c tl]; [intros []|]. intros [L R]. unfold is_lower in L. apply andb_true_iff in L as [A B]. apply Z.leb_le in A, B.
  assert (PI : p_integer (c :: tl) = PErr false).
  { unfold p_integer. destruct (Z.eqb_spec c 45); [lia|]. destruct (Z.eqb_spec c 43); [lia|]. cbv iota.
    assert (D : is_digit c = false) by (unfold is_digit; destruct (Z.leb_spec 48 c), (Z.leb_spec c 57); try lia; reflexivity).
    unfold p_hex. destruct tl as [|c1 tl'].
    - unfold p_dec. cbn [span]. rewrite D. reflexivity.
    - destruct (Z.eqb_spec c 48); [lia|]. cbn [andb]. unfold p_dec. cbn [span]. rewrite D. reflexivity. }
  unfold p_operand. destruct (Z.eq_dec c 114) as [->|N].
  - specialize (R eq_refl). unfold p_register. change (114 =? 114) with true. cbv iota.
    destruct tl as [|c2 tl2]; [destruct R|]. rewrite R. rewrite PI. unfold p_memory. change (114 =? 91) with false. reflexivity.
  - rewrite p_register_not_r by exact N. rewrite PI. unfold p_memory. destruct (Z.eqb_spec c 91); [lia|reflexivity].
Qed.

Lemma name_starts name tl : name_ok name -> starts_name (name ++ tl).
Proof.
  intros [Ha Hs]. destruct name as [|c n]; [destruct Hs|]. destruct Hs as [L R]. cbn [app starts_name]. split; [exact L|].
  intros E. specialize (R E). destruct n as [|c2 n2]; [destruct R|]. cbn [app].
  unfold is_alpha. inversion Ha as [|? ? _ Ha2]; subst. inversion Ha2 as [|? ? H2 _]; subst.
  unfold is_ascii_alnum in H2. apply andb_true_iff in H2 as [H2 _]. rewrite H2. exact R.
Qed.

Lemma p_ident_name name rest : name_ok name -> (match rest with [] => True | c :: _ => c = 32 \/ c = 10 end) ->
  p_ident U (name ++ rest) = POk true name rest.
Proof.
  intros [Ha Hs] Hr. unfold p_ident.
  rewrite span_app; [| eapply Forall_impl; [|exact Ha]; intros c Hc; now apply alnum_ascii |].
  - destruct name; [destruct Hs|reflexivity].
  - destruct rest as [|c tl]; [exact I|]. cbn. destruct Hr as [->| ->]; reflexivity.
Qed.

Lemma p_instruction_text name rs rest : name_ok name -> Forall rop_wf rs -> after_line rest ->
  p_instruction U (itext name rs ++ rest) = POk true (ival name rs) (next_of rest).
Proof.
  intros Hn Hw Hr. unfold p_instruction, itext, ival. rewrite <- app_assoc.
  destruct rs as [|r rs].
  - cbn [app]. rewrite p_ident_name; [|exact Hn|destruct rest as [|c tl]; [exact I|destruct Hr as [-> _]; tauto]].
    rewrite skip_after by exact Hr.
    assert (PO : p_operands U (next_of rest) = POk false [] (next_of rest)).
    { unfold p_operands. destruct rest as [|c rest']; [reflexivity|]. destruct Hr as [_ Hs]. cbn [next_of].
      rewrite p_operand_name by exact Hs. reflexivity. }
    rewrite PO. cbn [map]. f_equal.
    destruct rest as [|c rest']; [reflexivity|]. destruct Hr as [_ Hs]. cbn [next_of]. now apply skip_name.
  - rewrite p_ident_name; [|exact Hn|cbn; tauto].
    inversion Hw as [|? ? Hr1 _]; subst.
    assert (SK : skip_spaces U ((32 :: ops_text (r :: rs)) ++ rest) = ops_text (r :: rs) ++ rest).
    { cbn [app]. unfold skip_spaces. cbn [span]. change (is_space U 32) with true. cbv iota.
      destruct (rop_text_head r Hr1) as (c & tl & E & Hc). cbn [ops_text]. rewrite E. cbn [app].
      pose proof (skip_spaces_head U c ((tl ++ more_text rs) ++ rest) Hc) as K. unfold skip_spaces in K.
      destruct (span (is_space U) (c :: (tl ++ more_text rs) ++ rest)) as [a b]. cbn [snd] in *. exact K. }
    rewrite SK. rewrite p_operands_text by (try assumption; now apply after_line_end).
    rewrite skip_after by exact Hr. reflexivity.
Qed.

(** programs: instruction lines joined by newlines *)
Fixpoint prog_text (l : list (list Z * list rop)) : list Z :=
  match l with
  | [] => []
  | [(n, rs)] => itext n rs
  | (n, rs) :: l' => itext n rs ++ 10 :: prog_text l'
  end.

Definition line_ok (x : list Z * list rop) : Prop := name_ok (fst x) /\ Forall rop_wf (snd x).

Lemma prog_text_starts l : l <> [] -> Forall line_ok l -> starts_name (prog_text l).
Proof.
  intros N H. destruct l as [|[n rs] l']; [contradiction|]. inversion H as [|? ? [Hn _] _]; subst. cbn [fst] in Hn.
  destruct l' as [|x l'']; cbn [prog_text]; unfold itext; rewrite <- ?app_assoc; now apply name_starts.
Qed.

Lemma p_instructions_text l : forall fuel, (List.length l < fuel)%nat -> Forall line_ok l ->
  p_instructions U fuel (prog_text l) = POk (match l with [] => false | _ => true end) (map (fun x => ival (fst x) (snd x)) l) [].
Proof.
  induction l as [|[n rs] l' IH]; intros fuel Hf H.
  - destruct fuel as [|f]; [cbn in Hf; lia|]. reflexivity.
  - destruct fuel as [|f]; [cbn in Hf; lia|]. inversion H as [|? ? [Hn Hw] H']; subst. cbn [fst snd] in *.
    cbn [p_instructions]. destruct l' as [|y l''].
    + cbn [prog_text]. rewrite <- (app_nil_r (itext n rs)). rewrite p_instruction_text by (try assumption; exact I).
      cbn [next_of]. destruct f as [|f']; [cbn in Hf; lia|]. cbn [p_instructions p_instruction p_ident span]. reflexivity.
    + change (prog_text ((n, rs) :: y :: l'')) with (itext n rs ++ 10 :: prog_text (y :: l'')).
      rewrite p_instruction_text; [|assumption|assumption|split; [reflexivity|apply prog_text_starts; [discriminate|assumption]]].
      cbn [next_of]. cbn [List.length] in Hf. rewrite (IH f ltac:(cbn [List.length]; lia) H'). reflexivity.
Qed.

Theorem parse_prog_text l : Forall line_ok l ->
  parse U (prog_text l) = Ok (map (fun x => ival (fst x) (snd x)) l).
Proof.
  intros H. unfold parse.
  assert (SK : skip_spaces U (prog_text l) = prog_text l).
  { destruct l as [|x l']; [reflexivity|]. apply skip_name, prog_text_starts; [discriminate|exact H]. }
  rewrite SK. rewrite p_instructions_text; [reflexivity| |exact H].
  assert (L : (List.length l <= List.length (prog_text l))%nat).
  { clear SK. induction H as [|[n rs] l' [Hn _] _ IH]; [cbn; lia|]. cbn [fst] in Hn.
    assert (1 <= List.length (itext n rs))%nat.
    { unfold itext. rewrite app_length. destruct Hn as [_ Hs]. destruct n; [destruct Hs|cbn [List.length]; lia]. }
    destruct l' as [|y l'']; cbn [prog_text List.length] in *; [lia|]. rewrite app_length. cbn [List.length]. lia. }
  lia.
Qed.
End Lines.
