From Coq Require Import List Arith Lia.
Import ListNotations.

Section L.
  Context {A : Type}.
  Lemma nth_skipn (l : list A) n j d : nth j (skipn n l) d = nth (n + j) l d.
  Proof. revert l; induction n; intros l; [reflexivity|]. destruct l; [destruct j; reflexivity|]. cbn. apply IHn. Qed.
  Lemma nth_firstn_lt (l : list A) n j d : j < n -> nth j (firstn n l) d = nth j l d.
  Proof. revert l j; induction n; intros l j H; [lia|]. destruct l; [destruct j; reflexivity|]. destruct j; cbn; [reflexivity|]. apply IHn; lia. Qed.
  Lemma skipn_skipn (l : list A) a b : skipn a (skipn b l) = skipn (b + a) l.
  Proof. revert l; induction b; intros l; [reflexivity|]. destruct l; [cbn; now rewrite skipn_nil|]. cbn. apply IHb. Qed.
  Lemma firstn_skipn_firstn (l : list A) a b c : a + b <= c -> firstn a (skipn b (firstn c l)) = firstn a (skipn b l).
  Proof. intros H. rewrite skipn_firstn_comm, firstn_firstn. f_equal. lia. Qed.
  Lemma firstn_app_exact (l r : list A) : firstn (length l) (l ++ r) = l.
  Proof. induction l; cbn; congruence. Qed.
  Lemma skipn_app_exact (l r : list A) : skipn (length l) (l ++ r) = r.
  Proof. induction l; cbn; congruence. Qed.
End L.

Section L2.
  Context {A : Type}.
  Lemma In_firstn (l : list A) n x : In x (firstn n l) -> In x l.
  Proof. revert l; induction n; intros l H; [destruct H|]. destruct l; [destruct H|]. destruct H; [now left|right; auto]. Qed.
  Lemma In_skipn (l : list A) n x : In x (skipn n l) -> In x l.
  Proof. revert l; induction n; intros l H; [exact H|]. destruct l; [destruct H|]. right; auto. Qed.
End L2.
