(** C04 (ALU part): the Cranelift IR that src/cranelift.rs builds for each of the 50 ALU opcodes (regenerated into
    coq/gen/ClAlu.v) computes, for all operand values, exactly the value the ISA specification (Isa.alu) assigns to
    the destination register -- and never divides by zero (the IR would trap). *)
From Coq Require Import ZArith Lia Bool List.
From RbpfV Require Import MachInt BitLemmas Ebpf ClirSem Mem Stack Helpers InterpDefs Isa.
From RbpfV.gen Require Import Opcodes ClAlu.
Import ListNotations.
Open Scope Z_scope.
Ltac Zify.zify_post_hook ::= Z.div_mod_to_equations.

Lemma imm32_const x : ir_iconst 32 (cast I64 (cast U64 (cast U32 x))) = x mod 2 ^ 32.
Proof.
  assert (R : 0 <= x mod 2 ^ 32 < 2 ^ 32) by (apply Z.mod_pos_bound; fold_pows; lia).
  unfold cast at 3. unfold norm. cbn [signed bits]. unfold umod.
  unfold cast. rewrite (norm_idem U64) by (unfold in_ty, tmin, tmax; cbn [signed bits]; fold_pows; lia).
  rewrite (norm_idem I64) by (unfold in_ty, tmin, tmax; cbn [signed bits]; fold_pows; lia).
  unfold ir_iconst. apply Z.mod_mod. fold_pows; lia.
Qed.
Lemma imm64_const x : ir_iconst 64 (cast I64 (cast U64 x)) = x mod 2 ^ 64.
Proof.
  unfold ir_iconst, cast. unfold norm at 2. cbn [signed bits]. unfold umod.
  unfold norm. cbn [signed bits]. rewrite smod_mod by lia. apply Z.mod_mod. fold_pows; lia.
Qed.

Definition cl_alu_ops : list Z :=
  [0x04; 0x0c; 0x14; 0x1c; 0x24; 0x2c; 0x34; 0x3c; 0x44; 0x4c; 0x54; 0x5c; 0x64; 0x6c; 0x74; 0x7c; 0x84; 0x94; 0x9c;
   0xa4; 0xac; 0xb4; 0xbc; 0xc4; 0xcc;
   0x07; 0x0f; 0x17; 0x1f; 0x27; 0x2f; 0x37; 0x3f; 0x47; 0x4f; 0x57; 0x5f; 0x67; 0x6f; 0x77; 0x7f; 0x87; 0x97; 0x9f;
   0xa7; 0xaf; 0xb7; 0xbf; 0xc7; 0xcf].

Definition isa_alu_value (o : Z) (i : insn) (rd rs : Z) : option Z :=
  let w := if o mod 8 =? 7 then 64 else 32 in
  let a := rd mod 2 ^ w in
  let b := (if Z.testbit o 3 then rs else imm i) mod 2 ^ w in
  alu w (o / 16) a b.

(** the value of the destination register after an ALU instruction: [None] = left as it was *)
Definition newval (r : option Z) (rd : Z) : Z := match r with Some v => v | None => rd end.

Lemma sgn_smod w a : 0 < w -> 0 <= a < 2 ^ w -> sgn w a = smod w a.
Proof. intros Hw Ha. unfold sgn, smod. rewrite Z.mod_small by lia. reflexivity. Qed.

Ltac ev o :=
  unfold isa_alu_value;
  let v1 := eval vm_compute in (o mod 8 =? 7) in change (o mod 8 =? 7) with v1;
  let v2 := eval vm_compute in (o / 16) in change (o / 16) with v2;
  let v3 := eval vm_compute in (Z.testbit o 3) in change (Z.testbit o 3) with v3;
  cbv beta iota zeta delta [alu];
  unfold gen_cl_alu; match goal with |- exists r, ?L = Ok r /\ _ => let L2 := eval simpl in L in change L with L2 end;
  match goal with |- exists r, ?f ?i ?rd ?rs = Ok r /\ _ => unfold f end;
  cbv zeta; rewrite ?imm32_const, ?imm64_const;
  unfold ir_ireduce, ir_uextend, ir_iadd, ir_isub, ir_imul, ir_band, ir_bor, ir_bxor, ir_ishl, ir_ushr, ir_ineg.

Ltac divmod :=
  unfold ir_udiv, ir_urem, ir_select, ir_icmp, ir_iconst;
  rewrite ?Z.mod_0_l, ?(Z.mod_small 1) by (fold_pows; lia);
  repeat match goal with |- context [?x =? 0] => destruct (Z.eqb_spec x 0) end;
  cbn [bind negb newval];
  first [ exfalso; fold_pows; lia
        | eexists; split; [reflexivity|cbn [newval]; first [reflexivity | fold_pows; lia]] ].

Theorem cl_alu_arms i rd rs :
  0 <= rd < 2 ^ 64 -> 0 <= rs < 2 ^ 64 -> - 2 ^ 31 <= imm i < 2 ^ 31 ->
  Forall (fun o => exists r, gen_cl_alu o i rd rs = Ok r /\ newval r rd = newval (isa_alu_value o i rd rs) rd) cl_alu_ops.
Proof.
  intros Hd Hs Hi. unfold cl_alu_ops.
  assert (M32d : 0 <= rd mod 2 ^ 32 < 2 ^ 32) by (apply Z.mod_pos_bound; fold_pows; lia).
  repeat (apply Forall_cons;
    [ match goal with |- exists r, gen_cl_alu ?o _ _ _ = _ /\ _ => ev o end;
      rewrite ?(Z.mod_small rd (2 ^ 64)), ?(Z.mod_small rs (2 ^ 64)) by assumption;
      first [ eexists; split; reflexivity
            | unfold ir_sshr; rewrite ?(sgn_smod 32 (rd mod 2 ^ 32)), ?(sgn_smod 64 rd) by (assumption || lia); eexists; split; reflexivity
            | divmod ]
    | ]).
  apply Forall_nil.
Qed.
