(** C19: the built-in helpers compute their documented functions.
    gather_bytes, the byte count of bpf_trace_printf and the range reduction of rand are regenerated
    from helpers.rs (coq/gen/Helpers.v); memfrob and strcmp are modelled on byte lists (tie B). *)
From Coq Require Import ZArith Lia Bool List.
From RbpfV Require Import MachInt BitLemmas ListLemmas ArmBase ArmVals.
From RbpfV Require Export HelperSpec.
From RbpfV.gen Require Import Helpers.
Import ListNotations.
Open Scope Z_scope.
Ltac Zify.zify_post_hook ::= Z.div_mod_to_equations.

(** ** gather_bytes *)
Lemma gather_bytes_ok a1 a2 a3 a4 a5 : gen_gather_bytes a1 a2 a3 a4 a5 = Ok (gather_spec a1 a2 a3 a4 a5).
Proof. reflexivity. Qed.

(** ** bpf_trace_printf: number of hexadecimal digits of a 64-bit value *)

Lemma hexlen_fuel_S f x : hexlen_fuel (S f) x = if x <? 16 then 1 else 1 + hexlen_fuel f (x / 16).
Proof. reflexivity. Qed.

Lemma hexlen_log x : 0 < x < 2 ^ 64 -> hexlen x = Z.log2 x / 4 + 1.
Proof.
  intros Hx. unfold hexlen.
  assert (G : forall f y, 0 < y < 16 ^ Z.of_nat (S f) -> hexlen_fuel (S f) y = Z.log2 y / 4 + 1).
  { induction f as [|f IH]; intros y Hy.
    - rewrite hexlen_fuel_S. change (16 ^ Z.of_nat 1) with 16 in Hy. destruct (Z.ltb_spec y 16); [|lia].
      assert (Z.log2 y < 4) by (apply Z.log2_lt_pow2; [lia|change (2 ^ 4) with 16; lia]).
      pose proof (Z.log2_nonneg y). rewrite Z.div_small by lia. reflexivity.
    - rewrite hexlen_fuel_S. destruct (Z.ltb_spec y 16) as [L|L].
      + assert (Z.log2 y < 4) by (apply Z.log2_lt_pow2; [lia|change (2 ^ 4) with 16; lia]).
        pose proof (Z.log2_nonneg y). rewrite Z.div_small by lia. reflexivity.
      + rewrite IH.
        * assert (E : y / 16 = Z.shiftr y 4) by (rewrite Z.shiftr_div_pow2 by lia; reflexivity).
          rewrite E, Z.log2_shiftr by lia.
          assert (4 <= Z.log2 y) by (apply Z.log2_le_pow2; [lia|change (2 ^ 4) with 16; lia]).
          rewrite Z.max_r by lia. replace (Z.log2 y) with ((Z.log2 y - 4) + 1 * 4) at 2 by lia.
          rewrite Z.div_add by lia. lia.
        * rewrite Nat2Z.inj_succ, Z.pow_succ_r in Hy by lia. split; [apply Z.div_str_pos; lia|apply Z.div_lt_upper_bound; lia]. }
  apply G. change (16 ^ Z.of_nat 16) with (2 ^ 64). exact Hx.
Qed.

Lemma size_arg_ok x : 0 <= x < 2 ^ 64 -> gen_size_arg x = Ok (hexlen x).
Proof.
  intros Hx. unfold gen_size_arg. destruct (Z.eqb_spec x 0) as [->|N]; [reflexivity|].
  rewrite hexlen_log by lia.
  assert (L : 0 <= Z.log2 x < 64) by (split; [apply Z.log2_nonneg|apply Z.log2_lt_pow2; lia]).
  unfold leading_zeros. cbn [bits]. destruct (Z.leb_spec x 0); [lia|].
  rewrite cast_u64_id by (fold_pows; lia). unfold csub. rewrite chk_u64 by (fold_pows; lia). cbn [bind].
  f_equal. unfold div_ceil. replace (64 - (64 - (Z.log2 x + 1)) + 4 - 1) with (Z.log2 x + 1 * 4) by lia.
  rewrite Z.div_add by lia. reflexivity.
Qed.

Lemma hexlen_fuel_range f : forall x, 1 <= hexlen_fuel f x <= Z.of_nat f + 1.
Proof.
  induction f as [|f IH]; intros x; [cbn; lia|]. rewrite hexlen_fuel_S.
  destruct (x <? 16); [lia|]. specialize (IH (x / 16)). lia.
Qed.
Lemma hexlen_range x : 1 <= hexlen x <= 17.
Proof. unfold hexlen. pose proof (hexlen_fuel_range 16 x). lia. Qed.

Lemma trace_printf_ok a3 a4 a5 : 0 <= a3 < 2 ^ 64 -> 0 <= a4 < 2 ^ 64 -> 0 <= a5 < 2 ^ 64 ->
  gen_trace_printf_ret a3 a4 a5 = Ok (29 + hexlen a3 + hexlen a4 + hexlen a5).
Proof.
  intros H3 H4 H5. unfold gen_trace_printf_ret. rewrite !size_arg_ok by assumption. cbn [bind].
  pose proof (hexlen_range a3). pose proof (hexlen_range a4). pose proof (hexlen_range a5).
  rewrite (cast_u64_id 29) by (fold_pows; lia).
  unfold cadd. rewrite !chk_u64 by (fold_pows; lia). cbn [bind]. rewrite !chk_u64 by (fold_pows; lia). cbn [bind].
  rewrite chk_u64 by (fold_pows; lia). reflexivity.
Qed.

(** ** rand: the reduction into [min, max] *)
Lemma rand_reduce_ok n mn mx : 0 <= n < 2 ^ 64 -> 0 <= mn < 2 ^ 64 -> 0 <= mx < 2 ^ 64 ->
  exists r, gen_rand_reduce n mn mx = Ok r /\ 0 <= r < 2 ^ 64 /\ (mn < mx -> mn <= r <= mx).
Proof.
  intros Hn Hmn Hmx. unfold gen_rand_reduce.
  destruct (Z.ltb_spec mn mx) as [L|L]; cbn [bind]; [|exists n; repeat split; try lia].
  unfold csub. rewrite chk_u64 by (fold_pows; lia). cbn [bind]. cbv zeta.
  unfold tmax. cbn [signed bits].
  destruct (Z.ltb_spec (mx - mn) (2 ^ 64 - 1)) as [S|S]; cbn [bind].
  - unfold cadd. rewrite chk_u64 by (fold_pows; lia). cbn [bind].
    rewrite crem_u_ok by (try reflexivity; lia). cbn [bind].
    pose proof (Z.mod_pos_bound n (mx - mn + 1) ltac:(lia)) as M.
    rewrite chk_u64 by (fold_pows; lia). cbn [bind]. eexists; split; [reflexivity|]. split; [fold_pows; lia|intros _; lia].
  - exists n. split; [reflexivity|]. split; [lia|]. intros _. fold_pows. lia.
Qed.

(** ** memfrob and strcmp on byte strings *)
Lemma lxor_42_invol b : Z.lxor (Z.lxor b 42) 42 = b.
Proof. rewrite Z.lxor_assoc, Z.lxor_nilpotent, Z.lxor_0_r. reflexivity. Qed.
Lemma memfrob_involutive l : memfrob_bytes (memfrob_bytes l) = l.
Proof. unfold memfrob_bytes. rewrite map_map. rewrite <- (map_id l) at 2. apply map_ext. intros; apply lxor_42_invol. Qed.
Lemma memfrob_length l : length (memfrob_bytes l) = length l.
Proof. apply map_length. Qed.
Lemma memfrob_bytes_ok l : Forall (fun b => 0 <= b < 256) l -> Forall (fun b => 0 <= b < 256) (memfrob_bytes l).
Proof.
  intros H. unfold memfrob_bytes. apply Forall_map. eapply Forall_impl; [|exact H]. cbv beta. intros b Hb.
  apply (lxor_range b 42 8); lia.
Qed.


(** both buffers NUL-terminated: the result is 0 exactly when the strings are equal *)
Lemma strcmp_zero_iff a b : In 0 a -> In 0 b -> Forall (fun x => 0 <= x) a -> Forall (fun x => 0 <= x) b ->
  (strcmp_model a b = 0 <-> cstr a = cstr b).
Proof.
  revert b. induction a as [|x a IH]; intros b Ha Hb Pa Pb; [destruct Ha|].
  destruct b as [|y b]; [destruct Hb|]. cbn [strcmp_model cstr].
  inversion Pa as [|? ? Px Pa']; subst. inversion Pb as [|? ? Py Pb']; subst.
  destruct (Z.eqb_spec x y) as [->|N].
  - destruct (Z.eqb_spec y 0) as [->|NZ]; cbn [andb negb].
    + split; intros; [reflexivity|lia].
    + destruct Ha as [Ha|Ha]; [lia|]. destruct Hb as [Hb|Hb]; [lia|].
      rewrite IH by assumption. split; [intros ->; reflexivity|intros H; now inversion H].
  - cbn [andb]. split.
    + intros H. lia.
    + intros H. destruct (Z.eqb_spec x 0) as [->|]; destruct (Z.eqb_spec y 0) as [->|]; try discriminate H; try lia.
      inversion H. contradiction.
Qed.
