(** Data types of the assembler (src/asm_parser.rs: enum Operand; src/assembler.rs: enum InstructionType)
    and the library operations the regenerated code uses. *)
From Coq Require Import ZArith List Bool String.
From RbpfV Require Import MachInt Ebpf Fmt.
Import ListNotations.
Open Scope Z_scope.

Inductive operand := Register (r : Z) | Integer (v : Z) | Memory (r o : Z) | Nil.

Inductive itype :=
| AluBinary | AluUnary | LoadImm | LoadAbs | LoadInd | LoadReg | StoreImm | StoreReg
| JumpUnconditional | JumpConditional | Call | Callx | Endian (size : Z) | NoOperand.

Definition len_ops (l : list operand) : Z := Z.of_nat (List.length l).

(** `operands[i]`: panics when out of range *)
Definition op_get (l : list operand) (i : Z) : res operand :=
  if (0 <=? i) && (i <? len_ops l) then Ok (nth (Z.to_nat i) l Nil) else Panic 0.

(** `r.unwrap()` on a Result: an error becomes a panic *)
Definition unwrap_res {A} (r : res A) : res A :=
  match r with Err _ => Panic 0 | x => x end.

(** HashMap built by successive `insert`s, as the association list of the insertions in order:
    `get` returns the value of the last insertion of the key.  Keys are compared as byte strings. *)
Fixpoint map_get {V} (key : list Z) (m : list (string * V)) : option V :=
  match m with
  | [] => None
  | (k, v) :: r =>
    match map_get key r with
    | Some w => Some w
    | None => if list_eq_dec Z.eq_dec (bytes_of_string k) key then Some v else None
    end
  end.
