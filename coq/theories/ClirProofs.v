(** C11: the bounds check that src/cranelift.rs inserts before every load, store and atomic add
    (regenerated into coq/gen/Clir.v) lets execution continue exactly when all bytes of the access lie in
    the stack, the packet data or the metadata buffer. *)
From Coq Require Import ZArith Lia Bool String.
From RbpfV Require Import MachInt BitLemmas ClirSem.
From RbpfV.gen Require Import Clir.
Open Scope Z_scope.
Ltac Zify.zify_post_hook ::= Z.div_mod_to_equations.

Definition b2z (b : bool) : Z := if b then 1 else 0.
Lemma land_b2z a b : Z.land (b2z a) (b2z b) = b2z (a && b).
Proof. destruct a, b; reflexivity. Qed.
Lemma lor_b2z a b : Z.lor (b2z a) (b2z b) = b2z (a || b).
Proof. destruct a, b; reflexivity. Qed.
Lemma trapz_b2z b : ir_trapz (b2z b) = b.
Proof. destruct b; reflexivity. Qed.
Lemma icmp_uge w a b : ir_icmp CUge w a b = b2z (b <=? a). Proof. reflexivity. Qed.
Lemma icmp_ule w a b : ir_icmp CUle w a b = b2z (a <=? b). Proof. reflexivity. Qed.
Lemma icmp_ne w a b : ir_icmp CNe w a b = b2z (negb (a =? b)). Proof. reflexivity. Qed.

Definition u64 (x : Z) : Prop := 0 <= x < 2 ^ 64.
Definition vars_ok (V : clvars) : Prop :=
  u64 (v_stack_start V) /\ u64 (v_stack_end V) /\ u64 (v_mem_start V) /\ u64 (v_mem_end V) /\ u64 (v_mbuf_start V) /\ u64 (v_mbuf_end V).

(** all [size] bytes from address [a] lie in [lo, hi) *)
Definition within (a size lo hi : Z) : Prop := lo <= a /\ a + size <= hi.

Definition access_allowed (V : clvars) (a size : Z) : Prop :=
  a + size < 2 ^ 64 /\
  (within a size (v_stack_start V) (v_stack_end V)
   \/ (v_mem_start V <> 0 /\ within a size (v_mem_start V) (v_mem_end V))
   \/ (v_mbuf_start V <> 0 /\ within a size (v_mbuf_start V) (v_mbuf_end V))).

Theorem bounds_check_iff V size base off :
  vars_ok V -> u64 base -> - 2 ^ 15 <= off < 2 ^ 15 -> 0 < size <= 8 ->
  gen_bounds_check V size base off = true <-> access_allowed V ((base + off) mod 2 ^ 64) size.
Proof.
  intros (H1 & H2 & H3 & H4 & H5 & H6) Hb Ho Hs. unfold u64 in *.
  unfold gen_bounds_check. cbv zeta. unfold ir_band, ir_bor.
  rewrite !icmp_uge, !icmp_ule, !icmp_ne. repeat first [rewrite land_b2z | rewrite lor_b2z]. rewrite trapz_b2z.
  assert (Cs : cast I64 size = size) by (apply norm_idem; unfold in_ty, tmin, tmax; cbn [signed bits]; fold_pows; lia).
  assert (Co : cast I64 off = off) by (apply norm_idem; unfold in_ty, tmin, tmax; cbn [signed bits]; fold_pows; lia).
  rewrite Cs, Co. unfold ir_iconst, ir_iadd.
  rewrite (Z.mod_small size) by (fold_pows; lia). rewrite (Z.mod_0_l (2 ^ 64)) by (fold_pows; lia).
  rewrite Zplus_mod_idemp_r.
  set (a := (base + off) mod 2 ^ 64).
  assert (Ha : 0 <= a < 2 ^ 64) by (apply Z.mod_pos_bound; fold_pows; lia).
  unfold access_allowed, within.
  destruct (Z.ltb_spec (a + size) (2 ^ 64)) as [NO|OV].
  - rewrite (Z.mod_small (a + size)) by lia.
    rewrite !andb_true_iff, !orb_true_iff, !andb_true_iff, !negb_true_iff, !Z.leb_le, !Z.eqb_neq. lia.
  - assert (E : (a + size) mod 2 ^ 64 = a + size - 2 ^ 64).
    { symmetry. apply (Z.mod_unique_pos _ _ 1); fold_pows; lia. }
    rewrite E. destruct (Z.leb_spec a (a + size - 2 ^ 64)); [fold_pows; lia|]. cbn [andb]. split; [discriminate|lia].
Qed.

(** the bounds variables are what the prelude makes of the function's parameters: for real slices
    (address + length representable) the regions are [mem, mem+len), [mbuf, mbuf+len) and the 512-byte stack slot *)
Theorem prelude_vars p0 p1 p2 p3 ss sz :
  u64 p0 -> 0 <= p1 -> p0 + p1 < 2 ^ 64 -> u64 p2 -> 0 <= p3 -> p2 + p3 < 2 ^ 64 -> u64 ss -> 0 <= sz -> ss + sz < 2 ^ 64 ->
  let V := gen_prelude_vars p0 p1 p2 p3 ss sz in
  v_stack_start V = ss /\ v_stack_end V = ss + sz /\ v_mem_start V = p0 /\ v_mem_end V = p0 + p1 /\
  v_mbuf_start V = p2 /\ v_mbuf_end V = p2 + p3 /\ vars_ok V.
Proof.
  unfold u64. intros. cbv zeta. unfold gen_prelude_vars, vars_ok, u64. cbn [v_stack_start v_stack_end v_mem_start v_mem_end v_mbuf_start v_mbuf_end].
  unfold ir_iadd, ir_iconst. rewrite (Z.mod_0_l (2 ^ 64)) by (fold_pows; lia). rewrite Z.add_0_r.
  rewrite (Z.mod_small ss), (Z.mod_small sz), (Z.mod_small (ss + sz)), (Z.mod_small (p0 + p1)), (Z.mod_small (p2 + p3)) by lia.
  repeat split; try lia.
Qed.

(** each access helper checks first, with the type, base and offset of the access it then performs *)
Theorem accesses_are_the_checked_ones :
  gen_reg_load_access = ("ty", "base", "offset")%string /\
  gen_reg_store_access = ("ty", "base", "offset")%string /\
  gen_reg_atomic_add_access = ("ty", "base", "offset")%string.
Proof. repeat split. Qed.

(** ** C09, Cranelift: the eBPF registers the prelude defines.  With the parameters (packet pointer, packet length,
    metadata pointer, metadata length) that lib.rs passes, r1 is the metadata buffer when it is non-empty and the packet
    pointer otherwise (lib.rs passes a null packet pointer for an empty packet), r10 is the end of the 512-byte stack slot
    whose bounds are the stack region of the bounds check; r2 receives the corresponding length; no other register is
    defined (Cranelift reads an undefined variable as 0). *)
From Coq Require Import List.
Import ListNotations.
Fixpoint reg_lookup (k : Z) (l : list (Z * Z)) : option Z :=
  match l with [] => None | (k', v) :: r => if k =? k' then Some v else reg_lookup k r end.

Theorem prelude_regs p0 p1 p2 p3 ss sz :
  0 <= p0 < 2 ^ 64 -> 0 <= p2 < 2 ^ 64 -> 0 <= p3 < 2 ^ 64 -> 0 <= ss -> 0 <= sz -> ss + sz < 2 ^ 64 ->
  let regs := gen_prelude_regs p0 p1 p2 p3 ss sz in
  reg_lookup 1 regs = Some (if p3 =? 0 then p0 else p2) /\
  reg_lookup 10 regs = Some (ss + sz) /\
  reg_lookup 10 regs = Some (v_stack_end (gen_prelude_vars p0 p1 p2 p3 ss sz)) /\
  map fst regs = [1; 2; 10].
Proof.
  intros H0 H2 H3 Hs Hz Hsz. cbv zeta. unfold gen_prelude_regs, gen_prelude_vars. cbn [reg_lookup Z.eqb Pos.eqb map fst v_stack_end].
  unfold ir_select, ir_icmp, ir_iconst, ir_iadd. rewrite Z.mod_0_l by (fold_pows; lia).
  rewrite (Z.mod_small sz) by lia. rewrite (Z.mod_small (ss + sz)) by lia.
  repeat split.
  destruct (Z.eqb_spec p3 0); cbn [negb]; reflexivity.
Qed.
