(** C15 specification: what disassembly must report, written from the eBPF ISA numbering (not from
    src/ebpf.rs or src/disassembler.rs).  The table gives, for every supported opcode byte, its mnemonic
    and operand shape; [render] gives the text in the assembler's syntax; [hl_list] walks the decoded
    instructions and merges the two halves of a wide load. *)
From Coq Require Import ZArith List Bool String.
From RbpfV Require Import MachInt Ebpf Fmt DisasmDefs.
Import ListNotations.
Open Scope Z_scope.

Inductive shape := ShAluImm | ShAluReg | ShUnary | ShEndian | ShLdAbs | ShLdInd | ShLdReg | ShStImm | ShStReg
                 | ShJa | ShJmpImm | ShJmpReg | ShCall | ShNone | ShLddw.

Definition mnemonics : list (Z * (string * shape)) := [
  (0x04, ("add32", ShAluImm));
  (0x05, ("ja", ShJa));
  (0x07, ("add64", ShAluImm));
  (0x0c, ("add32", ShAluReg));
  (0x0f, ("add64", ShAluReg));
  (0x14, ("sub32", ShAluImm));
  (0x15, ("jeq", ShJmpImm));
  (0x16, ("jeq32", ShJmpImm));
  (0x17, ("sub64", ShAluImm));
  (0x18, ("lddw", ShLddw));
  (0x1c, ("sub32", ShAluReg));
  (0x1d, ("jeq", ShJmpReg));
  (0x1e, ("jeq32", ShJmpReg));
  (0x1f, ("sub64", ShAluReg));
  (0x20, ("ldabsw", ShLdAbs));
  (0x24, ("mul32", ShAluImm));
  (0x25, ("jgt", ShJmpImm));
  (0x26, ("jgt32", ShJmpImm));
  (0x27, ("mul64", ShAluImm));
  (0x28, ("ldabsh", ShLdAbs));
  (0x2c, ("mul32", ShAluReg));
  (0x2d, ("jgt", ShJmpReg));
  (0x2e, ("jgt32", ShJmpReg));
  (0x2f, ("mul64", ShAluReg));
  (0x30, ("ldabsb", ShLdAbs));
  (0x34, ("div32", ShAluImm));
  (0x35, ("jge", ShJmpImm));
  (0x36, ("jge32", ShJmpImm));
  (0x37, ("div64", ShAluImm));
  (0x38, ("ldabsdw", ShLdAbs));
  (0x3c, ("div32", ShAluReg));
  (0x3d, ("jge", ShJmpReg));
  (0x3e, ("jge32", ShJmpReg));
  (0x3f, ("div64", ShAluReg));
  (0x40, ("ldindw", ShLdInd));
  (0x44, ("or32", ShAluImm));
  (0x45, ("jset", ShJmpImm));
  (0x46, ("jset32", ShJmpImm));
  (0x47, ("or64", ShAluImm));
  (0x48, ("ldindh", ShLdInd));
  (0x4c, ("or32", ShAluReg));
  (0x4d, ("jset", ShJmpReg));
  (0x4e, ("jset32", ShJmpReg));
  (0x4f, ("or64", ShAluReg));
  (0x50, ("ldindb", ShLdInd));
  (0x54, ("and32", ShAluImm));
  (0x55, ("jne", ShJmpImm));
  (0x56, ("jne32", ShJmpImm));
  (0x57, ("and64", ShAluImm));
  (0x58, ("ldinddw", ShLdInd));
  (0x5c, ("and32", ShAluReg));
  (0x5d, ("jne", ShJmpReg));
  (0x5e, ("jne32", ShJmpReg));
  (0x5f, ("and64", ShAluReg));
  (0x61, ("ldxw", ShLdReg));
  (0x62, ("stw", ShStImm));
  (0x63, ("stxw", ShStReg));
  (0x64, ("lsh32", ShAluImm));
  (0x65, ("jsgt", ShJmpImm));
  (0x66, ("jsgt32", ShJmpImm));
  (0x67, ("lsh64", ShAluImm));
  (0x69, ("ldxh", ShLdReg));
  (0x6a, ("sth", ShStImm));
  (0x6b, ("stxh", ShStReg));
  (0x6c, ("lsh32", ShAluReg));
  (0x6d, ("jsgt", ShJmpReg));
  (0x6e, ("jsgt32", ShJmpReg));
  (0x6f, ("lsh64", ShAluReg));
  (0x71, ("ldxb", ShLdReg));
  (0x72, ("stb", ShStImm));
  (0x73, ("stxb", ShStReg));
  (0x74, ("rsh32", ShAluImm));
  (0x75, ("jsge", ShJmpImm));
  (0x76, ("jsge32", ShJmpImm));
  (0x77, ("rsh64", ShAluImm));
  (0x79, ("ldxdw", ShLdReg));
  (0x7a, ("stdw", ShStImm));
  (0x7b, ("stxdw", ShStReg));
  (0x7c, ("rsh32", ShAluReg));
  (0x7d, ("jsge", ShJmpReg));
  (0x7e, ("jsge32", ShJmpReg));
  (0x7f, ("rsh64", ShAluReg));
  (0x84, ("neg32", ShUnary));
  (0x85, ("call", ShCall));
  (0x87, ("neg64", ShUnary));
  (0x8d, ("tail_call", ShNone));
  (0x94, ("mod32", ShAluImm));
  (0x95, ("exit", ShNone));
  (0x97, ("mod64", ShAluImm));
  (0x9c, ("mod32", ShAluReg));
  (0x9f, ("mod64", ShAluReg));
  (0xa4, ("xor32", ShAluImm));
  (0xa5, ("jlt", ShJmpImm));
  (0xa6, ("jlt32", ShJmpImm));
  (0xa7, ("xor64", ShAluImm));
  (0xac, ("xor32", ShAluReg));
  (0xad, ("jlt", ShJmpReg));
  (0xae, ("jlt32", ShJmpReg));
  (0xaf, ("xor64", ShAluReg));
  (0xb4, ("mov32", ShAluImm));
  (0xb5, ("jle", ShJmpImm));
  (0xb6, ("jle32", ShJmpImm));
  (0xb7, ("mov64", ShAluImm));
  (0xbc, ("mov32", ShAluReg));
  (0xbd, ("jle", ShJmpReg));
  (0xbe, ("jle32", ShJmpReg));
  (0xbf, ("mov64", ShAluReg));
  (0xc3, ("stxxaddw", ShStReg));
  (0xc4, ("arsh32", ShAluImm));
  (0xc5, ("jslt", ShJmpImm));
  (0xc6, ("jslt32", ShJmpImm));
  (0xc7, ("arsh64", ShAluImm));
  (0xcc, ("arsh32", ShAluReg));
  (0xcd, ("jslt", ShJmpReg));
  (0xce, ("jslt32", ShJmpReg));
  (0xcf, ("arsh64", ShAluReg));
  (0xd4, ("le", ShEndian));
  (0xd5, ("jsle", ShJmpImm));
  (0xd6, ("jsle32", ShJmpImm));
  (0xdb, ("stxxadddw", ShStReg));
  (0xdc, ("be", ShEndian));
  (0xdd, ("jsle", ShJmpReg));
  (0xde, ("jsle32", ShJmpReg)) ]%string.

Fixpoint lookup (o : Z) (t : list (Z * (string * shape))) : option (string * shape) :=
  match t with [] => None | (k, v) :: r => if k =? o then Some v else lookup o r end.

Open Scope string_scope.
Definition reg (r : Z) : string := "r" ++ fmt_unsigned 10 r.
Definition hex (x : Z) : string := "0x" ++ fmt_unsigned 16 x.                   (* x >= 0 *)
Definition hex32 (x : Z) : string := hex (x mod 2 ^ 32)%Z.                         (* 32-bit two's complement *)
Definition soff (o : Z) : string := if (0 <=? o)%Z then "+" ++ hex o else "-" ++ hex (- o)%Z.

Definition render (name : string) (sh : shape) (i : insn) (imm64 : Z) : string :=
  match sh with
  | ShAluImm => name ++ " " ++ reg (dst i) ++ ", " ++ hex32 (imm i)
  | ShAluReg => name ++ " " ++ reg (dst i) ++ ", " ++ reg (src i)
  | ShUnary  => name ++ " " ++ reg (dst i)
  | ShEndian => name ++ fmt_dec (imm i) ++ " " ++ reg (dst i)
  | ShLdAbs  => name ++ " " ++ hex32 (imm i)
  | ShLdInd  => name ++ " " ++ reg (src i) ++ ", " ++ hex32 (imm i)
  | ShLdReg  => name ++ " " ++ reg (dst i) ++ ", [" ++ reg (src i) ++ soff (off i) ++ "]"
  | ShStImm  => name ++ " [" ++ reg (dst i) ++ soff (off i) ++ "], " ++ hex32 (imm i)
  | ShStReg  => name ++ " [" ++ reg (dst i) ++ soff (off i) ++ "], " ++ reg (src i)
  | ShJa     => name ++ " " ++ soff (off i)
  | ShJmpImm => name ++ " " ++ reg (dst i) ++ ", " ++ hex32 (imm i) ++ ", " ++ soff (off i)
  | ShJmpReg => name ++ " " ++ reg (dst i) ++ ", " ++ reg (src i) ++ ", " ++ soff (off i)
  | ShCall   => name ++ " " ++ hex32 (imm i)
  | ShNone   => name
  | ShLddw   => name ++ " " ++ reg (dst i) ++ ", " ++ hex (imm64 mod 2 ^ 64)%Z
  end.
Close Scope string_scope.

(** the merged immediate of a wide load: low half from the first slot, high half from the second *)
Definition imm64_of (lo hi : Z) : Z := norm I64 ((lo mod 2 ^ 32) + 2 ^ 32 * (hi mod 2 ^ 32)).

Definition hl_entry (name : string) (sh : shape) (i : insn) (imm64 : Z) : hlinsn :=
  {| h_opc := opc i; h_name := name; h_desc := render name sh i imm64;
     h_dst := dst i; h_src := src i; h_off := off i; h_imm := imm64 |}.

(** None = input outside the property's domain (unsupported opcode, call kind other than 0/1,
    wide load without its second half) *)
Fixpoint hl_list (l : list insn) : option (list hlinsn) :=
  match l with
  | [] => Some []
  | i :: rest =>
    match lookup (opc i) mnemonics with
    | None => None
    | Some (name, ShLddw) =>
      match rest with
      | [] => None
      | i2 :: rest' => option_map (cons (hl_entry name ShLddw i (imm64_of (imm i) (imm i2)))) (hl_list rest')
      end
    | Some (name, ShCall) =>
      if src i =? 0 then option_map (cons (hl_entry name ShCall i (imm i))) (hl_list rest)
      else if src i =? 1 then option_map (cons (hl_entry "callx" ShCall i (imm i))) (hl_list rest)
      else None
    | Some (name, sh) => option_map (cons (hl_entry name sh i (imm i))) (hl_list rest)
    end
  end.

(** the instructions of a program made of whole 8-byte slots, in order *)
Definition nsl (p : list Z) : Z := len p / 8.
Definition insn_k (p : list Z) (k : Z) : insn := spec_decode_slot (firstn 8 (skipn (Z.to_nat (8 * k)) p)).
Fixpoint decode_from (p : list Z) (k : Z) (n : nat) : list insn :=
  match n with O => [] | S n' => insn_k p k :: decode_from p (k + 1) n' end.
Definition decode_all (p : list Z) : list insn := decode_from p 0 (Z.to_nat (nsl p)).
