(** C04 (conditional jumps): for each of the 44 conditional-jump opcodes, the value that the IR built by src/cranelift.rs
    hands to `brif` (regenerated, one opcode at a time, into coq/gen/ClJmp.v) is non-zero exactly when the ISA condition
    (Isa.cond at the width of the opcode class, immediates sign-extended) holds -- for all operand values. *)
From Coq Require Import ZArith Lia Bool List.
From RbpfV Require Import MachInt BitLemmas Ebpf ClirSem Mem Stack Helpers InterpDefs Isa ClAluProofs.
From RbpfV.gen Require Import Opcodes ClJmp.
Import ListNotations.
Open Scope Z_scope.
Ltac Zify.zify_post_hook ::= Z.div_mod_to_equations.

Definition cl_jmp_ops : list Z :=
  [0x15; 0x1d; 0x25; 0x2d; 0x35; 0x3d; 0x45; 0x4d; 0x55; 0x5d; 0x65; 0x6d; 0x75; 0x7d; 0xa5; 0xad; 0xb5; 0xbd; 0xc5; 0xcd; 0xd5; 0xdd;
   0x16; 0x1e; 0x26; 0x2e; 0x36; 0x3e; 0x46; 0x4e; 0x56; 0x5e; 0x66; 0x6e; 0x76; 0x7e; 0xa6; 0xae; 0xb6; 0xbe; 0xc6; 0xce; 0xd6; 0xde].

Definition isa_jump_taken (o : Z) (i : insn) (rd rs : Z) : bool :=
  let w := if o mod 8 =? 5 then 64 else 32 in
  let a := rd mod 2 ^ w in
  let b := (if Z.testbit o 3 then rs else imm i) mod 2 ^ w in
  cond w (o / 16) a b.

Lemma icmp_bool cc w a b : ir_icmp cc w a b = 0 \/ ir_icmp cc w a b = 1.
Proof. unfold ir_icmp. destruct cc; match goal with |- context [if ?c then 1 else 0] => destruct c end; auto. Qed.

Ltac evj o :=
  unfold isa_jump_taken;
  let v1 := eval vm_compute in (o mod 8 =? 5) in change (o mod 8 =? 5) with v1;
  let v2 := eval vm_compute in (o / 16) in change (o / 16) with v2;
  let v3 := eval vm_compute in (Z.testbit o 3) in change (Z.testbit o 3) with v3;
  cbv beta iota zeta delta [cond];
  unfold gen_cl_jmp; match goal with |- negb (?L =? 0) = _ => let L2 := eval simpl in L in change L with L2 end;
  match goal with |- negb (?f ?i ?rd ?rs =? 0) = _ => unfold f end;
  cbv zeta; rewrite ?imm32_const, ?imm64_const; unfold ir_ireduce, ir_band.

Theorem cl_jmp_arms i rd rs :
  0 <= rd < 2 ^ 64 -> 0 <= rs < 2 ^ 64 ->
  Forall (fun o => negb (gen_cl_jmp o i rd rs =? 0) = isa_jump_taken o i rd rs) cl_jmp_ops.
Proof.
  intros Hd Hs. unfold cl_jmp_ops.
  assert (M32d : 0 <= rd mod 2 ^ 32 < 2 ^ 32) by (apply Z.mod_pos_bound; fold_pows; lia).
  assert (M32s : 0 <= rs mod 2 ^ 32 < 2 ^ 32) by (apply Z.mod_pos_bound; fold_pows; lia).
  assert (M32i : 0 <= imm i mod 2 ^ 32 < 2 ^ 32) by (apply Z.mod_pos_bound; fold_pows; lia).
  assert (M64i : 0 <= imm i mod 2 ^ 64 < 2 ^ 64) by (apply Z.mod_pos_bound; fold_pows; lia).
  repeat (apply Forall_cons;
    [ match goal with |- negb (gen_cl_jmp ?o _ _ _ =? 0) = _ => evj o end;
      rewrite ?(Z.mod_small rd (2 ^ 64)), ?(Z.mod_small rs (2 ^ 64)) by assumption;
      unfold ir_icmp;
      rewrite ?(sgn_smod 32 (rd mod 2 ^ 32)), ?(sgn_smod 32 (rs mod 2 ^ 32)), ?(sgn_smod 32 (imm i mod 2 ^ 32)),
              ?(sgn_smod 64 rd), ?(sgn_smod 64 rs), ?(sgn_smod 64 (imm i mod 2 ^ 64)) by (assumption || lia);
      first [ reflexivity
            | match goal with |- negb ((if ?c then 1 else 0) =? 0) = _ => destruct c; reflexivity end ]
    | ]).
  apply Forall_nil.
Qed.
