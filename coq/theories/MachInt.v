(** Rust machine integers over Z: casts, wrapping and checked (debug-profile) arithmetic. *)
From Coq Require Import ZArith Lia Bool List.
Import ListNotations.
Open Scope Z_scope.

Inductive ity := U8 | U16 | U32 | U64 | USZ | I8 | I16 | I32 | I64 | ISZ.

Definition bits (t : ity) : Z :=
  match t with
  | U8 | I8 => 8 | U16 | I16 => 16 | U32 | I32 => 32
  | U64 | I64 | USZ | ISZ => 64
  end.
Definition signed (t : ity) : bool :=
  match t with I8 | I16 | I32 | I64 | ISZ => true | _ => false end.

Definition umod (w x : Z) : Z := x mod 2 ^ w.
Definition smod (w x : Z) : Z :=
  let y := x mod 2 ^ w in if y <? 2 ^ (w - 1) then y else y - 2 ^ w.
Definition norm (t : ity) (x : Z) : Z :=
  if signed t then smod (bits t) x else umod (bits t) x.

Definition tmin (t : ity) : Z := if signed t then - 2 ^ (bits t - 1) else 0.
Definition tmax (t : ity) : Z := if signed t then 2 ^ (bits t - 1) - 1 else 2 ^ bits t - 1.
Definition in_ty (t : ity) (x : Z) : Prop := tmin t <= x <= tmax t.
Definition in_tyb (t : ity) (x : Z) : bool := (tmin t <=? x) && (x <=? tmax t).

(** `e as T` *)
Definition cast (t : ity) (x : Z) : Z := norm t x.

(** wrapping_* methods *)
Definition wadd t a b := norm t (a + b).
Definition wsub t a b := norm t (a - b).
Definition wmul t a b := norm t (a * b).
Definition wneg t a := norm t (- a).
Definition wshl t a n := norm t (a * 2 ^ (n mod bits t)).
Definition wshr (t : ity) a n := a / 2 ^ (n mod bits t).

(** results: a Rust computation returns a value, an [Err], or panics *)
Inductive res (A : Type) : Type :=
| Ok (a : A)
| Err (e : Z)
| Panic (site : Z)
| OutOfFuel.
Arguments Ok {A} a.
Arguments Err {A} e.
Arguments Panic {A} site.
Arguments OutOfFuel {A}.

Definition bind {A B} (r : res A) (f : A -> res B) : res B :=
  match r with
  | Ok a => f a
  | Err e => Err e
  | Panic s => Panic s
  | OutOfFuel => OutOfFuel
  end.
Notation "x <- e ;; f" := (bind e (fun x => f))
  (at level 61, e at next level, right associativity).

(** checked operators: what `+ - * / % << >>` and unary `-` do in a debug build *)
Definition chk (t : ity) (site : Z) (x : Z) : res Z :=
  if in_tyb t x then Ok x else Panic site.
Definition cadd t site a b := chk t site (a + b).
Definition csub t site a b := chk t site (a - b).
Definition cmul t site a b := chk t site (a * b).
Definition cneg t site a := chk t site (- a).
Definition cdiv t site a b :=
  if b =? 0 then Panic site else chk t site (if signed t then Z.quot a b else a / b).
Definition crem t site a b :=
  if b =? 0 then Panic site
  else if signed t && (a =? tmin t) && (b =? -1) then Panic site
  else Ok (if signed t then Z.rem a b else a mod b).
Definition cshl t site a n :=
  if (0 <=? n) && (n <? bits t) then Ok (norm t (a * 2 ^ n)) else Panic site.
Definition cshr (t : ity) site a n :=
  if (0 <=? n) && (n <? bits t) then Ok (a / 2 ^ n) else Panic site.

(** byte swapping *)
Fixpoint le_bytes (n : nat) (x : Z) : list Z :=
  match n with O => [] | S k => (x mod 256) :: le_bytes k (x / 256) end.
Fixpoint of_le_bytes (l : list Z) : Z :=
  match l with [] => 0 | b :: r => b + 256 * of_le_bytes r end.
Definition swap_bytes (t : ity) (x : Z) : Z :=
  norm t (of_le_bytes (rev (le_bytes (Z.to_nat (bits t / 8)) (umod (bits t) x)))).
Definition to_le (t : ity) (x : Z) : Z := x.
Definition to_be (t : ity) (x : Z) : Z := swap_bytes t x.

Definition is_multiple_of (a n : Z) : bool := if n =? 0 then a =? 0 else a mod n =? 0.

(** `x.checked_add(y)` *)
Definition ochecked_add (t : ity) (a b : Z) : option Z := if in_tyb t (a + b) then Some (a + b) else None.

(** control flow of translated blocks: fall through with the updated variables, or `return r` *)
Inductive ctl (R S : Type) : Type := Next (s : S) | Ret (r : R).
Arguments Next {R S} s. Arguments Ret {R S} r.

(** `while c { body }` on explicit fuel *)
Fixpoint loop {S : Type} (fuel : nat) (cond : S -> res bool) (body : S -> res S) (s : S) : res S :=
  match fuel with
  | O => OutOfFuel
  | Datatypes.S f => c <- cond s ;; if c then s' <- body s ;; loop f cond body s' else Ok s
  end.
Fixpoint loop_ctl {R S : Type} (fuel : nat) (cond : S -> res bool) (body : S -> res (ctl R S)) (s : S)
  : res (ctl R S) :=
  match fuel with
  | O => OutOfFuel
  | Datatypes.S f =>
      c <- cond s ;;
      if c then x <- body s ;; match x with Ret r => Ok (Ret r) | Next s' => loop_ctl f cond body s' end
      else Ok (Next s)
  end.

(** `x.leading_zeros()` and `a.div_ceil(b)` on unsigned values *)
Definition leading_zeros (t : ity) (x : Z) : Z := if x <=? 0 then bits t else bits t - (Z.log2 x + 1).
Definition div_ceil (a b : Z) : Z := (a + b - 1) / b.
