(** Pure models of the helpers the harness registers (harness/src/hl.rs) and of the pure built-ins. *)
From Coq Require Import ZArith List Bool.
From RbpfV Require Import MachInt InterpDefs.
Import ListNotations.
Open Scope Z_scope.

Definition h_mix : helper := fun a b c d e =>
  (a * 3 + b * 5 + c * 7 + d * 11 + e * 13 + 1) mod 2 ^ 64.
Definition h_clobber : helper := fun a _ _ _ _ => (a + 1) mod 2 ^ 64.
Definition h_rsp : helper := fun _ _ _ _ _ => 0.          (* stack misalignment at entry: must be 0 *)
Definition h_gather_bytes : helper := fun a b c d e =>
  Z.lor (Z.lor (Z.lor (Z.lor ((a * 2 ^ 32) mod 2 ^ 64) ((b * 2 ^ 24) mod 2 ^ 64)) ((c * 2 ^ 16) mod 2 ^ 64))
        ((d * 2 ^ 8) mod 2 ^ 64)) e.

(** helper sets are written by the checks as association lists id -> code *)
Definition helper_of_code (c : Z) : option helper :=
  match c with
  | 1 => Some h_mix | 2 => Some h_clobber | 3 => Some h_rsp | 4 => Some h_gather_bytes
  | _ => None
  end.
Fixpoint helpers_of (l : list (Z * Z)) (id : Z) : option helper :=
  match l with
  | [] => None
  | (k, c) :: r => if k =? id then helper_of_code c else helpers_of r id
  end.
