(** C03 (encoders): the x86-64 encoders of src/jit.rs, regenerated into coq/gen/JitEnc.v, append exactly the bytes of the
    x86 encoding specification X86Enc.v -- for every register number 0..15, every displacement and immediate; and they
    never trip their assertions on such arguments. *)
From Coq Require Import ZArith Lia Bool List.
From RbpfV Require Import MachInt BitLemmas ListLemmas X86Enc.
From RbpfV.gen Require Import JitEnc.
Import ListNotations.
Open Scope Z_scope.
Ltac Zify.zify_post_hook ::= Z.div_mod_to_equations.

Definition range16 : list Z := [0; 1; 2; 3; 4; 5; 6; 7; 8; 9; 10; 11; 12; 13; 14; 15].
Lemma in_range16 r : 0 <= r < 16 -> In r range16.
Proof. intros H. unfold range16. cbn [In]. lia. Qed.

(** ** finite facts about the bit manipulations, by exhaustive evaluation *)
Lemma masked_sweep : forallb (fun r => (if Z.land r 8 =? 0 then 0 else 1) =? hi r) range16 = true.
Proof. vm_compute. reflexivity. Qed.
Lemma lo_sweep : forallb (fun r => Z.land r 7 =? lo r) range16 = true.
Proof. vm_compute. reflexivity. Qed.
Lemma hi8_sweep : forallb (fun r => Bool.eqb (negb (Z.land r 8 =? 0)) (8 <=? r)) range16 = true.
Proof. vm_compute. reflexivity. Qed.

Lemma masked_hi r : 0 <= r < 16 -> (if Z.land r 8 =? 0 then 0 else 1) = hi r.
Proof. intros H. apply Z.eqb_eq. exact (proj1 (forallb_forall _ _) masked_sweep r (in_range16 r H)). Qed.
Lemma land7_lo r : 0 <= r < 16 -> Z.land r 7 = lo r.
Proof. intros H. apply Z.eqb_eq. exact (proj1 (forallb_forall _ _) lo_sweep r (in_range16 r H)). Qed.
Lemma land8_ge r : 0 <= r < 16 -> negb (Z.land r 8 =? 0) = (8 <=? r).
Proof. intros H. apply Bool.eqb_prop. exact (proj1 (forallb_forall _ _) hi8_sweep r (in_range16 r H)). Qed.

Lemma modrm_sweep :
  forallb (fun md => forallb (fun r => forallb (fun m =>
     match cshl U8 0 (Z.land r 7) 3 with
     | Ok v => Z.lor (Z.lor (Z.land (64 * md) 192) v) (Z.land m 7) =? modrm md r m
     | _ => false end) range16) range16) [0; 1; 2; 3] = true.
Proof. vm_compute. reflexivity. Qed.

Lemma rex_sweep :
  forallb (fun w => forallb (fun r => forallb (fun b =>
     match cshl U8 0 w 3, cshl U8 0 r 2, cshl U8 0 0 1 with
     | Ok v1, Ok v2, Ok v3 => Z.lor (Z.lor (Z.lor (Z.lor 64 v1) v2) v3) b =? rex w r 0 b
     | _, _, _ => false end) [0; 1]) [0; 1]) [0; 1] = true.
Proof. vm_compute. reflexivity. Qed.

Lemma emit1_byte mem b : 0 <= b < 256 -> gen_emit1 mem b = Ok (mem ++ [b]).
Proof.
  intros H. unfold gen_emit1, emit_le. change (Z.to_nat 1) with 1%nat. cbn [le_bytes]. change (8 * 1) with 8.
  rewrite (Z.mod_small b (2 ^ 8)) by (fold_pows; lia). rewrite (Z.mod_small b 256) by lia. reflexivity.
Qed.

Lemma modrm_range md r m : 0 <= md < 4 -> 0 <= modrm md r m < 256.
Proof. intros H. unfold modrm, lo. lia. Qed.

(** emit_modrm *)
Lemma emit_modrm_spec mem md r m : In md [0; 1; 2; 3] -> 0 <= r < 16 -> 0 <= m < 16 ->
  gen_emit_modrm mem (64 * md) r m = Ok (mem ++ [modrm md r m]).
Proof.
  intros Hmd Hr Hm.
  pose proof (proj1 (forallb_forall _ _) modrm_sweep md Hmd) as S1.
  pose proof (proj1 (forallb_forall _ _) S1 r (in_range16 r Hr)) as S2.
  pose proof (proj1 (forallb_forall _ _) S2 m (in_range16 m Hm)) as S3. cbv beta in S3.
  unfold gen_emit_modrm.
  assert (A : (Z.lor (64 * md) 192 =? 192) = true) by (cbn [In] in Hmd; destruct Hmd as [<-|[<-|[<-|[<-|[]]]]]; reflexivity).
  rewrite A. destruct (cshl U8 0 (Z.land r 7) 3) as [v| | |]; try discriminate. cbn [bind]. apply Z.eqb_eq in S3. rewrite S3.
  rewrite emit1_byte by (apply modrm_range; cbn [In] in Hmd; lia). reflexivity.
Qed.

Lemma emit_rex_spec mem w r b : In w [0; 1] -> In r [0; 1] -> In b [0; 1] ->
  gen_emit_rex mem w r 0 b = Ok (mem ++ [rex w r 0 b]).
Proof.
  intros Hw Hr Hb.
  pose proof (proj1 (forallb_forall _ _) rex_sweep w Hw) as S1.
  pose proof (proj1 (forallb_forall _ _) S1 r Hr) as S2.
  pose proof (proj1 (forallb_forall _ _) S2 b Hb) as S3. cbv beta in S3.
  unfold gen_emit_rex.
  assert (A1 : (Z.lor w 1 =? 1) = true) by (cbn [In] in Hw; destruct Hw as [<-|[<-|[]]]; reflexivity).
  assert (A2 : (Z.lor r 1 =? 1) = true) by (cbn [In] in Hr; destruct Hr as [<-|[<-|[]]]; reflexivity).
  assert (A3 : (Z.lor b 1 =? 1) = true) by (cbn [In] in Hb; destruct Hb as [<-|[<-|[]]]; reflexivity).
  rewrite A1, A2, A3. change (Z.lor 0 1 =? 1) with true. cbv iota.
  destruct (cshl U8 0 w 3) as [v1| | |]; try discriminate. destruct (cshl U8 0 r 2) as [v2| | |]; try discriminate.
  destruct (cshl U8 0 0 1) as [v3| | |]; try discriminate. cbn [bind]. apply Z.eqb_eq in S3. rewrite S3.
  rewrite emit1_byte; [reflexivity|]. unfold rex. cbn [In] in *. lia.
Qed.

Lemma hi_01 r : 0 <= r < 16 -> In (hi r) [0; 1].
Proof. intros H. unfold hi. cbn [In]. lia. Qed.

Lemma emit_basic_rex_spec mem w reg rm : In w [0; 1] -> 0 <= reg < 16 -> 0 <= rm < 16 ->
  gen_emit_basic_rex mem w reg rm = Ok (mem ++ x_basic_rex w reg rm).
Proof.
  intros Hw Hr Hm. unfold gen_emit_basic_rex, gen_basix_rex_would_set_bits. cbn [bind].
  rewrite (land8_ge reg Hr), (land8_ge rm Hm). unfold x_basic_rex.
  assert (C : (negb (w =? 0) || (8 <=? reg) || (8 <=? rm)) = negb ((w =? 0) && (reg <? 8) && (rm <? 8))).
  { destruct (w =? 0), (Z.leb_spec 8 reg), (Z.leb_spec 8 rm), (Z.ltb_spec reg 8), (Z.ltb_spec rm 8); try lia; reflexivity. }
  rewrite C. destruct ((w =? 0) && (reg <? 8) && (rm <? 8)); cbn [negb].
  - cbn [bind]. now rewrite app_nil_r.
  - rewrite (masked_hi reg Hr), (masked_hi rm Hm). rewrite emit_rex_spec by (try assumption; now apply hi_01). reflexivity.
Qed.

Lemma emit_modrm_reg2reg_spec mem r m : 0 <= r < 16 -> 0 <= m < 16 -> gen_emit_modrm_reg2reg mem r m = Ok (mem ++ [modrm 3 r m]).
Proof.
  intros. unfold gen_emit_modrm_reg2reg. change 192 with (64 * 3). rewrite emit_modrm_spec by (cbn [In]; tauto || assumption). reflexivity.
Qed.

(** ** register-direct ALU forms *)
Theorem emit_alu_spec mem w op reg rm : In w [0; 1] -> 0 <= op < 256 -> 0 <= reg < 16 -> 0 <= rm < 16 ->
  (if w =? 1 then gen_emit_alu64 mem op reg rm else gen_emit_alu32 mem op reg rm) = Ok (mem ++ x_alu w op reg rm).
Proof.
  intros Hw Ho Hr Hm. cbn [In] in Hw. destruct Hw as [<-|[<-|[]]]; cbv iota; change (0 =? 1) with false; change (1 =? 1) with true; cbv iota.
  - unfold gen_emit_alu32. rewrite emit_basic_rex_spec by (cbn [In]; tauto || assumption). cbn [bind].
    rewrite emit1_byte by exact Ho. cbn [bind]. rewrite emit_modrm_reg2reg_spec by assumption. cbn [bind].
    unfold x_alu. now rewrite <- !app_assoc.
  - unfold gen_emit_alu64. rewrite emit_basic_rex_spec by (cbn [In]; tauto || assumption). cbn [bind].
    rewrite emit1_byte by exact Ho. cbn [bind]. rewrite emit_modrm_reg2reg_spec by assumption. cbn [bind].
    unfold x_alu. now rewrite <- !app_assoc.
Qed.

Lemma emit4_le mem v : gen_emit4 mem v = Ok (mem ++ le_bytes 4 (v mod 2 ^ 32)).
Proof. reflexivity. Qed.
Lemma emit8_le mem v : gen_emit8 mem v = Ok (mem ++ le_bytes 8 (v mod 2 ^ 64)).
Proof. reflexivity. Qed.

Theorem emit_alu64_imm32_spec mem op ext rm imm : 0 <= op < 256 -> 0 <= ext < 16 -> 0 <= rm < 16 ->
  gen_emit_alu64_imm32 mem op ext rm imm = Ok (mem ++ x_alu 1 op ext rm ++ le_bytes 4 (imm mod 2 ^ 32)).
Proof.
  intros. unfold gen_emit_alu64_imm32. pose proof (emit_alu_spec mem 1 op ext rm) as A. change (1 =? 1) with true in A. cbv iota in A.
  rewrite A by (cbn [In]; tauto || assumption). cbn [bind]. rewrite emit4_le. unfold cast, norm. cbn [signed bits]. unfold umod.
  rewrite Z.mod_mod by (fold_pows; lia). now rewrite <- app_assoc.
Qed.
Theorem emit_alu32_imm32_spec mem op ext rm imm : 0 <= op < 256 -> 0 <= ext < 16 -> 0 <= rm < 16 ->
  gen_emit_alu32_imm32 mem op ext rm imm = Ok (mem ++ x_alu 0 op ext rm ++ le_bytes 4 (imm mod 2 ^ 32)).
Proof.
  intros. unfold gen_emit_alu32_imm32. pose proof (emit_alu_spec mem 0 op ext rm) as A. change (0 =? 1) with false in A. cbv iota in A.
  rewrite A by (cbn [In]; tauto || assumption). cbn [bind]. rewrite emit4_le. unfold cast, norm. cbn [signed bits]. unfold umod.
  rewrite Z.mod_mod by (fold_pows; lia). now rewrite <- app_assoc.
Qed.

Theorem emit_mov_spec mem src dst : 0 <= src < 16 -> 0 <= dst < 16 -> gen_emit_mov mem src dst = Ok (mem ++ x_alu 1 137 src dst).
Proof.
  intros. unfold gen_emit_mov. pose proof (emit_alu_spec mem 1 137 src dst) as A. change (1 =? 1) with true in A. cbv iota in A.
  rewrite A by (cbn [In]; tauto || assumption || lia). reflexivity.
Qed.

Theorem emit_push_pop_spec mem r : 0 <= r < 16 ->
  gen_emit_push mem r = Ok (mem ++ x_push r) /\ gen_emit_pop mem r = Ok (mem ++ x_pop r).
Proof.
  intros H. unfold gen_emit_push, gen_emit_pop, x_push, x_pop.
  rewrite !emit_basic_rex_spec by (cbn [In]; tauto || assumption || lia). cbn [bind].
  rewrite (land7_lo r H). assert (L : 0 <= lo r < 8) by (unfold lo; lia).
  assert (O1 : Z.lor 80 (lo r) = 80 + lo r) by (unfold lo in *; assert (C : In (r mod 8) [0;1;2;3;4;5;6;7]) by (cbn [In]; lia); cbn [In] in C; destruct C as [<-|[<-|[<-|[<-|[<-|[<-|[<-|[<-|[]]]]]]]]]; reflexivity).
  assert (O2 : Z.lor 88 (lo r) = 88 + lo r) by (unfold lo in *; assert (C : In (r mod 8) [0;1;2;3;4;5;6;7]) by (cbn [In]; lia); cbn [In] in C; destruct C as [<-|[<-|[<-|[<-|[<-|[<-|[<-|[<-|[]]]]]]]]]; reflexivity).
  rewrite O1, O2. rewrite !emit1_byte by lia. cbn [bind]. now rewrite <- !app_assoc.
Qed.

(** ** memory operands *)
Lemma emit_mem_spec mem reg base d : 0 <= reg < 16 -> 0 <= base < 16 -> - 2 ^ 31 <= d < 2 ^ 31 ->
  gen_emit_modrm_and_displacement mem reg base d = Ok (mem ++ x_mem reg base d).
Proof.
  intros Hr Hb Hd. unfold gen_emit_modrm_and_displacement, x_mem. rewrite (land7_lo base Hb).
  destruct ((d =? 0) && negb (lo base =? 5)).
  - change 0 with (64 * 0) at 1. rewrite emit_modrm_spec by (cbn [In]; tauto || assumption). reflexivity.
  - destruct ((-128 <=? d) && (d <=? 127)) eqn:R.
    + change 64 with (64 * 1). rewrite emit_modrm_spec by (cbn [In]; tauto || assumption). cbn [bind].
      unfold cast, norm. cbn [signed bits]. unfold umod. change (2 ^ 8) with 256.
      rewrite emit1_byte by (apply Z.mod_pos_bound; lia). cbn [bind]. now rewrite <- app_assoc.
    + change 128 with (64 * 2). rewrite emit_modrm_spec by (cbn [In]; tauto || assumption). cbn [bind].
      rewrite emit4_le. unfold cast, norm. cbn [signed bits]. unfold umod. rewrite Z.mod_mod by (fold_pows; lia). cbn [bind].
      now rewrite <- app_assoc.
Qed.

Theorem emit_load_spec mem size base reg d : In size [8; 16; 32; 64] -> 0 <= base < 16 -> 0 <= reg < 16 -> - 2 ^ 31 <= d < 2 ^ 31 ->
  gen_emit_load mem size base reg d = Ok (mem ++ x_load size base reg d).
Proof.
  intros Hs Hb Hr Hd. unfold gen_emit_load, x_load, S8, S16, S32, S64.
  cbn [In] in Hs. destruct Hs as [<-|[<-|[<-|[<-|[]]]]]; cbn [Z.eqb Pos.eqb orb bind]; cbv iota;
    rewrite emit_basic_rex_spec by (cbn [In]; tauto || assumption); cbn [bind];
    rewrite ?emit1_byte by lia; cbn [bind]; rewrite ?emit1_byte by lia; cbn [bind];
    rewrite emit_mem_spec by assumption; cbn [bind]; now rewrite <- !app_assoc.
Qed.

Theorem emit_store_spec mem size reg base d : In size [8; 16; 32; 64] -> 0 <= reg < 16 -> 0 <= base < 16 -> - 2 ^ 31 <= d < 2 ^ 31 ->
  gen_emit_store mem size reg base d = Ok (mem ++ x_store size reg base d).
Proof.
  intros Hs Hr Hb Hd. unfold gen_emit_store, x_store, S8, S16, S32, S64.
  rewrite (land8_ge reg Hr), (land8_ge base Hb), (masked_hi reg Hr), (masked_hi base Hb).
  cbn [In] in Hs. destruct Hs as [<-|[<-|[<-|[<-|[]]]]]; cbn [Z.eqb Pos.eqb orb bind]; cbv iota; cbn [bind orb];
    rewrite ?emit1_byte by lia; cbn [bind];
    try (rewrite ?orb_true_r; cbn [orb]);
    repeat match goal with
    | |- context [if ?c then _ else _] => lazymatch c with context [Z.leb] => destruct c eqn:?; cbn [bind] end
    end;
    rewrite ?emit_rex_spec by (cbn [In]; first [tauto | now apply hi_01]); cbn [bind];
    rewrite ?emit1_byte by lia; cbn [bind];
    rewrite emit_mem_spec by assumption; cbn [bind]; rewrite <- ?app_assoc; cbn [app]; reflexivity.
Qed.

Theorem emit_load_imm_spec mem r imm : 0 <= r < 16 -> - 2 ^ 63 <= imm < 2 ^ 63 ->
  gen_emit_load_imm mem r imm = Ok (mem ++ x_load_imm r imm).
Proof.
  intros Hr Hi. unfold gen_emit_load_imm, x_load_imm.
  assert (C1 : cast I64 (-2147483648) = -2147483648) by reflexivity. assert (C2 : cast I64 2147483647 = 2147483647) by reflexivity.
  rewrite C1, C2. replace (imm >=? -2147483648) with (-2147483648 <=? imm) by (rewrite Z.geb_leb; reflexivity).
  destruct ((-2147483648 <=? imm) && (imm <=? 2147483647)) eqn:R.
  - apply andb_true_iff in R as [A B]. apply Z.leb_le in A, B.
    rewrite emit_alu64_imm32_spec by lia. cbn [bind].
    assert (E : cast I32 imm = imm) by (apply norm_idem; unfold in_ty, tmin, tmax; cbn [signed bits]; fold_pows; lia). rewrite E. reflexivity.
  - rewrite emit_basic_rex_spec by (cbn [In]; tauto || assumption || lia). cbn [bind].
    rewrite (land7_lo r Hr). assert (L : 0 <= lo r < 8) by (unfold lo; lia).
    assert (O : Z.lor 184 (lo r) = 184 + lo r) by (unfold lo in *; assert (C : In (r mod 8) [0;1;2;3;4;5;6;7]) by (cbn [In]; lia); cbn [In] in C; destruct C as [<-|[<-|[<-|[<-|[<-|[<-|[<-|[<-|[]]]]]]]]]; reflexivity).
    rewrite O, emit1_byte by lia. cbn [bind]. rewrite emit8_le. unfold cast, norm. cbn [signed bits]. unfold umod.
    rewrite Z.mod_mod by (fold_pows; lia). cbn [bind]. now rewrite <- !app_assoc.
Qed.
