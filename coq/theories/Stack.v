(** Hand-written model of stack.rs (StackVerifier::stack_validate and StackUsage lookup);
    tied to the code by the correspondence runs of C07. *)
From Coq Require Import ZArith List Bool.
From RbpfV Require Import MachInt Ebpf WellFormed.
Import ListNotations.
Open Scope Z_scope.

(** keys inserted by stack_validate besides 0: the target of every local call, computed as
    `(idx as isize + 1 + imm as isize) as usize` *)
Definition call_targets (prog : list Z) : list Z :=
  flat_map (fun k => let i := insn_at prog k in
                     if (opc i =? op_call) && (src i =? 1) then [cast USZ (k + 1 + imm i)] else [])
           (map Z.of_nat (seq 0 (Z.to_nat (nslots prog)))).

(** calculator: None = no calculator registered (every function uses the default 256) *)
Definition usage_map (prog : list Z) (calc : option (Z -> Z)) (pc : Z) : option Z :=
  if (pc =? 0) || inb pc (call_targets prog)
  then Some (match calc with Some c => cast U16 (c pc) | None => 256 end)
  else None.
