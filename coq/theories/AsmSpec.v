(** C13 specification: what each mnemonic and operand list denotes, written from the documented syntax and the
    eBPF ISA numbering (not from src/assembler.rs).  [asm_table] maps a mnemonic to its operand shape and opcode byte;
    [denote] gives the instruction slot(s) an instruction denotes, or None when the mnemonic is unknown, the
    operand list has the wrong shape, or an operand is out of range. *)
From Coq Require Import ZArith List Bool String.
From RbpfV Require Import MachInt Ebpf Fmt AsmDefs.
Import ListNotations.
Open Scope Z_scope.

Inductive ashape := SNone | SJa | SCall | SCallx | SLddw | SUnary | SAlu | SLdAbs | SLdInd | SLdx | SSt | SStx | SJmp | SEndian (bits : Z).

Definition asm_table : list (string * (ashape * Z)) := [
  ("add", (SAlu, 0x07));
  ("add32", (SAlu, 0x04));
  ("add64", (SAlu, 0x07));
  ("and", (SAlu, 0x57));
  ("and32", (SAlu, 0x54));
  ("and64", (SAlu, 0x57));
  ("arsh", (SAlu, 0xc7));
  ("arsh32", (SAlu, 0xc4));
  ("arsh64", (SAlu, 0xc7));
  ("be16", (SEndian 16, 0xdc));
  ("be32", (SEndian 32, 0xdc));
  ("be64", (SEndian 64, 0xdc));
  ("call", (SCall, 0x85));
  ("callx", (SCallx, 0x85));
  ("div", (SAlu, 0x37));
  ("div32", (SAlu, 0x34));
  ("div64", (SAlu, 0x37));
  ("exit", (SNone, 0x95));
  ("ja", (SJa, 0x05));
  ("jeq", (SJmp, 0x15));
  ("jeq32", (SJmp, 0x16));
  ("jge", (SJmp, 0x35));
  ("jge32", (SJmp, 0x36));
  ("jgt", (SJmp, 0x25));
  ("jgt32", (SJmp, 0x26));
  ("jle", (SJmp, 0xb5));
  ("jle32", (SJmp, 0xb6));
  ("jlt", (SJmp, 0xa5));
  ("jlt32", (SJmp, 0xa6));
  ("jne", (SJmp, 0x55));
  ("jne32", (SJmp, 0x56));
  ("jset", (SJmp, 0x45));
  ("jset32", (SJmp, 0x46));
  ("jsge", (SJmp, 0x75));
  ("jsge32", (SJmp, 0x76));
  ("jsgt", (SJmp, 0x65));
  ("jsgt32", (SJmp, 0x66));
  ("jsle", (SJmp, 0xd5));
  ("jsle32", (SJmp, 0xd6));
  ("jslt", (SJmp, 0xc5));
  ("jslt32", (SJmp, 0xc6));
  ("ldabsb", (SLdAbs, 0x30));
  ("ldabsdw", (SLdAbs, 0x38));
  ("ldabsh", (SLdAbs, 0x28));
  ("ldabsw", (SLdAbs, 0x20));
  ("lddw", (SLddw, 0x18));
  ("ldindb", (SLdInd, 0x50));
  ("ldinddw", (SLdInd, 0x58));
  ("ldindh", (SLdInd, 0x48));
  ("ldindw", (SLdInd, 0x40));
  ("ldxb", (SLdx, 0x71));
  ("ldxdw", (SLdx, 0x79));
  ("ldxh", (SLdx, 0x69));
  ("ldxw", (SLdx, 0x61));
  ("le16", (SEndian 16, 0xd4));
  ("le32", (SEndian 32, 0xd4));
  ("le64", (SEndian 64, 0xd4));
  ("lsh", (SAlu, 0x67));
  ("lsh32", (SAlu, 0x64));
  ("lsh64", (SAlu, 0x67));
  ("mod", (SAlu, 0x97));
  ("mod32", (SAlu, 0x94));
  ("mod64", (SAlu, 0x97));
  ("mov", (SAlu, 0xb7));
  ("mov32", (SAlu, 0xb4));
  ("mov64", (SAlu, 0xb7));
  ("mul", (SAlu, 0x27));
  ("mul32", (SAlu, 0x24));
  ("mul64", (SAlu, 0x27));
  ("neg", (SUnary, 0x87));
  ("neg32", (SUnary, 0x84));
  ("neg64", (SUnary, 0x87));
  ("or", (SAlu, 0x47));
  ("or32", (SAlu, 0x44));
  ("or64", (SAlu, 0x47));
  ("rsh", (SAlu, 0x77));
  ("rsh32", (SAlu, 0x74));
  ("rsh64", (SAlu, 0x77));
  ("stb", (SSt, 0x72));
  ("stdw", (SSt, 0x7a));
  ("sth", (SSt, 0x6a));
  ("stw", (SSt, 0x62));
  ("stxb", (SStx, 0x73));
  ("stxdw", (SStx, 0x7b));
  ("stxh", (SStx, 0x6b));
  ("stxw", (SStx, 0x63));
  ("sub", (SAlu, 0x17));
  ("sub32", (SAlu, 0x14));
  ("sub64", (SAlu, 0x17));
  ("xor", (SAlu, 0xa7));
  ("xor32", (SAlu, 0xa4));
  ("xor64", (SAlu, 0xa7)) ]%string.

(** an instruction slot with every field in range, unused fields zero *)
Definition slot_of (o d s f m : Z) : option insn :=
  if (0 <=? d) && (d <? 16) && (0 <=? s) && (s <? 16) && (- 2 ^ 15 <=? f) && (f <? 2 ^ 15) && (- 2 ^ 31 <=? m) && (m <? 2 ^ 31)
  then Some {| opc := o; dst := d; src := s; off := f; imm := m |} else None.
Definition one (x : option insn) : option (list insn) := option_map (fun i => [i]) x.

(** the two halves of a 64-bit immediate, each as a signed 32-bit field *)
Definition lo32 (v : Z) : Z := norm I32 v.
Definition hi32 (v : Z) : Z := norm I32 (v / 2 ^ 32).

Definition denote_ops (sh : ashape) (o : Z) (ops : list operand) : option (list insn) :=
  match sh, ops with
  | SNone, [] => one (slot_of o 0 0 0 0)
  | SJa, [Integer f] => one (slot_of o 0 0 f 0)
  | SCall, [Integer m] => one (slot_of o 0 0 0 m)
  | SCallx, [Integer m] => one (slot_of o 0 1 0 m)
  | SUnary, [Register d] => one (slot_of o d 0 0 0)
  | SEndian n, [Register d] => one (slot_of o d 0 0 n)
  | SAlu, [Register d; Register s] => one (slot_of (o + 8) d s 0 0)
  | SAlu, [Register d; Integer m] => one (slot_of o d 0 0 m)
  | SLdAbs, [Integer m] => one (slot_of o 0 0 0 m)
  | SLdInd, [Register s; Integer m] => one (slot_of o 0 s 0 m)
  | SLdx, [Register d; Memory s f] => one (slot_of o d s f 0)
  | SSt, [Memory d f; Integer m] => one (slot_of o d 0 f m)
  | SStx, [Memory d f; Register s] => one (slot_of o d s f 0)
  | SJmp, [Register d; Register s; Integer f] => one (slot_of (o + 8) d s f 0)
  | SJmp, [Register d; Integer m; Integer f] => one (slot_of o d 0 f m)
  | SLddw, [Register d; Integer v] =>
      match slot_of o d 0 0 (lo32 v), slot_of 0 0 0 0 (hi32 v) with
      | Some a, Some b => Some [a; b]
      | _, _ => None
      end
  | _, _ => None
  end.

Definition denote (name : list Z) (ops : list operand) : option (list insn) :=
  match map_get name asm_table with
  | Some (sh, o) => denote_ops sh o ops
  | None => None
  end.

(** a program denotes the concatenation, in source order, when every instruction denotes something *)
Fixpoint denote_prog (p : list (list Z * list operand)) : option (list insn) :=
  match p with
  | [] => Some []
  | (n, ops) :: r =>
    match denote n ops, denote_prog r with
    | Some a, Some b => Some (a ++ b)
    | _, _ => None
    end
  end.

Definition bytes_of_insns (l : list insn) : list Z := flat_map spec_encode l.
