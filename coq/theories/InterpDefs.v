(** Types and primitive operations used by the generated interpreter model (coq/gen/Interp.v). *)
From Coq Require Import ZArith List Bool Arith.
From RbpfV Require Import MachInt Ebpf Mem.
Import ListNotations.
Open Scope Z_scope.

(** error kinds, as the harness classifies the messages of the real crate *)
Definition EOobLoad := 1. Definition EOobStore := 2. Definition EUnaligned := 3.
Definition EUnknownHelper := 4. Definition ECallDepth := 5. Definition EBadCallType := 6.
Definition ETailCall := 7. Definition ENoProgram := 8. Definition ENotCompiled := 9.
Definition EBudget := 10. Definition EVerifier := 11. Definition EOther := 12.

Definition helper := Z -> Z -> Z -> Z -> Z -> Z.

(** what is fixed during one execution *)
Record ienv := {
  e_prog : list Z;
  e_helpers : Z -> option helper;       (* registered helpers, by id *)
  e_usage : Z -> option Z;              (* StackUsage map: function entry pc -> frame size *)
  e_mbuff_base : Z; e_mbuff_len : Z;
  e_mem_base : Z; e_mem_len : Z;
  e_stack_base : Z; e_stack_len : Z;
  e_allowed : list (Z * Z) }.           (* registered ranges [start, end) *)

Record frame := { f_ret : Z; f_regs : list Z; f_usage : Z }.
Definition frame0 : frame := {| f_ret := 0; f_regs := [0; 0; 0; 0]; f_usage := 256 |}.

(** register file: an 11-entry array *)
Definition rd (reg : list Z) (i : Z) : Z := nth (Z.to_nat i) reg 0.
Fixpoint upd_nat {A} (l : list A) (i : nat) (v : A) : list A :=
  match l, i with
  | [], _ => []
  | _ :: t, O => v :: t
  | h :: t, S j => h :: upd_nat t j v
  end.
Definition upd (reg : list Z) (i v : Z) : list Z := upd_nat reg (Z.to_nat i) v.

(** stacks[idx].<method>: indexing the 8-entry array panics when out of range *)
Definition flen (stacks : list frame) : Z := Z.of_nat (length stacks).
Definition frame_get (stacks : list frame) (idx : Z) : res frame :=
  if (0 <=? idx) && (idx <? flen stacks) then Ok (nth (Z.to_nat idx) stacks frame0) else Panic 0.
Definition frame_set (stacks : list frame) (idx : Z) (f : frame) : res (list frame) :=
  if (0 <=? idx) && (idx <? flen stacks) then Ok (upd_nat stacks (Z.to_nat idx) f) else Panic 0.

Definition frames_save_regs (stacks : list frame) (idx : Z) (reg : list Z) : res (list frame) :=
  f <- frame_get stacks idx ;;
  frame_set stacks idx {| f_ret := f_ret f; f_regs := [rd reg 6; rd reg 7; rd reg 8; rd reg 9]; f_usage := f_usage f |}.
Definition frames_save_ret (stacks : list frame) (idx : Z) (ra : Z) : res (list frame) :=
  f <- frame_get stacks idx ;;
  frame_set stacks idx {| f_ret := ra; f_regs := f_regs f; f_usage := f_usage f |}.
Definition frames_set_usage (stacks : list frame) (idx : Z) (u : Z) : res (list frame) :=
  f <- frame_get stacks idx ;;
  frame_set stacks idx {| f_ret := f_ret f; f_regs := f_regs f; f_usage := u |}.
Definition frames_usage (stacks : list frame) (idx : Z) : res Z := f <- frame_get stacks idx ;; Ok (f_usage f).
Definition frames_ret (stacks : list frame) (idx : Z) : res Z := f <- frame_get stacks idx ;; Ok (f_ret f).
Definition frames_restore_regs (stacks : list frame) (idx : Z) (reg : list Z) : res (list Z) :=
  f <- frame_get stacks idx ;;
  let r := f_regs f in
  Ok (upd (upd (upd (upd reg 6 (nth 0 r 0)) 7 (nth 1 r 0)) 8 (nth 2 r 0)) 9 (nth 3 r 0)).

Lemma upd_nat_len {A} (l : list A) i v : length (upd_nat l i v) = length l.
Proof. revert i; induction l; intros [|i]; cbn; auto. Qed.
Lemma flen_upd stacks k f : flen (upd_nat stacks k f) = flen stacks.
Proof. unfold flen. now rewrite upd_nat_len. Qed.
Lemma nth_upd_same {A} (l : list A) k v d : (k < length l)%nat -> nth k (upd_nat l k v) d = v.
Proof. revert k; induction l as [|h t IH]; intros [|k] H; cbn in *; try (exfalso; inversion H; fail); auto. apply IH. apply Nat.succ_lt_mono. exact H. Qed.

(** the interpreter's state between two instructions:
    (registers, pc, frame index, frames, memory) *)
Definition istate : Type := (list Z * Z * Z * list frame * mem)%type.

Inductive outcome :=
| ODone (r : Z) (m : mem)      (* Ok(r0) *)
| OErr (e : Z) (m : mem)       (* Err(kind); memory as it was before the refused instruction *)
| OPanic                       (* the Rust code panics (debug profile) *)
| OFuel.                       (* instruction budget exhausted *)

Definition mem_of (s : istate) : mem := snd s.


Definition stacks0 : list frame := repeat frame0 8.

