(** C01 / C07 / C08, CALL and EXIT arms: generated interpreter arm = ISA specification. *)
From Coq Require Import ZArith Lia Bool List.
From RbpfV Require Import MachInt BitLemmas ListLemmas Ebpf Mem InterpDefs WellFormed Isa ArmBase ArmVals MemLemmas.
From RbpfV.gen Require Import Opcodes Codec Interp.
Import ListNotations.
Open Scope Z_scope.
Ltac Zify.zify_post_hook ::= Z.div_mod_to_equations.

Definition frame_ok (f : frame) : Prop :=
  0 <= f_usage f < 2 ^ 16 /\ length (f_regs f) = 4%nat /\ Forall (fun v => 0 <= v < 2 ^ 64) (f_regs f).
Definition frames_ok (stacks : list frame) : Prop :=
  length stacks = 8%nat /\ Forall frame_ok stacks.

Lemma frame_get_ok stacks k : frames_ok stacks -> 0 <= k < 8 ->
  exists f, frame_get stacks k = Ok f /\ frame_ok f.
Proof.
  intros [Hl Hf] Hk. unfold frame_get, flen. rewrite Hl.
  destruct (Z.leb_spec 0 k); [|lia]. destruct (Z.ltb_spec k (Z.of_nat 8)); [|lia]. cbn [andb].
  eexists; split; [reflexivity|]. rewrite Forall_forall in Hf. apply Hf, nth_In. lia.
Qed.

Lemma frame_set_ok stacks k f : frames_ok stacks -> 0 <= k < 8 -> frame_ok f ->
  exists st', frame_set stacks k f = Ok st' /\ frames_ok st' /\ frame_get st' k = Ok f.
Proof.
  intros [Hl Hf] Hk Hu. unfold frame_set, flen. rewrite Hl.
  destruct (Z.leb_spec 0 k); [|lia]. destruct (Z.ltb_spec k (Z.of_nat 8)); [|lia]. cbn [andb].
  eexists; split; [reflexivity|]. split.
  - split; [now rewrite upd_nat_length|now apply upd_nat_Forall].
  - unfold frame_get, flen. rewrite upd_nat_length, Hl.
    destruct (Z.leb_spec 0 k); [|lia]. destruct (Z.ltb_spec k (Z.of_nat 8)); [|lia]. cbn [andb]. f_equal.
    assert (H' : (Z.to_nat k < length stacks)%nat) by lia. revert H'. generalize (Z.to_nat k). clear.
    intros n. revert stacks. induction n; intros [|h t] H'; cbn in *; try lia; auto. apply IHn. lia.
Qed.

Lemma restore_rd10_gen (r : list Z) r0 r1 r2 r3 : length r = 11%nat ->
  rd (upd (upd (upd (upd r 6 r0) 7 r1) 8 r2) 9 r3) 10 = rd r 10.
Proof.
  intros Hl. do 11 (destruct r as [|? r]; [discriminate Hl|]). reflexivity.
Qed.

Section Arms.
Variables (E : ienv) (i : insn) (reg : list Z) (next fidx : Z) (stacks : list frame) (m : mem).
Hypothesis Hw : wf_insn i.
Hypothesis Hr : regs_ok reg.
Hypothesis He : env_ok E.
Hypothesis Hnext : 0 <= next < 2 ^ 62.
Hypothesis Hf : frames_ok stacks.
Hypothesis Hfi : 0 <= fidx <= 8.
Hypothesis Hr10 : 2 ^ 16 <= rd reg 10 <= 2 ^ 63.

Lemma ccast_src : cast USZ (src i) = src i.
Proof. destruct Hw as (_ & _ & H & _). apply cast_usz_id. fold_pows. lia. Qed.

Lemma call_arm : opc i = 0x85 ->
  (src i = 1 -> 0 <= next + imm i < 2 ^ 62) ->          (* the verifier: local-call targets lie inside the program *)
  gen_interp_arm 0x85 E i (cast USZ (dst i)) (cast USZ (src i)) reg next fidx stacks m
  = conv (isa_exec E i reg next fidx stacks m).
Proof.
  intros Ho Htgt. arm_start. rewrite ccast_src.
  destruct (Z.eqb_spec (src i) 0) as [S0|S0].
  - (* helper call *)
    change (cast U32 (imm i)) with (u32 (imm i)).
    destruct (e_helpers E (u32 (imm i))) as [f|]; reflexivity.
  - destruct (Z.eqb_spec (src i) 1) as [S1|S1]; [|reflexivity].
    specialize (Htgt S1).
    destruct (Z.geb_spec fidx 8) as [G|G]; destruct (Z.leb_spec 8 fidx) as [L|L]; try lia; [reflexivity|].
    (* local call *)
    destruct (frame_get_ok stacks fidx Hf ltac:(lia)) as (f0 & G0 & U0 & _).
    assert (FK : forall ra, frame_ok {| f_ret := ra; f_regs := [rd reg 6; rd reg 7; rd reg 8; rd reg 9]; f_usage := f_usage f0 |}).
    { intros ra. split; [exact U0|]. split; [reflexivity|]. repeat constructor; apply rd_range; exact Hr. }
    unfold frames_save_regs. rewrite G0. cbn [bind].
    destruct (frame_set_ok stacks fidx {| f_ret := f_ret f0; f_regs := [rd reg 6; rd reg 7; rd reg 8; rd reg 9]; f_usage := f_usage f0 |} Hf ltac:(lia) (FK _))
      as (st1 & S1' & F1 & G1).
    rewrite S1'. cbn [bind]. unfold frames_save_ret. rewrite G1. cbn [bind f_ret f_regs f_usage].
    destruct (frame_set_ok st1 fidx {| f_ret := next; f_regs := [rd reg 6; rd reg 7; rd reg 8; rd reg 9]; f_usage := f_usage f0 |} F1 ltac:(lia) (FK _))
      as (st2 & S2' & F2 & G2).
    rewrite S2'. cbn [bind]. unfold frames_usage. rewrite G2. cbn [bind f_usage].
    rewrite (cast_u64_id (f_usage f0)) by (fold_pows; lia).
    unfold csub. rewrite chk_u64 by (fold_pows; lia). cbn [bind].
    unfold cadd at 1. rewrite chk_ok by (apply in_ty_usz; fold_pows; lia). cbn [bind].
    destruct Hw as (_ & _ & _ & _ & Hi).
    assert (C1 : cast ISZ next = next) by (apply norm_idem; unfold in_ty, tmin, tmax; cbn [signed bits]; change (64 - 1) with 63; change (2 ^ 62) with 4611686018427387904 in *; fold_pows; lia).
    assert (C2 : cast ISZ (imm i) = imm i) by (apply norm_idem; unfold in_ty, tmin, tmax; cbn [signed bits]; change (64 - 1) with 63; fold_pows; lia).
    rewrite C1, C2. unfold cadd. rewrite chk_ok by (unfold in_ty, tmin, tmax; cbn [signed bits]; change (64 - 1) with 63; change (2 ^ 62) with 4611686018427387904 in *; fold_pows; lia).
    cbn [bind conv]. rewrite cast_usz_id by (change (2 ^ 62) with 4611686018427387904 in *; fold_pows; lia).
    unfold set_reg, u64. rewrite (Z.mod_small (rd reg 10 - f_usage f0)) by (fold_pows; lia). reflexivity.
Qed.

Lemma restore_rd10 r0 r1 r2 r3 : rd (upd (upd (upd (upd reg 6 r0) 7 r1) 8 r2) 9 r3) 10 = rd reg 10.
Proof. apply restore_rd10_gen. exact (proj1 Hr). Qed.

Lemma exit_arm : opc i = 0x95 ->
  gen_interp_arm 0x95 E i (cast USZ (dst i)) (cast USZ (src i)) reg next fidx stacks m
  = conv (isa_exec E i reg next fidx stacks m).
Proof.
  intros Ho. arm_start.
  destruct (Z.gtb_spec fidx 0) as [G|G]; destruct (Z.ltb_spec 0 fidx) as [L|L]; try lia; [|reflexivity].
  unfold csub. rewrite chk_ok by (apply in_ty_usz; fold_pows; lia). cbn [bind].
  destruct (frame_get_ok stacks (fidx - 1) Hf ltac:(lia)) as (f0 & G0 & U0 & _).
  unfold frames_restore_regs, frames_ret, frames_usage. rewrite G0. cbn [bind].
  rewrite restore_rd10. rewrite (cast_u64_id (f_usage f0)) by (fold_pows; lia).
  unfold cadd. rewrite chk_u64 by (fold_pows; lia). cbn [bind conv].
  unfold set_reg, u64. rewrite (Z.mod_small (rd reg 10 + f_usage f0)) by (fold_pows; lia). reflexivity.
Qed.
End Arms.
