(** C17: the generated encoders/decoder of ebpf.rs equal the specified slot layout, and the layout
    is a bijection between well-formed instructions and 8-byte slots. *)
From Coq Require Import ZArith Lia Bool List.
From RbpfV Require Import MachInt BitLemmas ListLemmas Ebpf.
From RbpfV.gen Require Import Codec.
Import ListNotations.
Open Scope Z_scope.
Ltac Zify.zify_post_hook ::= Z.div_mod_to_equations.

Ltac list_eq := repeat match goal with |- _ :: _ = _ :: _ => apply (f_equal2 (@cons Z)) end.

Ltac solve_encoder Hd Hs Hf Hi :=
  cbn [le_bytes app]; f_equal; fold_pows;
  unfold cast, wshl, wshr, norm; cbn [signed bits]; unfold umod;
  change (4 mod 8) with 4; change (8 mod 16) with 8; change (8 mod 32) with 8;
  change (16 mod 32) with 16; change (24 mod 32) with 24;
  list_eq; try reflexivity;
  [ rewrite (Z.mod_small (_ * 2 ^ 4)) by (fold_pows; lia); apply lor_disjoint_add; fold_pows; lia
  | rewrite land_255; fold_pows; lia
  | fold_pows; lia
  | rewrite land_255; fold_pows; lia
  | change 65280 with ((2 ^ 8 - 1) * 2 ^ 8); rewrite land_mask_shift by lia; fold_pows;
    match goal with |- context [imm ?i] => generalize dependent (imm i); intros x Hx; lia end
  | change 16711680 with ((2 ^ 8 - 1) * 2 ^ 16); rewrite land_mask_shift by lia; fold_pows;
    change (2 ^ 24) with 16777216;
    match goal with |- context [imm ?i] => generalize dependent (imm i); intros x Hx; lia end
  | change 4278190080 with ((2 ^ 8 - 1) * 2 ^ 24); rewrite land_mask_shift by lia; fold_pows;
    change (2 ^ 24) with 16777216;
    match goal with |- context [imm ?i] => generalize dependent (imm i); intros x Hx; lia end ].

Lemma to_array_spec i : wf_insn i -> gen_to_array i = Ok (spec_encode i).
Proof.
  intros (Ho & Hd & Hs & Hf & Hi). unfold gen_to_array, spec_encode.
  solve_encoder Hd Hs Hf Hi.
Qed.

Lemma to_vec_spec i : wf_insn i -> gen_to_vec i = Ok (spec_encode i).
Proof.
  intros (Ho & Hd & Hs & Hf & Hi). unfold gen_to_vec, spec_encode.
  solve_encoder Hd Hs Hf Hi.
Qed.

(** the slot at instruction index [k] *)
Definition slot (prog : list Z) (k : Z) : list Z := firstn 8 (skipn (Z.to_nat (8 * k)) prog).

Lemma bytes_ok_nth prog j : bytes_ok prog -> 0 <= nth j prog 0 < 256.
Proof.
  intros H. destruct (Nat.lt_ge_cases j (length prog)) as [L|L].
  - unfold bytes_ok in H. rewrite Forall_forall in H. apply H. now apply nth_In.
  - rewrite nth_overflow by exact L. lia.
Qed.

Lemma get_insn_spec prog idx :
  bytes_ok prog -> 0 <= idx -> 8 * (idx + 1) <= len prog -> len prog < 2 ^ 63 ->
  gen_get_insn prog idx = Ok (spec_decode_slot (slot prog idx)).
Proof.
  intros Hb H0 H1 H2. unfold gen_get_insn, cadd, cmul. unfold len in *.
  repeat (rewrite chk_ok by (apply in_ty_usz; fold_pows; lia); cbn [bind]).
  destruct (Z.gtb_spec ((idx + 1) * 8) (Z.of_nat (length prog))) as [G|G]; [lia|].
  unfold slice_get, slice_read_i16, slice_read_i32, slice_from, len.
  repeat match goal with |- context [(0 <=? ?a) && (?b <? ?c)] =>
    replace ((0 <=? a) && (b <? c)) with true by (symmetry; apply andb_true_iff; split; [apply Z.leb_le|apply Z.ltb_lt]; lia) end.
  repeat match goal with |- context [(0 <=? ?a) && (?b <=? ?c)] =>
    replace ((0 <=? a) && (b <=? c)) with true by (symmetry; apply andb_true_iff; split; apply Z.leb_le; lia) end.
  cbn [bind]. unfold cshr. cbn [bits]. change ((0 <=? 4) && (4 <? 8)) with true. cbv iota. cbn [bind].
  unfold spec_decode_slot, slot. f_equal.
  assert (E : forall j, (j < 8)%nat -> nth j (firstn 8 (skipn (Z.to_nat (8 * idx)) prog)) 0 = nth (Z.to_nat (8 * idx + Z.of_nat j)) prog 0).
  { intros j Hj. rewrite nth_firstn_lt by exact Hj. rewrite nth_skipn. f_equal. lia. }
  rewrite (E 0%nat), (E 1%nat) by lia. change (Z.of_nat 0) with 0. change (Z.of_nat 1) with 1.
  rewrite Z.add_0_r.
  rewrite !firstn_skipn_firstn by lia. rewrite !skipn_skipn.
  replace (Z.to_nat (8 * idx) + 2)%nat with (Z.to_nat (8 * idx + 2)) by lia.
  replace (Z.to_nat (8 * idx) + 4)%nat with (Z.to_nat (8 * idx + 4)) by lia.
  change (Z.to_nat 2) with 2%nat. change (Z.to_nat 4) with 4%nat.
  unfold norm; cbn [signed bits].
  f_equal.
  - rewrite land_15. reflexivity.
  - change 240 with ((2 ^ 4 - 1) * 2 ^ 4). rewrite land_mask_shift by lia. fold_pows.
    pose proof (bytes_ok_nth prog (Z.to_nat (8 * idx + 1)) Hb) as Hx.
    generalize dependent (nth (Z.to_nat (8 * idx + 1)) prog 0). intros x Hx. lia.
Qed.

Lemma get_insn_panics prog idx :
  0 <= idx < 2 ^ 64 -> 8 * (idx + 1) > len prog -> len prog < 2 ^ 63 ->
  exists s, gen_get_insn prog idx = Panic s.
Proof.
  intros H0 H1 H2. unfold gen_get_insn, cadd, cmul, chk. unfold len in *.
  destruct (in_tyb USZ (idx + 1)); cbn [bind]; [|eauto].
  destruct (in_tyb USZ ((idx + 1) * 8)); cbn [bind]; [|eauto].
  destruct (Z.gtb_spec ((idx + 1) * 8) (Z.of_nat (length prog))) as [G|G]; [eauto|lia].
Qed.

(** * the specified layout is a bijection *)
Lemma decode_encode i : wf_insn i -> spec_decode_slot (spec_encode i) = i.
Proof.
  intros (Ho & Hd & Hs & Hf & Hi). destruct i as [o d s f m]; cbn [opc dst src off imm] in *.
  unfold spec_decode_slot, spec_encode. cbn [app nth skipn firstn le_bytes opc dst src off imm].
  change [(f mod 2 ^ 16) mod 256; (f mod 2 ^ 16 / 256) mod 256] with (le_bytes 2 (f mod 2 ^ 16)).
  match goal with |- context [of_le_bytes [?a; ?b; ?c; ?d]] =>
    change [a; b; c; d] with (le_bytes 4 (m mod 2 ^ 32)) end.
  rewrite !of_le_bytes_le_bytes.
  - rewrite !smod_of_mod by lia. rewrite !smod_idem by (fold_pows; lia).
    f_equal; lia.
  - change (256 ^ Z.of_nat 4) with (2 ^ 32). apply Z.mod_pos_bound. fold_pows. lia.
  - change (256 ^ Z.of_nat 2) with (2 ^ 16). apply Z.mod_pos_bound. fold_pows. lia.
Qed.

Lemma decode_wf b : length b = 8%nat -> bytes_ok b -> wf_insn (spec_decode_slot b).
Proof.
  intros Hl Hb.
  destruct b as [|b0 [|b1 [|b2 [|b3 [|b4 [|b5 [|b6 [|b7 [|b8 b]]]]]]]]]; try discriminate.
  unfold bytes_ok, is_byte in Hb.
  repeat match goal with H : Forall _ (_ :: _) |- _ => inversion H; clear H; subst end.
  cbv beta in *.
  unfold wf_insn, spec_decode_slot. cbn [nth skipn firstn opc dst src off imm].
  pose proof (smod_range 16 (of_le_bytes [b2; b3]) ltac:(lia)).
  pose proof (smod_range 32 (of_le_bytes [b4; b5; b6; b7]) ltac:(lia)).
  change (16 - 1) with 15 in *. change (32 - 1) with 31 in *.
  repeat split; try lia.
Qed.

Lemma encode_decode b : length b = 8%nat -> bytes_ok b -> spec_encode (spec_decode_slot b) = b.
Proof.
  intros Hl Hb.
  destruct b as [|b0 [|b1 [|b2 [|b3 [|b4 [|b5 [|b6 [|b7 [|b8 b]]]]]]]]]; try discriminate.
  unfold bytes_ok, is_byte in Hb.
  repeat match goal with H : Forall _ (_ :: _) |- _ => inversion H; clear H; subst end.
  cbv beta in *.
  unfold spec_encode, spec_decode_slot. cbn [nth skipn firstn opc dst src off imm].
  rewrite !smod_mod by lia. 
  assert (R2 : 0 <= of_le_bytes [b2; b3] < 2 ^ 16).
  { change (2 ^ 16) with (256 ^ Z.of_nat (length [b2; b3])). apply of_le_bytes_range. repeat constructor; lia. }
  assert (R4 : 0 <= of_le_bytes [b4; b5; b6; b7] < 2 ^ 32).
  { change (2 ^ 32) with (256 ^ Z.of_nat (length [b4; b5; b6; b7])). apply of_le_bytes_range. repeat constructor; lia. }
  rewrite (Z.mod_small _ (2 ^ 16)) by exact R2. rewrite (Z.mod_small _ (2 ^ 32)) by exact R4.
  change (le_bytes 2 (of_le_bytes [b2; b3])) with (le_bytes (length [b2; b3]) (of_le_bytes [b2; b3])).
  change (le_bytes 4 (of_le_bytes [b4; b5; b6; b7])) with (le_bytes (length [b4; b5; b6; b7]) (of_le_bytes [b4; b5; b6; b7])).
  rewrite !le_bytes_of_le_bytes by (repeat constructor; lia).
  cbn [app]. f_equal. f_equal. generalize b1. clear. intro x. lia.
Qed.

Lemma spec_encode_length i : length (spec_encode i) = 8%nat.
Proof. reflexivity. Qed.

Lemma spec_encode_bytes i : wf_insn i -> bytes_ok (spec_encode i).
Proof.
  intros (Ho & Hd & Hs & Hf & Hi). unfold spec_encode, bytes_ok.
  apply Forall_app; split; [repeat constructor; unfold is_byte; lia|].
  apply Forall_app; split; apply le_bytes_bytes.
Qed.

Lemma slot_at pre i post k :
  0 <= k -> length pre = Z.to_nat (8 * k) -> slot (pre ++ spec_encode i ++ post) k = spec_encode i.
Proof.
  intros Hk Hl. unfold slot. rewrite <- Hl, skipn_app_exact.
  change 8%nat with (length (spec_encode i)). apply firstn_app_exact.
Qed.

(** decode (encode i) at any instruction index of any program *)
Lemma get_insn_at_index pre i post k :
  wf_insn i -> bytes_ok pre -> bytes_ok post -> 0 <= k -> length pre = Z.to_nat (8 * k) ->
  len (pre ++ spec_encode i ++ post) < 2 ^ 63 ->
  gen_get_insn (pre ++ spec_encode i ++ post) k = Ok i.
Proof.
  intros Hw Hp Hq Hk Hl Hn.
  rewrite get_insn_spec; try assumption.
  - now rewrite slot_at, decode_encode.
  - unfold bytes_ok. apply Forall_app; split; [exact Hp|]. apply Forall_app; split; [|exact Hq].
    now apply spec_encode_bytes.
  - unfold len. rewrite !app_length, spec_encode_length. lia.
Qed.

(** * the builder's generic serializer equals the specified layout *)
From RbpfV.gen Require Import Builder.

Lemma builder_spec i : wf_insn i -> gen_builder_into_bytes i = Ok (spec_encode i).
Proof.
  intros (Ho & Hd & Hs & Hf & Hi). unfold gen_builder_into_bytes, spec_encode, cshl, cshr.
  cbn [bits]. change ((0 <=? 4) && (4 <? 8)) with true. change ((0 <=? 8) && (8 <? 16)) with true.
  change ((0 <=? 8) && (8 <? 32)) with true. change ((0 <=? 16) && (16 <? 32)) with true.
  change ((0 <=? 24) && (24 <? 32)) with true. cbv iota. cbn [bind le_bytes app]. f_equal.
  unfold cast, norm; cbn [signed bits]; unfold umod. fold_pows. change (2 ^ 24) with 16777216.
  list_eq; try reflexivity.
  - rewrite (Z.mod_small (src i * 16)) by lia. apply (lor_disjoint_add (src i) (dst i) 4); fold_pows; lia.
  - lia.
  - lia.
  - lia.
  - generalize dependent (imm i); intros x Hx; lia.
  - generalize dependent (imm i); intros x Hx; lia.
  - generalize dependent (imm i); intros x Hx; lia.
Qed.
