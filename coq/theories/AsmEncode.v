(** C13, instruction level: for every mnemonic and every operand list the parser can return, the code regenerated
    from src/assembler.rs (instruction map, encode, insn, lddw second slot) produces exactly the slots the
    specification AsmSpec.denote gives -- and an error exactly when the specification gives none. *)
From Coq Require Import ZArith Lia Bool List String.
From RbpfV Require Import MachInt BitLemmas ListLemmas Ebpf Fmt AsmDefs AsmParser AsmModel AsmSpec AsmProofs CodecProofs.
From RbpfV.gen Require Import Opcodes Codec Asm.
Import ListNotations.
Open Scope Z_scope.
Ltac Zify.zify_post_hook ::= Z.div_mod_to_equations.

Definition res_of {A} (o : option A) : res A := match o with Some a => Ok a | None => Err 0 end.

(** one instruction through the regenerated code *)
Definition enc_instr (name : list Z) (ops : list operand) : res (list insn) :=
  match map_get name gen_instruction_map with
  | None => Err 0
  | Some (ty, o) => i <- gen_encode ty o ops ;; second <- gen_lddw_second ty ops ;; Ok (i :: second)
  end.

Lemma gen_insn_slot o d s f m : 0 <= s -> gen_insn o d s f m = res_of (slot_of o d s f m).
Proof.
  intros Hs. unfold slot_of.
  destruct (gen_insn_cases o d s f m) as [E|(Hd & Hs' & Hf & Hm & E)].
  - rewrite E. revert E. unfold gen_insn.
    destruct (Z.leb_spec 0 d), (Z.ltb_spec d 16); cbn [andb negb bind]; try reflexivity.
    destruct (Z.ltb_spec d 0); [lia|]. destruct (Z.geb_spec s 16); cbn [orb bind].
    { destruct (Z.leb_spec 0 s), (Z.ltb_spec s 16); try lia; reflexivity. }
    destruct (Z.leb_spec 0 s), (Z.ltb_spec s 16); try lia. cbn [andb].
    destruct (Z.leb_spec (-32768) f), (Z.ltb_spec f 32768); cbn [andb negb bind].
    2-4: (destruct (Z.leb_spec (- 2 ^ 15) f), (Z.ltb_spec f (2 ^ 15)); try (fold_pows; lia); reflexivity).
    destruct (Z.leb_spec (- 2 ^ 15) f), (Z.ltb_spec f (2 ^ 15)); try (fold_pows; lia). cbn [andb].
    destruct (Z.leb_spec (-2147483648) m), (Z.ltb_spec m 2147483648); cbn [andb negb bind]; try discriminate.
    all: destruct (Z.leb_spec (- 2 ^ 31) m), (Z.ltb_spec m (2 ^ 31)); try (fold_pows; lia); reflexivity.
  - rewrite E.
    destruct (Z.leb_spec 0 d), (Z.ltb_spec d 16), (Z.leb_spec 0 s), (Z.ltb_spec s 16); try lia.
    destruct (Z.leb_spec (- 2 ^ 15) f), (Z.ltb_spec f (2 ^ 15)), (Z.leb_spec (- 2 ^ 31) m), (Z.ltb_spec m (2 ^ 31)); try lia.
    cbn [andb res_of]. unfold cast.
    rewrite !norm_idem by (unfold in_ty, tmin, tmax; cbn [signed bits]; fold_pows; lia). reflexivity.
Qed.

Definition conv (ty : itype) : ashape :=
  match ty with
  | AluBinary => SAlu | AluUnary => SUnary | LoadImm => SLddw | LoadAbs => SLdAbs | LoadInd => SLdInd
  | LoadReg => SLdx | StoreImm => SSt | StoreReg => SStx | JumpUnconditional => SJa | JumpConditional => SJmp
  | Call => SCall | Callx => SCallx | Endian n => SEndian n | NoOperand => SNone
  end.

Definition ops_wf (ops : list operand) : Prop := Forall op_ok ops.

Definition enc_ty (ty : itype) (o : Z) (ops : list operand) : res (list insn) :=
  i <- gen_encode ty o ops ;; second <- gen_lddw_second ty ops ;; Ok (i :: second).

Arguments gen_insn : simpl never.
Arguments slot_of : simpl never.
Arguments Z.lor : simpl never.
Arguments Z.add : simpl never.

Ltac inv_wf :=
  repeat match goal with
  | H : ops_wf _ |- _ => unfold ops_wf in H
  | H : Forall _ (_ :: _) |- _ => inversion H; clear H; subst
  | H : Forall _ [] |- _ => clear H
  end; cbn [op_ok] in *.

Ltac leaf :=
  simpl; rewrite ?Z.lor_0_r;
  first
  [ reflexivity
  | exfalso; inv_wf; tauto
  | rewrite gen_insn_slot by (inv_wf; lia);
    match goal with |- context [slot_of ?o ?d ?s ?f ?m] => destruct (slot_of o d s f m) end; reflexivity ].

Lemma enc_ty_spec ty o ops :
  ops_wf ops -> ty <> LoadImm ->
  (ty = AluBinary \/ ty = JumpConditional -> Z.lor o 8 = o + 8) ->
  enc_ty ty o ops = res_of (denote_ops (conv ty) o ops).
Proof.
  intros Hwf Hn Hl. unfold enc_ty, gen_encode. rewrite operands_tuple_spec.
  destruct ty; try contradiction; try (rewrite (Hl ltac:(auto)));
  (destruct ops as [|a [|b [|c [|d r]]]];
   [ leaf
   | destruct a; leaf
   | destruct a, b; leaf
   | destruct a, b, c; leaf
   | simpl; destruct a; try reflexivity; destruct b; try reflexivity; destruct c; reflexivity ]).
Qed.

(** the wide load: `(imm << 32) >> 32` is the sign-extended low half, `imm >> 32` the high half *)
Lemma shl_shr_32 v : norm I64 (v * 2 ^ 32) / 2 ^ 32 = lo32 v.
Proof.
  unfold lo32, norm. cbn [signed bits]. unfold smod. change (64 - 1) with 63. change (32 - 1) with 31.
  fold_pows.
  destruct (Z.ltb_spec ((v * 4294967296) mod 18446744073709551616) 9223372036854775808);
  destruct (Z.ltb_spec (v mod 4294967296) 2147483648); lia.
Qed.
Lemma hi32_small v : - 2 ^ 63 <= v < 2 ^ 63 -> hi32 v = v / 2 ^ 32.
Proof.
  intros H. unfold hi32. apply norm_idem. unfold in_ty, tmin, tmax. cbn [signed bits]. fold_pows. lia.
Qed.

Lemma enc_loadimm_spec o ops : ops_wf ops -> enc_ty LoadImm o ops = res_of (denote_ops SLddw o ops).
Proof.
  intros Hwf. unfold enc_ty, gen_encode. rewrite operands_tuple_spec.
  destruct ops as [|a [|b [|c [|d r]]]];
   [ leaf
   | destruct a; leaf
   | destruct a, b; try leaf
   | destruct a, b, c; leaf
   | simpl; destruct a; try reflexivity; destruct b; try reflexivity; destruct c; reflexivity ].
  (* [Register r; Integer v] *)
  inv_wf. cbn [bind]. unfold cshl, cshr. cbn [bits]. change ((0 <=? 32) && (32 <? 64)) with true. cbv iota. cbn [bind].
  rewrite shl_shr_32. rewrite gen_insn_slot by lia. cbn [denote_ops].
  destruct (slot_of o r 0 0 (lo32 v)) as [i|]; [|reflexivity]. cbn [res_of bind].
  unfold gen_lddw_second. rewrite op_get_ok by (unfold len_ops; cbn [List.length]; lia).
  change (nth (Z.to_nat 1) [Register r; Integer v] Nil) with (Integer v). cbn [bind]. cbv iota.
  unfold cshr. cbn [bits]. change ((0 <=? 32) && (32 <? 64)) with true. cbv iota. cbn [bind].
  rewrite gen_insn_slot by lia. rewrite hi32_small by lia.
  destruct (slot_of 0 0 0 0 (v / 2 ^ 32)) as [j|] eqn:S; [reflexivity|].
  exfalso. revert S. unfold slot_of.
  destruct (Z.leb_spec (- 2 ^ 31) (v / 2 ^ 32)), (Z.ltb_spec (v / 2 ^ 32) (2 ^ 31)); try (fold_pows; lia). discriminate.
Qed.

Lemma itype_eq_dec_loadimm (ty : itype) : {ty = LoadImm} + {ty <> LoadImm}.
Proof. destruct ty; try (right; discriminate). now left. Qed.

(** * the regenerated instruction map agrees with the specification's table *)
Definition ashape_eqb (a b : ashape) : bool :=
  match a, b with
  | SNone, SNone | SJa, SJa | SCall, SCall | SCallx, SCallx | SLddw, SLddw | SUnary, SUnary | SAlu, SAlu | SLdAbs, SLdAbs
  | SLdInd, SLdInd | SLdx, SLdx | SSt, SSt | SStx, SStx | SJmp, SJmp => true
  | SEndian n, SEndian m => n =? m
  | _, _ => false
  end.
Lemma ashape_eqb_eq a b : ashape_eqb a b = true -> a = b.
Proof. destruct a, b; cbn; try discriminate; try reflexivity. intros H. apply Z.eqb_eq in H. now subst. Qed.

Definition needs_x (ty : itype) : bool := match ty with AluBinary | JumpConditional => true | _ => false end.

Definition gen_entry_ok (e : string * (itype * Z)) : bool :=
  let '(k, (ty, o)) := e in
  match map_get (bytes_of_string k) asm_table with
  | Some (sh, o') => ashape_eqb sh (conv ty) && (o' =? o) && (0 <=? o) && (o <? 256)
                     && (if needs_x ty then (Z.lor o 8 =? o + 8) && (o + 8 <? 256) else true)
  | None => false
  end.
Definition spec_entry_ok (e : string * (ashape * Z)) : bool :=
  match map_get (bytes_of_string (fst e)) gen_instruction_map with Some _ => true | None => false end.

Lemma tables_agree_gen : forallb gen_entry_ok gen_instruction_map = true.
Proof. vm_compute. reflexivity. Qed.
Lemma tables_agree_spec : forallb spec_entry_ok asm_table = true.
Proof. vm_compute. reflexivity. Qed.

Lemma map_get_some {V} key (m : list (string * V)) v :
  map_get key m = Some v -> exists k, In (k, v) m /\ bytes_of_string k = key.
Proof.
  induction m as [|[k w] m IH]; cbn [map_get]; [discriminate|].
  destruct (map_get key m) as [x|].
  - intros [= ->]. destruct (IH eq_refl) as (k' & Hin & Hk). exists k'. split; [now right|exact Hk].
  - destruct (list_eq_dec Z.eq_dec (bytes_of_string k) key) as [E|E]; [|discriminate].
    intros [= ->]. exists k. split; [now left|exact E].
Qed.
Lemma map_get_none {V} key (m : list (string * V)) :
  map_get key m = None -> forall k v, In (k, v) m -> bytes_of_string k <> key.
Proof.
  induction m as [|[k w] m IH]; cbn [map_get]; intros H k' v' Hin; [destruct Hin|].
  destruct (map_get key m) as [x|]; [discriminate|].
  destruct (list_eq_dec Z.eq_dec (bytes_of_string k) key) as [E|E]; [discriminate|].
  destruct Hin as [[= <- <-]|Hin]; [exact E|]. eapply IH; [reflexivity|exact Hin].
Qed.

Lemma lookup_agree key :
  match map_get key gen_instruction_map with
  | Some (ty, o) => map_get key asm_table = Some (conv ty, o) /\ 0 <= o < 256
                    /\ (needs_x ty = true -> Z.lor o 8 = o + 8 /\ o + 8 < 256)
  | None => map_get key asm_table = None
  end.
Proof.
  destruct (map_get key gen_instruction_map) as [[ty o]|] eqn:G.
  - destruct (map_get_some _ _ _ G) as (k & Hin & <-).
    pose proof (proj1 (forallb_forall _ _) tables_agree_gen _ Hin) as T. unfold gen_entry_ok in T.
    destruct (map_get (bytes_of_string k) asm_table) as [[sh o']|]; [|discriminate].
    rewrite !andb_true_iff in T. destruct T as [[[[T1 T2] T3] T4] T5].
    apply ashape_eqb_eq in T1. apply Z.eqb_eq in T2. apply Z.leb_le in T3. apply Z.ltb_lt in T4. subst.
    split; [reflexivity|]. split; [lia|]. intros N. rewrite N in T5. apply andb_true_iff in T5 as [A B].
    apply Z.eqb_eq in A. apply Z.ltb_lt in B. split; assumption.
  - destruct (map_get key asm_table) as [[sh o]|] eqn:S; [|reflexivity]. exfalso.
    destruct (map_get_some _ _ _ S) as (k & Hin & <-).
    pose proof (proj1 (forallb_forall _ _) tables_agree_spec _ Hin) as T. unfold spec_entry_ok in T. cbn [fst] in T.
    now rewrite G in T.
Qed.

(** * C13 at the level of one parsed instruction, and of a parsed program *)
Theorem enc_instr_spec name ops : ops_wf ops -> enc_instr name ops = res_of (denote name ops).
Proof.
  intros Hwf. unfold enc_instr, denote. pose proof (lookup_agree name) as L.
  destruct (map_get name gen_instruction_map) as [[ty o]|].
  - destruct L as (-> & Ho & Hx). fold (enc_ty ty o ops).
    destruct (itype_eq_dec_loadimm ty) as [->|N].
    + apply enc_loadimm_spec, Hwf.
    + apply enc_ty_spec; [exact Hwf|exact N|]. intros [->| ->]; apply Hx; reflexivity.
  - rewrite L. reflexivity.
Qed.

Lemma assemble_internal_cons name ops rest :
  assemble_internal ((name, ops) :: rest) = (l <- enc_instr name ops ;; r <- assemble_internal rest ;; Ok (l ++ r)).
Proof.
  cbn [assemble_internal]. unfold enc_instr. destruct (map_get name gen_instruction_map) as [[ty o]|]; [|reflexivity].
  destruct (gen_encode ty o ops); cbn [bind]; try reflexivity.
  destruct (gen_lddw_second ty ops); cbn [bind]; try reflexivity.
Qed.

Theorem assemble_internal_spec parsed :
  Forall instr_ok parsed -> assemble_internal parsed = res_of (denote_prog parsed).
Proof.
  induction parsed as [|[name ops] rest IH]; intros H; [reflexivity|].
  inversion H as [|? ? Hi Hr]; subst. rewrite assemble_internal_cons, enc_instr_spec by exact Hi.
  cbn [denote_prog]. destruct (denote name ops) as [a|]; cbn [res_of bind]; [|reflexivity].
  rewrite (IH Hr). destruct (denote_prog rest); reflexivity.
Qed.

(** the slots a program denotes are well-formed, so the encoder emits exactly their 8-byte layouts *)
Definition spec_opc_ok (e : string * (ashape * Z)) : bool :=
  let '(_, (sh, o)) := e in (0 <=? o) && (o + 8 <? 256).
Lemma spec_opcodes : forallb spec_opc_ok asm_table = true.
Proof. vm_compute. reflexivity. Qed.

Lemma slot_of_wf o d s f m i : 0 <= o < 256 -> slot_of o d s f m = Some i -> wf_insn i.
Proof.
  intros Ho. unfold slot_of.
  destruct (Z.leb_spec 0 d), (Z.ltb_spec d 16), (Z.leb_spec 0 s), (Z.ltb_spec s 16); cbn [andb]; try discriminate.
  destruct (Z.leb_spec (- 2 ^ 15) f), (Z.ltb_spec f (2 ^ 15)), (Z.leb_spec (- 2 ^ 31) m), (Z.ltb_spec m (2 ^ 31)); cbn [andb]; try discriminate.
  intros [= <-]. unfold wf_insn. cbn [opc dst src off imm]. lia.
Qed.

Lemma denote_ops_wf sh o ops l : 0 <= o -> o + 8 < 256 -> denote_ops sh o ops = Some l -> Forall wf_insn l.
Proof.
  intros H0 H8. unfold denote_ops, one.
  destruct sh; destruct ops as [|a [|b [|c [|d r]]]]; try discriminate;
    try destruct a; try discriminate; try destruct b; try discriminate; try destruct c; try discriminate;
    try (match goal with |- context [slot_of ?o' ?d' ?s' ?f' ?m'] => destruct (slot_of o' d' s' f' m') as [i|] eqn:S end;
         cbn [option_map]; [|discriminate]; intros [= <-]; constructor; [|constructor];
         eapply slot_of_wf; [|exact S]; lia).
  destruct (slot_of o r 0 0 (lo32 v)) as [i|] eqn:S1; [|discriminate].
  destruct (slot_of 0 0 0 0 (hi32 v)) as [j|] eqn:S2; [|discriminate].
  intros [= <-]. constructor; [eapply slot_of_wf; [|exact S1]; lia|]. constructor; [|constructor].
  eapply slot_of_wf; [|exact S2]; lia.
Qed.

Lemma denote_wf name ops l : denote name ops = Some l -> Forall wf_insn l.
Proof.
  unfold denote. destruct (map_get name asm_table) as [[sh o]|] eqn:G; [|discriminate].
  destruct (map_get_some _ _ _ G) as (k & Hin & _).
  pose proof (proj1 (forallb_forall _ _) spec_opcodes _ Hin) as T. unfold spec_opc_ok in T.
  apply andb_true_iff in T as [A B]. apply Z.leb_le in A. apply Z.ltb_lt in B.
  apply denote_ops_wf; assumption.
Qed.

Lemma denote_prog_wf p l : denote_prog p = Some l -> Forall wf_insn l.
Proof.
  revert l. induction p as [|[n ops] r IH]; cbn [denote_prog]; intros l; [intros [= <-]; constructor|].
  destruct (denote n ops) as [a|] eqn:D; [|discriminate]. destruct (denote_prog r) as [b|]; [|discriminate].
  intros [= <-]. apply Forall_app. split; [eapply denote_wf; exact D|now apply IH].
Qed.

Lemma emit_spec l : Forall wf_insn l -> emit l = Ok (bytes_of_insns l).
Proof.
  induction 1 as [|i l Hi _ IH]; [reflexivity|]. cbn [emit]. rewrite to_array_spec by exact Hi. cbn [bind]. rewrite IH. reflexivity.
Qed.

(** * C13: whatever the parser returns, the emitted bytes are the specified encoding of what was parsed,
      in source order; and an error exactly when some instruction denotes nothing *)
Theorem assemble_after_parse U s parsed :
  parse U s = Ok parsed ->
  assemble U s = res_of (option_map bytes_of_insns (denote_prog parsed)).
Proof.
  intros P. unfold assemble. pose proof (parse_total U s) as T. rewrite P in *. cbn [bind].
  rewrite assemble_internal_spec by exact T.
  destruct (denote_prog parsed) as [l|] eqn:D; cbn [res_of bind option_map]; [|reflexivity].
  apply emit_spec. eapply denote_prog_wf; exact D.
Qed.

Theorem assemble_parse_error U s : (forall parsed, parse U s <> Ok parsed) -> exists e, assemble U s = Err e.
Proof.
  intros N. pose proof (parse_total U s) as T. unfold assemble.
  destruct (parse U s) as [p|e| |]; [now elim (N p)|exists e; reflexivity|contradiction|contradiction].
Qed.
