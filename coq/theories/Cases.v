(** Helpers for the correspondence check: decoding of case literals written by bin/check. *)
From Coq Require Import ZArith List Bool.
From RbpfV Require Import MachInt Ebpf.
Import ListNotations.
Open Scope Z_scope.

(** [hexbytes n 0xAABB..] = the n bytes AA, BB, ... (as written, most significant first) *)
Definition hexbytes (n : Z) (x : Z) : list Z := rev (le_bytes (Z.to_nat n) x).

Definition list_eqb (a b : list Z) : bool :=
  (length a =? length b)%nat && forallb (fun p => fst p =? snd p) (combine a b).

(** outcome classes reported by the harness *)
Inductive outcome (A : Type) := OOk (a : A) | OErr | OPanic.
Arguments OOk {A} a. Arguments OErr {A}. Arguments OPanic {A}.

Definition res_matches {A} (eqb : A -> A -> bool) (r : res A) (o : outcome A) : bool :=
  match r, o with
  | Ok a, OOk b => eqb a b
  | Err _, OErr => true
  | Panic _, OPanic => true
  | _, _ => false
  end.

(** long programs are described, not spelled out: [rep n b] = b repeated n times *)
Fixpoint rep_nat (n : nat) (b : list Z) : list Z := match n with O => [] | S k => b ++ rep_nat k b end.
Definition rep (n : Z) (b : list Z) : list Z := rep_nat (Z.to_nat n) b.
