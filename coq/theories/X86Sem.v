(** The x86-64 instructions that jit.rs emits for the eBPF ALU opcodes, as abstract instructions (one per encoder call)
    with their effect on the sixteen 64-bit general-purpose registers (Intel SDM vol. 2: ADD, SUB, OR, AND, XOR, MOV, NEG,
    SHL/SHR/SAR by CL and by imm8; 32-bit operations zero-extend into the 64-bit register; shift counts are masked to
    5 / 6 bits).  Trusted model of the CPU for these forms; flags are not modelled (no ALU arm reads them). *)
From Coq Require Import ZArith List Bool.
From RbpfV Require Import MachInt.
Import ListNotations.
Open Scope Z_scope.

Inductive xi :=
| XAlu (w op reg rm : Z)              (* [REX.W] op /r, register-direct: emit_alu32 / emit_alu64 / emit_mov *)
| XAluI32 (w op ext rm imm : Z)       (* [REX.W] op /ext id *)
| XAluI8 (w op ext rm imm : Z)        (* [REX.W] op /ext ib *)
| XLoadImm (r imm : Z)                (* emit_load_imm *)
| XLoad (size base reg disp : Z)      (* emit_load: movzx / mov reg, [base + disp] *)
| XStore (size reg base disp : Z)     (* emit_store: mov [base + disp], reg *)
| XStoreImm (size base disp imm : Z)  (* emit_store_imm32: mov [base + disp], imm *)
| XLockAdd (w reg base disp : Z)      (* lock add [base + disp], reg *)
| XPush (r : Z)                       (* emit_push *)
| XPop (r : Z)                        (* emit_pop *)
| XRex (w r x b : Z)                  (* emit_rex: a lone REX prefix, applying to the instruction emitted next *)
| XJccRel (code off : Z)              (* emit_direct_jcc: jcc over the next [off] bytes of code *)
| XJmpPc (t : Z)                      (* emit_jmp: to the code of eBPF instruction t (displacement fixed up later: C03_jump_fixup) *)
| XJccPc (code t : Z)                 (* emit_jcc: conditionally to the code of eBPF instruction t *)
| XOpSize                             (* a lone 0x66 operand-size prefix, applying to the instruction emitted next *)
| XBswap (w r : Z)                    (* [REX.W] 0F C8+r: bswap r32 / r64 *)
| XCallRel (n : Z)                    (* E8 rel32 with a literal displacement: call the code n bytes further on *)
| XCallPc                             (* E8 rel32 to the code of another eBPF instruction (fixed up later) *)
| XRet.                               (* C3 *)

Definition regs := Z -> Z.
Definition rset (R : regs) (r v : Z) : regs := fun x => if x =? r then v else R x.
Definition opw (w : Z) : Z := if w =? 1 then 64 else 32.
(** writing the result of a W-bit operation: truncated to W bits, upper bits of the register cleared *)
Definition wr (w : Z) (R : regs) (rm v : Z) : option regs := Some (rset R rm (v mod 2 ^ opw w)).
Definition sgnw (W a : Z) : Z := if a <? 2 ^ (W - 1) then a else a - 2 ^ W.

Definition shift (w : Z) (R : regs) (ext rm count : Z) : option regs :=
  let W := opw w in
  let a := R rm mod 2 ^ W in
  let c := count mod W in                       (* count masked to 5 (32-bit) or 6 (64-bit) bits *)
  if ext =? 4 then wr w R rm (a * 2 ^ c)
  else if ext =? 5 then wr w R rm (a / 2 ^ c)
  else if ext =? 7 then wr w R rm (sgnw W a / 2 ^ c)
  else None.

Definition binop (w : Z) (R : regs) (rm : Z) (k : Z) (b : Z) : option regs :=
  let a := R rm mod 2 ^ opw w in
  match k with
  | 0 => wr w R rm (a + b) | 5 => wr w R rm (a - b) | 1 => wr w R rm (Z.lor a b)
  | 4 => wr w R rm (Z.land a b) | 6 => wr w R rm (Z.lxor a b) | _ => None
  end.

Definition xstep (x : xi) (R : regs) : option regs :=
  match x with
  | XAlu w op reg rm =>
    let b := R reg mod 2 ^ opw w in
    if op =? 0x01 then binop w R rm 0 b
    else if op =? 0x29 then binop w R rm 5 b
    else if op =? 0x09 then binop w R rm 1 b
    else if op =? 0x21 then binop w R rm 4 b
    else if op =? 0x31 then binop w R rm 6 b
    else if op =? 0x89 then wr w R rm b
    else if op =? 0xd3 then shift w R reg rm (R 1)                    (* count in CL *)
    else if op =? 0xf7 then (if reg =? 3 then wr w R rm (- (R rm mod 2 ^ opw w)) else None)
    else None
  | XAluI32 w op ext rm imm =>
    let b := imm mod 2 ^ opw w in                                    (* imm32 sign-extended to the operand size *)
    if op =? 0x81 then binop w R rm ext b
    else if op =? 0xc7 then (if ext =? 0 then wr w R rm b else None)
    else None
  | XAluI8 w op ext rm imm =>
    if op =? 0xc1 then shift w R ext rm (imm mod 256) else None
  | XLoadImm r imm => Some (rset R r (imm mod 2 ^ 64))
  | _ => None
  end.

Fixpoint xrun (l : list xi) (R : regs) : option regs :=
  match l with [] => Some R | x :: l' => match xstep x R with Some R' => xrun l' R' | None => None end end.

(** ** condition codes after CMP / TEST (Intel SDM vol. 1, 3.4.3 and appendix B): [xcond x code R] = is `jcc code` taken right
    after the flag-setting instruction x?  CMP a, b compares a with b; TEST a, b compares (a AND b) with 0. *)
Definition flag_operands (x : xi) (R : regs) : option (bool * Z * Z * Z) :=     (* is_test, width, a, b *)
  match x with
  | XAlu w op reg rm =>
    let W := opw w in
    if op =? 0x39 then Some (false, W, R rm mod 2 ^ W, R reg mod 2 ^ W)
    else if op =? 0x85 then Some (true, W, R rm mod 2 ^ W, R reg mod 2 ^ W)
    else None
  | XAluI32 w op ext rm imm =>
    let W := opw w in
    if (op =? 0x81) && (ext =? 7) then Some (false, W, R rm mod 2 ^ W, imm mod 2 ^ W)
    else if (op =? 0xf7) && (ext =? 0) then Some (true, W, R rm mod 2 ^ W, imm mod 2 ^ W)
    else None
  | _ => None
  end.

Definition xcond (x : xi) (code : Z) (R : regs) : option bool :=
  match flag_operands x R with
  | None => None
  | Some (is_test, W, a, b) =>
    let l := if is_test then Z.land a b else a in      (* value compared ... *)
    let r := if is_test then 0 else b in                (* ... with *)
    if code =? 0x84 then Some (l =? r)                  (* je / jz *)
    else if code =? 0x85 then Some (negb (l =? r))      (* jne / jnz *)
    else if is_test then None
    else if code =? 0x87 then Some (r <? l)             (* ja *)
    else if code =? 0x83 then Some (r <=? l)            (* jae *)
    else if code =? 0x82 then Some (l <? r)             (* jb *)
    else if code =? 0x86 then Some (l <=? r)            (* jbe *)
    else if code =? 0x8f then Some (sgnw W r <? sgnw W l)     (* jg *)
    else if code =? 0x8d then Some (sgnw W r <=? sgnw W l)    (* jge *)
    else if code =? 0x8c then Some (sgnw W l <? sgnw W r)     (* jl *)
    else if code =? 0x8e then Some (sgnw W l <=? sgnw W r)    (* jle *)
    else None
  end.

(** ** memory instructions: the access made (kind 0 = load, 1 = store, 2 = atomic add), as in ClirSem.claccess.  The
    effective address is base + sign-extended displacement modulo 2^64; loads of less than 8 bytes zero-extend (movzx, or a
    32-bit mov); `mov m64, imm32` stores the sign-extended immediate *)
Record xaccess := { x_kind : Z; x_bytes : Z; x_addr : Z; x_val : Z; x_target : Z }.
Definition xaccess_of (x : xi) (R : regs) : option xaccess :=
  match x with
  | XLoad size base reg d => Some {| x_kind := 0; x_bytes := size / 8; x_addr := (R base + d) mod 2 ^ 64; x_val := 0; x_target := reg |}
  | XStore size reg base d => Some {| x_kind := 1; x_bytes := size / 8; x_addr := (R base + d) mod 2 ^ 64; x_val := R reg mod 2 ^ size; x_target := 16 |}
  | XStoreImm size base d imm => Some {| x_kind := 1; x_bytes := size / 8; x_addr := (R base + d) mod 2 ^ 64; x_val := imm mod 2 ^ size; x_target := 16 |}
  | XLockAdd w reg base d => Some {| x_kind := 2; x_bytes := opw w / 8; x_addr := (R base + d) mod 2 ^ 64; x_val := R reg mod 2 ^ opw w; x_target := 16 |}
  | _ => None
  end.
Fixpoint xrun_mem (l : list xi) (R : regs) : option xaccess :=
  match l with
  | [] => None
  | [x] => xaccess_of x R
  | x :: l' => match xstep x R with Some R' => xrun_mem l' R' | None => None end
  end.
