(** What opcode each instruction-builder constructor denotes, written from the eBPF ISA
    (class | operation | source bit), independently of insn_builder.rs. *)
From Coq Require Import ZArith List Bool.
From RbpfV Require Import MachInt Ebpf.
Import ListNotations.
Open Scope Z_scope.

Inductive balu := BAdd | BSub | BMul | BDiv | BOr | BAnd | BLsh | BRsh | BNeg | BMod | BXor | BMov | BArsh.
Inductive bsize := SzB | SzH | SzW | SzDW.
Inductive bcond := CJa | CJeq | CJgt | CJge | CJlt | CJle | CJset | CJne | CJsgt | CJsge | CJslt | CJsle.
Inductive bctor :=
| KMov (op : balu) (reg : bool) (x64 : bool)
| KSwap (big : bool)
| KLoadImm (sz : bsize) | KLoadAbs (sz : bsize) | KLoadInd (sz : bsize) | KLoadX (sz : bsize)
| KStore (sz : bsize) | KStoreX (sz : bsize)
| KJump (c : bcond) (reg : bool)
| KCall | KExit.

Definition alu_code (op : balu) : Z :=
  match op with
  | BAdd => 0x00 | BSub => 0x10 | BMul => 0x20 | BDiv => 0x30 | BOr => 0x40 | BAnd => 0x50
  | BLsh => 0x60 | BRsh => 0x70 | BNeg => 0x80 | BMod => 0x90 | BXor => 0xa0 | BMov => 0xb0
  | BArsh => 0xc0
  end.
Definition size_code (s : bsize) : Z :=
  match s with SzW => 0x00 | SzH => 0x08 | SzB => 0x10 | SzDW => 0x18 end.
Definition cond_code (c : bcond) : Z :=
  match c with
  | CJa => 0x00 | CJeq => 0x10 | CJgt => 0x20 | CJge => 0x30 | CJset => 0x40 | CJne => 0x50
  | CJsgt => 0x60 | CJsge => 0x70 | CJlt => 0xa0 | CJle => 0xb0 | CJslt => 0xc0 | CJsle => 0xd0
  end.
Definition srcbit (reg : bool) : Z := if reg then 0x08 else 0.

Definition bctor_opc (k : bctor) : Z :=
  match k with
  | KMov op reg x64 => alu_code op + srcbit reg + (if x64 then 0x07 else 0x04)
  | KSwap big => 0xd4 + (if big then 0x08 else 0)
  | KLoadImm sz => 0x00 + size_code sz + 0x00
  | KLoadAbs sz => 0x20 + size_code sz + 0x00
  | KLoadInd sz => 0x40 + size_code sz + 0x00
  | KLoadX sz => 0x60 + size_code sz + 0x01
  | KStore sz => 0x60 + size_code sz + 0x02
  | KStoreX sz => 0x60 + size_code sz + 0x03
  | KJump c reg => cond_code c + srcbit reg + 0x05
  | KCall => 0x85
  | KExit => 0x95
  end.
