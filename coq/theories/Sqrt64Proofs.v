(** C19, sqrti: `(x as f64).sqrt() as u64` is the exact integer square root for every argument below 2^52.
    Flocq model of Sqrt64.v: the conversion to binary64 is exact below 2^53; the correctly rounded square root lies in
    [n, n+1) for n = Z.sqrt x, because n and (n+1) - 2^-27 are representable and sqrt x lies between them (rounding is
    monotone); truncation of a value in [n, n+1) is n.  Depends on the classical axioms of the real numbers and on
    functional extensionality, through Flocq and the standard library. *)
From Coq Require Import ZArith Reals Lia Lra Psatz.
From Flocq Require Import Core.Core IEEE754.BinarySingleNaN.
From RbpfV Require Import Sqrt64.
Open Scope R_scope.

Notation emin := (3 - emax - prec)%Z.
Notation fexp := (SpecFloat.fexp prec emax).
Notation rnd := (round radix2 fexp (round_mode mode_NE)).
Local Instance Hp : Prec_gt_0 prec := Hprec.
Local Instance Hm : Prec_lt_emax prec emax := Hmax.

(* integers m * 2^e with |m| < 2^53 and emin <= e are in the format *)
Lemma fmt_F2R m e : (Z.abs m < 2 ^ 53)%Z -> (emin <= e)%Z -> generic_format radix2 fexp (F2R (Float radix2 m e)).
Proof.
  intros Hm He. change (generic_format radix2 (FLT_exp emin prec) (F2R (Float radix2 m e))). apply generic_format_FLT. exists (Float radix2 m e); [reflexivity|exact Hm|exact He].
Qed.
Lemma fmt_Z z : (0 <= z < 2 ^ 53)%Z -> generic_format radix2 fexp (IZR z).
Proof.
  intros Hz. replace (IZR z) with (F2R (Float radix2 z 0)) by (unfold F2R; simpl; ring).
  apply fmt_F2R; [lia|]. unfold emax, prec. lia.
Qed.

(* u64 -> f64 is exact below 2^53 *)
Lemma of_u64_exact x : (0 <= x < 2 ^ 53)%Z ->
  B2R (f64_of_u64 x) = IZR x /\ is_finite (f64_of_u64 x) = true /\ Bsign (f64_of_u64 x) = false.
Proof.
  intros Hx. unfold f64_of_u64.
  pose proof (binary_normalize_correct prec emax Hprec Hmax mode_NE x 0 false) as H. cbv zeta in H.
  replace (F2R (Float radix2 x 0)) with (IZR x) in H by (unfold F2R; simpl; ring).
  rewrite (round_generic radix2 fexp (round_mode mode_NE) (IZR x) (fmt_Z x Hx)) in H.
  rewrite Rlt_bool_true in H.
  - destruct H as (H1 & H2 & H3). repeat split; try assumption.
    rewrite H3. destruct (Rcompare_spec (IZR x) 0) as [L|E|G]; try reflexivity.
    exfalso. assert (0 <= IZR x) by (apply IZR_le; lia). lra.
  - rewrite Rabs_pos_eq by (apply IZR_le; lia).
    apply Rlt_trans with (IZR (2 ^ 53)); [apply IZR_lt; lia|].
    change (IZR (2 ^ 53)) with (bpow radix2 53). apply bpow_lt. unfold emax. lia.
Qed.

Local Instance Hvalid : Valid_exp fexp.
Proof. apply (fexp_correct prec emax Hprec). Qed.

(* the real-number core: for 1 <= x < 2^52 and n = Z.sqrt x, the rounded square root lies in [n, n+1) *)
Lemma sqrt_bounds x : (0 <= x < 2 ^ 52)%Z ->
  let n := Z.sqrt x in IZR n <= rnd (sqrt (IZR x)) < IZR (n + 1).
Proof.
  intros Hx n.
  pose proof (Z.sqrt_spec x ltac:(lia)) as [Hlo Hhi]. fold n in Hlo, Hhi.
  assert (Hn0 : (0 <= n)%Z) by apply Z.sqrt_nonneg.
  assert (Hn : (n < 2 ^ 26)%Z).
  { destruct (Z_lt_le_dec n (2 ^ 26)) as [L|G]; [exact L|]. exfalso.
    assert (2 ^ 26 * 2 ^ 26 <= n * n)%Z by nia. change (2 ^ 26 * 2 ^ 26)%Z with (2 ^ 52)%Z in H. lia. }
  (* lower bound *)
  assert (L : IZR n <= sqrt (IZR x)).
  { rewrite <- (sqrt_square (IZR n)) by (apply IZR_le; lia). apply sqrt_le_1_alt.
    rewrite <- mult_IZR. apply IZR_le. lia. }
  (* y = (n+1) - 2^-27 is representable and above sqrt x *)
  set (m := ((n + 1) * 2 ^ 27 - 1)%Z).
  set (y := F2R (Float radix2 m (-27))).
  assert (Ey : y = IZR (n + 1) - / 134217728).
  { unfold y, F2R, m. simpl Fnum. simpl Fexp. rewrite minus_IZR, mult_IZR.
    change (bpow radix2 (-27)) with (/ IZR (2 ^ 27)). change (IZR (2 ^ 27)) with 134217728. change (IZR (Z.pow_pos 2 27)) with 134217728. field. }
  assert (U : sqrt (IZR x) <= y).
  { assert (Y0 : 0 <= y) by (rewrite Ey; assert (1 <= IZR (n + 1)) by (apply IZR_le; lia); lra).
    rewrite <- (sqrt_square y Y0). apply sqrt_le_1_alt.
    assert (X : IZR x <= IZR (n + 1) * IZR (n + 1) - 1) by (rewrite <- mult_IZR, <- minus_IZR; apply IZR_le; lia).
    assert (N1 : 1 <= IZR (n + 1) <= 67108864) by (split; apply IZR_le; lia).
    rewrite Ey. nra. }
  split.
  - rewrite <- (round_generic radix2 fexp (round_mode mode_NE) (IZR n)) by (apply fmt_Z; lia).
    apply round_le; [apply Hvalid|apply valid_rnd_round_mode|exact L].
  - apply Rle_lt_trans with y.
    + rewrite <- (round_generic radix2 fexp (round_mode mode_NE) y).
      * apply round_le; [apply Hvalid|apply valid_rnd_round_mode|exact U].
      * apply fmt_F2R; [unfold m; lia | unfold emax, prec; lia].
    + rewrite Ey. lra.
Qed.

(* truncation of a finite non-negative float whose value lies in [n, n+1) *)
Lemma trunc_is_floor (a : f64) n : (0 <= n < 2 ^ 63)%Z ->
  is_finite a = true -> Bsign a = false -> IZR n <= B2R a < IZR (n + 1) -> u64_of_f64 a = n.
Proof.
  intros Hn Hf Hs [Hl Hu].
  destruct a as [s| | |s m e Hb]; try discriminate Hf.
  - (* zero *) simpl in Hl, Hu. simpl. assert (n = 0)%Z; [|subst; reflexivity].
    apply lt_IZR in Hu. apply le_IZR in Hl. lia.
  - simpl in Hs. subst s. unfold u64_of_f64. unfold B2R in Hl, Hu. simpl cond_Zopp in Hl, Hu.
    assert (V : (if (0 <=? e)%Z then Z.pos m * 2 ^ e else Z.pos m / 2 ^ (- e))%Z = n).
    { destruct (Z.leb_spec 0 e) as [He|He].
      - unfold F2R in Hl, Hu. simpl Fnum in Hl, Hu. simpl Fexp in Hl, Hu.
        assert (E : bpow radix2 e = IZR (2 ^ e)) by (rewrite <- (IZR_Zpower radix2 e He); reflexivity).
        rewrite E, <- mult_IZR in Hl, Hu. apply le_IZR in Hl. apply lt_IZR in Hu. lia.
      - assert (E : F2R (Float radix2 (Z.pos m) e) = IZR (Z.pos m) / IZR (2 ^ (- e))).
        { unfold F2R. simpl Fnum. simpl Fexp. replace e with (- (- e))%Z at 1 by lia. rewrite bpow_opp.
          rewrite <- (IZR_Zpower radix2 (- e)) by lia. reflexivity. }
        rewrite E in Hl, Hu. rewrite <- (Zfloor_div (Z.pos m) (2 ^ (- e))) by (apply Z.pow_nonzero; lia).
        apply Zfloor_imp. split; assumption. }
    rewrite V. apply Z.min_l. lia.
Qed.

Theorem sqrti_exact x : (0 <= x < 2 ^ 52)%Z -> sqrti_model x = Z.sqrt x.
Proof.
  intros Hx. unfold sqrti_model, f64_sqrt.
  destruct (of_u64_exact x ltac:(lia)) as (Hv & Hfin & Hsg).
  set (a := f64_of_u64 x) in *.
  destruct (Bsqrt_correct prec emax Hprec Hmax mode_NE a) as (Rv & Rf & Rs).
  rewrite Hv in Rv.
  assert (Fin : is_finite (@Bsqrt prec emax Hprec Hmax mode_NE a) = true).
  { rewrite Rf. destruct a as [s| | |s m e Hb]; try discriminate Hfin; [reflexivity|]. simpl in Hsg. subst s. reflexivity. }
  assert (Sg : Bsign (@Bsqrt prec emax Hprec Hmax mode_NE a) = false).
  { rewrite Rs; [exact Hsg|]. destruct (@Bsqrt prec emax Hprec Hmax mode_NE a); try discriminate Fin; reflexivity. }
  pose proof (Z.sqrt_nonneg x) as N0.
  assert (N1 : (Z.sqrt x < 2 ^ 63)%Z).
  { pose proof (Z.sqrt_le_lin x ltac:(lia)). lia. }
  apply trunc_is_floor; [lia|exact Fin|exact Sg|].
  rewrite Rv. apply (sqrt_bounds x Hx).
Qed.
