(** C10: the VM API of lib.rs as a state machine (hand-written from EbpfVmMbuff and the three
    wrappers, which delegate to it), an abstract specification, and the refinement between them
    over all histories.  The model is tied to the code by the regenerated effect lists (ApiFxProofs.v) and by the
    correspondence check (api histories). *)
From Coq Require Import ZArith List Bool Lia.
Import ListNotations.
Open Scope Z_scope.

Section Api.
(** programs and verifiers are abstract: [accepts v p] = verifier [v] accepts program [p] *)
Variable prog : Type.
Variable vf : Type.
Variable accepts : vf -> prog -> bool.
Variable vdefault : vf.
Variable helpers : Type.
Variable hadd : helpers -> Z -> helpers.
(** stack-usage calculators are abstract too; [cdefault] = none installed *)
Variable calc : Type.
Variable cdefault : calc.
(* what interpreting p with helper set h yields when the frame sizes come from the table [u] = (program it was computed
   from, calculator it was computed with): a value, or the error for an unregistered helper *)
Variable value : prog -> helpers -> option (prog * calc) -> Z + unit.
(* what the compiled code of p yields (the compiled engines do not use the table) *)
Variable cvalue : prog -> helpers -> Z + unit.
(** can the compilers compile p with helper set h (every called helper registered)? *)
Variable compilable : prog -> helpers -> bool.

Inductive op :=
| OSetProgram (p : prog)
| OSetVerifier (v : vf)
| ORegisterHelper (id : Z)
| OSetCalc (c : calc)
| OJitCompile | OCraneliftCompile
| OExec | OExecJit | OExecCranelift.

Inductive out := RUnit | RErrVerifier | RErrNoProgram | RErrNotCompiled | RErrCompile | RErrHelper | RVal (v : Z).
Definition exec_out (r : Z + unit) : out := match r with inl v => RVal v | inr _ => RErrHelper end.

(** implementation state: what the fields of EbpfVmMbuff hold *)
Record ist := {
  i_prog : option prog;
  i_vf : vf;
  i_helpers : helpers;
  i_jit : option (prog * helpers);          (* machine code, compiled from this program with these helpers *)
  i_cl : option (prog * helpers);
  i_calc : calc;                            (* self.stack_verifier: the calculator in force *)
  i_usage : option (prog * calc) }.         (* self.stack_usage: the table, computed from this program with this calculator *)

Definition i_new (p : option prog) (h0 : helpers) : option ist :=
  match p with
  | Some q => if accepts vdefault q
              then Some {| i_prog := Some q; i_vf := vdefault; i_helpers := h0; i_jit := None; i_cl := None;
                           i_calc := cdefault; i_usage := Some (q, cdefault) |}
              else None
  | None => Some {| i_prog := None; i_vf := vdefault; i_helpers := h0; i_jit := None; i_cl := None;
                    i_calc := cdefault; i_usage := None |}
  end.

Definition i_step (s : ist) (o : op) : ist * out :=
  match o with
  | OSetProgram p =>
      if accepts (i_vf s) p
      then ({| i_prog := Some p; i_vf := i_vf s; i_helpers := i_helpers s; i_jit := None; i_cl := None;
               i_calc := i_calc s; i_usage := Some (p, i_calc s) |}, RUnit)
      else (s, RErrVerifier)
  | OSetVerifier v =>
      match i_prog s with
      | Some p => if accepts v p
                  then ({| i_prog := i_prog s; i_vf := v; i_helpers := i_helpers s; i_jit := i_jit s; i_cl := i_cl s;
                           i_calc := i_calc s; i_usage := i_usage s |}, RUnit)
                  else (s, RErrVerifier)
      | None => ({| i_prog := None; i_vf := v; i_helpers := i_helpers s; i_jit := i_jit s; i_cl := i_cl s;
                    i_calc := i_calc s; i_usage := i_usage s |}, RUnit)
      end
  | ORegisterHelper id =>
      ({| i_prog := i_prog s; i_vf := i_vf s; i_helpers := hadd (i_helpers s) id; i_jit := i_jit s; i_cl := i_cl s;
          i_calc := i_calc s; i_usage := i_usage s |}, RUnit)
  | OSetCalc c =>
      ({| i_prog := i_prog s; i_vf := i_vf s; i_helpers := i_helpers s; i_jit := i_jit s; i_cl := i_cl s;
          i_calc := c; i_usage := match i_prog s with Some p => Some (p, c) | None => i_usage s end |}, RUnit)
  | OJitCompile =>
      match i_prog s with
      | Some p => if compilable p (i_helpers s)
                  then ({| i_prog := i_prog s; i_vf := i_vf s; i_helpers := i_helpers s; i_jit := Some (p, i_helpers s); i_cl := i_cl s;
                           i_calc := i_calc s; i_usage := i_usage s |}, RUnit)
                  else (s, RErrCompile)
      | None => (s, RErrNoProgram)
      end
  | OCraneliftCompile =>
      match i_prog s with
      | Some p => if compilable p (i_helpers s)
                  then ({| i_prog := i_prog s; i_vf := i_vf s; i_helpers := i_helpers s; i_jit := i_jit s; i_cl := Some (p, i_helpers s);
                           i_calc := i_calc s; i_usage := i_usage s |}, RUnit)
                  else (s, RErrCompile)
      | None => (s, RErrNoProgram)
      end
  | OExec => match i_prog s with Some p => (s, exec_out (value p (i_helpers s) (i_usage s))) | None => (s, RErrNoProgram) end
  | OExecJit => match i_jit s with Some (p, h) => (s, exec_out (cvalue p h)) | None => (s, RErrNotCompiled) end
  | OExecCranelift => match i_cl s with Some (p, h) => (s, exec_out (cvalue p h)) | None => (s, RErrNotCompiled) end
  end.

Fixpoint i_run (s : ist) (ops : list op) : list out :=
  match ops with [] => [] | o :: r => let '(s', x) := i_step s o in x :: i_run s' r end.

(** ** abstract specification: compiled artefacts and the frame sizes are functions of the loaded program *)
Record ast := {
  a_loaded : option prog;                   (* the program most recently loaded successfully *)
  a_vf : vf;                                (* the verifier in force *)
  a_helpers : helpers;
  a_jit : option helpers;                   (* compiled since the last load?  with which helpers *)
  a_cl : option helpers;
  a_calc : calc }.                          (* the calculator most recently installed *)

Definition a_step (s : ast) (o : op) : ast * out :=
  match o with
  | OSetProgram p =>
      if accepts (a_vf s) p
      then ({| a_loaded := Some p; a_vf := a_vf s; a_helpers := a_helpers s; a_jit := None; a_cl := None; a_calc := a_calc s |}, RUnit)
      else (s, RErrVerifier)                                            (* a failed call is a no-op *)
  | OSetVerifier v =>
      match a_loaded s with
      | Some p => if accepts v p
                  then ({| a_loaded := a_loaded s; a_vf := v; a_helpers := a_helpers s; a_jit := a_jit s; a_cl := a_cl s; a_calc := a_calc s |}, RUnit)
                  else (s, RErrVerifier)
      | None => ({| a_loaded := None; a_vf := v; a_helpers := a_helpers s; a_jit := a_jit s; a_cl := a_cl s; a_calc := a_calc s |}, RUnit)
      end
  | ORegisterHelper id =>
      ({| a_loaded := a_loaded s; a_vf := a_vf s; a_helpers := hadd (a_helpers s) id; a_jit := a_jit s; a_cl := a_cl s; a_calc := a_calc s |}, RUnit)
  | OSetCalc c =>
      ({| a_loaded := a_loaded s; a_vf := a_vf s; a_helpers := a_helpers s; a_jit := a_jit s; a_cl := a_cl s; a_calc := c |}, RUnit)
  | OJitCompile =>
      match a_loaded s with
      | Some p => if compilable p (a_helpers s)
                  then ({| a_loaded := a_loaded s; a_vf := a_vf s; a_helpers := a_helpers s; a_jit := Some (a_helpers s); a_cl := a_cl s; a_calc := a_calc s |}, RUnit)
                  else (s, RErrCompile)
      | None => (s, RErrNoProgram)
      end
  | OCraneliftCompile =>
      match a_loaded s with
      | Some p => if compilable p (a_helpers s)
                  then ({| a_loaded := a_loaded s; a_vf := a_vf s; a_helpers := a_helpers s; a_jit := a_jit s; a_cl := Some (a_helpers s); a_calc := a_calc s |}, RUnit)
                  else (s, RErrCompile)
      | None => (s, RErrNoProgram)
      end
  (* the interpreter always uses the frame sizes of the loaded program under the calculator in force *)
  | OExec => match a_loaded s with Some p => (s, exec_out (value p (a_helpers s) (Some (p, a_calc s)))) | None => (s, RErrNoProgram) end
  | OExecJit =>
      match a_loaded s, a_jit s with
      | Some p, Some h => (s, exec_out (cvalue p h))       (* always the loaded program *)
      | _, _ => (s, RErrNotCompiled)
      end
  | OExecCranelift =>
      match a_loaded s, a_cl s with
      | Some p, Some h => (s, exec_out (cvalue p h))
      | _, _ => (s, RErrNotCompiled)
      end
  end.

Fixpoint a_run (s : ast) (ops : list op) : list out :=
  match ops with [] => [] | o :: r => let '(s', x) := a_step s o in x :: a_run s' r end.

(** ** refinement *)
Definition rel (i : ist) (a : ast) : Prop :=
  i_prog i = a_loaded a /\ i_vf i = a_vf a /\ i_helpers i = a_helpers a /\
  (match i_jit i with
   | Some (p, h) => a_loaded a = Some p /\ a_jit a = Some h
   | None => a_jit a = None end) /\
  (match i_cl i with
   | Some (p, h) => a_loaded a = Some p /\ a_cl a = Some h
   | None => a_cl a = None end) /\
  i_calc i = a_calc a /\
  (* the table is that of the loaded program under the calculator in force *)
  (match a_loaded a with Some p => i_usage i = Some (p, a_calc a) | None => True end).

Lemma step_refines i a o : rel i a ->
  snd (i_step i o) = snd (a_step a o) /\ rel (fst (i_step i o)) (fst (a_step a o)).
Proof.
  intros (Hp & Hv & Hh & Hj & Hc & Hk & Hu).
  destruct i as [ip iv ih ij ic ik iu], a as [al av ah aj ac ak]; cbn in *; subst.
  destruct o; cbn.
  - destruct (accepts av p); cbn; repeat split; auto.
  - destruct al as [p|]; [destruct (accepts v p)|]; cbn; repeat split; auto.
  - repeat split; auto.
  - destruct al as [p|]; cbn; repeat split; auto.
  - destruct al as [p|]; [destruct (compilable p ah)|]; cbn; repeat split; auto.
  - destruct al as [p|]; [destruct (compilable p ah)|]; cbn; repeat split; auto.
  - destruct al as [p|]; cbn; [rewrite Hu|]; repeat split; auto.
  - destruct ij as [[p h]|]; cbn.
    + destruct Hj as [-> ->]. cbn. repeat split; auto.
    + rewrite Hj. destruct al; cbn; repeat split; auto.
  - destruct ic as [[p h]|]; cbn.
    + destruct Hc as [-> ->]. cbn. repeat split; auto.
    + rewrite Hc. destruct al; destruct aj; cbn; repeat split; auto.
Qed.

Theorem run_refines ops : forall i a, rel i a -> i_run i ops = a_run a ops.
Proof.
  induction ops as [|o r IH]; intros i a R; [reflexivity|]. cbn [i_run a_run].
  destruct (step_refines i a o R) as [Ho Rn].
  destruct (i_step i o) as [i' x], (a_step a o) as [a' y]. cbn in *. subst y. f_equal. now apply IH.
Qed.

Definition abs (i : ist) : ast :=
  {| a_loaded := i_prog i; a_vf := i_vf i; a_helpers := i_helpers i;
     a_jit := match i_jit i with Some (_, h) => Some h | None => None end;
     a_cl := match i_cl i with Some (_, h) => Some h | None => None end;
     a_calc := i_calc i |}.

(** every VM obtained from [new] refines the specification for every history *)
Theorem new_refines p h0 i ops : i_new p h0 = Some i -> i_run i ops = a_run (abs i) ops.
Proof.
  intros H. apply run_refines. unfold i_new in H.
  destruct p as [q|]; [destruct (accepts vdefault q); [|discriminate]|]; inversion H; subst; cbn; repeat split; auto.
Qed.

(** ** corollaries on the specification (hence on the implementation model) *)
(** a failed set_program / set_verifier leaves the VM behaving exactly as before *)
Lemma failed_call_is_noop a o : snd (a_step a o) = RErrVerifier -> fst (a_step a o) = a.
Proof.
  destruct o; cbn; try discriminate.
  - destruct (accepts (a_vf a) p); cbn; [discriminate|reflexivity].
  - destruct (a_loaded a) as [p|]; [destruct (accepts v p)|]; cbn; try discriminate; reflexivity.
  - destruct (a_loaded a) as [p|]; [destruct (compilable p (a_helpers a))|]; cbn; discriminate.
  - destruct (a_loaded a) as [p|]; [destruct (compilable p (a_helpers a))|]; cbn; discriminate.
  - destruct (a_loaded a); cbn; try destruct (value _ _ _); cbn; discriminate.
  - destruct (a_loaded a); destruct (a_jit a); cbn; try destruct (cvalue _ _); cbn; discriminate.
  - destruct (a_loaded a); destruct (a_cl a); cbn; try destruct (cvalue _ _); cbn; discriminate.
Qed.

(** the loaded program was accepted by the verifier in force *)
Definition a_inv (a : ast) : Prop := match a_loaded a with Some p => accepts (a_vf a) p = true | None => True end.
Lemma a_inv_step a o : a_inv a -> a_inv (fst (a_step a o)).
Proof.
  unfold a_inv. intros H. destruct o; cbn; auto.
  - destruct (accepts (a_vf a) p) eqn:A; cbn; auto.
  - destruct (a_loaded a) as [p|] eqn:L; [destruct (accepts v p) eqn:A|]; cbn; rewrite ?L; auto.
  - destruct (a_loaded a) as [p|] eqn:L; [destruct (compilable p (a_helpers a))|]; cbn; rewrite ?L; auto.
  - destruct (a_loaded a) as [p|] eqn:L; [destruct (compilable p (a_helpers a))|]; cbn; rewrite ?L; auto.
  - destruct (a_loaded a) eqn:L; cbn; rewrite ?L; auto.
  - destruct (a_loaded a) eqn:L; destruct (a_jit a); cbn; rewrite ?L; auto.
  - destruct (a_loaded a) eqn:L; destruct (a_cl a); cbn; rewrite ?L; auto.
Qed.

(** executions do not change the state: results depend only on program, helpers, calculator (and buffers) *)
Lemma exec_pure a o : o = OExec \/ o = OExecJit \/ o = OExecCranelift -> fst (a_step a o) = a.
Proof.
  intros [->|[->| ->]]; cbn.
  - destruct (a_loaded a); reflexivity.
  - destruct (a_loaded a); destruct (a_jit a); reflexivity.
  - destruct (a_loaded a); destruct (a_cl a); reflexivity.
Qed.
(** the interpreter's answer depends on the loaded program, the helpers and the calculator in force only *)
Lemma exec_uses_loaded_frames a p : a_loaded a = Some p ->
  snd (a_step a OExec) = exec_out (value p (a_helpers a) (Some (p, a_calc a))).
Proof. intros H. cbn. rewrite H. reflexivity. Qed.
End Api.
