(** C04, whole executions: the Cranelift-compiled program, modelled as the regenerated per-instruction IR (ClStep.cl_exec)
    driven from the registers the regenerated prelude defines, returns what the ISA returns and leaves the same memory,
    whenever the ISA run from the same entry registers returns a value.  The driver [cl_steps] is hand-written (one block
    per instruction start, fall-through / jump target = next pc): the block structure it stands for is what ClCfgProofs
    checks against build_cfg. *)
From Coq Require Import ZArith Lia Bool List.
From RbpfV Require Import MachInt BitLemmas ListLemmas ArmBase Ebpf ClirSem Mem Stack Helpers InterpDefs WellFormed Verifier Isa MemLemmas
  VerifierArms VerifierProofs InterpProofs ClAluProofs ClJmpProofs ClMemProofs ClMiscProofs ClirProofs ClStep.
From RbpfV.gen Require Import Opcodes Clir.
Import ListNotations.
Open Scope Z_scope.

Definition cstate : Type := (list Z * Z * mem)%type.
Inductive cres := CNext (s : cstate) | CRet (r : Z) (m : mem).
Definition proj_res (r : res stepres) : res cres :=
  match r with
  | Ok (SNext (reg, pc, _, _, m)) => Ok (CNext (reg, pc, m))
  | Ok (SRet v m) => Ok (CRet v m)
  | Err e => Err e | Panic x => Panic x | OutOfFuel => OutOfFuel
  end.
Definition cl_step (E : ienv) (s : cstate) : res cres :=
  let '(reg, pc, m) := s in proj_res (cl_exec E (insn_at (e_prog E) pc) reg (pc + 1) 0 [] m).
Fixpoint cl_steps (fuel : nat) (E : ienv) (s : cstate) : outcome :=
  match fuel with
  | O => OFuel
  | S f => match cl_step E s with
           | Ok (CNext s') => cl_steps f E s'
           | Ok (CRet r m) => ODone r m
           | Err e => OErr e (snd s)
           | Panic _ => OPanic
           | OutOfFuel => OFuel
           end
  end.

(** entry registers: those the prelude defines (r1, r2, r10); a register the prelude leaves undefined reads as 0 in
    cranelift-frontend (trusted) *)
Definition cl_init_regs (E : ienv) : list Z :=
  let regs := gen_prelude_regs (cl_p0 E) (e_mem_len E) (e_mbuff_base E) (e_mbuff_len E) (e_stack_base E) (e_stack_len E) in
  map (fun k => match reg_lookup k regs with Some v => v | None => 0 end) [0; 1; 2; 3; 4; 5; 6; 7; 8; 9; 10].
Definition cl_run (fuel : nat) (E : ienv) (m0 : mem) : outcome := cl_steps fuel E (cl_init_regs E, 0, m0).

Lemma cl_exec_proj E i reg next f1 s1 f2 s2 m :
  proj_res (cl_exec E i reg next f1 s1 m) = proj_res (cl_exec E i reg next f2 s2 m).
Proof.
  unfold cl_exec. cbv zeta.
  repeat match goal with
  | |- context [if ?c then _ else _] => destruct c
  | |- context [match ?x with Ok _ => _ | _ => _ end] => destruct x
  | |- context [match ?x with Some _ => _ | None => _ end] => destruct x
  end; reflexivity.
Qed.

Lemma supported_cl o : supported o = true -> In o cl_ops.
Proof.
  intros H. assert (R : 0 <= o < 256).
  { unfold supported in H. rewrite !andb_true_iff in H. destruct H as [[A B] _]. apply Z.leb_le in A. apply Z.ltb_lt in B. lia. }
  revert H. revert o R. apply (below_256 (fun o => supported o = true -> In o cl_ops)). intros n Hn.
  do 256 (destruct n as [|n]; [vm_compute; intros A; first [discriminate A | tauto]|]).
  lia.
Qed.

Section Run.
Variable E : ienv.
Let p := e_prog E.
Hypothesis Hb : bytes_ok p.
Hypothesis Hacc : acc p.
Hypothesis He : env_ok E.
Hypothesis Hno_ranges : e_allowed E = [].
Hypothesis Hmem_nonnull : e_mem_len E <> 0 -> e_mem_base E <> 0.
Hypothesis Hmbuff_nonnull : e_mbuff_len E <> 0 -> e_mbuff_base E <> 0.
(** what compilation needs of the program: only helper calls, every helper registered (otherwise cranelift_compile
    returns an error); and no packet-relative load when the packet is empty (lib.rs then hands a null packet pointer) *)
Hypothesis Hcomp : forall k, In k (starts p) ->
  (opc (insn_at p k) = op_call -> src (insn_at p k) = 0 /\ e_helpers E (u32 (imm (insn_at p k))) <> None) /\
  (opc (insn_at p k) mod 8 = 0 -> e_mem_len E <> 0).

Theorem cl_steps_refine fuel : forall reg pc stacks m r m',
  Inv E (reg, pc, 0, stacks, m) -> isa_steps fuel E (reg, pc, 0, stacks, m) = ODone r m' ->
  cl_steps fuel E (reg, pc, m) = ODone r m'.
Proof.
  induction fuel as [|f IH]; intros reg pc stacks m r m' HI H; [discriminate H|].
  pose proof Hcomp as Hcomp'. unfold p in Hcomp'.
  cbn [isa_steps] in H. cbn [cl_steps].
  destruct (isa_step E (reg, pc, 0, stacks, m)) as [[s'|v mv]|e|x|] eqn:Hs; try discriminate H.
  - (* a step *)
    pose proof (step_preserves E Hb Hacc He _ _ HI Hs) as HI'.
    pose proof HI as (Hpc & Hr & _ & _ & Hm & _).
    pose proof (verifier_facts E Hb Hacc pc Hpc) as V. pose proof (start_range E pc Hpc) as Rpc.
    unfold isa_step in Hs.
    destruct (refresh_usage E stacks 0 pc) as [st2| | |] eqn:Ru; cbn [bind] in Hs; try discriminate Hs.
    destruct (Hcomp' pc Hpc) as [Hc Hk]. destruct (vf_wf E pc V) as (W1 & W2 & W3 & W4 & W5).
    assert (X : cl_exec E (insn_at (e_prog E) pc) reg (pc + 1) 0 st2 m = Ok (SNext s')).
    { apply (cl_exec_refines E He Hno_ranges Hmem_nonnull Hmbuff_nonnull); try assumption.
      - exact (vf_wf E pc V).
      - destruct (vf_dst E pc V) as [D|[D _]]; lia.
      - apply supported_cl. exact (vf_sup E pc V).
      - intros En. destruct (vf_end E pc V En) as [A|[A|A]]; rewrite A; cbn [In]; tauto.
      - intros El. destruct (vf_lddw E pc V El) as [L _]. apply insn_at_wf; [exact (p_shape E Hb Hacc)|lia].
      - reflexivity. }
    unfold cl_step. rewrite (cl_exec_proj E _ reg (pc + 1) 0 [] 0 st2 m), X.
    destruct s' as [[[[reg' pc'] f'] st'] mm]. cbn [proj_res].
    destruct (cl_exec_frames E _ _ _ _ _ _ _ _ _ _ _ X) as [F0 _]. subst f'.
    apply (IH reg' pc' st' mm r m' HI' H).
  - (* exit *)
    injection H as -> ->.
    pose proof HI as (Hpc & Hr & _ & _ & Hm & _).
    pose proof (verifier_facts E Hb Hacc pc Hpc) as V. pose proof (start_range E pc Hpc) as Rpc.
    unfold isa_step in Hs.
    destruct (refresh_usage E stacks 0 pc) as [st2| | |] eqn:Ru; cbn [bind] in Hs; try discriminate Hs.
    destruct (Hcomp' pc Hpc) as [Hc Hk].
    assert (X : cl_exec E (insn_at (e_prog E) pc) reg (pc + 1) 0 st2 m = Ok (SRet r m')).
    { apply (cl_exec_refines E He Hno_ranges Hmem_nonnull Hmbuff_nonnull); try assumption.
      - exact (vf_wf E pc V).
      - destruct (vf_wf E pc V) as (W1 & W2 & W3 & W4 & W5). destruct (vf_dst E pc V) as [D|[D _]]; lia.
      - apply supported_cl. exact (vf_sup E pc V).
      - intros En. destruct (vf_end E pc V En) as [A|[A|A]]; rewrite A; cbn [In]; tauto.
      - intros El. destruct (vf_lddw E pc V El) as [L _]. apply insn_at_wf; [exact (p_shape E Hb Hacc)|lia].
      - reflexivity. }
    unfold cl_step. rewrite (cl_exec_proj E _ reg (pc + 1) 0 [] 0 st2 m), X. reflexivity.
Qed.
End Run.

(** ** from the entry state *)
Lemma cl_init_regs_spec E : env_ok E ->
  cl_init_regs E = upd (isa_init_regs E) 2 (if e_mbuff_len E =? 0 then e_mem_len E else e_mbuff_len E).
Proof.
  intros [(B1 & B2 & B3) (M1 & M2 & M3) (S1 & S2 & S3) _ _].
  change (2 ^ 63) with 9223372036854775808 in *. change (2 ^ 20) with 1048576 in *.
  unfold cl_init_regs, isa_init_regs, gen_prelude_regs, upd. change (Z.to_nat 2) with 2%nat. cbn [upd_nat].
  cbn [map reg_lookup Z.eqb Pos.eqb].
  unfold ir_select, ir_icmp, ir_iconst, ir_iadd. change (0 mod 2 ^ 64) with 0. change (2 ^ 64) with 18446744073709551616.
  rewrite (Z.mod_small (e_stack_len E)) by lia. rewrite (Z.mod_small (e_stack_base E + e_stack_len E)) by lia.
  unfold cl_p0.
  destruct (Z.eqb_spec (e_mbuff_len E) 0) as [L0|L0]; cbn [negb Z.eqb]; [|reflexivity].
  destruct (Z.eqb_spec (e_mem_len E) 0) as [K0|K0]; cbn [negb]; reflexivity.
Qed.

Lemma cl_init_inv E m0 : bytes_ok (e_prog E) -> acc (e_prog E) -> env_ok E -> mem_ok m0 ->
  Inv E (cl_init_regs E, 0, 0, stacks0, m0).
Proof.
  intros Hb Ha He Hm. rewrite cl_init_regs_spec by exact He.
  pose proof (init_inv E m0 Hb Ha He Hm) as HI. pose proof HI as (Hpc & _ & _ & Hf & _).
  apply (inv_set_reg E _ 0 0 stacks0 m0 stacks0 2 _ 0 m0 HI Hf); try reflexivity; try assumption; try lia.
  destruct He as [(B1 & B2 & B3) (M1 & M2 & M3) _ _ _]. change (2 ^ 63) with 9223372036854775808 in *.
  change (2 ^ 64) with 18446744073709551616. destruct (e_mbuff_len E =? 0); lia.
Qed.

(** C04: the compiled program returns the ISA's value and leaves the ISA's memory, for every budget, on every accepted
    program made of helper calls only, run from the registers the compiled prelude defines (they are the interpreter's
    but for r2, which Cranelift sets to the length of what r1 points to: an unwritten register in the property's terms) *)
Theorem cl_run_refines E m0 fuel r m' :
  bytes_ok (e_prog E) -> acc (e_prog E) -> env_ok E -> mem_ok m0 ->
  e_allowed E = [] -> (e_mem_len E <> 0 -> e_mem_base E <> 0) -> (e_mbuff_len E <> 0 -> e_mbuff_base E <> 0) ->
  (forall k, In k (starts (e_prog E)) ->
     (opc (insn_at (e_prog E) k) = op_call ->
        src (insn_at (e_prog E) k) = 0 /\ e_helpers E (u32 (imm (insn_at (e_prog E) k))) <> None) /\
     (opc (insn_at (e_prog E) k) mod 8 = 0 -> e_mem_len E <> 0)) ->
  isa_steps fuel E (cl_init_regs E, 0, 0, stacks0, m0) = ODone r m' ->
  cl_run fuel E m0 = ODone r m'.
Proof.
  intros Hb Ha He Hm Hn H1 H2 Hc H. unfold cl_run.
  apply (cl_steps_refine E Hb Ha He Hn H1 H2 Hc fuel _ 0 stacks0 m0 r m'); [|exact H].
  now apply cl_init_inv.
Qed.
