(** C16, closing the loop: the text printed for a program in the disassembler's domain is read back by the parser model to
    the printed operands, and the assembler then emits the canonical form of the program (or rejects it when a 32-bit
    immediate is negative or a mnemonic is unknown to the assembler). *)
From Coq Require Import ZArith Lia Bool List Ascii String.
From RbpfV Require Import MachInt BitLemmas ListLemmas Ebpf Fmt AsmDefs AsmParser AsmModel AsmSpec AsmProofs AsmEncode
     DisasmDefs DisasmSpec DisasmProofs NumText TextParse RoundTrip RoundTripProofs RenderText CodecProofs.
From RbpfV.gen Require Import Codec Disasm Asm.
Import ListNotations.
Open Scope Z_scope.
Ltac Zify.zify_post_hook ::= Z.div_mod_to_equations.

(** ** the disassembler's mnemonic table against the assembler's *)
Definition asm_kind (sh : shape) : ashape :=
  match sh with
  | ShAluImm | ShAluReg => SAlu | ShUnary => SUnary | ShEndian => SEndian 0 | ShLdAbs => SLdAbs | ShLdInd => SLdInd
  | ShLdReg => SLdx | ShStImm => SSt | ShStReg => SStx | ShJa => SJa | ShJmpImm | ShJmpReg => SJmp
  | ShCall => SCall | ShNone => SNone | ShLddw => SLddw
  end.
Definition reg_form (sh : shape) : bool := match sh with ShAluReg | ShJmpReg => true | _ => false end.
Definition asm_opc (o : Z) (sh : shape) : Z := if reg_form sh then o - 8 else o.

(** instructions for which the assembler has no mnemonic *)
Definition no_mnemonic (name : string) : bool :=
  String.eqb name "tail_call" || String.eqb name "stxxaddw" || String.eqb name "stxxadddw".

Definition table_entry_ok (e : Z * (string * shape)) : bool :=
  let '(o, (name, sh)) := e in
  if no_mnemonic name then match map_get (T name) asm_table with None => true | Some _ => false end
  else match sh with
       | ShEndian =>
           forallb (fun n => match map_get (T (name ++ fmt_dec n)) asm_table with
                             | Some (SEndian m, o') => (m =? n) && (o' =? o) | _ => false end) [16; 32; 64]
       | _ => match map_get (T name) asm_table with
              | Some (ash, o') => ashape_eqb ash (asm_kind sh) && (o' =? asm_opc o sh)
              | None => false
              end
       end.
Lemma tables_related : forallb table_entry_ok mnemonics = true.
Proof. vm_compute. reflexivity. Qed.
Lemma callx_entry : map_get (T "callx") asm_table = Some (SCallx, 0x85).
Proof. vm_compute. reflexivity. Qed.

Lemma slot_of_some o d s f m :
  0 <= d < 16 -> 0 <= s < 16 -> - 2 ^ 15 <= f < 2 ^ 15 -> - 2 ^ 31 <= m < 2 ^ 31 -> slot_of o d s f m = Some (mk o d s f m).
Proof.
  intros. unfold slot_of.
  destruct (Z.leb_spec 0 d), (Z.ltb_spec d 16), (Z.leb_spec 0 s), (Z.ltb_spec s 16); try lia.
  destruct (Z.leb_spec (- 2 ^ 15) f), (Z.ltb_spec f (2 ^ 15)), (Z.leb_spec (- 2 ^ 31) m), (Z.ltb_spec m (2 ^ 31)); try lia. reflexivity.
Qed.
Lemma slot_of_big_imm o d s f m : 2 ^ 31 <= m -> slot_of o d s f m = None.
Proof.
  intros. unfold slot_of. destruct (Z.ltb_spec m (2 ^ 31)); [lia|]. now rewrite !andb_false_r.
Qed.

Lemma norm_hex32 m : norm I64 (m mod 2 ^ 32) = m mod 2 ^ 32.
Proof.
  apply norm_idem. pose proof (Z.mod_pos_bound m (2 ^ 32) ltac:(fold_pows; lia)).
  unfold in_ty, tmin, tmax; cbn [signed bits]. change (64 - 1) with 63. fold_pows. lia.
Qed.
Lemma mod32_nonneg m : 0 <= m < 2 ^ 31 -> m mod 2 ^ 32 = m.
Proof. intros. apply Z.mod_small. fold_pows. lia. Qed.
Lemma mod32_neg m : - 2 ^ 31 <= m < 0 -> 2 ^ 31 <= m mod 2 ^ 32.
Proof. intros. fold_pows. lia. Qed.

(** the two halves of the merged immediate come back *)
Lemma lo32_imm64 a b : - 2 ^ 31 <= a < 2 ^ 31 -> lo32 (imm64_of a b) = a.
Proof.
  intros H. unfold lo32, imm64_of, norm. cbn [signed bits]. unfold smod. change (64 - 1) with 63. change (32 - 1) with 31. fold_pows.
  destruct (Z.ltb_spec ((a mod 4294967296 + 4294967296 * (b mod 4294967296)) mod 18446744073709551616) 9223372036854775808).
  - destruct (Z.ltb_spec (((a mod 4294967296 + 4294967296 * (b mod 4294967296)) mod 18446744073709551616) mod 4294967296) 2147483648); lia.
  - destruct (Z.ltb_spec (((a mod 4294967296 + 4294967296 * (b mod 4294967296)) mod 18446744073709551616 - 18446744073709551616) mod 4294967296) 2147483648); lia.
Qed.
Lemma hi32_imm64 a b : - 2 ^ 31 <= b < 2 ^ 31 -> hi32 (imm64_of a b) = b.
Proof.
  intros H. unfold hi32, imm64_of, norm. cbn [signed bits]. unfold smod. change (64 - 1) with 63. change (32 - 1) with 31. fold_pows.
  destruct (Z.ltb_spec ((a mod 4294967296 + 4294967296 * (b mod 4294967296)) mod 18446744073709551616) 9223372036854775808).
  - destruct (Z.ltb_spec (((a mod 4294967296 + 4294967296 * (b mod 4294967296)) mod 18446744073709551616 / 4294967296) mod 4294967296) 2147483648); lia.
  - destruct (Z.ltb_spec ((((a mod 4294967296 + 4294967296 * (b mod 4294967296)) mod 18446744073709551616 - 18446744073709551616) / 4294967296) mod 4294967296) 2147483648); lia.
Qed.
Lemma norm_imm64_mod x : - 2 ^ 63 <= x < 2 ^ 63 -> norm I64 (x mod 2 ^ 64) = x.
Proof.
  intros H. unfold norm. cbn [signed bits]. rewrite smod_of_mod by lia. apply smod_idem; [lia|change (64 - 1) with 63; lia].
Qed.
Lemma imm64_of_range a b : - 2 ^ 63 <= imm64_of a b < 2 ^ 63.
Proof. unfold imm64_of. apply norm_i64_range. Qed.

(** ** one printed line through the assembler's denotation *)
Definition renderable (i : insn) : bool :=
  match lookup (opc i) mnemonics with
  | Some (name, sh) =>
    negb (String.eqb name "tail_call") &&
    match sh with ShEndian => (imm i =? 16) || (imm i =? 32) || (imm i =? 64) | _ => true end
  | None => false
  end.

Definition dline (ln : line) : option (list insn) := denote (fst ln) (map rop_val (snd ln)).

Lemma string_eqb_false a b : String.eqb a b = false -> a <> b.
Proof. intros H E. subst. now rewrite String.eqb_refl in H. Qed.

Ltac kill_imm Hi :=
  match goal with |- context [0 <=? imm ?i] =>
    destruct (Z.leb_spec 0 (imm i));
    [ rewrite (mod32_nonneg (imm i)) by (fold_pows; lia); rewrite slot_of_some by (fold_pows; lia); reflexivity
    | rewrite slot_of_big_imm by (apply mod32_neg; fold_pows; lia); reflexivity ] end.

Lemma denote_line_generic name sh i :
  lookup (opc i) mnemonics = Some (name, sh) -> wf_insn i -> renderable i = true -> sh <> ShCall -> sh <> ShLddw ->
  dline (line_of name sh i (imm i)) = if expressible i then Some [canon_insn sh i] else None.
Proof.
  intros L (Ho & Hd & Hs & Hf & Hi) R N1 N2.
  pose proof (proj1 (forallb_forall _ _) tables_related _ (lookup_in _ _ _ L)) as TE. unfold table_entry_ok in TE.
  unfold renderable in R. unfold expressible. rewrite L in *. apply andb_true_iff in R as [R1 R2].
  unfold dline, line_of, denote. cbn [fst snd].
  unfold no_mnemonic in TE. apply negb_true_iff in R1. rewrite R1 in *. cbn [orb negb andb] in *.
  destruct (String.eqb name "stxxaddw") eqn:X1; cbn [orb negb andb] in *.
  { destruct sh; cbn [name_of]; try (destruct (map_get (T name) asm_table); [discriminate|reflexivity]).
    apply String.eqb_eq in X1. subst. apply lookup_in in L. unfold mnemonics in L. cbn [In] in L.
    repeat (destruct L as [L|L]; [discriminate L|]). destruct L. }
  destruct (String.eqb name "stxxadddw") eqn:X2; cbn [orb negb andb] in *.
  { destruct sh; cbn [name_of]; try (destruct (map_get (T name) asm_table); [discriminate|reflexivity]).
    apply String.eqb_eq in X2. subst. apply lookup_in in L. unfold mnemonics in L. cbn [In] in L.
    repeat (destruct L as [L|L]; [discriminate L|]). destruct L. }
  destruct sh; try contradiction; cbn [name_of rops_of map rop_val];
    try (destruct (map_get (T name) asm_table) as [[ash o']|]; [|discriminate];
         apply andb_true_iff in TE as [TE1 TE2]; apply ashape_eqb_eq in TE1; apply Z.eqb_eq in TE2; subst ash o';
         cbn [asm_kind asm_opc reg_form denote_ops canon_insn]; unfold one; rewrite ?norm_hex32;
         first [ kill_imm Hi
               | rewrite ?Z.sub_add; rewrite slot_of_some by (fold_pows; lia); reflexivity ]).
  (* byte swaps: the width is part of the mnemonic *)
  cbn [forallb] in TE. rewrite !andb_true_iff in TE. destruct TE as (T16 & T32 & T64 & _).
  rewrite !orb_true_iff, !Z.eqb_eq in R2.
  assert (G : forall n, imm i = n ->
            match map_get (T (name ++ fmt_dec n)) asm_table with
            | Some (SEndian m, o') => (m =? n) && (o' =? opc i) | _ => false end = true ->
            match map_get (T (name ++ fmt_dec (imm i))) asm_table with
            | Some (sh0, o0) => denote_ops sh0 o0 [Register (dst i)] | None => None end
            = Some [canon_insn ShEndian i]).
  { intros n E Tn. rewrite E. destruct (map_get (T (name ++ fmt_dec n)) asm_table) as [[ash o']|]; [|discriminate].
    destruct ash as [| | | | | | | | | | | | |m]; try discriminate. apply andb_true_iff in Tn as [A B]. apply Z.eqb_eq in A, B. subst m o'.
    cbn [denote_ops canon_insn]. unfold one. rewrite slot_of_some by (fold_pows; lia). rewrite E. reflexivity. }
  assert (X : (imm i =? 16) || (imm i =? 32) || (imm i =? 64) = true).
  { rewrite !orb_true_iff, !Z.eqb_eq. exact R2. }
  rewrite X. destruct R2 as [[E|E]|E]; [exact (G 16 E T16)|exact (G 32 E T32)|exact (G 64 E T64)].
Qed.

Lemma call_table name : lookup 0x85 mnemonics = Some (name, ShCall) -> name = "call"%string /\ map_get (T "call") asm_table = Some (SCall, 0x85).
Proof. intros H. destruct (lookup_call _ _ H) as [_ ->]. split; [reflexivity|vm_compute; reflexivity]. Qed.

Lemma denote_line_call name i :
  lookup (opc i) mnemonics = Some (name, ShCall) -> wf_insn i -> (src i = 0 \/ src i = 1) ->
  dline (line_of (if src i =? 0 then name else "callx"%string) ShCall i (imm i)) = if expressible i then Some [canon_insn ShCall i] else None.
Proof.
  intros L (Ho & Hd & Hs & Hf & Hi) S. destruct (lookup_call _ _ L) as [Eo ->].
  unfold expressible. rewrite L. change (negb ("call" =? "tail_call")%string && negb ("call" =? "stxxaddw")%string && negb ("call" =? "stxxadddw")%string) with true.
  cbn [andb]. unfold dline, line_of, denote. cbn [fst snd name_of rops_of map rop_val].
  destruct S as [S|S]; rewrite S.
  - change (0 =? 0) with true. cbv iota. replace (map_get (T "call") asm_table) with (Some (SCall, 0x85)) by (vm_compute; reflexivity).
    cbn [denote_ops canon_insn]. unfold one. rewrite norm_hex32, Eo, S. kill_imm Hi.
  - change (1 =? 0) with false. cbv iota. rewrite callx_entry.
    cbn [denote_ops canon_insn]. unfold one. rewrite norm_hex32, Eo, S. kill_imm Hi.
Qed.

Lemma denote_line_lddw name i i2 :
  lookup (opc i) mnemonics = Some (name, ShLddw) -> wf_insn i -> wf_insn i2 ->
  dline (line_of name ShLddw i (imm64_of (imm i) (imm i2))) = Some [canon_insn ShLddw i; mk 0 0 0 0 (imm i2)].
Proof.
  intros L (Ho & Hd & Hs & Hf & Hi) (_ & _ & _ & _ & Hi2). destruct (lookup_lddw _ _ L) as [Eo ->].
  unfold dline, line_of, denote. cbn [fst snd name_of rops_of map rop_val].
  replace (map_get (T "lddw") asm_table) with (Some (SLddw, 0x18)) by (vm_compute; reflexivity).
  rewrite norm_imm64_mod by apply imm64_of_range.
  cbn [denote_ops]. rewrite lo32_imm64, hi32_imm64 by (fold_pows; lia).
  rewrite !slot_of_some by (fold_pows; lia). cbn [canon_insn]. rewrite Eo. reflexivity.
Qed.

(** ** whole programs *)
Fixpoint all_renderable (l : list insn) : bool :=
  match l with
  | [] => true
  | i :: rest =>
    renderable i &&
    match lookup (opc i) mnemonics with
    | Some (_, ShLddw) => match rest with _ :: rest' => all_renderable rest' | [] => false end
    | _ => all_renderable rest
    end
  end.

Lemma renderable_facts i name sh : lookup (opc i) mnemonics = Some (name, sh) -> renderable i = true ->
  name <> "tail_call"%string /\ endian_ok sh i.
Proof.
  intros L R. unfold renderable in R. rewrite L in R. apply andb_true_iff in R as [R1 R2].
  split; [apply string_eqb_false; now apply negb_true_iff|].
  destruct sh; try exact I. cbn [endian_ok]. rewrite !orb_true_iff, !Z.eqb_eq in R2. lia.
Qed.

Definition dprog (ls : list line) : option (list insn) := denote_prog (map (fun x : line => ival (fst x) (snd x)) ls).

Lemma dprog_cons ln ls : dprog (ln :: ls) = match dline ln, dprog ls with Some a, Some b => Some (a ++ b) | _, _ => None end.
Proof. destruct ln as [n rs]. reflexivity. Qed.

Lemma lines_spec l : forall ls, Forall wf_insn l -> line_list l = Some ls -> all_renderable l = true ->
  Forall line_ok ls /\ dprog ls = if all_expressible l then Some (canon l) else None.
Proof.
  induction l as [| a | a b l IHl IHbl] using list2_ind; intros ls Hw HL HR.
  - cbn in HL. injection HL as <-. split; [constructor|reflexivity].
  - inversion Hw as [|? ? Wa _]; subst. rewrite line_list_cons in HL. cbn [all_renderable all_expressible canon] in *.
    destruct (lookup (opc a) mnemonics) as [[name sh]|] eqn:L; [|discriminate].
    apply andb_true_iff in HR as [Ra HR'].
    destruct (renderable_facts a name sh L Ra) as [NT EO].
    destruct sh; cbn [option_map line_list] in HL;
      try (injection HL as <-; split;
           [constructor; [eapply (line_of_ok (opc a)); [left; split; eassumption|assumption|assumption]|constructor]
           |rewrite dprog_cons, denote_line_generic by (try assumption; discriminate);
            destruct (expressible a); cbn [andb]; reflexivity]).
    + (* call *)
      destruct (lookup_call _ _ L) as [_ ->].
      assert (S : src a = 0 \/ src a = 1).
      { destruct (Z.eqb_spec (src a) 0); [now left|]. destruct (Z.eqb_spec (src a) 1); [now right|discriminate]. }
      pose proof (denote_line_call "call" a L Wa S) as D.
      destruct S as [S|S]; rewrite S in HL, D; [change (0 =? 0) with true in *|change (1 =? 0) with false in *; change (1 =? 1) with true in *];
        cbv iota in HL, D; cbn [option_map] in HL; injection HL as <-;
        (split; [constructor; [eapply (line_of_ok (opc a)); [first [left; split; eassumption | right; reflexivity]|assumption|exact I]|constructor]
                |rewrite dprog_cons, D; destruct (expressible a); reflexivity]).
    + discriminate.
  - inversion Hw as [|? ? Wa Wbl]; subst. inversion Wbl as [|? ? Wb Wl]; subst.
    rewrite line_list_cons in HL.
    change (all_renderable (a :: b :: l)) with (renderable a && match lookup (opc a) mnemonics with
             | Some (_, ShLddw) => all_renderable l | _ => all_renderable (b :: l) end) in HR.
    change (all_expressible (a :: b :: l)) with (expressible a && match lookup (opc a) mnemonics with
             | Some (_, ShLddw) => all_expressible l | _ => all_expressible (b :: l) end).
    change (canon (a :: b :: l)) with (match lookup (opc a) mnemonics with
             | Some (_, ShLddw) => canon_insn ShLddw a :: mk 0 0 0 0 (imm b) :: canon l
             | Some (_, sh) => canon_insn sh a :: canon (b :: l)
             | None => a :: canon (b :: l) end).
    destruct (lookup (opc a) mnemonics) as [[name sh]|] eqn:L; [|discriminate].
    apply andb_true_iff in HR as [Ra HR'].
    destruct (renderable_facts a name sh L Ra) as [NT EO].
    assert (G : forall n s, line_ok (line_of n s a (imm a)) ->
                dline (line_of n s a (imm a)) = (if expressible a then Some [canon_insn s a] else None) ->
                all_renderable (b :: l) = true ->
                option_map (cons (line_of n s a (imm a))) (line_list (b :: l)) = Some ls ->
                Forall line_ok ls /\ dprog ls = if expressible a && all_expressible (b :: l) then Some (canon_insn s a :: canon (b :: l)) else None).
    { intros n s LO D R' H. destruct (line_list (b :: l)) as [ls'|] eqn:E; [|discriminate]. cbn [option_map] in H. injection H as <-.
      destruct (IHbl ls' Wbl eq_refl R') as [I1 I2]. split; [constructor; assumption|].
      rewrite dprog_cons, D, I2. destruct (expressible a), (all_expressible (b :: l)); reflexivity. }
    destruct sh; cbv iota beta in HR', HL |- *;
      try (apply (G name); [eapply (line_of_ok (opc a)); [left; split; eassumption|assumption|assumption]
                    |apply denote_line_generic; (assumption || discriminate)|exact HR'|exact HL]).
    + (* call *)
      destruct (lookup_call _ _ L) as [_ ->].
      assert (S : src a = 0 \/ src a = 1).
      { destruct (Z.eqb_spec (src a) 0); [now left|]. destruct (Z.eqb_spec (src a) 1); [now right|discriminate]. }
      pose proof (denote_line_call "call" a L Wa S) as D.
      destruct S as [S|S]; rewrite S in HL, D; [change (0 =? 0) with true in *|change (1 =? 0) with false in *; change (1 =? 1) with true in *];
        cbv iota in HL, D;
        (eapply G; [|exact D|exact HR'|exact HL]; eapply (line_of_ok (opc a)); [first [left; split; eassumption | right; reflexivity]|assumption|exact I]).
    + (* lddw *)
      cbv iota beta in HL. destruct (line_list l) as [ls'|] eqn:E; [|discriminate]. cbn [option_map] in HL. injection HL as <-.
      destruct (IHl ls' Wl eq_refl HR') as [I1 I2]. split.
      * constructor; [eapply (line_of_ok (opc a)); [left; split; eassumption|assumption|exact I]|exact I1].
      * rewrite dprog_cons, (denote_line_lddw name a b L Wa Wb), I2.
        assert (X : expressible a = true).
        { unfold expressible. rewrite L. destruct (lookup_lddw _ _ L) as [_ ->]. reflexivity. }
        rewrite X. cbn [andb]. destruct (all_expressible l); reflexivity.
Qed.

Lemma decode_from_wf p : bytes_ok p -> forall n k, 0 <= k -> 8 * (k + Z.of_nat n) <= len p -> Forall wf_insn (decode_from p k n).
Proof.
  intros Hb. induction n as [|n IH]; intros k Hk Hl; cbn [decode_from]; [constructor|].
  constructor; [apply insn_k_wf; [exact Hb|lia|lia]|apply IH; lia].
Qed.
Lemma decode_all_wf p : bytes_ok p -> len p mod 8 = 0 -> Forall wf_insn (decode_all p).
Proof.
  intros Hb Hm. unfold decode_all. apply decode_from_wf; [exact Hb|lia|].
  unfold nsl. assert (0 <= len p) by (unfold len; lia). rewrite Z2Nat.id by (apply Z.div_pos; lia). lia.
Qed.

(** * C16 *)
Theorem roundtrip_spec p t :
  bytes_ok p -> len p mod 8 = 0 -> len p < 2 ^ 63 ->
  hl_list (decode_all p) = Some t -> all_renderable (decode_all p) = true ->
  roundtrip p = if all_expressible (decode_all p) then Ok (bytes_of_insns (canon (decode_all p))) else Err 0.
Proof.
  intros Hb Hm Hx Ht Hr.
  rewrite (RoundTripProofs.roundtrip_text p t Hb Hm Hx Ht).
  destruct (hl_line_list _ _ Ht) as (ls & L1 & L2).
  destruct (lines_spec _ ls (decode_all_wf p Hb Hm) L1 Hr) as [LO D].
  rewrite (join_prog (map h_desc t) ls) by (rewrite map_map; exact L2).
  rewrite (assemble_after_parse U_none _ _ (parse_prog_text U_none ls LO)).
  match goal with |- res_of (option_map _ ?X) = _ => change X with (dprog ls) end.
  rewrite D. destruct (all_expressible (decode_all p)); reflexivity.
Qed.

(** encoding the decoded instructions of a program of whole slots gives the program back *)
Lemma firstn_add_split {A} (a b : nat) (l : list A) : firstn (a + b) l = firstn a l ++ firstn b (skipn a l).
Proof.
  revert l. induction a as [|a IH]; intros l; [reflexivity|]. destruct l as [|x l]; [now rewrite !firstn_nil|].
  cbn [Nat.add firstn skipn app]. now rewrite IH.
Qed.
Lemma skipn_add {A} (a b : nat) (l : list A) : skipn a (skipn b l) = skipn (b + a) l.
Proof.
  revert l. induction b as [|b IH]; intros l; [reflexivity|]. destruct l as [|x l]; [now rewrite !skipn_nil|].
  cbn [Nat.add skipn]. apply IH.
Qed.

Lemma encode_decode_from p : bytes_ok p -> forall n k, 0 <= k -> 8 * (k + Z.of_nat n) <= len p ->
  bytes_of_insns (decode_from p k n) = firstn (8 * n) (skipn (Z.to_nat (8 * k)) p).
Proof.
  intros Hb. induction n as [|n IH]; intros k Hk Hl; [reflexivity|].
  cbn [decode_from]. unfold bytes_of_insns in *. cbn [flat_map]. rewrite IH by lia.
  unfold insn_k. rewrite encode_decode; [| apply slot_length; lia | apply slot_bytes; exact Hb ].
  replace (8 * S n)%nat with (8 + 8 * n)%nat by lia. rewrite firstn_add_split. f_equal.
  rewrite skipn_add. f_equal. f_equal. lia.
Qed.

Lemma encode_decode_all p : bytes_ok p -> len p mod 8 = 0 -> bytes_of_insns (decode_all p) = p.
Proof.
  intros Hb Hm. unfold decode_all. assert (H0 : 0 <= len p) by (unfold len; lia).
  assert (Hn : len p = 8 * nsl p) by (unfold nsl; pose proof (Z.div_mod (len p) 8 ltac:(lia)); lia).
  rewrite encode_decode_from; [|exact Hb|lia|rewrite Z2Nat.id by (unfold nsl; apply Z.div_pos; lia); lia].
  cbn [Z.mul Z.to_nat skipn]. apply firstn_all2. unfold len in Hn. lia.
Qed.

(** first sentence of C16: a program in canonical form whose instructions the assembler can express is reproduced *)
Theorem roundtrip_exact p t :
  bytes_ok p -> len p mod 8 = 0 -> len p < 2 ^ 63 ->
  hl_list (decode_all p) = Some t -> all_renderable (decode_all p) = true ->
  all_expressible (decode_all p) = true -> canon (decode_all p) = decode_all p ->
  roundtrip p = Ok p.
Proof.
  intros Hb Hm Hx Ht Hr He Hc. rewrite (roundtrip_spec p t) by assumption. rewrite He, Hc. now rewrite encode_decode_all.
Qed.

(** second sentence: whenever the assembler accepts the text, the result is the canonical form *)
Theorem roundtrip_canonical p t q :
  bytes_ok p -> len p mod 8 = 0 -> len p < 2 ^ 63 ->
  hl_list (decode_all p) = Some t -> all_renderable (decode_all p) = true ->
  roundtrip p = Ok q -> q = bytes_of_insns (canon (decode_all p)).
Proof.
  intros Hb Hm Hx Ht Hr H. rewrite (roundtrip_spec p t) in H by assumption.
  destruct (all_expressible (decode_all p)); [now injection H as <-|discriminate].
Qed.
