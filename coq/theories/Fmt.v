(** Rust formatting of integers as used by the disassembler: `{}` (decimal) and `{:#x}`
    (0x-prefixed lower-case hexadecimal; negative values print the two's complement of their width). *)
From Coq Require Import ZArith List Bool Ascii String.
From RbpfV Require Import MachInt.
Import ListNotations.
Open Scope Z_scope.

Definition digit_char (d : Z) : ascii :=
  ascii_of_nat (Z.to_nat (if d <? 10 then 48 + d else 87 + d)).    (* '0'..'9', 'a'..'f' *)

Fixpoint digits_rev (fuel : nat) (base x : Z) : list Z :=
  match fuel with
  | O => []
  | S f => if x <? base then [x] else (x mod base) :: digits_rev f base (x / base)
  end.
Definition digits (base x : Z) : list Z := rev (digits_rev 64 base x).

Fixpoint string_of_chars (l : list ascii) : string :=
  match l with [] => EmptyString | c :: r => String c (string_of_chars r) end.

Definition fmt_unsigned (base x : Z) : string := string_of_chars (map digit_char (digits base x)).
(** `{}` *)
Definition fmt_dec (x : Z) : string := if x <? 0 then String "-" (fmt_unsigned 10 (- x)) else fmt_unsigned 10 x.
(** `{:#x}` of a value of type [t] *)
Definition fmt_hex (t : ity) (x : Z) : string := String "0" (String "x" (fmt_unsigned 16 (x mod 2 ^ bits t))).

Fixpoint bytes_of_string (s : string) : list Z :=
  match s with EmptyString => [] | String c r => Z.of_nat (nat_of_ascii c) :: bytes_of_string r end.
