(** Common definitions and value lemmas for the per-opcode refinement proofs
    (generated interpreter arm = ISA specification). *)
From Coq Require Import ZArith Lia Bool List.
From RbpfV Require Import MachInt BitLemmas ListLemmas Ebpf Mem InterpDefs WellFormed Isa.
From RbpfV.gen Require Import Opcodes Codec Interp.
Import ListNotations.
Open Scope Z_scope.
Ltac Zify.zify_post_hook ::= Z.div_mod_to_equations.

Definition conv (r : res stepres) : res (ctl (Z * mem) istate) :=
  match r with
  | Ok (SNext s) => Ok (Next s)
  | Ok (SRet v m) => Ok (Ret (v, m))
  | Err e => Err e
  | Panic s => Panic s
  | OutOfFuel => OutOfFuel
  end.

(** registers hold 64-bit values *)
Definition regs_ok (reg : list Z) : Prop := length reg = 11%nat /\ Forall (fun v => 0 <= v < 2 ^ 64) reg.

Lemma rd_range reg i : regs_ok reg -> 0 <= rd reg i < 2 ^ 64.
Proof.
  intros [Hl Hf]. unfold rd. destruct (Nat.lt_ge_cases (Z.to_nat i) (length reg)) as [L|L].
  - rewrite Forall_forall in Hf. apply Hf, nth_In, L.
  - rewrite nth_overflow by exact L. fold_pows. lia.
Qed.

Lemma upd_nat_length {A} (l : list A) i v : length (upd_nat l i v) = length l.
Proof. revert i; induction l; intros [|i]; cbn; auto. Qed.
Lemma upd_nat_Forall {A} (P : A -> Prop) l i v : Forall P l -> P v -> Forall P (upd_nat l i v).
Proof.
  intros Hl Hv. revert i. induction Hl; intros [|i]; cbn; constructor; auto.
Qed.
Lemma upd_regs_ok reg i v : regs_ok reg -> 0 <= v < 2 ^ 64 -> regs_ok (upd reg i v).
Proof. intros [Hl Hf] Hv. split; unfold upd; [now rewrite upd_nat_length|now apply upd_nat_Forall]. Qed.

(** casts of in-range values *)
Lemma cast_u64_id x : 0 <= x < 2 ^ 64 -> cast U64 x = x.
Proof. intros. unfold cast, norm; cbn [signed bits]. now apply umod_small. Qed.
Lemma cast_usz_id x : 0 <= x < 2 ^ 64 -> cast USZ x = x.
Proof. intros. unfold cast, norm; cbn [signed bits]. now apply umod_small. Qed.
Lemma cast_u64_mod x : cast U64 x = x mod 2 ^ 64. Proof. reflexivity. Qed.
Lemma cast_u32_mod x : cast U32 x = x mod 2 ^ 32. Proof. reflexivity. Qed.
Lemma cast_u16_mod x : cast U16 x = x mod 2 ^ 16. Proof. reflexivity. Qed.
Lemma cast_u8_mod x : cast U8 x = x mod 2 ^ 8. Proof. reflexivity. Qed.
Lemma cast_i32_smod x : cast I32 x = smod 32 x. Proof. reflexivity. Qed.
Lemma cast_i64_smod x : cast I64 x = smod 64 x. Proof. reflexivity. Qed.
Lemma cast_isz_smod x : cast ISZ x = smod 64 x. Proof. reflexivity. Qed.

Lemma mod_mod_pow x a b : 0 <= b <= a -> (x mod 2 ^ a) mod 2 ^ b = x mod 2 ^ b.
Proof.
  intros H. symmetry. apply Znumtheory.Zmod_div_mod; try (apply pow2_pos; lia).
  exists (2 ^ (a - b)). rewrite <- Z.pow_add_r by lia. f_equal. lia.
Qed.
Lemma mod_pow_small x a b : 0 <= a <= b -> (x mod 2 ^ a) mod 2 ^ b = x mod 2 ^ a.
Proof.
  intros H. apply Z.mod_small. pose proof (Z.mod_pos_bound x (2 ^ a) (pow2_pos a ltac:(lia))).
  assert (2 ^ a <= 2 ^ b) by (apply Z.pow_le_mono_r; lia). lia.
Qed.

(** congruence modulo 2^w with the ring operations *)
Definition cong (w a b : Z) : Prop := a mod 2 ^ w = b mod 2 ^ w.
Lemma cong_refl w a : cong w a a. Proof. reflexivity. Qed.
Lemma cong_sym w a b : cong w a b -> cong w b a. Proof. unfold cong; auto. Qed.
Lemma cong_trans w a b c : cong w a b -> cong w b c -> cong w a c. Proof. unfold cong; congruence. Qed.
Lemma cong_add w a a' b b' : 0 <= w -> cong w a a' -> cong w b b' -> cong w (a + b) (a' + b').
Proof. unfold cong; intros Hw Ha Hb. pose proof (pow2_pos w Hw). rewrite Z.add_mod, Ha, Hb, <- Z.add_mod; lia. Qed.
Lemma cong_sub w a a' b b' : 0 <= w -> cong w a a' -> cong w b b' -> cong w (a - b) (a' - b').
Proof. unfold cong; intros Hw Ha Hb. pose proof (pow2_pos w Hw). rewrite Zminus_mod, Ha, Hb, <- Zminus_mod; lia. Qed.
Lemma cong_mul w a a' b b' : 0 <= w -> cong w a a' -> cong w b b' -> cong w (a * b) (a' * b').
Proof. unfold cong; intros Hw Ha Hb. pose proof (pow2_pos w Hw). rewrite Z.mul_mod, Ha, Hb, <- Z.mul_mod; lia. Qed.
Lemma cong_opp w a a' : 0 <= w -> cong w a a' -> cong w (- a) (- a').
Proof. intros Hw H. replace (- a) with (0 - a) by lia. replace (- a') with (0 - a') by lia. apply cong_sub; [exact Hw|reflexivity|exact H]. Qed.
Lemma cong_mod w v x : 0 <= w <= v -> cong w (x mod 2 ^ v) x.
Proof. intros H. unfold cong. apply mod_mod_pow; lia. Qed.
Lemma cong_smod w v x : 0 < v -> 0 <= w <= v -> cong w (smod v x) x.
Proof. intros Hv H. unfold cong. rewrite <- (mod_mod_pow (smod v x) v w) by lia. rewrite smod_mod by lia. apply mod_mod_pow; lia. Qed.

(** decision procedure for goals [A mod 2^w = B mod 2^w] built from + - * opp, mod 2^v and smod v (v >= w) *)
Ltac cong_tac w :=
  lazymatch goal with
  | |- cong w ?a ?a => apply cong_refl
  | |- cong w (?a + ?b) (?a' + ?b') => apply cong_add; [lia|cong_tac w|cong_tac w]
  | |- cong w (?a - ?b) (?a' - ?b') => apply cong_sub; [lia|cong_tac w|cong_tac w]
  | |- cong w (?a * ?b) (?a' * ?b') => apply cong_mul; [lia|cong_tac w|cong_tac w]
  | |- cong w (- ?a) (- ?a') => apply cong_opp; [lia|cong_tac w]
  | |- cong w (?x mod 2 ^ ?v) ?y => apply (cong_trans w _ x); [apply cong_mod; lia|cong_tac w]
  | |- cong w (smod ?v ?x) ?y => apply (cong_trans w _ x); [apply cong_smod; lia|cong_tac w]
  | |- cong w ?y (?x mod 2 ^ ?v) => apply cong_sym, (cong_trans w _ x); [apply cong_mod; lia|apply cong_sym; cong_tac w]
  | |- cong w ?y (smod ?v ?x) => apply cong_sym, (cong_trans w _ x); [apply cong_smod; lia|apply cong_sym; cong_tac w]
  | |- cong w ?a ?a => apply cong_refl
  end.

(** * common shape of an arm proof *)
Lemma next_reg_eq reg d v v' (n f : Z) (st : list frame) (m : mem) : v = v' ->
  @Ok (ctl (Z * mem) istate) (Next (upd reg d v, n, f, st, m)) = Ok (Next (upd reg d v', n, f, st, m)).
Proof. now intros ->. Qed.

Ltac decode_isa :=
  match goal with
  | |- context [isa_exec_dec ?o (?o mod 8) (?o / 16) ((?o / 8) mod 2 =? 1)] =>
      let c := eval vm_compute in (o mod 8) in
      let p := eval vm_compute in (o / 16) in
      let u := eval vm_compute in ((o / 8) mod 2 =? 1) in
      change (isa_exec_dec o (o mod 8) (o / 16) ((o / 8) mod 2 =? 1)) with (isa_exec_dec o c p u)
  end.

Arguments Z.pow : simpl never. Arguments Z.mul : simpl never. Arguments Z.add : simpl never.
Arguments Z.sub : simpl never. Arguments Z.modulo : simpl never. Arguments Z.div : simpl never.
Arguments Z.land : simpl never. Arguments Z.lor : simpl never. Arguments Z.lxor : simpl never.
Arguments Z.opp : simpl never. Arguments Z.quot : simpl never. Arguments Z.rem : simpl never.
Arguments Z.shiftl : simpl never. Arguments Z.shiftr : simpl never.
Arguments cast : simpl never. Arguments wadd : simpl never. Arguments wsub : simpl never.
Arguments wmul : simpl never. Arguments wneg : simpl never. Arguments wshl : simpl never.
Arguments wshr : simpl never. Arguments smod : simpl never. Arguments rd : simpl never.
Arguments upd : simpl never. Arguments mload : simpl never. Arguments mstore : simpl never.
Arguments cadd : simpl never. Arguments csub : simpl never. Arguments cmul : simpl never.
Arguments cdiv : simpl never. Arguments crem : simpl never. Arguments cshl : simpl never.
Arguments cshr : simpl never. Arguments cneg : simpl never. Arguments swap_bytes : simpl never.
Arguments to_big : simpl never. Arguments to_little : simpl never. Arguments chk_load : simpl never.
Arguments chk_store : simpl never. Arguments access_ok : simpl never. Arguments is_multiple_of : simpl never.
Arguments le_bytes : simpl never. Arguments of_le_bytes : simpl never. Arguments gen_get_insn : simpl never.
Arguments insn_at : simpl never.

(** start of an arm proof: select the generated arm and the ISA branch of a concrete opcode *)
Ltac arm_start :=
  unfold isa_exec;
  match goal with H : opc _ = _ |- _ => rewrite H end;
  decode_isa; unfold gen_interp_arm, isa_exec_dec; simpl;
  repeat match goal with |- context [?f ?E ?i ?d ?s ?r ?n ?x ?st ?m] =>
    match type of f with ienv -> insn -> Z -> Z -> list Z -> Z -> Z -> list frame -> mem -> _ => unfold f end end;
  simpl.
