(** C04 (byte swaps, the wide load, the helper call): the Cranelift IR that src/cranelift.rs builds for LE / BE at each
    width and for LD_DW_IMM (regenerated into coq/gen/ClMisc.v) computes, for all register values, the value the ISA
    specification assigns; the helper call reads r1..r5, defines r0 and looks the helper up under (imm as u32). *)
From Coq Require Import ZArith Lia Bool List.
From RbpfV Require Import MachInt BitLemmas Ebpf ClirSem Isa ArmBase ArmVals ClAluProofs.
From RbpfV.gen Require Import Opcodes ClMisc.
Import ListNotations.
Open Scope Z_scope.
Ltac Zify.zify_post_hook ::= Z.div_mod_to_equations.

(** the value the ISA gives the destination of a byte swap *)
Definition isa_endian_value (big : bool) (w rd : Z) : Z := if big then to_big w rd else to_little w rd.

Definition gen_cl_endian (big : bool) (w : Z) : Z -> Z -> option Z :=
  if big then (if w =? 16 then gen_cl_be16 else if w =? 32 then gen_cl_be32 else gen_cl_be64)
  else (if w =? 16 then gen_cl_le16 else if w =? 32 then gen_cl_le32 else gen_cl_le64).

Theorem cl_endian_arms : forall big w rd rs, In w [16; 32; 64] -> 0 <= rd < 2 ^ 64 ->
  newval (gen_cl_endian big w rd rs) rd = isa_endian_value big w rd.
Proof.
  intros big w rd rs Hw Hr.
  assert (W : w = 16 \/ w = 32 \/ w = 64) by (cbn [In] in Hw; intuition).
  destruct W as [-> | [-> | ->]]; destruct big; unfold gen_cl_endian, isa_endian_value; cbn [Z.eqb Pos.eqb];
    unfold gen_cl_be16, gen_cl_be32, gen_cl_be64, gen_cl_le16, gen_cl_le32, gen_cl_le64; cbn [newval];
    unfold ir_uextend, ir_ireduce, ir_bswap, to_big, to_little.
  - rewrite Z.mod_mod by (fold_pows; lia). reflexivity.
  - reflexivity.
  - rewrite Z.mod_mod by (fold_pows; lia). reflexivity.
  - reflexivity.
  - reflexivity.
  - symmetry. apply Z.mod_small. exact Hr.
Qed.

Lemma iconst64_id v : 0 <= v < 2 ^ 64 -> ir_iconst 64 (cast I64 v) = v.
Proof. intros Hv. unfold ir_iconst, cast, norm. cbn [signed bits]. rewrite smod_mod by lia. now apply Z.mod_small. Qed.

(** the wide load: no intermediate overflow, and the constant is low + high * 2^32 *)
Theorem cl_lddw_arm : forall lo hi, - 2 ^ 31 <= lo < 2 ^ 31 -> - 2 ^ 31 <= hi < 2 ^ 31 ->
  gen_cl_lddw lo hi = Ok (u64 (u32 lo + u32 hi * 2 ^ 32)).
Proof.
  intros lo hi Hlo Hhi. unfold gen_cl_lddw.
  unfold cshl. cbn [bits]. change ((0 <=? 32) && (32 <? 64)) with true. cbv iota. cbn [bind].
  assert (V : cast U64 (cast U32 lo) + norm U64 (cast U64 hi * 2 ^ 32) = u64 (u32 lo + u32 hi * 2 ^ 32)).
  { unfold cast, norm, u64, u32; cbn [signed bits]; unfold umod.
    rewrite mod_pow_small by lia.
    pose proof (modp_range lo 32 ltac:(lia)) as R1. pose proof (modp_range hi 32 ltac:(lia)) as R2.
    assert (E1 : (hi mod 2 ^ 64 * 2 ^ 32) mod 2 ^ 64 = (hi mod 2 ^ 32) * 2 ^ 32).
    { change (2 ^ 64) with (2 ^ 32 * 2 ^ 32) at 2. rewrite Z.mul_mod_distr_r by (fold_pows; lia).
      now rewrite mod_mod_pow by lia. }
    rewrite E1. symmetry. apply Z.mod_small. clear - R1 R2. fold_pows. lia. }
  unfold cadd. rewrite V.
  pose proof (modp_range (u32 lo + u32 hi * 2 ^ 32) 64 ltac:(lia)) as R.
  rewrite chk_ok by (unfold in_ty, tmin, tmax, u64; cbn [signed bits]; lia).
  cbn [bind]. f_equal. unfold u64 in *. apply iconst64_id. exact R.
Qed.

(** the helper call: refuses local calls (the verifier's job in the other engines), keys the helper by the unsigned
    immediate, passes r1..r5 in order and defines r0 -- the ISA's helper-call rule *)
Theorem cl_call_shape : forall i, - 2 ^ 31 <= imm i < 2 ^ 31 ->
  gen_cl_call_refuses_local = true /\ gen_cl_call_key i = u32 (imm i) /\ gen_cl_call_args = [1; 2; 3; 4; 5] /\ gen_cl_call_result = 0.
Proof.
  intros i Hi. repeat split.
Qed.
