(** C13, end to end: any text in the documented syntax (GenText: every number spelling, free white space) assembles to the
    specified encoding of the instructions it spells, in source order -- or to an error and no bytes when one of them denotes
    nothing (unknown mnemonic, wrong operand shape, operand out of range). *)
From Coq Require Import ZArith List.
From RbpfV Require Import MachInt Ebpf AsmDefs AsmParser AsmModel AsmSpec AsmProofs AsmEncode TextParse GenText.
Import ListNotations.
Open Scope Z_scope.

Theorem assemble_text U lead l : ws_ok lead -> gprog_wf l ->
  assemble U (lead ++ gprog_text l) =
  res_of (option_map bytes_of_insns (denote_prog (map (fun x => gline_val (fst x)) l))).
Proof.
  intros Hl W. apply assemble_after_parse. now apply parse_gprog.
Qed.
