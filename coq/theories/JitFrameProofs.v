(** C09 / C03 (x86-64 JIT, frame code): the prologue jit_compile emits for each VM kind, its epilogue and the local-call
    sequence (regenerated into coq/gen/JitFrame.v), under the stack machine X86Stk.v. *)
From Coq Require Import ZArith Lia Bool List.
From RbpfV Require Import MachInt X86Enc X86Sem X86Seq X86Stk JitArmsProofs.
From RbpfV.gen Require Import JitFrame.
Import ListNotations.
Open Scope Z_scope.
Ltac Zify.zify_post_hook ::= Z.div_mod_to_equations.

Lemma wrap64_small a : 0 <= a < 2 ^ 64 -> wrap64 a = a.
Proof. intros H. unfold wrap64. now apply Z.mod_small. Qed.

(** ** one instruction at a time *)
Section KSteps.
Variables (R : regs) (m : bmem) (l : list xi).
Lemma k_push r : krun (XPush r :: l) (R, m) = krun l (rset R 4 (wrap64 (R 4 - 8)), store8 m (wrap64 (R 4 - 8)) (R r)).
Proof. reflexivity. Qed.
Lemma k_pop r : krun (XPop r :: l) (R, m) = krun l (rset (rset R r (load8 m (R 4))) 4 (wrap64 (R 4 + 8)), m).
Proof. reflexivity. Qed.
Lemma k_mov a b : krun (XAlu 1 137 a b :: l) (R, m) = krun l (rset R b (R a mod 2 ^ 64 mod 2 ^ 64), m).
Proof. reflexivity. Qed.
Lemma k_add a b : krun (XAlu 1 1 a b :: l) (R, m) = krun l (rset R b ((R b mod 2 ^ 64 + R a mod 2 ^ 64) mod 2 ^ 64), m).
Proof. reflexivity. Qed.
Lemma k_subi r i : krun (XAluI32 1 129 5 r i :: l) (R, m) = krun l (rset R r ((R r mod 2 ^ 64 - i mod 2 ^ 64) mod 2 ^ 64), m).
Proof. reflexivity. Qed.
Lemma k_addi r i : krun (XAluI32 1 129 0 r i :: l) (R, m) = krun l (rset R r ((R r mod 2 ^ 64 + i mod 2 ^ 64) mod 2 ^ 64), m).
Proof. reflexivity. Qed.
Lemma k_store reg base d : krun (XStore 64 reg base d :: l) (R, m) = krun l (R, store8 m (wrap64 (R base + d)) (R reg)).
Proof. reflexivity. Qed.
Lemma k_load base reg d : krun (XLoad 64 base reg d :: l) (R, m) = krun l (rset R reg (load8 m (wrap64 (R base + d))), m).
Proof. reflexivity. Qed.
End KSteps.

Ltac rs := repeat first [rewrite rset_same | rewrite rset_other by (assumption || lia)].
Ltac kstep1 := first [rewrite k_push | rewrite k_pop | rewrite k_mov | rewrite k_add | rewrite k_subi | rewrite k_addi
                     | rewrite k_store | rewrite k_load]; rs.

Lemma apart_slots a b : 0 <= a < 2 ^ 64 -> 0 <= b < 2 ^ 64 -> 8 <= b - a \/ 8 <= a - b -> a - b < 2 ^ 63 -> b - a < 2 ^ 63 -> apart a b.
Proof. intros Ha Hb D L1 L2. unfold apart. change (2 ^ 64) with 18446744073709551616 in *. change (2 ^ 63) with 9223372036854775808 in *. lia. Qed.

(** entry state of the compiled function (System V): rdi = metadata pointer, rsi = its length, rdx = packet pointer,
    rcx = packet length, r8 / r9 = the two offsets of the fixed metadata buffer; rsp = sp0 *)
Section Frame.
Variables (R0 : regs) (m0 : bmem).
Hypothesis HR : forall r, 0 <= R0 r < 2 ^ 64.
Let sp0 := R0 4.
Hypothesis Hsp : 1024 <= sp0.

Definition saved (m : bmem) : Prop :=
  load8 m (sp0 - 8) = R0 5 /\ load8 m (sp0 - 16) = R0 3 /\ load8 m (sp0 - 24) = R0 13 /\
  load8 m (sp0 - 32) = R0 14 /\ load8 m (sp0 - 40) = R0 15.

Definition body_of (l : list xi) : list xi := firstn (length l - 2) l.

Let H4 : 0 <= sp0 < 2 ^ 64 := HR 4.

Definition R5 : regs := rset (rset (rset (rset (rset R0 4 (sp0 - 8)) 4 (sp0 - 16)) 4 (sp0 - 24)) 4 (sp0 - 32)) 4 (sp0 - 40).
Definition m5 : bmem :=
  store8 (store8 (store8 (store8 (store8 m0 (sp0 - 8) (R0 5)) (sp0 - 16) (R0 3)) (sp0 - 24) (R0 13)) (sp0 - 32) (R0 14)) (sp0 - 40) (R0 15).

Lemma k_pushes l : krun (XPush 5 :: XPush 3 :: XPush 13 :: XPush 14 :: XPush 15 :: l) (R0, m0) = krun l (R5, m5).
Proof.
  pose proof H4 as H. unfold R5, m5.
  kstep1. fold sp0. rewrite (wrap64_small (sp0 - 8)) by lia.
  kstep1. replace (sp0 - 8 - 8) with (sp0 - 16) by ring. rewrite (wrap64_small (sp0 - 16)) by lia.
  kstep1. replace (sp0 - 16 - 8) with (sp0 - 24) by ring. rewrite (wrap64_small (sp0 - 24)) by lia.
  kstep1. replace (sp0 - 24 - 8) with (sp0 - 32) by ring. rewrite (wrap64_small (sp0 - 32)) by lia.
  kstep1. replace (sp0 - 32 - 8) with (sp0 - 40) by ring. rewrite (wrap64_small (sp0 - 40)) by lia.
  reflexivity.
Qed.

Lemma R5_4 : R5 4 = sp0 - 40. Proof. unfold R5. now rewrite rset_same. Qed.
Lemma R5_other r : r <> 4 -> R5 r = R0 r. Proof. intros N. unfold R5. now rewrite !rset_other by assumption. Qed.

Lemma saved_m5 : saved m5.
Proof.
  pose proof H4 as H. unfold saved, m5.
  assert (A : forall a b, 0 <= a -> a < sp0 -> 0 <= b -> b < sp0 -> 8 <= b - a \/ 8 <= a - b -> a - b < 100 -> b - a < 100 -> apart a b).
  { intros a b ? ? ? ? ? ? ?. apply apart_slots; change (2 ^ 63) with 9223372036854775808; lia. }
  repeat split.
  - rewrite !load_store_other by (apply A; lia). apply load_store_same; [lia|apply HR].
  - rewrite !load_store_other by (apply A; lia). apply load_store_same; [lia|apply HR].
  - rewrite !load_store_other by (apply A; lia). apply load_store_same; [lia|apply HR].
  - rewrite !load_store_other by (apply A; lia). apply load_store_same; [lia|apply HR].
  - apply load_store_same; [lia|apply HR].
Qed.

(** the frame set up after the pushes: rbp (eBPF r10) = rsp after the pushes, rsp 8 + 512 bytes below it *)
Definition framed (R : regs) : Prop := R 5 = sp0 - 40 /\ R 4 = sp0 - 40 - (gen_jit_stack_size + 8).

Definition ends_with_landing (l : list xi) : Prop :=
  exists t, l = body_of l ++ [XCallRel 5; XJmpPc t] /\ xsize (XJmpPc t) = Some 5.

Theorem jit_prologue_nombuff :
  ends_with_landing gen_jit_prologue_nombuff /\
  exists R, krun (body_of gen_jit_prologue_nombuff) (R0, m0) = Some (R, m5) /\
    R 7 = R0 2 /\ R 10 = R0 2 /\ framed R /\ saved m5 /\ forall r, ~ In r [4; 5; 7; 10] -> R r = R0 r.
Proof.
  split; [eexists; split; reflexivity|].
  unfold body_of, gen_jit_prologue_nombuff. cbn [length Nat.sub firstn]. rewrite k_pushes.
  pose proof H4 as H. pose proof (HR 2) as H2.
  kstep1. rewrite R5_other by lia. rewrite !(Z.mod_small (R0 2)) by assumption.
  kstep1. rewrite R5_other by lia. rewrite !(Z.mod_small (R0 2)) by assumption.
  kstep1. rewrite R5_4. rewrite !(Z.mod_small (sp0 - 40)) by lia.
  kstep1. rewrite R5_4. rewrite (Z.mod_small (sp0 - 40)) by lia. change (520 mod 2 ^ 64) with 520. rewrite (Z.mod_small (sp0 - 40 - 520)) by lia.
  eexists. split; [reflexivity|]. rs.
  split; [reflexivity|]. split; [reflexivity|]. split; [split; [reflexivity|reflexivity]|]. split; [exact saved_m5|].
  intros r N. cbn [In] in N. rewrite !rset_other by lia. apply R5_other. lia.
Qed.

Theorem jit_prologue_mbuff :
  ends_with_landing gen_jit_prologue_mbuff /\
  exists R, krun (body_of gen_jit_prologue_mbuff) (R0, m0) = Some (R, m5) /\
    R 7 = R0 7 /\ R 10 = R0 2 /\ framed R /\ saved m5 /\ forall r, ~ In r [4; 5; 10] -> R r = R0 r.
Proof.
  split; [eexists; split; reflexivity|].
  unfold body_of, gen_jit_prologue_mbuff. cbn [length Nat.sub firstn]. rewrite k_pushes.
  pose proof H4 as H. pose proof (HR 2) as H2.
  kstep1. rewrite R5_other by lia. rewrite !(Z.mod_small (R0 2)) by assumption.
  kstep1. rewrite R5_4. rewrite !(Z.mod_small (sp0 - 40)) by lia.
  kstep1. rewrite R5_4. rewrite (Z.mod_small (sp0 - 40)) by lia. change (520 mod 2 ^ 64) with 520. rewrite (Z.mod_small (sp0 - 40 - 520)) by lia.
  eexists. split; [reflexivity|]. rs.
  split; [apply R5_other; lia|]. split; [reflexivity|]. split; [split; [reflexivity|reflexivity]|]. split; [exact saved_m5|].
  intros r N. cbn [In] in N. rewrite !rset_other by lia. apply R5_other. lia.
Qed.

(** fixed metadata buffer: r8 / r9 hold the two offsets; the packet pointer is written at metadata + r8, the packet end at
    metadata + r9 -- provided the two words do not overlap each other or the five saved registers *)
Definition A1 : Z := (R0 8 + R0 7) mod 2 ^ 64.
Definition A2 : Z := (R0 9 + R0 7) mod 2 ^ 64.
Definition mem_end : Z := (R0 2 + R0 1) mod 2 ^ 64.
Definition slots : list Z := [sp0 - 8; sp0 - 16; sp0 - 24; sp0 - 32; sp0 - 40].
Definition mfix : bmem := store8 (store8 m5 A1 (R0 2)) A2 mem_end.

Theorem jit_prologue_fixed :
  apart A1 A2 -> apart A2 A1 -> (forall a, In a slots -> apart A1 a /\ apart A2 a) ->
  ends_with_landing gen_jit_prologue_fixed /\
  exists R, krun (body_of gen_jit_prologue_fixed) (R0, m0) = Some (R, mfix) /\
    R 7 = R0 7 /\ R 10 = R0 2 /\ framed R /\
    load8 mfix A1 = R0 2 /\ load8 mfix A2 = mem_end /\ saved mfix /\
    (forall r, ~ In r [4; 5; 8; 9; 10] -> R r = R0 r) /\
    (forall x, 8 <= (x - A1) mod 2 ^ 64 -> 8 <= (x - A2) mod 2 ^ 64 -> mfix x = m5 x).
Proof.
  intros D12 D21 Dsl.
  split; [eexists; split; reflexivity|].
  unfold body_of, gen_jit_prologue_fixed. cbn [length Nat.sub firstn]. rewrite k_pushes.
  pose proof H4 as H. pose proof (HR 2) as H2. pose proof (HR 1) as H1. pose proof (HR 7) as H7. pose proof (HR 8) as H8. pose proof (HR 9) as H9.
  assert (RA1 : 0 <= A1 < 2 ^ 64) by (apply Z.mod_pos_bound; change (2 ^ 64) with 18446744073709551616; lia).
  assert (RA2 : 0 <= A2 < 2 ^ 64) by (apply Z.mod_pos_bound; change (2 ^ 64) with 18446744073709551616; lia).
  kstep1. rewrite R5_other by lia. rewrite !(Z.mod_small (R0 2)) by assumption.
  kstep1. rewrite !R5_other by lia. rewrite (Z.mod_small (R0 8)), (Z.mod_small (R0 7)) by assumption. fold A1.
  kstep1. rewrite R5_other by lia. rewrite Z.add_0_r, (wrap64_small A1) by assumption.
  kstep1. rewrite Z.add_0_r, (wrap64_small A1) by assumption. rewrite load_store_same by assumption.
  kstep1. rewrite R5_other by lia. rewrite (Z.mod_small (R0 2)), (Z.mod_small (R0 1)) by assumption. fold mem_end.
  kstep1. rewrite !R5_other by lia. rewrite (Z.mod_small (R0 9)), (Z.mod_small (R0 7)) by assumption. fold A2.
  kstep1. rewrite Z.add_0_r, (wrap64_small A2) by assumption. fold mfix.
  kstep1. rewrite R5_4. rewrite !(Z.mod_small (sp0 - 40)) by lia.
  kstep1. rewrite R5_4. rewrite (Z.mod_small (sp0 - 40)) by lia. change (520 mod 2 ^ 64) with 520. rewrite (Z.mod_small (sp0 - 40 - 520)) by lia.
  eexists. split; [reflexivity|]. rs.
  assert (Rme : 0 <= mem_end < 2 ^ 64) by (apply Z.mod_pos_bound; change (2 ^ 64) with 18446744073709551616; lia).
  split; [apply R5_other; lia|]. split; [reflexivity|]. split; [split; reflexivity|].
  split; [unfold mfix; rewrite load_store_other by exact D21; now apply load_store_same|].
  split; [unfold mfix; now apply load_store_same|].
  split.
  - destruct saved_m5 as (S1 & S2 & S3 & S4 & S5). unfold saved, mfix.
    assert (K : forall a, In a slots -> load8 (store8 (store8 m5 A1 (R0 2)) A2 mem_end) a = load8 m5 a).
    { intros a Ha. destruct (Dsl a Ha) as [P1 P2]. now rewrite !load_store_other by assumption. }
    unfold slots in K. rewrite !K by (cbn [In]; tauto). repeat split; assumption.
  - split.
    + intros r N. cbn [In] in N. rewrite !rset_other by lia. apply R5_other. lia.
    + intros x X1 X2. unfold mfix. now rewrite !store8_other by assumption.
Qed.

(** the epilogue: with rsp back where the prologue left it and the five saved words intact, the callee-saved registers and
    rsp are those of the caller; everything else (rax = eBPF r0 in particular) is as the program left it *)
Theorem jit_epilogue R m : R 4 = sp0 - 40 - (gen_jit_stack_size + 8) -> saved m ->
  gen_jit_epilogue = removelast gen_jit_epilogue ++ [XRet] /\
  exists R', krun (removelast gen_jit_epilogue) (R, m) = Some (R', m) /\
    R' 4 = sp0 /\ R' 5 = R0 5 /\ R' 3 = R0 3 /\ R' 13 = R0 13 /\ R' 14 = R0 14 /\ R' 15 = R0 15 /\
    forall r, ~ In r [3; 4; 5; 13; 14; 15] -> R' r = R r.
Proof.
  intros E4 (S1 & S2 & S3 & S4 & S5). split; [reflexivity|].
  unfold gen_jit_epilogue. cbn [removelast]. unfold gen_jit_stack_size in E4.
  pose proof H4 as H.
  kstep1. rewrite E4. replace (sp0 - 40 - (512 + 8)) with (sp0 - 560) by ring. rewrite (Z.mod_small (sp0 - 560)) by lia.
  change (520 mod 2 ^ 64) with 520. replace (sp0 - 560 + 520) with (sp0 - 40) by ring. rewrite (Z.mod_small (sp0 - 40)) by lia.
  kstep1. rewrite S5. replace (sp0 - 40 + 8) with (sp0 - 32) by ring. rewrite (wrap64_small (sp0 - 32)) by lia.
  kstep1. rewrite S4. replace (sp0 - 32 + 8) with (sp0 - 24) by ring. rewrite (wrap64_small (sp0 - 24)) by lia.
  kstep1. rewrite S3. replace (sp0 - 24 + 8) with (sp0 - 16) by ring. rewrite (wrap64_small (sp0 - 16)) by lia.
  kstep1. rewrite S2. replace (sp0 - 16 + 8) with (sp0 - 8) by ring. rewrite (wrap64_small (sp0 - 8)) by lia.
  kstep1. rewrite S1. replace (sp0 - 8 + 8) with sp0 by ring. rewrite (wrap64_small sp0) by lia.
  eexists. split; [reflexivity|]. rs. repeat split; try reflexivity.
  intros r N. cbn [In] in N. now rewrite !rset_other by lia.
Qed.
End Frame.

(** ** the local call: rbx, r13, r14, r15 (eBPF r6..r9) are pushed, rsp is lowered by 8 more, and after the callee has
    returned they are popped back.  The frame pointer rbp (eBPF r10) is NOT changed before the call: the callee starts on
    the caller's frame (known finding D18 of C07 / C03). *)
Section LocalCall.
Variables (R : regs) (m : bmem).
Hypothesis HR : forall r, 0 <= R r < 2 ^ 64.
Let s := R 4.
Hypothesis Hs : 64 <= s.
Definition lc_pre : list xi := firstn 5 gen_jit_local_call.
Definition lc_post : list xi := skipn 6 gen_jit_local_call.

Theorem jit_local_call :
  gen_jit_local_call = lc_pre ++ XCallPc :: lc_post /\
  exists R1 m1, krun lc_pre (R, m) = Some (R1, m1) /\
    R1 4 = s - 40 /\ (forall r, r <> 4 -> R1 r = R r) /\
    load8 m1 (s - 8) = R 3 /\ load8 m1 (s - 16) = R 13 /\ load8 m1 (s - 24) = R 14 /\ load8 m1 (s - 32) = R 15 /\
    forall R2 m2, R2 4 = s - 40 ->
      load8 m2 (s - 8) = R 3 -> load8 m2 (s - 16) = R 13 -> load8 m2 (s - 24) = R 14 -> load8 m2 (s - 32) = R 15 ->
      exists R3, krun lc_post (R2, m2) = Some (R3, m2) /\
        R3 4 = s /\ R3 3 = R 3 /\ R3 13 = R 13 /\ R3 14 = R 14 /\ R3 15 = R 15 /\
        forall r, ~ In r [3; 4; 13; 14; 15] -> R3 r = R2 r.
Proof.
  split; [reflexivity|]. pose proof (HR 4) as H4. fold s in H4.
  unfold lc_pre, lc_post, gen_jit_local_call. cbn [firstn skipn].
  kstep1. fold s. rewrite (wrap64_small (s - 8)) by lia.
  kstep1. replace (s - 8 - 8) with (s - 16) by ring. rewrite (wrap64_small (s - 16)) by lia.
  kstep1. replace (s - 16 - 8) with (s - 24) by ring. rewrite (wrap64_small (s - 24)) by lia.
  kstep1. replace (s - 24 - 8) with (s - 32) by ring. rewrite (wrap64_small (s - 32)) by lia.
  kstep1. rewrite (Z.mod_small (s - 32)) by lia. change (8 mod 2 ^ 64) with 8. replace (s - 32 - 8) with (s - 40) by ring.
  rewrite (Z.mod_small (s - 40)) by lia.
  eexists; eexists. split; [reflexivity|]. rs.
  assert (A : forall a b, 0 <= a -> a < s -> 0 <= b -> b < s -> 8 <= b - a \/ 8 <= a - b -> a - b < 100 -> b - a < 100 -> apart a b).
  { intros a b ? ? ? ? ? ? ?. apply apart_slots; change (2 ^ 63) with 9223372036854775808; lia. }
  split; [reflexivity|]. split; [intros r N; now rewrite !rset_other by assumption|].
  split; [rewrite !load_store_other by (apply A; lia); apply load_store_same; [lia|apply HR]|].
  split; [rewrite !load_store_other by (apply A; lia); apply load_store_same; [lia|apply HR]|].
  split; [rewrite !load_store_other by (apply A; lia); apply load_store_same; [lia|apply HR]|].
  split; [apply load_store_same; [lia|apply HR]|].
  intros R2 m2 E4 L1 L2 L3 L4.
  kstep1. rewrite E4. rewrite (Z.mod_small (s - 40)) by lia. change (8 mod 2 ^ 64) with 8. replace (s - 40 + 8) with (s - 32) by ring.
  rewrite (Z.mod_small (s - 32)) by lia.
  kstep1. rewrite L4. replace (s - 32 + 8) with (s - 24) by ring. rewrite (wrap64_small (s - 24)) by lia.
  kstep1. rewrite L3. replace (s - 24 + 8) with (s - 16) by ring. rewrite (wrap64_small (s - 16)) by lia.
  kstep1. rewrite L2. replace (s - 16 + 8) with (s - 8) by ring. rewrite (wrap64_small (s - 8)) by lia.
  kstep1. rewrite L1. replace (s - 8 + 8) with s by ring. rewrite (wrap64_small s) by lia.
  eexists. split; [reflexivity|]. rs. repeat split; try reflexivity.
  intros r N. cbn [In] in N. now rewrite !rset_other by lia.
Qed.
End LocalCall.
