(** C03 (mul / div / mod): the x86 sequence that jit.rs::emit_muldivmod emits for each of the 12 opcodes (regenerated into
    coq/gen/JitMulDiv.v; machine model X86Seq.v) leaves the ISA value in the x86 register of the destination, restores
    rax, rdx and the stack, changes no other register except the scratch register rcx, never raises #DE, and ends by
    falling through or by jumping to the code of the next eBPF instruction. *)
From Coq Require Import ZArith Lia Bool List.
From RbpfV Require Import MachInt BitLemmas ArmBase ArmVals Ebpf X86Enc X86Sem X86Seq Isa ClAluProofs JitEncProofs JitArmsProofs.
From RbpfV.gen Require Import Opcodes JitEnc JitMulDiv.
Import ListNotations.
Open Scope Z_scope.
Ltac Zify.zify_post_hook ::= Z.div_mod_to_equations.

(** ** one step of the machine, per instruction form *)
Section Steps.
Variables (f : nat) (l : list xi) (s : xst).
Lemma srun_nil : srun (S f) [] s = Some (XFall s). Proof. reflexivity. Qed.
Lemma srun_push r : srun (S f) (XPush r :: l) s = srun f l {| x_r := x_r s; x_stk := x_r s r :: x_stk s; x_fl := x_fl s |}.
Proof. reflexivity. Qed.
Lemma srun_pop r v st : x_stk s = v :: st ->
  srun (S f) (XPop r :: l) s = srun f l {| x_r := rset (x_r s) r v; x_stk := st; x_fl := x_fl s |}.
Proof. intros H. cbn [srun sstep]. rewrite H. reflexivity. Qed.
Lemma srun_mov a b : srun (S f) (XAlu 1 137 a b :: l) s
  = srun f l {| x_r := rset (x_r s) b (x_r s a mod 2 ^ 64 mod 2 ^ 64); x_stk := x_stk s; x_fl := x_fl s |}.
Proof. reflexivity. Qed.
Lemma srun_loadimm r v : srun (S f) (XLoadImm r v :: l) s
  = srun f l {| x_r := rset (x_r s) r (v mod 2 ^ 64); x_stk := x_stk s; x_fl := x_fl s |}.
Proof. reflexivity. Qed.
Lemma srun_xor32 r : srun (S f) (XAlu 0 49 r r :: l) s
  = srun f l {| x_r := rset (x_r s) r 0; x_stk := x_stk s; x_fl := None |}.
Proof.
  cbn [srun sstep flag_operands xstep keeps_flags]. change (49 =? 57) with false. change (49 =? 133) with false. cbv iota.
  cbn [Z.eqb Pos.eqb]. unfold binop, wr, opw. cbn [Z.eqb Pos.eqb]. rewrite Z.lxor_nilpotent. reflexivity.
Qed.
Lemma srun_test w a : srun (S f) (XAlu w 133 a a :: l) s
  = srun f l {| x_r := x_r s; x_stk := x_stk s; x_fl := Some (true, opw w, x_r s a mod 2 ^ opw w, x_r s a mod 2 ^ opw w) |}.
Proof. reflexivity. Qed.
Lemma srun_muldiv w e : e = 4 \/ e = 6 -> srun (S f) (XAlu w 247 e 1 :: l) s
  = match mul_div w e 1 (x_r s) with
    | Some R' => srun f l {| x_r := R'; x_stk := x_stk s; x_fl := None |}
    | None => None
    end.
Proof. intros [-> | ->]; reflexivity. Qed.
Lemma srun_rex op reg rm : 0 <= reg < 8 -> 0 <= rm < 8 -> srun (S f) (XRex 1 0 0 0 :: XAlu 0 op reg rm :: l) s = srun f (XAlu 1 op reg rm :: l) s.
Proof.
  intros Hr Hm. cbn [srun sstep]. cbn [Z.eqb Pos.eqb andb].
  destruct (Z.leb_spec 0 reg), (Z.ltb_spec reg 8), (Z.leb_spec 0 rm), (Z.ltb_spec rm 8); try lia. reflexivity.
Qed.
Lemma srun_jmp t : srun (S f) (XJmpPc t :: l) s = Some (XGoto t s). Proof. reflexivity. Qed.
Lemma srun_jccpc code t fo : x_fl s = Some fo ->
  srun (S f) (XJccPc code t :: l) s = match cc_of fo code with Some true => Some (XGoto t s) | Some false => srun f l s | None => None end.
Proof. intros H. cbn [srun sstep]. rewrite H. reflexivity. Qed.
Lemma srun_jccrel code off fo : x_fl s = Some fo ->
  srun (S f) (XJccRel code off :: l) s
  = match cc_of fo code with
    | Some true => match skip off l with Some l2 => srun f l2 s | None => None end
    | Some false => srun f l s
    | None => None
    end.
Proof. intros H. cbn [srun sstep]. rewrite H. reflexivity. Qed.
End Steps.

(** ** MUL / DIV themselves *)
Lemma opw_cases w : In w [0; 1] -> opw w = 32 \/ opw w = 64.
Proof. cbn [In]. intros [<-|[<-|[]]]; [left|right]; reflexivity. Qed.

Lemma mul_div_mul w rm R : mul_div w 4 rm R =
  Some (rset (rset R 0 (((R 0 mod 2 ^ opw w) * (R rm mod 2 ^ opw w)) mod 2 ^ opw w)) 2 (((R 0 mod 2 ^ opw w) * (R rm mod 2 ^ opw w)) / 2 ^ opw w)).
Proof. reflexivity. Qed.
Lemma mul_div_div w rm R : In w [0; 1] -> R 2 mod 2 ^ opw w = 0 -> R rm mod 2 ^ opw w <> 0 ->
  mul_div w 6 rm R = Some (rset (rset R 0 ((R 0 mod 2 ^ opw w) / (R rm mod 2 ^ opw w))) 2 ((R 0 mod 2 ^ opw w) mod (R rm mod 2 ^ opw w))).
Proof.
  intros Hw H2 Hb. unfold mul_div. change (6 =? 4) with false. change (6 =? 6) with true. cbv iota.
  rewrite H2. destruct (Z.eqb_spec (R rm mod 2 ^ opw w) 0) as [E|_]; [contradiction|].
  rewrite Z.mul_0_l, Z.add_0_l.
  assert (P : 0 < 2 ^ opw w) by (destruct (opw_cases w Hw) as [-> | ->]; fold_pows; lia).
  pose proof (Z.mod_pos_bound (R 0) _ P) as A. pose proof (Z.mod_pos_bound (R rm) _ P) as B.
  destruct (Z.leb_spec (2 ^ opw w) (R 0 mod 2 ^ opw w / (R rm mod 2 ^ opw w))) as [L|_]; [|reflexivity].
  exfalso. assert (R 0 mod 2 ^ opw w / (R rm mod 2 ^ opw w) <= R 0 mod 2 ^ opw w) by (apply Z.div_le_upper_bound; nia). lia.
Qed.

Definition core (w k : Z) (ld : xi) (d : Z) : list xi :=
  (if negb (d =? 0) then [XPush 0] else []) ++
  (if negb (d =? 2) then [XPush 2] else []) ++
  ld :: XAlu 1 137 d 0 ::
  (if k =? 0 then [] else [XAlu 0 49 2 2]) ++
  (if w =? 1 then [XRex 1 0 0 0] else []) ++
  XAlu 0 247 (if k =? 0 then 4 else 6) 1 ::
  (if negb (d =? 2) then (if k =? 2 then [XAlu 1 137 2 d] else []) ++ [XPop 2] else []) ++
  (if negb (d =? 0) then (if k =? 2 then [] else [XAlu 1 137 0 d]) ++ [XPop 0] else []) ++ [].

Definition core_val (w k a b : Z) : Z :=
  let W := opw w in
  if k =? 0 then ((a mod 2 ^ W) * (b mod 2 ^ W)) mod 2 ^ W
  else if k =? 1 then (a mod 2 ^ W) / (b mod 2 ^ W) else (a mod 2 ^ W) mod (b mod 2 ^ W).

Ltac rs := repeat first [rewrite rset_same | rewrite rset_other by (assumption || lia)].

Lemma core_run w k ld d R b stk fl :
  In w [0; 1] -> In k [0; 1; 2] -> (forall r, 0 <= R r < 2 ^ 64) -> 0 <= d < 16 -> d <> 1 -> d <> 4 -> 0 <= b < 2 ^ 64 ->
  (k <> 0 -> b mod 2 ^ opw w <> 0) ->
  (forall f l st, x_r st = R -> srun (S f) (ld :: l) st = srun f l {| x_r := rset R 1 b; x_stk := x_stk st; x_fl := x_fl st |}) ->
  exists R', srun (S (length (core w k ld d))) (core w k ld d) {| x_r := R; x_stk := stk; x_fl := fl |}
             = Some (XFall {| x_r := R'; x_stk := stk; x_fl := None |})
         /\ R' d = core_val w k (R d) b /\ forall r, r <> d -> r <> 1 -> R' r = R r.
Proof.
  intros Hw Hk HR Hd Hd1 Hd4 Hb Hnz Hld.
  pose proof (HR d) as Rd.
  cbn [In] in Hw, Hk.
  unfold core.
  destruct Hw as [<-|[<-|[]]]; destruct Hk as [<-|[<-|[<-|[]]]];
  (destruct (Z.eqb_spec d 0) as [->|N0]; [| destruct (Z.eqb_spec d 2) as [->|N2]]);
  cbn [Z.eqb Pos.eqb negb app length];
  repeat (first [ rewrite srun_push | rewrite Hld by reflexivity | rewrite srun_mov | rewrite srun_xor32
                | rewrite srun_rex by lia | rewrite srun_muldiv by tauto | rewrite srun_nil
                | erewrite srun_pop by reflexivity
                | rewrite mul_div_mul
                | rewrite mul_div_div by (cbn [In]; try tauto; rs; try apply Z.mod_0_l; try (apply Hnz; lia); fold_pows; lia) ];
          cbn [x_r x_stk x_fl]; rs).
  all: eexists; split; [reflexivity|]; split.
  all: try (intros r Nr N1; destruct (Z.eq_dec r 0) as [E0|E0]; destruct (Z.eq_dec r 2) as [E2|E2]; try lia; try subst r; rs; reflexivity).
  all: unfold core_val; cbn [Z.eqb Pos.eqb]; rs; change (opw 0) with 32; change (opw 1) with 64.
  all: repeat match goal with H : forall r, 0 <= ?f r < 2 ^ 64 |- context [?f ?x mod 2 ^ 64] => rewrite (Z.mod_small (f x) (2 ^ 64)) by apply H end.
  all: try reflexivity.
  all: try (specialize (Hnz ltac:(lia))); change (opw 0) with 32 in *; change (opw 1) with 64 in *.
  all: pose proof (Z.mod_pos_bound b (2 ^ 32) ltac:(fold_pows; lia)) as B32; pose proof (Z.mod_pos_bound b (2 ^ 64) ltac:(fold_pows; lia)) as B64.
  all: pose proof (HR 0) as R0; pose proof (HR 2) as R2.
  all: repeat match goal with |- context [?f ?x mod 2 ^ 32] =>
         lazymatch goal with H : 0 <= f x mod 2 ^ 32 < 2 ^ 32 |- _ => fail | _ => pose proof (Z.mod_pos_bound (f x) (2 ^ 32) ltac:(fold_pows; lia)) end end.
  all: match goal with |- (?X mod 2 ^ 64) mod 2 ^ 64 = ?X => assert (HX : 0 <= X < 2 ^ 64); [| rewrite !(Z.mod_small X) by exact HX; reflexivity] end.
  all: match goal with
       | |- 0 <= ?A mod 2 ^ 32 < 2 ^ 64 => pose proof (Z.mod_pos_bound A (2 ^ 32) ltac:(fold_pows; lia)); fold_pows; lia
       | |- 0 <= ?A mod 2 ^ 64 < 2 ^ 64 => apply Z.mod_pos_bound; fold_pows; lia
       | |- 0 <= ?A / ?B < 2 ^ 64 => split; [apply Z.div_pos; lia | apply Z.div_lt_upper_bound; [lia | fold_pows; nia]]
       | |- 0 <= ?A mod ?B < 2 ^ 64 => pose proof (Z.mod_pos_bound A B ltac:(lia)); fold_pows; lia
       end.
Qed.

(** ** the twelve opcodes *)
Definition op_of (k : Z) : Z := if k =? 0 then 2 else if k =? 1 then 3 else 9.
Definition seq_ok (l : list xi) (pc : Z) (R : regs) (stk : list Z) (d : Z) (v : option Z) : Prop :=
  exists R' fl, (run_seq l R stk = Some (XFall {| x_r := R'; x_stk := stk; x_fl := fl |})
              \/ run_seq l R stk = Some (XGoto (pc + 1) {| x_r := R'; x_stk := stk; x_fl := fl |}))
    /\ R' d = newval v (R d)
    /\ forall r, r <> d -> r <> 1 -> R' r = R r.

Section Cases.
Variables (w k pc d s im : Z) (R : regs) (stk : list Z).
Hypothesis Hw : In w [0; 1].
Hypothesis Hk : In k [0; 1; 2].
Hypothesis HR : forall r, 0 <= R r < 2 ^ 64.
Hypothesis Hd : 0 <= d < 16.
Hypothesis Hd1 : d <> 1.
Hypothesis Hd4 : d <> 4.
Hypothesis Hs1 : s <> 1.
Hypothesis Hpc : 0 <= pc < 2 ^ 62.
Hypothesis Him : - 2 ^ 31 <= im < 2 ^ 31.

Let W := opw w.
Lemma W_cases : W = 32 \/ W = 64. Proof. apply opw_cases, Hw. Qed.

Lemma alu_core a b dflt : (k <> 0 -> b mod 2 ^ W <> 0) ->
  newval (alu W (op_of k) (a mod 2 ^ W) (b mod 2 ^ W)) dflt = core_val w k a b.
Proof.
  intros Hnz. cbn [In] in Hk. unfold core_val, op_of. fold W.
  destruct Hk as [<-|[<-|[<-|[]]]]; cbn [Z.eqb Pos.eqb alu newval].
  - reflexivity.
  - destruct (Z.eqb_spec (b mod 2 ^ W) 0) as [E|_]; [exfalso; apply Hnz; [lia|exact E]|reflexivity].
  - destruct (Z.eqb_spec (b mod 2 ^ W) 0) as [E|_]; [exfalso; apply Hnz; [lia|exact E]|reflexivity].
Qed.

(** immediate operand *)
Definition imm_seq : list xi :=
  if ((k =? 1) || (k =? 0)) && (im =? 0) then [XAlu 0 49 d d]
  else if (k =? 2) && (im =? 0) then [] else core w k (XLoadImm 1 im) d.

Lemma imm_mod_nz : im <> 0 -> im mod 2 ^ W <> 0.
Proof. intros N. destruct W_cases as [-> | ->]; fold_pows; lia. Qed.
Lemma imm_mod_mod : (im mod 2 ^ 64) mod 2 ^ W = im mod 2 ^ W.
Proof. destruct W_cases as [-> | ->]; [apply mod_mod_pow; lia | apply Z.mod_mod; fold_pows; lia]. Qed.

Lemma imm_case : seq_ok imm_seq pc R stk d (alu W (op_of k) (R d mod 2 ^ W) (im mod 2 ^ W)).
Proof.
  unfold seq_ok, imm_seq. cbn [In] in Hk.
  destruct (Z.eqb_spec im 0) as [->|N].
  - (* zero immediate *)
    rewrite Z.mod_0_l by (destruct W_cases as [-> | ->]; fold_pows; lia).
    destruct Hk as [<-|[<-|[<-|[]]]]; cbn [Z.eqb Pos.eqb orb andb].
    + exists (rset R d 0), None. split; [left; unfold run_seq; cbn [length]; rewrite srun_xor32, srun_nil; reflexivity|].
      split; [rewrite rset_same; unfold op_of; cbn [Z.eqb Pos.eqb alu newval]; now rewrite Z.mul_0_r, Z.mod_0_l by (destruct W_cases as [-> | ->]; fold_pows; lia)
             | intros r N1 N2; now rewrite rset_other by assumption].
    + exists (rset R d 0), None. split; [left; unfold run_seq; cbn [length]; rewrite srun_xor32, srun_nil; reflexivity|].
      split; [rewrite rset_same; reflexivity | intros r N1 N2; now rewrite rset_other by assumption].
    + exists R, None. split; [left; reflexivity|]. split; [reflexivity | reflexivity].
  - assert (E : ((k =? 1) || (k =? 0)) && false = false) by (destruct ((k =? 1) || (k =? 0)); reflexivity).
    rewrite E. rewrite andb_false_r.
    pose proof (Z.mod_pos_bound im (2 ^ 64) ltac:(fold_pows; lia)) as B.
    destruct (core_run w k (XLoadImm 1 im) d R (im mod 2 ^ 64) stk None Hw Hk HR Hd Hd1 Hd4 B) as (R' & Hrun & Hv & Hf).
    + intros _. fold W. rewrite imm_mod_mod. now apply imm_mod_nz.
    + intros f l st Est. rewrite srun_loadimm, Est. reflexivity.
    + exists R', None. split; [left; exact Hrun|]. split; [|exact Hf].
      rewrite Hv. rewrite <- imm_mod_mod. symmetry. apply alu_core. intros _. rewrite imm_mod_mod. now apply imm_mod_nz.
Qed.

(** register operand *)
Definition mov_s : xi := XAlu 1 137 s 1.
Lemma ld_mov R0 : (forall r, 0 <= R0 r < 2 ^ 64) ->
  forall f l st, x_r st = R0 -> srun (S f) (mov_s :: l) st = srun f l {| x_r := rset R0 1 (R0 s); x_stk := x_stk st; x_fl := x_fl st |}.
Proof.
  intros H0 f l st Est. unfold mov_s. rewrite srun_mov, Est.
  rewrite !(Z.mod_small (R0 s)) by apply H0. reflexivity.
Qed.

Lemma reg_mul_case : k = 0 -> seq_ok (core w k mov_s d) pc R stk d (alu W (op_of k) (R d mod 2 ^ W) (R s mod 2 ^ W)).
Proof.
  intros K0. unfold seq_ok.
  destruct (core_run w k mov_s d R (R s) stk None Hw Hk HR Hd Hd1 Hd4 (HR s)) as (R' & Hrun & Hv & Hf).
  - intros N; contradiction.
  - apply ld_mov, HR.
  - exists R', None. split; [left; exact Hrun|]. split; [|exact Hf].
    rewrite Hv. symmetry. apply alu_core. intros N; contradiction.
Qed.

Definition rex_off : Z := match gen_basix_rex_would_set_bits 0 d d with Ok true => 3 + 5 | Ok false => 2 + 5 | _ => 0 end.
Lemma rex_off_val : rex_off = if 8 <=? d then 8 else 7.
Proof.
  unfold rex_off, gen_basix_rex_would_set_bits. rewrite (land8_ge d Hd). cbn [Z.eqb negb orb].
  destruct (8 <=? d); reflexivity.
Qed.
Lemma skip_zero_path l t : skip rex_off (XAlu 0 49 d d :: XJmpPc t :: l) = Some l.
Proof.
  rewrite rex_off_val.
  assert (X : xsize (XAlu 0 49 d d) = Some (if 8 <=? d then 3 else 2)).
  { unfold xsize, xbytes, option_map, x_alu, x_basic_rex. cbn [Z.eqb andb].
    destruct (Z.leb_spec 8 d), (Z.ltb_spec d 8); try lia; reflexivity. }
  assert (J : xsize (XJmpPc t) = Some 5) by reflexivity.
  destruct (Z.leb_spec 8 d).
  - cbn [skip]. change (8 =? 0) with false. cbv iota. rewrite X. change ((0 <? 3) && (3 <=? 8)) with true. cbv iota.
    change (8 - 3) with 5. cbn [skip]. change (5 =? 0) with false. cbv iota. rewrite J. change ((0 <? 5) && (5 <=? 5)) with true. cbv iota.
    change (5 - 5) with 0. destruct l; reflexivity.
  - cbn [skip]. change (7 =? 0) with false. cbv iota. rewrite X. change ((0 <? 2) && (2 <=? 7)) with true. cbv iota.
    change (7 - 2) with 5. cbn [skip]. change (5 =? 0) with false. cbv iota. rewrite J. change ((0 <? 5) && (5 <=? 5)) with true. cbv iota.
    change (5 - 5) with 0. destruct l; reflexivity.
Qed.

Let R1 : regs := rset R 1 (pc mod 2 ^ 64).
Lemma R1_range r : 0 <= R1 r < 2 ^ 64.
Proof. unfold R1, rset. destruct (r =? 1); [apply Z.mod_pos_bound; fold_pows; lia | apply HR]. Qed.
Lemma land_diag_eqb a : (Z.land a a =? 0) = (a =? 0).
Proof. now rewrite Z.land_diag. Qed.

Definition reg_div_seq : list xi :=
  XLoadImm 1 pc :: XAlu w 133 s s :: XJccRel 133 rex_off :: XAlu 0 49 d d :: XJmpPc (pc + 1) :: core w k mov_s d.
Definition reg_mod_seq : list xi :=
  XLoadImm 1 pc :: XAlu w 133 s s :: XJccPc 132 (pc + 1) :: core w k mov_s d.

Lemma reg_div_case : k = 1 -> seq_ok reg_div_seq pc R stk d (alu W (op_of k) (R d mod 2 ^ W) (R s mod 2 ^ W)).
Proof.
  intros K1. unfold seq_ok, reg_div_seq, run_seq. cbn [length].
  rewrite srun_loadimm. cbn [x_r x_stk x_fl]. fold R1.
  rewrite srun_test. cbn [x_r x_stk x_fl]. fold W.
  erewrite srun_jccrel by reflexivity. unfold cc_of. change (133 =? 132) with false. change (133 =? 133) with true. cbv iota.
  rewrite land_diag_eqb. assert (E1 : R1 s = R s) by (unfold R1; now rewrite rset_other by assumption). rewrite !E1.
  destruct (Z.eqb_spec (R s mod 2 ^ W) 0) as [Z0|NZ]; cbn [negb].
  - (* zero divisor: the destination is cleared, then jump to the next instruction *)
    rewrite srun_xor32. cbn [x_r x_stk x_fl]. rewrite srun_jmp.
    eexists; eexists; split; [right; reflexivity|]. split.
    + rewrite rset_same. rewrite Z0. subst k. unfold op_of. cbn [Z.eqb Pos.eqb alu newval]. reflexivity.
    + intros r N1 N2. rewrite rset_other by assumption. unfold R1. now rewrite rset_other by assumption.
  - rewrite skip_zero_path.
    destruct (core_run w k mov_s d R1 (R1 s) stk (Some (true, W, R s mod 2 ^ W, R s mod 2 ^ W)) Hw Hk R1_range Hd Hd1 Hd4 (R1_range s)) as (R' & Hrun & Hv & Hf).
    + intros _. rewrite E1. exact NZ.
    + apply ld_mov, R1_range.
    + exists R', None. split; [left|split].
      * apply (srun_more 2) in Hrun. exact Hrun.
      * rewrite Hv, E1. unfold R1. rewrite !rset_other by assumption. symmetry. apply alu_core. intros _. exact NZ.
      * intros r N1 N2. rewrite Hf by assumption. unfold R1. now rewrite rset_other by assumption.
Qed.

Lemma reg_mod_case : k = 2 -> seq_ok reg_mod_seq pc R stk d (alu W (op_of k) (R d mod 2 ^ W) (R s mod 2 ^ W)).
Proof.
  intros K2. unfold seq_ok, reg_mod_seq, run_seq. cbn [length].
  rewrite srun_loadimm. cbn [x_r x_stk x_fl]. fold R1.
  rewrite srun_test. cbn [x_r x_stk x_fl]. fold W.
  erewrite srun_jccpc by reflexivity. unfold cc_of. change (132 =? 132) with true. cbv iota.
  rewrite land_diag_eqb. assert (E1 : R1 s = R s) by (unfold R1; now rewrite rset_other by assumption). rewrite !E1.
  destruct (Z.eqb_spec (R s mod 2 ^ W) 0) as [Z0|NZ].
  - (* zero divisor: the destination keeps its value *)
    eexists; eexists; split; [right; reflexivity|]. cbn [x_r]. split.
    + unfold R1. rewrite rset_other by assumption. rewrite Z0. subst k. unfold op_of. cbn [Z.eqb Pos.eqb alu newval]. reflexivity.
    + intros r N1 N2. unfold R1. now rewrite rset_other by assumption.
  - destruct (core_run w k mov_s d R1 (R1 s) stk (Some (true, W, R s mod 2 ^ W, R s mod 2 ^ W)) Hw Hk R1_range Hd Hd1 Hd4 (R1_range s)) as (R' & Hrun & Hv & Hf).
    + intros _. rewrite E1. exact NZ.
    + apply ld_mov, R1_range.
    + exists R', None. split; [left|split].
      * exact Hrun.
      * rewrite Hv, E1. unfold R1. rewrite !rset_other by assumption. symmetry. apply alu_core. intros _. exact NZ.
      * intros r N1 N2. rewrite Hf by assumption. unfold R1. now rewrite rset_other by assumption.
Qed.
End Cases.

(** ** the theorem: every opcode that jit_compile sends through emit_muldivmod *)
Definition muldiv_ok (o : Z) (i : insn) (pc : Z) (R : regs) (stk : list Z) (d s : Z) : Prop :=
  seq_ok (gen_jit_muldivmod pc o s d (imm i)) pc R stk d (isa_alu_value o i (R d) (R s)).

Theorem jit_muldiv_arms i pc R stk d s :
  (forall r, 0 <= R r < 2 ^ 64) -> 0 <= d < 16 -> d <> 1 -> d <> 4 -> s <> 1 -> - 2 ^ 31 <= imm i < 2 ^ 31 ->
  Forall (fun o => muldiv_ok o i pc R stk d s) gen_jit_muldiv_ops.
Proof.
  intros HR Hd Hd1 Hd4 Hs1 Hi. unfold gen_jit_muldiv_ops, muldiv_ok.
  repeat apply Forall_cons; try apply Forall_nil.
  (* MUL32 imm / reg, DIV32 imm / reg, MOD32 imm / reg, then the 64-bit ones *)
  - apply (imm_case 0 0); cbn [In]; tauto || assumption.
  - apply (reg_mul_case 0 0); cbn [In]; tauto || assumption || reflexivity.
  - apply (imm_case 0 1); cbn [In]; tauto || assumption.
  - apply (reg_div_case 0 1); cbn [In]; tauto || assumption || reflexivity.
  - apply (imm_case 0 2); cbn [In]; tauto || assumption.
  - apply (reg_mod_case 0 2); cbn [In]; tauto || assumption || reflexivity.
  - apply (imm_case 1 0); cbn [In]; tauto || assumption.
  - apply (reg_mul_case 1 0); cbn [In]; tauto || assumption || reflexivity.
  - apply (imm_case 1 1); cbn [In]; tauto || assumption.
  - apply (reg_div_case 1 1); cbn [In]; tauto || assumption || reflexivity.
  - apply (imm_case 1 2); cbn [In]; tauto || assumption.
  - apply (reg_mod_case 1 2); cbn [In]; tauto || assumption || reflexivity.
Qed.

(** the twelve opcodes are mul, div and mod in their four forms, i.e. exactly the ALU opcodes not covered by jit_alu_arms
    (byte swaps aside) *)
Lemma muldiv_ops_are : forallb (fun o => ((o / 16 =? 2) || (o / 16 =? 3) || (o / 16 =? 9)) && ((o mod 8 =? 4) || (o mod 8 =? 7))) gen_jit_muldiv_ops = true
  /\ length gen_jit_muldiv_ops = 12%nat /\ NoDup gen_jit_muldiv_ops.
Proof.
  split; [vm_compute; reflexivity|]. split; [reflexivity|].
  unfold gen_jit_muldiv_ops. repeat (apply NoDup_cons; [cbn [In]; intros H; repeat (destruct H as [H|H]; [discriminate H|]); exact H|]). apply NoDup_nil.
Qed.

(** ** the bytes: each abstract instruction of these sequences stands for one encoder call (the mapping used by the
    translator), and that encoder appends exactly [xbytes] -- whose lengths are what the jump inside the division sequence
    skips *)
Definition emit_xi (mem : list Z) (x : xi) : res (list Z) :=
  match x with
  | XAlu w op reg rm => if w =? 1 then gen_emit_alu64 mem op reg rm else gen_emit_alu32 mem op reg rm
  | XLoadImm r v => gen_emit_load_imm mem r v
  | XPush r => gen_emit_push mem r
  | XPop r => gen_emit_pop mem r
  | XRex w r x b => gen_emit_rex mem w r x b
  | XJccRel code off => gen_emit_direct_jcc mem code off
  | XJmpPc t => gen_emit_jmp mem t
  | XJccPc code t => gen_emit_jcc mem code t
  | _ => Panic 0
  end.

Definition xi_wf (x : xi) : Prop :=
  match x with
  | XAlu w op reg rm => In w [0; 1] /\ 0 <= op < 256 /\ 0 <= reg < 16 /\ 0 <= rm < 16
  | XLoadImm r v => 0 <= r < 16 /\ - 2 ^ 63 <= v < 2 ^ 63
  | XPush r | XPop r => 0 <= r < 16
  | XRex w r x b => In w [0; 1] /\ In r [0; 1] /\ x = 0 /\ In b [0; 1]
  | XJccRel code off => 0 <= code < 256 /\ 0 <= off < 2 ^ 32
  | XJmpPc t => True
  | XJccPc code t => 0 <= code < 256
  | _ => False
  end.

Theorem emit_xi_bytes mem x : xi_wf x -> exists b, xbytes x = Some b /\ emit_xi mem x = Ok (mem ++ b).
Proof.
  destruct x; cbn [xi_wf]; intros H; try contradiction; cbn [xbytes emit_xi].
  - destruct H as (Hw & Ho & Hr & Hm). eexists; split; [reflexivity|]. now apply emit_alu_spec.
  - destruct H as (Hr & Hv). eexists; split; [reflexivity|]. now apply emit_load_imm_spec.
  - eexists; split; [reflexivity|]. now apply emit_push_pop_spec.
  - eexists; split; [reflexivity|]. now apply emit_push_pop_spec.
  - destruct H as (Hw & Hr & -> & Hb). eexists; split; [reflexivity|]. now apply emit_rex_spec.
  - destruct H as (Hc & Ho). eexists; split; [reflexivity|]. unfold gen_emit_direct_jcc.
    rewrite emit1_byte by lia. cbn [bind]. rewrite emit1_byte by exact Hc. cbn [bind]. unfold emit_le.
    change (8 * 4) with 32. change (Z.to_nat 4) with 4%nat. rewrite <- !app_assoc. reflexivity.
  - eexists; split; [reflexivity|]. unfold gen_emit_jmp, gen_emit_jump_offset.
    rewrite emit1_byte by lia. cbn [bind]. rewrite emit4_le. cbn [bind]. rewrite Z.mod_0_l by (fold_pows; lia). rewrite <- !app_assoc. reflexivity.
  - eexists; split; [reflexivity|]. unfold gen_emit_jcc, gen_emit_jump_offset.
    rewrite emit1_byte by lia. cbn [bind]. rewrite emit1_byte by exact H. cbn [bind]. rewrite emit4_le. cbn [bind].
    rewrite Z.mod_0_l by (fold_pows; lia). rewrite <- !app_assoc. reflexivity.
Qed.
