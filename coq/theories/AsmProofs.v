(** C14: the assembler model is total -- every input yields Ok or Err, never a panic and never fuel exhaustion.
    Part A: the parser model (AsmParser.v) terminates within its fuel and returns operands in range.
    Part B: the code regenerated from src/assembler.rs (coq/gen/Asm.v) never panics on such operands. *)
From Coq Require Import ZArith Lia Bool List String.
From RbpfV Require Import MachInt BitLemmas ListLemmas Ebpf Fmt AsmDefs AsmParser AsmModel CodecProofs.
From RbpfV.gen Require Import Opcodes Codec Asm.
Import ListNotations.
Open Scope Z_scope.
Ltac Zify.zify_post_hook ::= Z.div_mod_to_equations.

Definition no_panic {A} (r : res A) : Prop := match r with Ok _ | Err _ => True | _ => False end.

(** * A. the parser *)
Lemma span_length f l : (List.length (snd (span f l)) <= List.length l)%nat.
Proof.
  induction l as [|c r IH]; cbn [span]; [cbn; lia|].
  destruct (f c); [|cbn; lia]. destruct (span f r) as [a b]. cbn [snd List.length] in *. lia.
Qed.
Lemma span_length_strict f l a r : span f l = (a, r) -> a <> [] -> (List.length r < List.length l)%nat.
Proof.
  destruct l as [|c l]; cbn [span]; [intros [= <- <-] N; contradiction|].
  destruct (f c); [|intros [= <- <-] N; contradiction].
  pose proof (span_length f l) as L. destruct (span f l) as [a' b']. intros [= <- <-] _. cbn [snd List.length] in *. lia.
Qed.

Section ParserFacts.
Variable U : uclass.

Definition op_ok (o : operand) : Prop :=
  match o with
  | Register r => 0 <= r < 2 ^ 63
  | Integer v => - 2 ^ 63 <= v < 2 ^ 63
  | Memory r f => 0 <= r < 2 ^ 63 /\ - 2 ^ 63 <= f < 2 ^ 63
  | Nil => False        (* the parser never returns the padding value *)
  end.

Lemma norm_i64_range x : - 2 ^ 63 <= norm I64 x < 2 ^ 63.
Proof. pose proof (norm_in_ty I64 x) as H. unfold in_ty, tmin, tmax in H. cbn [signed bits] in H. change (64 - 1) with 63 in H. lia. Qed.

Lemma digit_val_nonneg c : is_digit c = true -> 0 <= digit_val c.
Proof. unfold is_digit, digit_val. intros H. apply andb_true_iff in H as [A B]. apply Z.leb_le in A, B. destruct (c <=? 57) eqn:E; lia. Qed.

Lemma span_all f l : Forall (fun c => f c = true) (fst (span f l)).
Proof.
  induction l as [|c r IH]; cbn [span]; [constructor|].
  destruct (f c) eqn:E; [|constructor]. destruct (span f r) as [a b]. cbn [fst] in *. constructor; assumption.
Qed.

Lemma num_of_dec_nonneg ds : Forall (fun c => is_digit c = true) ds -> 0 <= num_of 10 ds.
Proof.
  unfold num_of. intros H. assert (G : forall acc, 0 <= acc -> 0 <= fold_left (fun a c => a * 10 + digit_val c) ds acc).
  { induction H as [|c ds Hc _ IH]; intros acc Ha; cbn [fold_left]; [exact Ha|]. apply IH. pose proof (digit_val_nonneg c Hc). lia. }
  apply G. lia.
Qed.

(** what a successful sub-parser leaves: no longer input, and values in range *)
Definition shrinks {A} (l : list Z) (r : pr A) : Prop :=
  match r with POk _ _ rest => (List.length rest <= List.length l)%nat | PErr _ => True | PFuel => False end.

Lemma p_hex_ok l : match p_hex l with POk _ v rest => (List.length rest <= List.length l)%nat /\ - 2 ^ 63 <= v < 2 ^ 63 | PErr _ => True | PFuel => False end.
Proof.
  unfold p_hex. destruct l as [|c0 [|c1 r]]; try exact I.
  destruct ((c0 =? 48) && (c1 =? 120)); [|exact I].
  pose proof (span_length is_hex r) as L. destruct (span is_hex r) as [ds rest]. cbn [snd] in L.
  destruct ds; [exact I|]. destruct (_ <? 2 ^ 64); [|exact I]. split; [cbn [List.length]; lia|apply norm_i64_range].
Qed.

Lemma p_dec_ok l : match p_dec l with POk _ v rest => (List.length rest <= List.length l)%nat /\ 0 <= v < 2 ^ 63 | PErr _ => True | PFuel => False end.
Proof.
  unfold p_dec. pose proof (span_length is_digit l) as L. pose proof (span_all is_digit l) as A.
  destruct (span is_digit l) as [ds rest]. cbn [snd fst] in *.
  destruct ds as [|d ds]; [exact I|]. destruct (Z.ltb_spec (num_of 10 (d :: ds)) (2 ^ 63)); [|exact I].
  split; [exact L|]. split; [now apply num_of_dec_nonneg|assumption].
Qed.

Lemma p_integer_ok l : match p_integer l with POk _ v rest => (List.length rest <= List.length l)%nat /\ - 2 ^ 63 <= v < 2 ^ 63 | PErr _ => True | PFuel => False end.
Proof.
  unfold p_integer.
  set (t := match l with c :: r => if c =? 45 then (-1, true, r) else if c =? 43 then (1, true, r) else (1, false, l) | [] => (1, false, l) end).
  assert (Ht : (List.length (snd t) <= List.length l)%nat).
  { subst t. destruct l as [|c r]; [cbn; lia|]. destruct (c =? 45); [cbn; lia|]. destruct (c =? 43); cbn; lia. }
  destruct t as [[s cs] l1]. cbn [snd] in Ht.
  pose proof (p_hex_ok l1) as H. destruct (p_hex l1) as [c v r| |]; [|clear H|contradiction].
  - destruct H as [H1 _]. split; [lia|apply norm_i64_range].
  - pose proof (p_dec_ok l1) as D. destruct (p_dec l1) as [c' v r| |]; [|exact I|contradiction].
    destruct D as [D1 _]. split; [lia|apply norm_i64_range].
Qed.

Lemma reg_digits_ok r : match reg_digits r with POk _ v rest => (List.length rest <= List.length r)%nat /\ 0 <= v < 2 ^ 63 | PErr _ => True | PFuel => False end.
Proof.
  unfold reg_digits. pose proof (span_length is_digit r) as L. pose proof (span_all is_digit r) as A.
  destruct (span is_digit r) as [ds rest]. cbn [snd fst] in *.
  destruct ds as [|d ds]; [exact I|]. destruct (Z.ltb_spec (num_of 10 (d :: ds)) (2 ^ 63)); [|exact I].
  split; [exact L|]. split; [now apply num_of_dec_nonneg|assumption].
Qed.

Lemma p_register_ok l : match p_register U l with POk _ v rest => (List.length rest < List.length l)%nat /\ 0 <= v < 2 ^ 63 | PErr _ => True | PFuel => False end.
Proof.
  unfold p_register. destruct l as [|c r]; [exact I|]. destruct (c =? 114); [|exact I].
  assert (G : match reg_digits r with POk _ v rest => (List.length rest < List.length (c :: r))%nat /\ 0 <= v < 2 ^ 63 | PErr _ => True | PFuel => False end).
  { pose proof (reg_digits_ok r) as H. destruct (reg_digits r); try exact H. destruct H; split; [cbn [List.length]; lia|assumption]. }
  destruct r as [|c2 r']; [exact G|]. destruct (is_alpha U c2); [exact I|exact G].
Qed.

Lemma p_close_ok reg off r : 0 <= reg < 2 ^ 63 -> - 2 ^ 63 <= off < 2 ^ 63 ->
  match p_close reg off r with POk _ o rest => (List.length rest <= List.length r)%nat /\ op_ok o | PErr _ => True | PFuel => False end.
Proof.
  intros Hr Ho. unfold p_close. destruct r as [|c r']; [exact I|]. destruct (c =? 93); [|exact I].
  split; [cbn [List.length]; lia|]. cbn [op_ok]. tauto.
Qed.

Lemma p_memory_ok l : match p_memory U l with POk _ o rest => (List.length rest <= List.length l)%nat /\ op_ok o | PErr _ => True | PFuel => False end.
Proof.
  unfold p_memory. destruct l as [|c r]; [exact I|]. destruct (c =? 91); [|exact I].
  pose proof (p_register_ok r) as R. destruct (p_register U r) as [c1 reg r1| |]; [|exact I|contradiction].
  destruct R as [R1 R2].
  pose proof (p_integer_ok r1) as N. destruct (p_integer r1) as [c2 off r2|[|]|]; try exact I; try contradiction.
  - destruct N as [N1 N2]. pose proof (p_close_ok reg off r2 R2 N2) as C. destruct (p_close reg off r2); try exact C.
    destruct C; split; [cbn [List.length]; lia|assumption].
  - pose proof (p_close_ok reg 0 r1 R2 ltac:(lia)) as C. destruct (p_close reg 0 r1); try exact C.
    destruct C; split; [cbn [List.length]; lia|assumption].
Qed.

Lemma p_operand_ok l : match p_operand U l with POk _ o rest => (List.length rest <= List.length l)%nat /\ op_ok o | PErr _ => True | PFuel => False end.
Proof.
  unfold p_operand. pose proof (p_register_ok l) as R. destruct (p_register U l) as [c v r|[|]|]; try exact I; try contradiction.
  - destruct R; split; [lia|assumption].
  - pose proof (p_integer_ok l) as N. destruct (p_integer l) as [c v r|[|]|]; try exact I; try contradiction.
    + exact N.
    + apply p_memory_ok.
Qed.

Lemma skip_spaces_length l : (List.length (skip_spaces U l) <= List.length l)%nat.
Proof. apply span_length. Qed.

Lemma p_sep_length l l1 : p_sep U l = Some l1 -> (List.length l1 < List.length l)%nat.
Proof.
  unfold p_sep. destruct l as [|c r]; [discriminate|]. destruct (c =? 44); [|discriminate].
  intros [= <-]. pose proof (skip_spaces_length r). cbn [List.length]. lia.
Qed.

Lemma p_more_ok fuel : forall l, (List.length l < fuel)%nat ->
  match p_more U fuel l with POk _ os rest => (List.length rest <= List.length l)%nat /\ Forall op_ok os | PErr _ => True | PFuel => False end.
Proof.
  induction fuel as [|f IH]; intros l Hf; [lia|]. cbn [p_more].
  destruct (p_sep U l) as [l1|] eqn:S; [|split; [lia|constructor]].
  apply p_sep_length in S.
  pose proof (p_operand_ok l1) as O. destruct (p_operand U l1) as [c o r| |]; [|exact I|contradiction].
  destruct O as [O1 O2]. specialize (IH r ltac:(lia)).
  destruct (p_more U f r) as [c' os r'| |]; [|exact I|contradiction].
  destruct IH as [I1 I2]. split; [lia|constructor; assumption].
Qed.

Lemma p_operands_ok l :
  match p_operands U l with POk _ os rest => (List.length rest <= List.length l)%nat /\ Forall op_ok os | PErr _ => True | PFuel => False end.
Proof.
  unfold p_operands. pose proof (p_operand_ok l) as O. destruct (p_operand U l) as [c o r|[|]|]; try exact I; try contradiction.
  - destruct O as [O1 O2]. pose proof (p_more_ok (S (List.length r)) r ltac:(lia)) as M.
    destruct (p_more U (S (List.length r)) r) as [c' os r'| |]; [|exact I|contradiction].
    destruct M as [M1 M2]. split; [lia|constructor; assumption].
  - split; [lia|constructor].
Qed.

Definition instr_ok (i : instr) : Prop := Forall op_ok (snd i).

Lemma p_instruction_ok l :
  match p_instruction U l with POk _ i rest => (List.length rest < List.length l)%nat /\ instr_ok i | PErr _ => True | PFuel => False end.
Proof.
  unfold p_instruction, p_ident. destruct (span (is_alnum U) l) as [a r] eqn:S.
  destruct a as [|a0 a]; [exact I|].
  pose proof (span_length_strict _ _ _ _ S ltac:(discriminate)) as L.
  pose proof (skip_spaces_length r) as K.
  pose proof (p_operands_ok (skip_spaces U r)) as O. destruct (p_operands U (skip_spaces U r)) as [c os r2| |]; [|exact I|contradiction].
  destruct O as [O1 O2]. pose proof (skip_spaces_length r2). split; [lia|exact O2].
Qed.

Lemma p_instructions_ok fuel : forall l, (List.length l < fuel)%nat ->
  match p_instructions U fuel l with POk _ is _ => Forall instr_ok is | PErr _ => True | PFuel => False end.
Proof.
  induction fuel as [|f IH]; intros l Hf; [lia|]. cbn [p_instructions].
  pose proof (p_instruction_ok l) as P. destruct (p_instruction U l) as [c i r|[|]|]; try exact I; try contradiction.
  - destruct P as [P1 P2]. specialize (IH r ltac:(lia)).
    destruct (p_instructions U f r) as [c' is r'| |]; [|exact I|contradiction]. constructor; assumption.
  - constructor.
Qed.

Theorem parse_total s : match parse U s with Ok is => Forall instr_ok is | Err _ => True | _ => False end.
Proof.
  unfold parse. pose proof (p_instructions_ok (S (List.length (skip_spaces U s))) (skip_spaces U s) ltac:(lia)) as P.
  destruct (p_instructions U _ _) as [c is [|x rest]| |]; try exact I; [exact P|contradiction].
Qed.
End ParserFacts.

(** * B. the code regenerated from assembler.rs *)
Lemma gen_insn_cases o d s f m :
  gen_insn o d s f m = Err 0 \/
  (0 <= d < 16 /\ s < 16 /\ - 2 ^ 15 <= f < 2 ^ 15 /\ - 2 ^ 31 <= m < 2 ^ 31 /\
   gen_insn o d s f m = Ok {| opc := o; dst := cast U8 d; src := cast U8 s; off := cast I16 f; imm := cast I32 m |}).
Proof.
  unfold gen_insn.
  destruct (Z.leb_spec 0 d), (Z.ltb_spec d 16); cbn [andb negb bind]; try (now left).
  destruct (Z.ltb_spec d 0); [lia|]. destruct (Z.geb_spec s 16); cbn [orb bind]; try (now left).
  destruct (Z.leb_spec (-32768) f), (Z.ltb_spec f 32768); cbn [andb negb bind]; try (now left).
  destruct (Z.leb_spec (-2147483648) m), (Z.ltb_spec m 2147483648); cbn [andb negb bind]; try (now left).
  right. repeat split; try (fold_pows; lia).
Qed.

Lemma gen_insn_np o d s f m : no_panic (gen_insn o d s f m).
Proof. destruct (gen_insn_cases o d s f m) as [->|(_ & _ & _ & _ & ->)]; exact I. Qed.

Lemma op_get_ok l i : 0 <= i < len_ops l -> op_get l i = Ok (nth (Z.to_nat i) l Nil).
Proof.
  intros H. unfold op_get. destruct (Z.leb_spec 0 i), (Z.ltb_spec i (len_ops l)); try lia. reflexivity.
Qed.

(** operands_tuple: the first three operands, Nil-padded; an error beyond three *)
Lemma operands_tuple_spec ops :
  gen_operands_tuple ops =
  match ops with
  | [] => Ok (Nil, Nil, Nil)
  | [a] => Ok (a, Nil, Nil)
  | [a; b] => Ok (a, b, Nil)
  | [a; b; c] => Ok (a, b, c)
  | _ => Err 0
  end.
Proof.
  unfold gen_operands_tuple. destruct ops as [|a [|b [|c [|d r]]]]; try reflexivity.
  unfold len_ops. cbn [List.length].
  repeat match goal with |- context [Z.of_nat ?n =? ?k] => destruct (Z.eqb_spec (Z.of_nat n) k); [lia|] end. reflexivity.
Qed.

Lemma gen_encode_np ty o ops : no_panic (gen_encode ty o ops).
Proof.
  unfold gen_encode. rewrite operands_tuple_spec.
  destruct ops as [|a [|b [|c [|d r]]]]; cbn [bind]; try exact I;
    destruct ty; try destruct a; try destruct b; try destruct c; try exact I; try apply gen_insn_np.
  all: unfold cshl, cshr; cbn [bits]; change ((0 <=? 32) && (32 <? 64)) with true; cbv iota; cbn [bind]; apply gen_insn_np.
Qed.

(** a successful LoadImm encoding has the operand shape [Register; Integer] *)
Lemma encode_loadimm_shape o ops i : gen_encode LoadImm o ops = Ok i -> exists d v tl, ops = Register d :: Integer v :: tl.
Proof.
  unfold gen_encode. rewrite operands_tuple_spec.
  destruct ops as [|a [|b [|c [|d r]]]]; cbn [bind]; try discriminate;
    try destruct a; try destruct b; try destruct c; try discriminate; intros _; do 3 eexists; reflexivity.
Qed.

Lemma lddw_second_np ty o ops i : Forall op_ok ops -> gen_encode ty o ops = Ok i ->
  exists l, gen_lddw_second ty ops = Ok l /\
            Forall (fun j => opc j = 0 /\ dst j = 0 /\ src j = 0 /\ off j = 0 /\ - 2 ^ 31 <= imm j < 2 ^ 31) l.
Proof.
  intros Hok He. destruct ty; try (exists []; split; [reflexivity|constructor]).
  destruct (encode_loadimm_shape _ _ _ He) as (d & v & tl & ->).
  unfold gen_lddw_second. rewrite op_get_ok by (unfold len_ops; cbn [List.length]; lia).
  change (nth (Z.to_nat 1) (Register d :: Integer v :: tl) Nil) with (Integer v). cbn [bind]. cbv iota.
  unfold cshr. cbn [bits]. change ((0 <=? 32) && (32 <? 64)) with true. cbv iota. cbn [bind].
  inversion Hok as [|? ? _ Hv]; subst. inversion Hv as [|? ? Hv' _]; subst. cbn [op_ok] in Hv'.
  assert (R : - 2 ^ 31 <= v / 2 ^ 32 < 2 ^ 31) by (fold_pows; lia).
  destruct (gen_insn_cases 0 0 0 0 (v / 2 ^ 32)) as [E|(_ & _ & _ & _ & E)].
  - exfalso. revert E. unfold gen_insn.
    cbn [Z.leb Z.ltb Z.geb Z.compare andb orb negb bind].
    destruct (Z.leb_spec (-2147483648) (v / 2 ^ 32)), (Z.ltb_spec (v / 2 ^ 32) 2147483648); cbn [andb negb bind]; try discriminate; fold_pows; lia.
  - rewrite E. cbn [unwrap_res bind]. eexists; split; [reflexivity|]. constructor; [|constructor].
    cbn [opc dst src off imm]. repeat split; try reflexivity.
    + unfold cast. rewrite norm_idem by (unfold in_ty, tmin, tmax; cbn [signed bits]; fold_pows; lia). fold_pows. lia.
    + unfold cast. rewrite norm_idem by (unfold in_ty, tmin, tmax; cbn [signed bits]; fold_pows; lia). fold_pows. lia.
Qed.

Lemma emit_ok l : exists b, emit l = Ok b.
Proof.
  induction l as [|i l [b IH]]; [exists []; reflexivity|].
  cbn [emit]. unfold gen_to_array at 1. cbn [bind]. rewrite IH. cbn [bind]. eexists; reflexivity.
Qed.

Lemma assemble_internal_np parsed : Forall instr_ok parsed -> no_panic (assemble_internal parsed).
Proof.
  induction parsed as [|[name ops] rest IH]; intros H; [exact I|].
  inversion H as [|? ? Hi Hr]; subst. cbn [assemble_internal].
  destruct (map_get name gen_instruction_map) as [[ty o]|]; [|exact I].
  pose proof (gen_encode_np ty o ops) as E. destruct (gen_encode ty o ops) as [i| | |] eqn:Ee; try exact E.
  cbn [bind]. destruct (lddw_second_np ty o ops i Hi Ee) as (l & -> & _). cbn [bind].
  specialize (IH Hr). destruct (assemble_internal rest); exact IH.
Qed.

(** * C14 *)
Theorem assemble_total U s : no_panic (assemble U s).
Proof.
  unfold assemble. pose proof (parse_total U s) as P. destruct (parse U s) as [parsed| | |]; try exact P.
  cbn [bind]. pose proof (assemble_internal_np parsed P) as A.
  destruct (assemble_internal parsed) as [insns| | |]; try exact A.
  cbn [bind]. destruct (emit_ok insns) as [b ->]. exact I.
Qed.
