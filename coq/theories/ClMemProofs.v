(** C04 / C11 (memory arms): for each of the 22 load / store / atomic-add opcodes, the access that the IR built by
    src/cranelift.rs performs (regenerated one opcode at a time into coq/gen/ClMem.v) is the ISA's access: same width, same
    effective address (so the bounds check of C11 is made on the ISA address), same stored / added value modulo the width,
    loaded value zero-extended into the ISA's destination register. *)
From Coq Require Import ZArith Lia Bool List.
From RbpfV Require Import MachInt BitLemmas Ebpf ClirSem Mem Stack Helpers InterpDefs WellFormed Isa ClAluProofs.
From RbpfV.gen Require Import Opcodes ClMem.
Import ListNotations.
Open Scope Z_scope.
Ltac Zify.zify_post_hook ::= Z.div_mod_to_equations.

Definition cl_mem_ops : list Z :=
  [0x20; 0x28; 0x30; 0x38; 0x40; 0x48; 0x50; 0x58;  0x61; 0x69; 0x71; 0x79;
   0x62; 0x6a; 0x72; 0x7a;  0x63; 0x6b; 0x73; 0x7b;  0xc3; 0xdb].

(** the ISA's view of a memory instruction (Isa.isa_exec_dec): kind, width, address, value, destination *)
Definition isa_kind (o : Z) : Z := if is_xadd o then 2 else if (o mod 8 =? 0) || (o mod 8 =? 1) then 0 else 1.
Definition isa_addr (o : Z) (i : insn) (rd rs mem_base : Z) : Z :=
  if o mod 8 =? 0 then (if o / 32 =? 1 then u64 (mem_base + u32 (imm i)) else u64 (mem_base + rs + u32 (imm i)))
  else if o mod 8 =? 1 then u64 (rs + off i) else u64 (rd + off i).
Definition isa_val (o : Z) (i : insn) (rs : Z) : Z :=
  if (o mod 8 =? 0) || (o mod 8 =? 1) then 0
  else (if o mod 8 =? 2 then imm i else rs) mod 2 ^ (8 * size_of o).
Definition isa_target (o : Z) (i : insn) : Z := if o mod 8 =? 0 then 0 else if o mod 8 =? 1 then dst i else 10.

Definition access_matches (o : Z) (i : insn) (rd rs mb : Z) : Prop :=
  let a := gen_cl_mem o i rd rs mb in
  a_kind a = isa_kind o /\ a_bytes a = size_of o /\
  (a_base a + a_off a) mod 2 ^ 64 = isa_addr o i rd rs mb /\
  a_val a = isa_val o i rs /\ a_target a = isa_target o i /\
  (forall v, 0 <= v < 2 ^ (8 * size_of o) -> a_res a v = v).

Ltac evm o :=
  unfold access_matches, isa_kind, isa_addr, isa_val, isa_target, is_xadd, op_xadd_w, op_xadd_dw, size_of;
  let v0 := eval vm_compute in (o mod 8) in change (o mod 8) with v0;
  let v1 := eval vm_compute in (o / 32) in change (o / 32) with v1;
  let v2 := eval vm_compute in ((o / 8) mod 4) in change ((o / 8) mod 4) with v2;
  let v3 := eval vm_compute in (o =? 195) in change (o =? 195) with v3;
  let v4 := eval vm_compute in (o =? 219) in change (o =? 219) with v4;
  cbv beta iota zeta;
  unfold gen_cl_mem; match goal with |- context [a_kind ?L] => let L2 := eval simpl in L in change L with L2 end;
  match goal with |- context [a_kind (?f ?i ?rd ?rs ?mb)] => unfold f end;
  cbv zeta; cbn [a_kind a_bytes a_base a_off a_val a_res a_target];
  repeat match goal with |- context [?a =? ?b] =>
    lazymatch a with
    | Zpos _ => idtac | Z0 => idtac
    end;
    lazymatch b with
    | Zpos _ => idtac | Z0 => idtac
    end;
    let v := eval vm_compute in (a =? b) in change (a =? b) with v end;
  cbv iota; cbn [orb andb].

Theorem cl_mem_arms i rd rs mb :
  0 <= rd < 2 ^ 64 -> 0 <= rs < 2 ^ 64 -> 0 <= mb < 2 ^ 64 -> - 2 ^ 15 <= off i < 2 ^ 15 -> - 2 ^ 31 <= imm i < 2 ^ 31 ->
  Forall (fun o => access_matches o i rd rs mb) cl_mem_ops.
Proof.
  intros Hd Hs Hm Ho Hi. unfold cl_mem_ops.
  assert (C32 : ir_iconst 64 (cast I64 (cast U32 (imm i))) = u32 (imm i)).
  { unfold ir_iconst, u32. assert (R : 0 <= imm i mod 2 ^ 32 < 2 ^ 32) by (apply Z.mod_pos_bound; fold_pows; lia).
    unfold cast at 2. unfold norm. cbn [signed bits]. unfold umod.
    unfold cast. rewrite (norm_idem I64) by (unfold in_ty, tmin, tmax; cbn [signed bits]; fold_pows; lia).
    apply Z.mod_small. fold_pows. lia. }
  repeat (apply Forall_cons;
    [ match goal with |- access_matches ?o _ _ _ _ => evm o end;
      rewrite ?C32, ?imm64_const; unfold ir_iadd, ir_ireduce, ir_uextend, u64;
      repeat split; try reflexivity; try (intros v Hv; reflexivity);
      try (rewrite ?Z.add_0_r, ?Z.mod_mod by (fold_pows; lia); rewrite ?Zplus_mod_idemp_l, ?Zplus_mod_idemp_r; first [reflexivity | f_equal; lia]);
      try (fold_pows; change (8 * 1) with 8; change (8 * 2) with 16; change (8 * 4) with 32; change (8 * 8) with 64; fold_pows; lia)
    | ]).
  apply Forall_nil.
Qed.
