(** C03, whole executions: the x86-64 code of a program without calls, modelled as the regenerated per-instruction arms
    (JitStep.jit_exec) run one after the other, returns what the ISA returns and leaves the same memory, from every state in
    which eBPF register k is held in x86 register REGISTER_MAP[k] and R10 holds the packet address -- whatever the other
    registers hold.  The driver [jit_steps] is hand-written: one emitted sequence per instruction start, a taken branch
    continues at the sequence of the ISA target (C03_jump_fixup: pc_locs / rel32). *)
From Coq Require Import ZArith Lia Bool List.
From RbpfV Require Import MachInt BitLemmas ListLemmas ArmBase Ebpf X86Sem Mem Stack Helpers InterpDefs WellFormed Verifier Isa MemLemmas
  VerifierArms VerifierProofs InterpProofs ClAluProofs ClJmpProofs ClMemProofs ClStep ClRun JitStep.
From RbpfV.gen Require Import Opcodes.
Import ListNotations.
Open Scope Z_scope.

Definition jstate : Type := (regs * Z * mem)%type.
Definition jit_step (g : Z -> Z) (E : ienv) (s : jstate) : res jres :=
  let '(R, pc, m) := s in jit_exec g E (insn_at (e_prog E) pc) (pc + 1) R m.
(** [clob f r] = what the helper called at the step with f steps of budget left leaves in the caller-saved x86 register r *)
Fixpoint jit_steps (clob : nat -> Z -> Z) (fuel : nat) (E : ienv) (s : jstate) : outcome :=
  match fuel with
  | O => OFuel
  | S f => match jit_step (clob f) E s with
           | Ok (JNext R' pc' m') => jit_steps clob f E (R', pc', m')
           | Ok (JRet r m) => ODone r m
           | Err e => OErr e (snd s)
           | Panic _ => OPanic
           | OutOfFuel => OFuel
           end
  end.

(** the reference: the ISA, except that a helper call leaves r1-r5 undefined -- here: holding that same garbage *)
Definition is_helper_call (i : insn) : bool := (opc i =? op_call) && (src i =? 0).
Definition isa_step_c (g : Z -> Z) (E : ienv) (s : istate) : res stepres :=
  let '(_, pc, _, _, _) := s in
  match isa_step E s with
  | Ok (SNext (reg', pc', f', st', m')) =>
      if is_helper_call (insn_at (e_prog E) pc) then Ok (SNext (clobber g reg', pc', f', st', m'))
      else Ok (SNext (reg', pc', f', st', m'))
  | r => r
  end.
Fixpoint isa_steps_c (clob : nat -> Z -> Z) (fuel : nat) (E : ienv) (s : istate) : outcome :=
  match fuel with
  | O => OFuel
  | S f => match isa_step_c (clob f) E s with
           | Ok (SNext s') => isa_steps_c clob f E s'
           | Ok (SRet r m) => ODone r m
           | Err e => OErr e (snd s)
           | Panic _ => OPanic
           | OutOfFuel => OFuel
           end
  end.

(** without calls the ISA stays in the outermost frame *)
Lemma isa_exec_fidx E i reg next stacks m reg' pc' f' st' m' : opc i <> op_call ->
  isa_exec E i reg next 0 stacks m = Ok (SNext (reg', pc', f', st', m')) -> f' = 0.
Proof.
  intros Nc. unfold isa_exec, isa_exec_dec. cbv zeta.
  destruct (Z.eqb_spec (opc i) op_call) as [Q|_]; [contradiction|]. change (0 <? 0) with false. cbv iota.
  repeat match goal with
  | |- (if ?c then _ else _) = _ -> _ => destruct c
  | |- match ?x with _ => _ end = _ -> _ => destruct x
  end; intros [= ]; subst; reflexivity.
Qed.

Lemma inv_clobber E g reg pc stacks m : Inv E (reg, pc, 0, stacks, m) -> Inv E (clobber g reg, pc, 0, stacks, m).
Proof.
  intros HI. unfold clobber, set_reg.
  assert (S : forall reg d v, Inv E (reg, pc, 0, stacks, m) -> 0 <= d <= 9 -> Inv E (upd reg d (v mod 2 ^ 64), pc, 0, stacks, m)).
  { intros rg d v H Hd9. pose proof H as (Hpc & _ & _ & Hf & Hm & _).
    apply (inv_set_reg E rg pc 0 stacks m stacks d _ pc m H Hf); try reflexivity; try assumption. apply mod64_range. }
  repeat apply S; try lia. exact HI.
Qed.

Section Run.
Variable E : ienv.
Hypothesis Hb : bytes_ok (e_prog E).
Hypothesis Hacc : acc (e_prog E).
Hypothesis He : env_ok E.
(** calls are helper calls to registered helpers (otherwise jit_compile returns an error; local calls are known finding
    D18); packet-relative loads have a non-negative immediate (the JIT sign-extends it, the ISA zero-extends it) *)
Hypothesis Hprog : forall k, In k (starts (e_prog E)) ->
  (opc (insn_at (e_prog E) k) = op_call ->
     src (insn_at (e_prog E) k) = 0 /\ e_helpers E (u32 (imm (insn_at (e_prog E) k))) <> None) /\
  (opc (insn_at (e_prog E) k) mod 8 = 0 -> 0 <= imm (insn_at (e_prog E) k)).

Theorem jit_steps_refine clob fuel : forall reg R pc stacks m r m',
  Inv E (reg, pc, 0, stacks, m) -> jrel reg R -> R 10 = e_mem_base E ->
  isa_steps_c clob fuel E (reg, pc, 0, stacks, m) = ODone r m' ->
  jit_steps clob fuel E (R, pc, m) = ODone r m'.
Proof.
  induction fuel as [|f IH]; intros reg R pc stacks m r m' HI Hrel H10 H; [discriminate H|].
  cbn [isa_steps_c] in H. cbn [jit_steps]. unfold isa_step_c in H.
  destruct (isa_step E (reg, pc, 0, stacks, m)) as [st|e|x|] eqn:Hs; try discriminate H.
  pose proof HI as (Hpc & Hr & _ & _ & Hm & _).
  pose proof (verifier_facts E Hb Hacc pc Hpc) as V. pose proof (start_range E pc Hpc) as Rpc.
  destruct (Hprog pc Hpc) as [Hcall Himm]. destruct (vf_wf E pc V) as (W1 & W2 & W3 & W4 & W5).
  pose proof Hs as Hs0. unfold isa_step in Hs.
  destruct (refresh_usage E stacks 0 pc) as [st2| | |] eqn:Ru; cbn [bind] in Hs; try discriminate Hs.
  unfold jit_step.
  destruct (Z.eq_dec (opc (insn_at (e_prog E) pc)) op_call) as [Ho|Nc].
  - (* helper call *)
    destruct (Hcall Ho) as [Hsrc Hreg].
    destruct (e_helpers E (u32 (imm (insn_at (e_prog E) pc)))) as [fh|] eqn:Hf; [|now destruct Hreg].
    assert (Hst : st = SNext (set_reg reg 0 (fh (rd reg 1) (rd reg 2) (rd reg 3) (rd reg 4) (rd reg 5)), pc + 1, 0, st2, m)).
    { unfold isa_exec, isa_exec_dec in Hs. rewrite Ho, Hsrc in Hs.
      change ((op_call mod 8 =? 7) || (op_call mod 8 =? 4)) with false in Hs. change ((op_call mod 8 =? 5) || (op_call mod 8 =? 6)) with true in Hs.
      change (op_call =? op_ja) with false in Hs. change (op_call =? op_call) with true in Hs. change (0 =? 0) with true in Hs. cbv iota in Hs.
      rewrite Hf in Hs. now injection Hs as <-. }
    subst st. unfold is_helper_call in H. rewrite Ho, Hsrc in H. change ((op_call =? op_call) && (0 =? 0)) with true in H. cbv iota in H.
    destruct (jit_call_sim (clob f) E _ reg R (pc + 1) m fh Hr Hrel He (vf_wf E pc V) Ho Hsrc Hf) as (R' & Hj & Hrel' & H10').
    rewrite Hj.
    pose proof (step_preserves E Hb Hacc He _ _ HI Hs0) as HI'.
    apply (IH _ R' (pc + 1) st2 m r m' (inv_clobber E _ _ _ _ _ HI') Hrel'); [congruence|exact H].
  - assert (NH : is_helper_call (insn_at (e_prog E) pc) = false).
    { unfold is_helper_call. destruct (Z.eqb_spec (opc (insn_at (e_prog E) pc)) op_call); [contradiction|reflexivity]. }
    rewrite NH in H.
    assert (X := jit_exec_simulates (clob f) E (insn_at (e_prog E) pc) reg R (pc + 1) 0 st2 m st Hr Hrel H10 Hm (vf_wf E pc V)).
    assert (Hd : 0 <= dst (insn_at (e_prog E) pc) <= 10) by (destruct (vf_dst E pc V) as [D|[D _]]; lia).
    assert (Hsr : 0 <= src (insn_at (e_prog E) pc) <= 10) by (pose proof (vf_src E pc V); lia).
    specialize (X Hd Hsr (supported_cl _ (vf_sup E pc V)) Nc).
    assert (Hend : (opc (insn_at (e_prog E) pc) =? op_le) || (opc (insn_at (e_prog E) pc) =? op_be) = true -> In (imm (insn_at (e_prog E) pc)) [16; 32; 64]).
    { intros En. destruct (vf_end E pc V En) as [A|[A|A]]; rewrite A; cbn [In]; tauto. }
    assert (Hld : opc (insn_at (e_prog E) pc) = op_lddw -> wf_insn (insn_at (e_prog E) (pc + 1))).
    { intros El. destruct (vf_lddw E pc V El) as [L _]. apply insn_at_wf; [exact (p_shape E Hb Hacc)|lia]. }
    specialize (X Hend Hld (fun _ => eq_refl) Himm Hs).
    destruct st as [[[[[reg' pc'] f'] st'] mm]|v mv].
    + pose proof (step_preserves E Hb Hacc He _ _ HI Hs0) as HI'.
      pose proof HI' as (_ & Hr' & _).
      destruct (X Hr') as (R' & Hj & Hrel' & H10'). rewrite Hj.
      assert (F0 : f' = 0) by (eapply isa_exec_fidx; eauto). subst f'.
      apply (IH reg' R' pc' st' mm r m' HI' Hrel'); [congruence|exact H].
    + rewrite X. exact H.
Qed.
End Run.

(** ** from the state the prologue leaves *)
Definition regs_of (R : regs) : list Z := map (fun k => R (ez k)) [0; 1; 2; 3; 4; 5; 6; 7; 8; 9; 10].

Lemma regs_of_rel R : (forall r, 0 <= R r < 2 ^ 64) -> ArmBase.regs_ok (regs_of R) /\ jrel (regs_of R) R.
Proof.
  intros HR. split; [split; [reflexivity|]|split; [exact HR|]].
  - unfold regs_of. cbn [map]. repeat (constructor; [apply HR|]). constructor.
  - intros k Hk. assert (C : k = 0 \/ k = 1 \/ k = 2 \/ k = 3 \/ k = 4 \/ k = 5 \/ k = 6 \/ k = 7 \/ k = 8 \/ k = 9 \/ k = 10) by lia.
    repeat (destruct C as [->|C]; [reflexivity|]). subst k. reflexivity.
Qed.

(** C03: for every accepted program whose calls are helper calls, every input and budget, every register file in which R10
    holds the packet address and the register of eBPF r10 the top of the stack (what the prologue establishes:
    C09_jit_prologue_...), and whatever the helpers leave in the caller-saved registers, the emitted code returns the value
    and leaves the memory of the ISA run from the same eBPF register values *)
Theorem jit_run_refines E m0 clob fuel R0 r m' :
  bytes_ok (e_prog E) -> acc (e_prog E) -> env_ok E -> mem_ok m0 ->
  (forall k, In k (starts (e_prog E)) ->
     (opc (insn_at (e_prog E) k) = op_call ->
        src (insn_at (e_prog E) k) = 0 /\ e_helpers E (u32 (imm (insn_at (e_prog E) k))) <> None) /\
     (opc (insn_at (e_prog E) k) mod 8 = 0 -> 0 <= imm (insn_at (e_prog E) k))) ->
  (forall x, 0 <= R0 x < 2 ^ 64) -> R0 10 = e_mem_base E -> R0 (ez 10) = e_stack_base E + e_stack_len E ->
  isa_steps_c clob fuel E (regs_of R0, 0, 0, stacks0, m0) = ODone r m' ->
  jit_steps clob fuel E (R0, 0, m0) = ODone r m'.
Proof.
  intros Hb Ha He Hm Hp HR H10 Hsp H. destruct (regs_of_rel R0 HR) as [Hok Hrel].
  apply (jit_steps_refine E Hb Ha He Hp clob fuel (regs_of R0) R0 0 stacks0 m0 r m'); try assumption.
  pose proof (init_inv E m0 Hb Ha He Hm) as (Hpc & _ & Hf & Hfr & _ & _ & Hrets).
  refine (conj Hpc (conj Hok (conj Hf (conj Hfr (conj Hm (conj _ Hrets)))))).
  destruct He as [_ _ (S1 & S2 & S3) _ _].
  unfold usage_sum. change (Z.to_nat 0) with 0%nat. cbn [firstn map fold_right].
  change (rd (regs_of R0) 10) with (R0 (ez 10)). rewrite Hsp, S2. lia.
Qed.

(** a program that makes no helper call does not see the garbage: the reference is then the plain ISA run *)
Lemma isa_steps_c_nocall E clob fuel : (forall k, opc (insn_at (e_prog E) k) <> op_call) ->
  forall s, isa_steps_c clob fuel E s = isa_steps fuel E s.
Proof.
  intros Hn. induction fuel as [|f IH]; intros s; [reflexivity|].
  cbn [isa_steps_c isa_steps]. unfold isa_step_c. destruct s as [[[[reg pc] fidx] stacks] m].
  assert (NH : is_helper_call (insn_at (e_prog E) pc) = false).
  { unfold is_helper_call. destruct (Z.eqb_spec (opc (insn_at (e_prog E) pc)) op_call) as [Q|_]; [now destruct (Hn pc)|reflexivity]. }
  rewrite NH. destruct (isa_step E (reg, pc, fidx, stacks, m)) as [[[[[[reg' pc'] f'] st'] m']|v mv]|e|x|]; try reflexivity. apply IH.
Qed.

(** C03 in the property's own terms, for the programs that make no call: when the registers the prologue leaves untouched
    happen to hold what the interpreter starts with (zero), the compiled code returns what the interpreter -- the
    regenerated interpreter.rs -- returns, and leaves the same memory *)
Theorem jit_equals_interpreter E m0 clob fuel R0 r m' :
  bytes_ok (e_prog E) -> acc (e_prog E) -> env_ok E -> mem_ok m0 -> d7_free E ->
  (forall k, opc (insn_at (e_prog E) k) <> op_call) ->
  (forall k, In k (starts (e_prog E)) -> opc (insn_at (e_prog E) k) mod 8 = 0 -> 0 <= imm (insn_at (e_prog E) k)) ->
  (forall x, 0 <= R0 x < 2 ^ 64) -> R0 10 = e_mem_base E -> regs_of R0 = isa_init_regs E ->
  Interp.run fuel E m0 = ODone r m' ->
  jit_steps clob fuel E (R0, 0, m0) = ODone r m'.
Proof.
  intros Hb Ha He Hm Hd Hn Hi HR H10 Hregs H.
  rewrite (interp_refines_isa E m0 fuel Hb Ha He Hm Hd) in H. unfold isa_run in H. rewrite <- Hregs in H.
  apply (jit_run_refines E m0 clob fuel R0 r m' Hb Ha He Hm); try assumption.
  - intros k Hk. split; [intros Q; now destruct (Hn k)|now apply Hi].
  - assert (Q : nth 10 (regs_of R0) 0 = nth 10 (isa_init_regs E) 0) by (now rewrite Hregs). exact Q.
  - rewrite isa_steps_c_nocall by exact Hn. exact H.
Qed.
