(** C01 / C02, memory arms: generated interpreter arm = ISA specification (bounds check included). *)
From Coq Require Import ZArith Lia Bool List.
From RbpfV Require Import MachInt BitLemmas ListLemmas Ebpf Mem InterpDefs WellFormed Isa ArmBase ArmVals MemLemmas.
From RbpfV.gen Require Import Opcodes Codec Interp.
Import ListNotations.
Open Scope Z_scope.
Ltac Zify.zify_post_hook ::= Z.div_mod_to_equations.

Section Arms.
Variables (E : ienv) (i : insn) (reg : list Z) (next fidx : Z) (stacks : list frame) (m : mem).
Hypothesis Hw : wf_insn i.
Hypothesis Hr : regs_ok reg.
Hypothesis He : env_ok E.
Hypothesis Hm : mem_ok m.

Lemma mcast_dst : cast USZ (dst i) = dst i.
Proof. destruct Hw as (_ & H & _). apply cast_usz_id. fold_pows. lia. Qed.
Lemma mcast_src : cast USZ (src i) = src i.
Proof. destruct Hw as (_ & _ & H & _). apply cast_usz_id. fold_pows. lia. Qed.
Lemma off_isz : cast ISZ (off i) = off i.
Proof.
  destruct Hw as (_ & _ & _ & H & _). apply norm_idem. unfold in_ty, tmin, tmax; cbn [signed bits].
  change (64 - 1) with 63. fold_pows. lia.
Qed.
Lemma ea_eq r : wadd U64 (rd reg r) (off i) = u64 (rd reg r + off i).
Proof. reflexivity. Qed.
Lemma u64_range x : 0 <= u64 x < 2 ^ 64. Proof. apply modp_range. lia. Qed.

Lemma next_mem_eq (r : list Z) (n f : Z) (st : list frame) (m1 m2 : mem) : m1 = m2 ->
  @Ok (ctl (Z * mem) istate) (Next (r, n, f, st, m1)) = Ok (Next (r, n, f, st, m2)).
Proof. now intros ->. Qed.

Ltac sizes :=
  repeat match goal with |- context [size_of ?o] =>
    let v := eval vm_compute in (size_of o) in change (size_of o) with v end;
  change (8 * 1) with 8; change (8 * 2) with 16; change (8 * 4) with 32; change (8 * 8) with 64.

Ltac start := intros Ho; arm_start; rewrite ?mcast_dst, ?mcast_src, ?off_isz, ?ea_eq; sizes; unfold set_reg.

Lemma ldx_arms o : In o [0x61; 0x69; 0x71; 0x79] -> opc i = o ->
  gen_interp_arm o E i (cast USZ (dst i)) (cast USZ (src i)) reg next fidx stacks m
  = conv (isa_exec E i reg next fidx stacks m).
Proof.
  intros Hin.
  repeat (destruct Hin as [<-|Hin];
    [start; rewrite chk_load_sem by (try exact He; try apply u64_range; lia);
     destruct (access_ok E _ _); cbn [bind conv]; [|reflexivity];
     apply next_reg_eq; first [reflexivity | apply cast_u64_id, mload_u64; [exact Hm|lia]]|]).
  destruct Hin.
Qed.

Lemma st_arms o : In o [0x62; 0x6a; 0x72; 0x7a; 0x63; 0x6b; 0x73; 0x7b] -> opc i = o ->
  gen_interp_arm o E i (cast USZ (dst i)) (cast USZ (src i)) reg next fidx stacks m
  = conv (isa_exec E i reg next fidx stacks m).
Proof.
  intros Hin. pose proof (rd_range reg (src i) Hr) as Rs.
  repeat (destruct Hin as [<-|Hin];
    [start; rewrite chk_store_sem by (try exact He; try apply u64_range; lia);
     destruct (access_ok E _ _); cbn [bind conv negb]; [|reflexivity];
     first [reflexivity
           | apply next_mem_eq; f_equal; symmetry; apply Z.mod_small; exact Rs ]|]).
  destruct Hin.
Qed.

Lemma xadd_arms o : In o [0xc3; 0xdb] -> opc i = o ->
  gen_interp_arm o E i (cast USZ (dst i)) (cast USZ (src i)) reg next fidx stacks m
  = conv (isa_exec E i reg next fidx stacks m).
Proof.
  intros Hin. pose proof (rd_range reg (src i) Hr) as Rs.
  repeat (destruct Hin as [<-|Hin];
    [start; rewrite chk_store_sem by (try exact He; try apply u64_range; lia);
     destruct (access_ok E _ _); cbn [bind conv negb]; [|reflexivity];
     unfold is_multiple_of; cbn [Z.eqb];
     match goal with |- context [?a mod ?k =? 0] => destruct (a mod k =? 0) end; cbn [bind conv]; [|reflexivity];
     apply next_mem_eq; f_equal; unfold wadd, cast, norm; cbn [signed bits]; unfold umod;
     first [ rewrite (Z.mod_small (rd reg (src i)) (2 ^ 64)) by exact Rs; reflexivity
           | match goal with |- ?X mod 2 ^ 32 = ?Y mod 2 ^ 32 => change (cong 32 X Y); cong_tac 32 end ]|]).
  destruct Hin.
Qed.

Lemma mem_base_rng : 0 <= e_mem_base E <= 2 ^ 63.
Proof. destruct He as [_ (A & B & C) _ _ _]. lia. Qed.

Lemma ldabs_arms o : In o [0x20; 0x28; 0x30; 0x38] -> opc i = o ->
  gen_interp_arm o E i (cast USZ (dst i)) (cast USZ (src i)) reg next fidx stacks m
  = conv (isa_exec E i reg next fidx stacks m).
Proof.
  intros Hin. pose proof mem_base_rng as Rb.
  pose proof (modp_range (imm i) 32 ltac:(lia)) as Ri.
  assert (A : cadd U64 0 (e_mem_base E) (cast U64 (cast U32 (imm i))) = Ok (u64 (e_mem_base E + u32 (imm i)))).
  { unfold cadd, cast, norm, u64, u32; cbn [signed bits]; unfold umod. rewrite mod_pow_small by lia.
    rewrite chk_u64 by (fold_pows; lia). f_equal. symmetry. apply Z.mod_small. fold_pows. lia. }
  repeat (destruct Hin as [<-|Hin];
    [start; rewrite A; cbn [bind];
     rewrite chk_load_sem by (try exact He; try apply u64_range; lia);
     destruct (access_ok E _ _); cbn [bind conv]; [|reflexivity];
     apply next_reg_eq; first [reflexivity | apply cast_u64_id, mload_u64; [exact Hm|lia]]|]).
  destruct Hin.
Qed.

Lemma ldind_arms o : In o [0x40; 0x48; 0x50; 0x58] -> opc i = o ->
  gen_interp_arm o E i (cast USZ (dst i)) (cast USZ (src i)) reg next fidx stacks m
  = conv (isa_exec E i reg next fidx stacks m).
Proof.
  intros Hin.
  assert (A : wadd U64 (wadd U64 (e_mem_base E) (rd reg (src i))) (cast U64 (cast U32 (imm i)))
              = u64 (e_mem_base E + rd reg (src i) + u32 (imm i))).
  { unfold wadd, cast, norm, u64, u32; cbn [signed bits]; unfold umod.
    match goal with |- ?X mod 2 ^ 64 = ?Y mod 2 ^ 64 => change (cong 64 X Y); cong_tac 64 end. }
  repeat (destruct Hin as [<-|Hin];
    [start; rewrite A;
     rewrite chk_load_sem by (try exact He; try apply u64_range; lia);
     destruct (access_ok E _ _); cbn [bind conv]; [|reflexivity];
     apply next_reg_eq; first [reflexivity | apply cast_u64_id, mload_u64; [exact Hm|lia]]|]).
  destruct Hin.
Qed.
End Arms.
