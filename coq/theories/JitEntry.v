(** C03 / C09: the state the regenerated prologue leaves is one of those the run theorems start from: R10 = packet address,
    rdi (eBPF r1) = what the interpreter puts in r1, rbp (eBPF r10) = top of a 512-byte area below the saved registers, every
    register a 64-bit value. *)
From Coq Require Import ZArith Lia Bool List.
From RbpfV Require Import MachInt BitLemmas Ebpf X86Sem X86Seq X86Stk Mem Stack Helpers InterpDefs WellFormed Isa MemLemmas
  JitFrameProofs JitStep JitRun.
From RbpfV.gen Require Import JitLogic JitFrame.
Import ListNotations.
Open Scope Z_scope.

Section Entry.
Variables (R0 : regs) (m0 : bmem) (E : ienv).
Hypothesis HR : forall r, 0 <= R0 r < 2 ^ 64.
Hypothesis Hsp : 1024 <= R0 4.
(** the environment of the run: the packet is what rdx points to, the stack is the 512 bytes below rbp *)
Hypothesis Hmem : e_mem_base E = R0 2.
Hypothesis Hstk : e_stack_base E + e_stack_len E = R0 4 - 40.

Lemma entry_range R : R 7 = R0 2 \/ R 7 = R0 7 -> R 10 = R0 2 -> framed R0 R -> (forall r, ~ In r [4; 5; 7; 10] -> R r = R0 r) ->
  forall x, 0 <= R x < 2 ^ 64.
Proof.
  intros H7 H10 [F5 F4] Ho x. pose proof (HR 4) as S4. unfold gen_jit_stack_size in F4.
  change (2 ^ 64) with 18446744073709551616 in *.
  destruct (Z.eq_dec x 4) as [->|N4]; [rewrite F4; lia|].
  destruct (Z.eq_dec x 5) as [->|N5]; [rewrite F5; lia|].
  destruct (Z.eq_dec x 7) as [->|N7]; [destruct H7 as [-> | ->]; apply HR|].
  destruct (Z.eq_dec x 10) as [->|N10]; [rewrite H10; apply HR|].
  rewrite Ho; [apply HR|]. cbn [In]. intros [Q|[Q|[Q|[Q|[]]]]]; congruence.
Qed.

(** no metadata buffer (EbpfVmRaw with a non-empty packet): r1 = the packet *)
Theorem jit_entry_no_metadata : e_mbuff_len E = 0 -> e_mem_len E <> 0 ->
  exists R, krun (body_of gen_jit_prologue_nombuff) (R0, m0) = Some (R, m5 R0 m0) /\
    (forall x, 0 <= R x < 2 ^ 64) /\ R 10 = e_mem_base E /\ R (ez 1) = rd (isa_init_regs E) 1 /\
    R (ez 10) = e_stack_base E + e_stack_len E.
Proof.
  intros Hb0 Hl. destruct (jit_prologue_nombuff R0 m0 HR Hsp) as (_ & R & Hk & H7 & H10 & Hf & _ & Ho).
  exists R. split; [exact Hk|]. split; [now apply entry_range; auto|]. split; [congruence|]. split.
  - change (ez 1) with 7. rewrite H7, <- Hmem. unfold isa_init_regs, rd. cbn [nth Z.to_nat Pos.to_nat Pos.iter_op Nat.add].
    rewrite Hb0. destruct (Z.eqb_spec (e_mem_len E) 0); [contradiction|reflexivity].
  - change (ez 10) with 5. destruct Hf as [F5 _]. rewrite F5, Hstk. reflexivity.
Qed.

(** a metadata buffer (EbpfVmMbuff / EbpfVmFixedMbuff): r1 = the buffer *)
Theorem jit_entry_metadata : e_mbuff_len E <> 0 -> e_mbuff_base E = R0 7 ->
  exists R, krun (body_of gen_jit_prologue_mbuff) (R0, m0) = Some (R, m5 R0 m0) /\
    (forall x, 0 <= R x < 2 ^ 64) /\ R 10 = e_mem_base E /\ R (ez 1) = rd (isa_init_regs E) 1 /\
    R (ez 10) = e_stack_base E + e_stack_len E.
Proof.
  intros Hl Hbb. destruct (jit_prologue_mbuff R0 m0 HR Hsp) as (_ & R & Hk & H7 & H10 & Hf & _ & Ho).
  exists R. split; [exact Hk|]. split.
  { apply entry_range; auto. intros r N. apply Ho. cbn [In] in *. tauto. }
  split; [congruence|]. split.
  - change (ez 1) with 7. rewrite H7, <- Hbb. unfold isa_init_regs, rd. cbn [nth Z.to_nat Pos.to_nat Pos.iter_op Nat.add].
    destruct (Z.eqb_spec (e_mbuff_len E) 0); [contradiction|reflexivity].
  - change (ez 10) with 5. destruct Hf as [F5 _]. rewrite F5, Hstk. reflexivity.
Qed.
End Entry.
