(** C20 (the cfg-dependent JIT glue): JitMemory::new exists twice, for the default build (allocates page-aligned memory of
    the computed size) and for no_std (uses memory supplied by the caller).  Regenerated into coq/gen/JitMem.v: both compute
    the same size, make the same two passes with the same arguments, and the no_std one refuses the caller's memory exactly
    when it is shorter than that size or not page-aligned -- so memory like the one the default build allocates is accepted. *)
From Coq Require Import ZArith Lia Bool List.
From RbpfV Require Import MachInt BitLemmas.
From RbpfV.gen Require Import JitMem LibWrap.
Import ListNotations.
Open Scope Z_scope.
Ltac Zify.zify_post_hook ::= Z.div_mod_to_equations.

Lemma land_clear12 v : 0 <= v < 2 ^ 64 -> Z.land v (norm USZ (Z.lnot 4095)) = v - v mod 4096.
Proof.
  intros Hv. unfold norm. cbn [signed bits]. unfold umod.
  change (Z.lnot 4095 mod 2 ^ 64) with (Z.land (Z.lnot 4095) (Z.ones 64)) || rewrite <- (Z.land_ones (Z.lnot 4095) 64) by lia.
  rewrite Z.land_assoc, (Z.land_comm v), <- Z.land_assoc.
  rewrite (Z.land_ones v 64) by lia. rewrite (Z.mod_small v) by exact Hv.
  rewrite Z.land_comm. change 4095 with (Z.ones 12).
  change (Z.land v (Z.lnot (Z.ones 12))) with (Z.ldiff v (Z.ones 12)).
  rewrite Z.ldiff_ones_r by lia. rewrite Z.shiftr_div_pow2, Z.shiftl_mul_pow2 by lia.
  change (2 ^ 12) with 4096. lia.
Qed.

Theorem round_up_spec s : 0 <= s -> s + 4096 < 2 ^ 64 ->
  exists r, gen_round_up_to_page s = Ok r /\ r mod 4096 = 0 /\ s <= r < s + 4096.
Proof.
  intros H0 H1. unfold gen_round_up_to_page, cadd, csub.
  assert (I : forall x, 0 <= x < 2 ^ 64 -> chk USZ 0 x = Ok x).
  { intros x Hx. unfold chk. rewrite (proj2 (in_tyb_spec USZ x)); [reflexivity|]. unfold in_ty, tmin, tmax. cbn [signed bits]. lia. }
  rewrite I by lia. cbn [bind]. rewrite I by lia. cbn [bind]. rewrite I by lia. cbn [bind].
  eexists. split; [reflexivity|].
  change (4096 - 1) with 4095. rewrite land_clear12 by lia. lia.
Qed.

Theorem mem_size_agrees code_len : gen_jit_mem_size_no_std code_len = gen_jit_mem_size_std code_len.
Proof. reflexivity. Qed.

Theorem mem_size_spec code_len : 0 <= code_len -> code_len + 8192 < 2 ^ 64 ->
  exists size, gen_jit_mem_size_std code_len = Ok size /\ size mod 4096 = 0 /\ code_len <= size /\ 4096 <= size.
Proof.
  intros H0 H1. unfold gen_jit_mem_size_std.
  destruct (round_up_spec (Z.max code_len 4096)) as (r & E & M & B); [lia|lia|].
  exists r. split; [exact E|]. split; [exact M|]. lia.
Qed.

Theorem mem_size_both : forall code_len, 0 <= code_len -> code_len + 8192 < 2 ^ 64 ->
  gen_jit_mem_size_no_std code_len = gen_jit_mem_size_std code_len /\
  exists size, gen_jit_mem_size_std code_len = Ok size /\ size mod 4096 = 0 /\ code_len <= size /\ 4096 <= size.
Proof. intros c H0 H1. split; [apply mem_size_agrees | now apply mem_size_spec]. Qed.

Theorem no_std_refusal ptr len size :
  gen_jit_mem_refuses_no_std ptr len size = Ok ((len <? size) || negb (ptr mod 4096 =? 0)).
Proof. unfold gen_jit_mem_refuses_no_std. cbn [bind]. destruct (len <? size); [reflexivity|]. cbn [bind orb]. destruct (ptr mod 4096 =? 0); reflexivity. Qed.

Theorem no_std_accepts_aligned ptr len size : ptr mod 4096 = 0 -> size <= len -> gen_jit_mem_refuses_no_std ptr len size = Ok false.
Proof.
  intros A L. rewrite no_std_refusal. rewrite A. destruct (Z.ltb_spec len size); [lia|reflexivity].
Qed.

(** every VM kind compiles its JIT code with the same (use_mbuff, update_data_ptr) in both builds *)
Theorem jit_flags_agree :
  gen_jit_flags_mbuff_no_std = gen_jit_flags_mbuff /\ gen_jit_flags_fixed_no_std = gen_jit_flags_fixed /\
  gen_jit_flags_raw_no_std = gen_jit_flags_raw /\ gen_jit_flags_nodata_no_std = gen_jit_flags_nodata.
Proof. repeat split. Qed.

(** C12: the writing pass never trips the assertion of emit_bytes!.  The sizing pass counts the same emissions (same
    arguments: C20_jit_memory_size) and reaches [code_len]; the buffer is that rounded up to a page; so every write of the
    second pass -- [size] bytes at an [offset] with offset + size <= code_len, the last byte of an image that fills its
    pages exactly included -- passes the assertion. *)
Theorem emit_bytes_fits code_len len offset size :
  0 <= offset -> 0 <= size -> offset + size <= code_len -> code_len + 8192 < 2 ^ 64 ->
  gen_jit_mem_size_std code_len = Ok len -> gen_emit_bytes_fits offset size len = Ok true.
Proof.
  intros H0 H1 H2 H3 Hl.
  destruct (mem_size_spec code_len) as (sz & Hsz & _ & Hge & _); [lia|lia|].
  rewrite Hsz in Hl. injection Hl as <-.
  unfold gen_emit_bytes_fits, cadd, chk.
  rewrite (proj2 (in_tyb_spec USZ (offset + size))) by (unfold in_ty, tmin, tmax; cbn [signed bits]; lia).
  cbn [bind]. destruct (Z.leb_spec (offset + size) sz); [reflexivity|lia].
Qed.
