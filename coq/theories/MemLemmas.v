(** Memory model facts and the semantics of the generated bounds check (C02 core). *)
From Coq Require Import ZArith Lia Bool List.
From RbpfV Require Import MachInt BitLemmas ListLemmas Ebpf Mem InterpDefs WellFormed Isa ArmBase ArmVals.
From RbpfV.gen Require Import Opcodes Codec Interp.
Import ListNotations.
Open Scope Z_scope.
Ltac Zify.zify_post_hook ::= Z.div_mod_to_equations.

(** every byte of every region is a byte *)
Definition mem_ok (m : mem) : Prop := Forall (fun r => bytes_ok (r_data r)) m.

Lemma mread_bytes m a n b : mem_ok m -> mread m a n = Some b -> bytes_ok b /\ (length b <= Z.to_nat n)%nat.
Proof.
  induction m as [|r m IH]; intros Hm H; [discriminate|]. cbn [mread] in H.
  inversion Hm as [|? ? Hr Hm']; subst.
  destruct (inside r a n).
  - inversion H; subst. split.
    + unfold bytes_ok in *. rewrite Forall_forall in *. intros x Hx. apply In_firstn, In_skipn in Hx. auto.
    + rewrite firstn_length. lia.
  - auto.
Qed.

Lemma mload_range m a n : mem_ok m -> 0 <= n <= 8 -> 0 <= mload m a n < 2 ^ (8 * n).
Proof.
  intros Hm Hn. unfold mload. destruct (mread m a n) as [b|] eqn:Eb.
  - destruct (mread_bytes m a n b Hm Eb) as [Hb Hl].
    pose proof (of_le_bytes_range b Hb) as R.
    assert (256 ^ Z.of_nat (length b) <= 2 ^ (8 * n)).
    { change 256 with (2 ^ 8). rewrite <- Z.pow_mul_r by lia. apply Z.pow_le_mono_r; lia. }
    lia.
  - split; [lia|apply pow2_pos; lia].
Qed.

Lemma mload_u64 m a n : mem_ok m -> 0 <= n <= 8 -> 0 <= mload m a n < 2 ^ 64.
Proof.
  intros Hm Hn. pose proof (mload_range m a n Hm Hn).
  assert (2 ^ (8 * n) <= 2 ^ 64) by (apply Z.pow_le_mono_r; lia). lia.
Qed.

Lemma splice_bytes d o b : bytes_ok d -> bytes_ok b -> bytes_ok (splice d o b).
Proof.
  intros Hd Hb. unfold splice, bytes_ok in *. rewrite !Forall_app. repeat split; try assumption.
  - rewrite Forall_forall in *. intros x Hx. apply In_firstn in Hx. auto.
  - rewrite Forall_forall in *. intros x Hx. apply In_skipn in Hx. auto.
Qed.

Lemma mstore_ok m a n v : mem_ok m -> mem_ok (mstore m a n v).
Proof.
  unfold mstore. generalize (le_bytes_bytes (Z.to_nat n) v). generalize (le_bytes (Z.to_nat n) v). intros b Hb.
  induction m as [|r m IH]; intros Hm; [constructor|]. cbn [mwrite].
  inversion Hm as [|? ? Hr Hm']; subst. destruct (inside r a (len b)).
  - constructor; [|exact Hm']. cbn [r_data]. apply splice_bytes; [exact Hr|exact Hb].
  - constructor; [exact Hr|]. apply IH. exact Hm'.
Qed.

(** * the environment of a user-space execution *)
Record env_ok (E : ienv) : Prop := {
  eo_mbuff : 0 <= e_mbuff_base E /\ 0 <= e_mbuff_len E /\ e_mbuff_base E + e_mbuff_len E <= 2 ^ 63;
  eo_mem : 0 <= e_mem_base E /\ 0 <= e_mem_len E /\ e_mem_base E + e_mem_len E <= 2 ^ 63;
  eo_stack : 2 ^ 20 <= e_stack_base E /\ e_stack_len E = 512 /\ e_stack_base E + 512 <= 2 ^ 63;
  eo_usage : forall pc u, e_usage E pc = Some u -> 0 <= u < 2 ^ 16;
  eo_helpers : forall k f a b c d e, e_helpers E k = Some f -> 0 <= f a b c d e < 2 ^ 64 }.

(** * check_mem: an access passes iff it is allowed *)
Lemma ochecked_add_u64 a n : 0 <= a -> 0 <= n ->
  ochecked_add U64 a n = if a + n <? 2 ^ 64 then Some (a + n) else None.
Proof.
  intros. unfold ochecked_add, in_tyb, tmin, tmax. cbn [signed bits].
  destruct (Z.ltb_spec (a + n) (2 ^ 64)); destruct (Z.leb_spec 0 (a + n)); destruct (Z.leb_spec (a + n) (2 ^ 64 - 1)); try lia; reflexivity.
Qed.

Lemma chk_mem_sem E a n kind : env_ok E -> 0 <= a < 2 ^ 64 -> 0 < n <= 8 ->
  chk_mem E a n kind = if access_ok E a n then Ok tt else Err kind.
Proof.
  intros [(B1 & B2 & B3) (M1 & M2 & M3) (S1 & S2 & S3) _ _] Ha Hn.
  unfold chk_mem, gen_check_mem, access_ok, in_range.
  rewrite (cast_u64_id n) by (fold_pows; lia).
  rewrite !cast_u64_id by (fold_pows; lia).
  rewrite ochecked_add_u64 by lia.
  destruct (Z.ltb_spec (a + n) (2 ^ 64)) as [W|W]; cbn [andb bind]; [|reflexivity].
  unfold cadd. rewrite !chk_u64 by (fold_pows; lia). cbn [bind].
  destruct (e_mbuff_base E <=? a); cbn [bind andb orb];
    [destruct (a + n <=? e_mbuff_base E + e_mbuff_len E); cbn [bind orb]; [reflexivity|]|];
  (destruct (e_mem_base E <=? a); cbn [bind andb orb];
    [destruct (a + n <=? e_mem_base E + e_mem_len E); cbn [bind orb]; [reflexivity|]|]);
  (destruct (e_stack_base E <=? a); cbn [bind andb orb];
    [destruct (a + n <=? e_stack_base E + e_stack_len E); cbn [bind orb]; [reflexivity|]|]);
  destruct (existsb _ (e_allowed E)); reflexivity.
Qed.

Lemma chk_load_sem E a n : env_ok E -> 0 <= a < 2 ^ 64 -> 0 < n <= 8 ->
  chk_load E a n = if access_ok E a n then Ok tt else Err EOobLoad.
Proof. apply chk_mem_sem. Qed.
Lemma chk_store_sem E a n : env_ok E -> 0 <= a < 2 ^ 64 -> 0 < n <= 8 ->
  chk_store E a n = if access_ok E a n then Ok tt else Err EOobStore.
Proof. apply chk_mem_sem. Qed.

(** * stores touch nothing but the addressed bytes of one region *)
Lemma splice_length d o b : (o + length b <= length d)%nat -> length (splice d o b) = length d.
Proof. intros H. unfold splice. rewrite !app_length, firstn_length, skipn_length. lia. Qed.

Lemma splice_nth_outside d o b k : (o + length b <= length d)%nat -> (k < o \/ o + length b <= k)%nat ->
  nth k (splice d o b) 0 = nth k d 0.
Proof.
  intros Hl Hk. unfold splice. destruct Hk as [Hk|Hk].
  - rewrite app_nth1 by (rewrite firstn_length; lia). apply nth_firstn_lt. exact Hk.
  - rewrite app_nth2 by (rewrite firstn_length; lia). rewrite firstn_length.
    replace (Nat.min o (length d)) with o by lia.
    rewrite app_nth2 by lia. rewrite nth_skipn. f_equal. lia.
Qed.

(** the regions of [mwrite m a b]: same bases and lengths; data differ at most in the first region
    containing the access, at the addressed offsets *)
Lemma mwrite_frame m a b : forall k r r',
  nth_error m k = Some r -> nth_error (mwrite m a b) k = Some r' ->
  r_base r' = r_base r /\ length (r_data r') = length (r_data r) /\
  forall j, (Z.of_nat j < a - r_base r \/ a - r_base r + len b <= Z.of_nat j) -> nth j (r_data r') 0 = nth j (r_data r) 0.
Proof.
  induction m as [|r0 m IH]; intros k r r' H1 H2; [destruct k; discriminate|].
  cbn [mwrite] in H2. destruct (inside r0 a (len b)) eqn:In0.
  - destruct k as [|k]; cbn in H1, H2.
    + inversion H1; inversion H2; subst. cbn [r_base r_data].
      unfold inside, r_end, r_len, len in *. rewrite andb_true_iff, !Z.leb_le in In0.
      assert (Hl : (Z.to_nat (a - r_base r) + length b <= length (r_data r))%nat) by lia.
      split; [reflexivity|]. split; [apply splice_length; exact Hl|].
      intros j Hj. apply splice_nth_outside; [exact Hl|]. lia.
    + rewrite H1 in H2. inversion H2; subst. auto.
  - destruct k as [|k]; cbn in H1, H2.
    + inversion H1; inversion H2; subst. auto.
    + eapply IH; eauto.
Qed.
