(** C16: disassemble, join the lines, assemble.  Model = composition of the regenerated disassembler and the
    assembler model; specification = the canonical form of a program (fields an instruction uses kept, others cleared). *)
From Coq Require Import ZArith List Bool String.
From RbpfV Require Import MachInt Ebpf Fmt DisasmDefs DisasmSpec AsmDefs AsmParser AsmModel.
From RbpfV.gen Require Import Codec Disasm Asm.
Import ListNotations.
Open Scope Z_scope.

Fixpoint join_lines (l : list string) : list Z :=
  match l with
  | [] => []
  | [s] => bytes_of_string s
  | s :: r => bytes_of_string s ++ 10 :: join_lines r
  end.

Definition U_none : uclass := {| u_alnum := fun _ => false; u_alpha := fun _ => false; u_space := fun _ => false |}.

Definition roundtrip (p : list Z) : res (list Z) :=
  hl <- gen_to_insn_vec (S (Z.to_nat (len p / 8))) p ;; assemble U_none (join_lines (map h_desc hl)).

(** canonical form *)
Definition mk (o d s f m : Z) : insn := {| opc := o; dst := d; src := s; off := f; imm := m |}.
Definition canon_insn (sh : shape) (i : insn) : insn :=
  match sh with
  | ShAluImm | ShEndian => mk (opc i) (dst i) 0 0 (imm i)
  | ShAluReg => mk (opc i) (dst i) (src i) 0 0
  | ShUnary => mk (opc i) (dst i) 0 0 0
  | ShLdAbs => mk (opc i) 0 0 0 (imm i)
  | ShLdInd => mk (opc i) 0 (src i) 0 (imm i)
  | ShLdReg | ShStReg | ShJmpReg => mk (opc i) (dst i) (src i) (off i) 0
  | ShStImm | ShJmpImm => mk (opc i) (dst i) 0 (off i) (imm i)
  | ShJa => mk (opc i) 0 0 (off i) 0
  | ShCall => mk (opc i) 0 (src i) 0 (imm i)
  | ShNone => mk (opc i) 0 0 0 0
  | ShLddw => mk (opc i) (dst i) 0 0 (imm i)
  end.

Fixpoint canon (l : list insn) : list insn :=
  match l with
  | [] => []
  | i :: rest =>
    match lookup (opc i) mnemonics with
    | Some (_, ShLddw) =>
      match rest with
      | i2 :: rest' => canon_insn ShLddw i :: mk 0 0 0 0 (imm i2) :: canon rest'
      | [] => [i]
      end
    | Some (_, sh) => canon_insn sh i :: canon rest
    | None => i :: canon rest
    end
  end.

(** instructions the assembler can express with every operand written as the disassembler prints it:
    its mnemonic exists (no tail_call / atomic add, byte swaps only with 16/32/64) and 32-bit immediates are non-negative *)
Definition expressible (i : insn) : bool :=
  match lookup (opc i) mnemonics with
  | Some (name, sh) =>
    negb (String.eqb name "tail_call") && negb (String.eqb name "stxxaddw") && negb (String.eqb name "stxxadddw")
    && match sh with
       | ShEndian => (imm i =? 16) || (imm i =? 32) || (imm i =? 64)
       | ShLddw => true
       | ShAluImm | ShLdAbs | ShLdInd | ShStImm | ShJmpImm | ShCall => 0 <=? imm i
       | _ => true
       end
  | None => false
  end.

Fixpoint all_expressible (l : list insn) : bool :=
  match l with
  | [] => true
  | i :: rest =>
    expressible i &&
    match lookup (opc i) mnemonics with
    | Some (_, ShLddw) => match rest with _ :: rest' => all_expressible rest' | [] => false end
    | _ => all_expressible rest
    end
  end.

Definition insn_list_eqb (a b : list insn) : bool :=
  (Nat.eqb (List.length a) (List.length b)) && forallb (fun p => insn_eqb (fst p) (snd p)) (combine a b).
