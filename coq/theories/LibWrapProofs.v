(** C09 (the lib.rs wrappers): what each VM kind hands to each engine (regenerated into coq/gen/LibWrap.v), combined with
    the entry code of the engines (interpreter: C09_entry_values; JIT: jit_prologue_*; Cranelift: prelude_regs), gives the
    documented r1 and, for the fixed-metadata VM, the two words of the internal buffer. *)
From Coq Require Import ZArith Lia Bool List.
From RbpfV Require Import MachInt X86Sem X86Seq X86Stk JitFrameProofs ClirSem ClirProofs.
From RbpfV.gen Require Import JitFrame Clir LibWrap.
Import ListNotations.
Open Scope Z_scope.

(** ** r1 at entry, as a function of the arguments each engine receives *)
(** interpreter (C09_entry_values): the metadata buffer if it is not empty, else the packet if it is not empty, else 0 *)
Definition interp_r1 (args : list Z) : Z :=
  match args with
  | [mp; ml; bp; bl] => if negb (bl =? 0) then bp else if negb (ml =? 0) then mp else 0
  | _ => -1
  end.
(** Cranelift (prelude_regs): p2 if p3 is not 0, else p0 *)
Definition cl_r1 (args : list Z) : Z :=
  match args with [p0; p1; p2; p3] => if p3 =? 0 then p0 else p2 | _ => -1 end.
(** x86-64 JIT: the prologue variant selected by the flags of the VM kind *)
Definition prologue_of (flags : bool * bool) : list xi :=
  if fst flags then (if snd flags then gen_jit_prologue_fixed else gen_jit_prologue_mbuff) else gen_jit_prologue_nombuff.
Definition jit_r1 (flags : bool * bool) (args : list Z) : Z := if fst flags then nth 0 args (-1) else nth 2 args (-1).

Lemma cl_r1_is_prelude p0 p1 p2 p3 ss sz :
  0 <= p0 < 2 ^ 64 -> 0 <= p2 < 2 ^ 64 -> 0 <= p3 < 2 ^ 64 -> 0 <= ss -> 0 <= sz -> ss + sz < 2 ^ 64 ->
  reg_lookup 1 (gen_prelude_regs p0 p1 p2 p3 ss sz) = Some (cl_r1 [p0; p1; p2; p3]).
Proof. intros. now apply prelude_regs. Qed.

(** whatever the flags, after the prologue rdi (eBPF r1) is [jit_r1] of the six register arguments *)
Lemma jit_r1_is_prologue flags R0 m0 : (forall r, 0 <= R0 r < 2 ^ 64) -> 1024 <= R0 4 ->
  (fst flags = false -> snd flags = false) ->
  (flags = (true, true) -> apart (A1 R0) (A2 R0) /\ apart (A2 R0) (A1 R0) /\ forall a, In a (slots R0) -> apart (A1 R0) a /\ apart (A2 R0) a) ->
  exists R m, krun (body_of (prologue_of flags)) (R0, m0) = Some (R, m) /\
              R 7 = jit_r1 flags [R0 7; R0 6; R0 2; R0 1; R0 8; R0 9] /\ R 10 = R0 2.
Proof.
  intros HR Hsp Hf Hap. destruct flags as [[|] [|]]; unfold prologue_of, jit_r1; cbn [fst snd nth].
  - destruct (Hap eq_refl) as (D1 & D2 & D3).
    destruct (jit_prologue_fixed R0 m0 HR Hsp D1 D2 D3) as (_ & R & Hrun & H7 & H10 & _). eauto.
  - destruct (jit_prologue_mbuff R0 m0 HR Hsp) as (_ & R & Hrun & H7 & H10 & _). eauto.
  - discriminate (Hf eq_refl).
  - destruct (jit_prologue_nombuff R0 m0 HR Hsp) as (_ & R & Hrun & H7 & H10 & _). eauto.
Qed.

(** ** the documented context *)
Section Doc.
Variables (mem_ptr mem_len mb_ptr mb_len buf_ptr buf_len d e dangling : Z).
Notation W f := (f mem_ptr mem_len mb_ptr mb_len buf_ptr buf_len d e dangling).
Let packet_or_null : Z := if mem_len =? 0 then 0 else mem_ptr.

(** r1: metadata VMs (with a non-empty buffer) see the metadata buffer, the raw VM the packet (0 when it is empty), the
    no-data VM 0 -- under all three engines *)
Theorem wrappers_r1 :
  (mb_len <> 0 ->
     interp_r1 (w_args (W gen_wrap_mbuff_interp)) = mb_ptr /\
     jit_r1 gen_jit_flags_mbuff (w_args (W gen_wrap_mbuff_jit)) = mb_ptr /\
     cl_r1 (w_args (W gen_wrap_mbuff_cl)) = mb_ptr) /\
  (buf_len <> 0 ->
     interp_r1 (w_args (W gen_wrap_fixed_interp)) = buf_ptr /\
     jit_r1 gen_jit_flags_fixed (w_args (W gen_wrap_fixed_jit)) = buf_ptr /\
     cl_r1 (w_args (W gen_wrap_fixed_cl)) = buf_ptr) /\
  (interp_r1 (w_args (W gen_wrap_raw_interp)) = packet_or_null /\
   jit_r1 gen_jit_flags_raw (w_args (W gen_wrap_raw_jit)) = packet_or_null /\
   cl_r1 (w_args (W gen_wrap_raw_cl)) = packet_or_null) /\
  (interp_r1 (w_args (W gen_wrap_nodata_interp)) = 0 /\
   jit_r1 gen_jit_flags_nodata (w_args (W gen_wrap_nodata_jit)) = 0 /\
   cl_r1 (w_args (W gen_wrap_nodata_cl)) = 0).
Proof.
  unfold packet_or_null. repeat split; cbn [w_args interp_r1 cl_r1 jit_r1 gen_wrap_mbuff_interp gen_wrap_mbuff_jit gen_wrap_mbuff_cl
    gen_wrap_fixed_interp gen_wrap_fixed_jit gen_wrap_fixed_cl gen_wrap_raw_interp gen_wrap_raw_jit gen_wrap_raw_cl
    gen_wrap_nodata_interp gen_wrap_nodata_jit gen_wrap_nodata_cl gen_jit_flags_mbuff gen_jit_flags_fixed gen_jit_flags_raw gen_jit_flags_nodata fst snd nth Z.eqb negb];
  try reflexivity.
  all: try (destruct (Z.eqb_spec mb_len 0); [contradiction|reflexivity]).
  all: try (destruct (Z.eqb_spec buf_len 0); [contradiction|reflexivity]).
  all: destruct (Z.eqb_spec mem_len 0); reflexivity.
Qed.

(** the JIT code of each kind is compiled with the flags its wrapper's arguments are meant for; each wrapper's engine is
    reached with the slices unchanged (lengths as given, the packet pointer replaced by null when the packet is empty for
    the compiled engines only) *)
Theorem wrappers_flags :
  gen_jit_flags_mbuff = (true, false) /\ gen_jit_flags_fixed = (true, true) /\ gen_jit_flags_raw = (false, false) /\ gen_jit_flags_nodata = (false, false).
Proof. repeat split. Qed.

(** the fixed-metadata VM: before the interpreter or Cranelift runs, the internal buffer receives, unconditionally, the
    address of the packet at offset d and the address one past it at offset e -- or the call fails because the buffer is too
    short for them; the JIT receives buffer, packet and the two offsets and its prologue does the stores
    (jit_prologue_fixed: the word at rdi + r8 becomes rdx, the word at rdi + r9 becomes rdx + rcx) *)
Theorem wrappers_fixed_words :
  w_writes (W gen_wrap_fixed_interp) = [(true, d, mem_ptr); (true, e, (mem_ptr + mem_len) mod 2 ^ 64)] /\
  w_writes (W gen_wrap_fixed_cl) = [(true, d, mem_ptr); (true, e, (mem_ptr + mem_len) mod 2 ^ 64)] /\
  w_fail (W gen_wrap_fixed_interp) = ((buf_len <? (d + 8) mod 2 ^ 64) || (buf_len <? (e + 8) mod 2 ^ 64)) /\
  w_fail (W gen_wrap_fixed_cl) = w_fail (W gen_wrap_fixed_interp) /\
  w_args (W gen_wrap_fixed_jit) = [buf_ptr; buf_len; packet_or_null; mem_len; d; e] /\ w_fail (W gen_wrap_fixed_jit) = false /\
  (* no other kind writes anything or fails *)
  Forall (fun w : wrap => w_writes w = [] /\ w_fail w = false)
    [W gen_wrap_mbuff_interp; W gen_wrap_mbuff_jit; W gen_wrap_mbuff_cl; W gen_wrap_raw_interp; W gen_wrap_raw_jit; W gen_wrap_raw_cl;
     W gen_wrap_nodata_interp; W gen_wrap_nodata_jit; W gen_wrap_nodata_cl; W gen_wrap_fixed_jit].
Proof. repeat split; repeat (apply Forall_cons; [split; reflexivity|]); apply Forall_nil. Qed.
End Doc.

(** the JIT side of the fixed-metadata VM, end to end: entered with the wrapper's arguments in the System V registers, the
    prologue leaves the packet pointer at buffer + d and the packet end at buffer + e *)
Theorem fixed_jit_words R0 m0 mem_ptr mem_len buf_ptr buf_len d e :
  (forall r, 0 <= R0 r < 2 ^ 64) -> 1024 <= R0 4 ->
  [R0 7; R0 6; R0 2; R0 1; R0 8; R0 9] = [buf_ptr; buf_len; mem_ptr; mem_len; d; e] ->
  apart (A1 R0) (A2 R0) -> apart (A2 R0) (A1 R0) -> (forall a, In a (slots R0) -> apart (A1 R0) a /\ apart (A2 R0) a) ->
  exists R, krun (body_of gen_jit_prologue_fixed) (R0, m0) = Some (R, mfix R0 m0) /\
    load8 (mfix R0 m0) ((d + buf_ptr) mod 2 ^ 64) = mem_ptr /\
    load8 (mfix R0 m0) ((e + buf_ptr) mod 2 ^ 64) = (mem_ptr + mem_len) mod 2 ^ 64 /\ R 7 = buf_ptr.
Proof.
  intros HR Hsp E D1 D2 D3. injection E as E7 E6 E2 E1 E8 E9.
  destruct (jit_prologue_fixed R0 m0 HR Hsp D1 D2 D3) as (_ & R & Hrun & H7 & _ & _ & L1 & L2 & _).
  exists R. unfold A1, A2, mem_end in *. rewrite E7, E2, E1, E8, E9 in *. repeat split; assumption.
Qed.
