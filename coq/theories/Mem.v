(** Byte-addressed memory as a list of regions with concrete base addresses. *)
From Coq Require Import ZArith List Bool Lia.
From RbpfV Require Import MachInt Ebpf.
Import ListNotations.
Open Scope Z_scope.

Record region := { r_base : Z; r_data : list Z }.
Definition r_len (r : region) : Z := len (r_data r).
Definition r_end (r : region) : Z := r_base r + r_len r.

(** all [n] bytes from address [a] lie inside region [r] *)
Definition inside (r : region) (a n : Z) : bool := (r_base r <=? a) && (a + n <=? r_end r).

Definition mem := list region.

Fixpoint mread (m : mem) (a n : Z) : option (list Z) :=
  match m with
  | [] => None
  | r :: rest =>
      if inside r a n then Some (firstn (Z.to_nat n) (skipn (Z.to_nat (a - r_base r)) (r_data r)))
      else mread rest a n
  end.

(** little-endian load of [n] bytes (zero when the address is in no region: never reached after a
    successful bounds check) *)
Definition mload (m : mem) (a n : Z) : Z :=
  match mread m a n with Some b => of_le_bytes b | None => 0 end.

Definition splice (d : list Z) (o : nat) (b : list Z) : list Z :=
  firstn o d ++ b ++ skipn (o + length b) d.

Fixpoint mwrite (m : mem) (a : Z) (b : list Z) : mem :=
  match m with
  | [] => []
  | r :: rest =>
      if inside r a (len b)
      then {| r_base := r_base r; r_data := splice (r_data r) (Z.to_nat (a - r_base r)) b |} :: rest
      else r :: mwrite rest a b
  end.

(** little-endian store of the low [n] bytes of [v] *)
Definition mstore (m : mem) (a n v : Z) : mem := mwrite m a (le_bytes (Z.to_nat n) v).

Definition region_eqb (a b : region) : bool :=
  (r_base a =? r_base b) && (length (r_data a) =? length (r_data b))%nat
  && forallb (fun p => fst p =? snd p) (combine (r_data a) (r_data b)).
