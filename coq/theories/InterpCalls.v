(** C07 / C08 at the level of the ISA step (which the regenerated interpreter equals, C01):
    what a local call, its matching exit and a helper call do to the state. *)
From Coq Require Import ZArith Lia Bool List.
From RbpfV Require Import MachInt BitLemmas ListLemmas Ebpf CodecProofs Mem InterpDefs WellFormed Verifier
  VerifierProofs Isa ArmBase ArmVals MemLemmas InterpArmsAlu InterpArmsCall Interp InterpProofs.
From RbpfV.gen Require Import Opcodes Codec Interp.
Import ListNotations.
Open Scope Z_scope.

(** ** a helper call (C08) *)
Theorem helper_call_step E reg pc fidx stacks m st' f :
  opc (insn_at (e_prog E) pc) = op_call -> src (insn_at (e_prog E) pc) = 0 ->
  refresh_usage E stacks fidx pc = Ok st' ->
  e_helpers E (u32 (imm (insn_at (e_prog E) pc))) = Some f ->
  isa_step E (reg, pc, fidx, stacks, m) =
  Ok (SNext (upd reg 0 (f (rd reg 1) (rd reg 2) (rd reg 3) (rd reg 4) (rd reg 5)), pc + 1, fidx, st', m)).
Proof.
  intros Ho Hs Hr Hf. unfold isa_step. rewrite Hr. cbn [bind]. unfold isa_exec. rewrite Ho.
  change (isa_exec_dec op_call (op_call mod 8) (op_call / 16) ((op_call / 8) mod 2 =? 1)) with (isa_exec_dec op_call 5 8 false).
  unfold isa_exec_dec. cbn [Z.eqb orb Pos.eqb]. change (op_call =? op_ja) with false. change (op_call =? op_call) with true.
  cbv iota. rewrite Hs. cbn [Z.eqb]. rewrite Hf. reflexivity.
Qed.

Theorem unknown_helper_step E reg pc fidx stacks m st' :
  opc (insn_at (e_prog E) pc) = op_call -> src (insn_at (e_prog E) pc) = 0 ->
  refresh_usage E stacks fidx pc = Ok st' ->
  e_helpers E (u32 (imm (insn_at (e_prog E) pc))) = None ->
  isa_step E (reg, pc, fidx, stacks, m) = Err EUnknownHelper.
Proof.
  intros Ho Hs Hr Hf. unfold isa_step. rewrite Hr. cbn [bind]. unfold isa_exec. rewrite Ho.
  change (isa_exec_dec op_call (op_call mod 8) (op_call / 16) ((op_call / 8) mod 2 =? 1)) with (isa_exec_dec op_call 5 8 false).
  unfold isa_exec_dec. cbn [Z.eqb orb Pos.eqb]. change (op_call =? op_ja) with false. change (op_call =? op_call) with true.
  cbv iota. rewrite Hs. cbn [Z.eqb]. rewrite Hf. reflexivity.
Qed.

(** registers other than r0 are untouched by a helper call *)
Lemma helper_call_keeps reg v k : 1 <= k <= 10 -> rd (upd reg 0 v) k = rd reg k.
Proof. intros H. apply rd_upd_other; lia. Qed.

(** ** a local call (C07) *)
Theorem local_call_step E reg pc fidx stacks m s' :
  opc (insn_at (e_prog E) pc) = op_call -> src (insn_at (e_prog E) pc) = 1 ->
  isa_step E (reg, pc, fidx, stacks, m) = Ok (SNext s') ->
  exists st' u fr,
    fidx < 8 /\
    s' = (upd reg 10 (u64 (rd reg 10 - u)), pc + 1 + imm (insn_at (e_prog E) pc), fidx + 1, st', m) /\
    frame_get st' fidx = Ok fr /\ f_ret fr = pc + 1 /\ f_regs fr = [rd reg 6; rd reg 7; rd reg 8; rd reg 9] /\ f_usage fr = u.
Proof.
  intros Ho Hs H. unfold isa_step in H.
  destruct (refresh_usage E stacks fidx pc) as [st0| | |] eqn:Hr; try discriminate H. cbn [bind] in H.
  unfold isa_exec in H. rewrite Ho in H.
  change (isa_exec_dec op_call (op_call mod 8) (op_call / 16) ((op_call / 8) mod 2 =? 1)) with (isa_exec_dec op_call 5 8 false) in H.
  unfold isa_exec_dec in H. cbn [Z.eqb orb Pos.eqb] in H. change (op_call =? op_ja) with false in H.
  change (op_call =? op_call) with true in H. cbv iota in H. rewrite Hs in H. cbn [Z.eqb Pos.eqb] in H.
  destruct (8 <=? fidx) eqn:C8; [discriminate H|]. apply Z.leb_gt in C8.
  unfold frames_save_regs, frames_save_ret, frames_usage in H.
  destruct (frame_get st0 fidx) as [f0| | |] eqn:G0; try discriminate H. cbn [bind] in H.
  destruct (frame_set st0 fidx _) as [st1| | |] eqn:S1; try discriminate H. cbn [bind] in H.
  destruct (frame_get st1 fidx) as [f1| | |] eqn:G1; try discriminate H. cbn [bind] in H.
  destruct (frame_set st1 fidx _) as [st2| | |] eqn:S2; try discriminate H. cbn [bind] in H.
  destruct (frame_get st2 fidx) as [f2| | |] eqn:G2; try discriminate H. cbn [bind] in H.
  inversion H; subst s'. clear H.
  (* what the two writes stored *)
  assert (E1 : f1 = {| f_ret := f_ret f0; f_regs := [rd reg 6; rd reg 7; rd reg 8; rd reg 9]; f_usage := f_usage f0 |}).
  { unfold frame_set in S1. destruct ((0 <=? fidx) && (fidx <? flen st0)) eqn:C; [|discriminate S1]. inversion S1; subst st1.
    unfold frame_get in G1. rewrite flen_upd in G1. rewrite C in G1. inversion G1 as [N].
    rewrite andb_true_iff, Z.leb_le, Z.ltb_lt in C. unfold flen in C. apply nth_upd_same. lia. }
  assert (E2 : f2 = {| f_ret := pc + 1; f_regs := f_regs f1; f_usage := f_usage f1 |}).
  { unfold frame_set in S2. destruct ((0 <=? fidx) && (fidx <? flen st1)) eqn:C; [|discriminate S2]. inversion S2; subst st2.
    unfold frame_get in G2. rewrite flen_upd in G2. rewrite C in G2. inversion G2 as [N].
    rewrite andb_true_iff, Z.leb_le, Z.ltb_lt in C. unfold flen in C. apply nth_upd_same. lia. }
  exists st2, (f_usage f2), f2. subst f2 f1. cbn [f_ret f_regs f_usage]. repeat split; auto.
Qed.

(** the 9th nested call is an error value *)
Theorem call_depth_step E reg pc stacks m st' :
  opc (insn_at (e_prog E) pc) = op_call -> src (insn_at (e_prog E) pc) = 1 ->
  refresh_usage E stacks 8 pc = Ok st' ->
  isa_step E (reg, pc, 8, stacks, m) = Err ECallDepth.
Proof.
  intros Ho Hs Hr. unfold isa_step. rewrite Hr. cbn [bind]. unfold isa_exec. rewrite Ho.
  change (isa_exec_dec op_call (op_call mod 8) (op_call / 16) ((op_call / 8) mod 2 =? 1)) with (isa_exec_dec op_call 5 8 false).
  unfold isa_exec_dec. cbn [Z.eqb orb Pos.eqb]. change (op_call =? op_ja) with false. change (op_call =? op_call) with true.
  cbv iota. rewrite Hs. reflexivity.
Qed.

(** ** the matching exit *)
Theorem exit_step E reg pc fidx stacks m s' :
  opc (insn_at (e_prog E) pc) = op_exit -> 0 < fidx ->
  isa_step E (reg, pc, fidx, stacks, m) = Ok (SNext s') ->
  exists st' fr,
    refresh_usage E stacks fidx pc = Ok st' /\ frame_get st' (fidx - 1) = Ok fr /\
    let reg' := upd (upd (upd (upd reg 6 (nth 0 (f_regs fr) 0)) 7 (nth 1 (f_regs fr) 0)) 8 (nth 2 (f_regs fr) 0)) 9 (nth 3 (f_regs fr) 0) in
    s' = (upd reg' 10 (u64 (rd reg' 10 + f_usage fr)), f_ret fr, fidx - 1, st', m).
Proof.
  intros Ho Hf H. unfold isa_step in H.
  destruct (refresh_usage E stacks fidx pc) as [st0| | |] eqn:Hr; try discriminate H. cbn [bind] in H.
  unfold isa_exec in H. rewrite Ho in H.
  change (isa_exec_dec op_exit (op_exit mod 8) (op_exit / 16) ((op_exit / 8) mod 2 =? 1)) with (isa_exec_dec op_exit 5 9 false) in H.
  unfold isa_exec_dec in H. cbn [Z.eqb orb Pos.eqb] in H. change (op_exit =? op_ja) with false in H.
  change (op_exit =? op_call) with false in H. change (op_exit =? op_tail_call) with false in H.
  change (op_exit =? op_exit) with true in H. cbv iota in H.
  destruct (Z.ltb_spec 0 fidx) as [L|L]; [|lia].
  unfold frames_restore_regs, frames_ret, frames_usage in H.
  destruct (frame_get st0 (fidx - 1)) as [f0| | |] eqn:G0; try discriminate H. cbn [bind] in H.
  inversion H; subst s'. exists st0, f0. repeat split; auto.
Qed.

(** ** frames below the current depth are never touched *)
Lemma refresh_other E stacks fidx pc st' j : refresh_usage E stacks fidx pc = Ok st' -> j <> fidx ->
  frame_get st' j = frame_get stacks j.
Proof.
  unfold refresh_usage. intros H N. destruct (fidx <? 8); [|inversion H; reflexivity].
  destruct (e_usage E pc); [|inversion H; reflexivity].
  unfold frames_set_usage in H. destruct (frame_get stacks fidx); try discriminate H. cbn [bind] in H.
  eapply frame_set_other; eauto.
Qed.

Definition fidx_of (s : istate) : Z := let '(_, _, f, _, _) := s in f.
Definition stacks_of (s : istate) : list frame := let '(_, _, _, st, _) := s in st.
Definition regs_of (s : istate) : list Z := let '(r, _, _, _, _) := s in r.
Definition pc_of (s : istate) : Z := let '(_, p, _, _, _) := s in p.

Ltac same H :=
  inversion H; subst; cbn [fidx_of stacks_of]; split; [lia|];
  let j := fresh "j" in let Hj := fresh "Hj" in intros j Hj _;
  match goal with R : forall j, 0 <= j < _ -> frame_get _ j = frame_get _ j |- _ => apply R; exact Hj end.

Lemma step_frames E s s' : isa_step E s = Ok (SNext s') -> 0 <= fidx_of s ->
  fidx_of s - 1 <= fidx_of s' <= fidx_of s + 1 /\
  forall j, 0 <= j < fidx_of s -> j < fidx_of s' -> frame_get (stacks_of s') j = frame_get (stacks_of s) j.
Proof.
  destruct s as [[[[reg pc] fidx] stacks] m]. cbn [fidx_of stacks_of]. intros H Hf.
  unfold isa_step in H. destruct (refresh_usage E stacks fidx pc) as [st0| | |] eqn:Hr; try discriminate H. cbn [bind] in H.
  assert (R0 : forall j, 0 <= j < fidx -> frame_get st0 j = frame_get stacks j)
    by (intros j Hj; eapply refresh_other; eauto; lia).
  unfold isa_exec, isa_exec_dec in H. cbv zeta in H.
  remember (insn_at (e_prog E) pc) as i eqn:Ei. remember (opc i) as o eqn:Eo.
  destruct ((o mod 8 =? 7) || (o mod 8 =? 4)).
  { destruct (o =? op_le); [same H|]. destruct (o =? op_be); [same H|].
    match type of H with match alu ?w ?op ?a ?b with _ => _ end = _ => destruct (alu w op a b) end; same H. }
  destruct ((o mod 8 =? 5) || (o mod 8 =? 6)).
  { destruct (o =? op_ja); [same H|].
    destruct (o =? op_call).
    { destruct (src i =? 0); [destruct (e_helpers E (u32 (imm i))); [same H|discriminate H]|].
      destruct (src i =? 1); [|discriminate H]. destruct (8 <=? fidx); [discriminate H|].
      unfold frames_save_regs, frames_save_ret, frames_usage in H.
      destruct (frame_get st0 fidx) as [f0| | |]; try discriminate H. cbn [bind] in H.
      destruct (frame_set st0 fidx _) as [st1| | |] eqn:S1; try discriminate H. cbn [bind] in H.
      destruct (frame_get st1 fidx) as [f1| | |]; try discriminate H. cbn [bind] in H.
      destruct (frame_set st1 fidx _) as [st2| | |] eqn:S2; try discriminate H. cbn [bind] in H.
      destruct (frame_get st2 fidx) as [f2| | |]; try discriminate H. cbn [bind] in H.
      inversion H; subst s'. cbn [fidx_of stacks_of]. split; [lia|]. intros j Hj _.
      rewrite (frame_set_other st1 fidx _ st2 j S2) by lia. rewrite (frame_set_other st0 fidx _ st1 j S1) by lia. apply R0. exact Hj. }
    destruct (o =? op_tail_call); [discriminate H|].
    destruct (o =? op_exit); [|same H].
    destruct (0 <? fidx); [|discriminate H].
    unfold frames_restore_regs, frames_ret, frames_usage in H.
    destruct (frame_get st0 (fidx - 1)) as [f0| | |]; try discriminate H. cbn [bind] in H.
    inversion H; subst s'. cbn [fidx_of stacks_of]. split; [lia|]. intros j Hj _. apply R0. exact Hj. }
  destruct (o =? op_lddw); [same H|].
  destruct (o mod 8 =? 0).
  { match type of H with (if ?c then _ else _) = _ => destruct c; [|discriminate H] end. same H. }
  destruct (o mod 8 =? 1).
  { match type of H with (if ?c then _ else _) = _ => destruct c; [|discriminate H] end. same H. }
  match type of H with (if negb ?c then _ else _) = _ => destruct c; cbn [negb] in H; [|discriminate H] end.
  destruct (is_xadd o); [|same H].
  match type of H with (if ?c then _ else _) = _ => destruct c; [|discriminate H] end. same H.
Qed.

(** executions that stay strictly above call depth [f] *)
Inductive run_above (E : ienv) (f : Z) : istate -> istate -> Prop :=
| ra_refl s : f < fidx_of s -> run_above E f s s
| ra_step s s1 s2 : f < fidx_of s -> isa_step E s = Ok (SNext s1) -> run_above E f s1 s2 -> run_above E f s s2.

Lemma run_above_end E f s s' : run_above E f s s' -> f < fidx_of s'.
Proof. induction 1; auto. Qed.

Lemma run_above_frames E f s s' : run_above E f s s' -> 0 <= f ->
  forall j, 0 <= j <= f -> frame_get (stacks_of s') j = frame_get (stacks_of s) j.
Proof.
  induction 1 as [s Hs|s s1 s2 Hs Hstep Hrun IH]; intros Hf j Hj; [reflexivity|].
  rewrite IH by assumption. pose proof (run_above_end _ _ _ _ Hrun) as He.
  assert (H1 : f < fidx_of s1) by (inversion Hrun; assumption).
  destruct (step_frames E s s1 Hstep ltac:(lia)) as [_ Hfr]. apply Hfr; lia.
Qed.

Lemma run_above_inv E f s s' : bytes_ok (e_prog E) -> acc (e_prog E) -> env_ok E ->
  run_above E f s s' -> Inv E s -> Inv E s'.
Proof.
  intros Hb Ha He. induction 1; intros HI; [exact HI|]. apply IHrun_above. eapply step_preserves; eauto.
Qed.

Lemma frame_get_nth st j : 0 <= j < flen st -> frame_get st j = Ok (nth (Z.to_nat j) st frame0).
Proof.
  intros H. unfold frame_get. destruct (Z.leb_spec 0 j); [|lia]. destruct (Z.ltb_spec j (flen st)); [|lia]. reflexivity.
Qed.

Lemma usage_sum_ext st1 st2 : frames_ok st1 -> frames_ok st2 -> forall n : nat, (n <= 8)%nat ->
  (forall j, 0 <= j < Z.of_nat n -> frame_get st1 j = frame_get st2 j) ->
  usage_sum st1 (Z.of_nat n) = usage_sum st2 (Z.of_nat n).
Proof.
  intros [L1 _] [L2 _]. induction n as [|n IH]; intros Hn Hj; [reflexivity|].
  unfold usage_sum in *. rewrite !Nat2Z.id in *.
  assert (E1 : nth_error st1 n = Some (nth n st1 frame0)) by (apply nth_error_nth'; lia).
  assert (E2 : nth_error st2 n = Some (nth n st2 frame0)) by (apply nth_error_nth'; lia).
  rewrite (sum_firstn_succ st1 n _ E1), (sum_firstn_succ st2 n _ E2).
  rewrite IH by (try lia; intros j Hj'; apply Hj; lia).
  specialize (Hj (Z.of_nat n) ltac:(lia)).
  rewrite !frame_get_nth in Hj by (unfold flen; lia). rewrite !Nat2Z.id in Hj. inversion Hj as [Hn']. rewrite Hn'. reflexivity.
Qed.

(** ** C07: a local call followed by the matching return *)
Theorem call_return E s s_in s_n s_out :
  bytes_ok (e_prog E) -> acc (e_prog E) -> env_ok E -> Inv E s ->
  opc (insn_at (e_prog E) (pc_of s)) = op_call -> src (insn_at (e_prog E) (pc_of s)) = 1 ->
  isa_step E s = Ok (SNext s_in) ->                       (* the call *)
  run_above E (fidx_of s) s_in s_n ->                      (* the callee, at any depth above the caller *)
  fidx_of s_n = fidx_of s + 1 -> opc (insn_at (e_prog E) (pc_of s_n)) = op_exit ->
  isa_step E s_n = Ok (SNext s_out) ->                     (* the matching return *)
  pc_of s_out = pc_of s + 1 /\ fidx_of s_out = fidx_of s /\
  (forall r, 6 <= r <= 10 -> rd (regs_of s_out) r = rd (regs_of s) r) /\
  (forall r, 0 <= r <= 5 -> rd (regs_of s_out) r = rd (regs_of s_n) r) /\
  (forall r, 0 <= r <= 9 -> rd (regs_of s_in) r = rd (regs_of s) r).
Proof.
  intros Hb Ha He HI Ho Hs Hcall Hrun Hdepth Hex Hret.
  destruct s as [[[[reg pc] fidx] stacks] m]. cbn [pc_of fidx_of regs_of] in *.
  pose proof (inv_r10 E He _ _ _ _ _ HI) as R10.
  pose proof HI as (Hpc & Hr & Hfi & Hf & Hm & Hsum & Hrets).
  destruct (local_call_step E reg pc fidx stacks m s_in Ho Hs Hcall) as (st1 & u & fr & F8 & Ein & G1 & Fret & Fregs & Fu).
  pose proof (step_preserves E Hb Ha He _ _ HI Hcall) as HIin.
  pose proof (run_above_inv E fidx _ _ Hb Ha He Hrun HIin) as HIn.
  pose proof (run_above_frames E fidx _ _ Hrun ltac:(lia)) as Hstable.
  destruct s_n as [[[[regn pcn] fidxn] stacksn] mn]. cbn [pc_of fidx_of regs_of stacks_of] in *. subst fidxn.
  destruct (exit_step E regn pcn (fidx + 1) stacksn mn s_out Hex ltac:(lia) Hret) as (stx & frx & Rfx & Gx & Eout).
  replace (fidx + 1 - 1) with fidx in * by lia.
  (* the caller's frame slot is intact *)
  assert (Efr : frx = fr).
  { rewrite (refresh_other E stacksn (fidx + 1) pcn stx fidx Rfx ltac:(lia)) in Gx.
    rewrite Hstable in Gx by lia. subst s_in. cbn [stacks_of] in Gx. rewrite G1 in Gx. now inversion Gx. }
  subst frx. rewrite Fregs, Fret, Fu in Eout. cbn [nth] in Eout.
  (* r10 is the same at callee entry and at the matching exit *)
  pose proof HIin as HIin'. subst s_in.
  destruct HIin' as (_ & Hrin & _ & Hfin & _ & Hsumin & _).
  destruct HIn as (_ & Hrn & _ & Hfn & _ & Hsumn & _).
  assert (Esum : usage_sum stacksn (fidx + 1) = usage_sum st1 (fidx + 1)).
  { replace (fidx + 1) with (Z.of_nat (Z.to_nat (fidx + 1))) by lia.
    apply usage_sum_ext; try assumption; [lia|]. intros j Hj. cbn [stacks_of] in Hstable. apply Hstable. lia. }
  assert (E10 : rd regn 10 = u64 (rd reg 10 - u)).
  { rewrite Esum in Hsumn. rewrite rd_upd_same in Hsumin by (try assumption; lia). lia. }
  assert (Ru : 0 <= u < 2 ^ 16).
  { destruct (frame_get_ok st1 fidx Hfin ltac:(lia)) as (f' & G' & (U' & _)). rewrite G1 in G'. inversion G'; subst f'. lia. }
  subst s_out. cbn [pc_of fidx_of regs_of].
  set (reg' := upd (upd (upd (upd regn 6 (rd reg 6)) 7 (rd reg 7)) 8 (rd reg 8)) 9 (rd reg 9)).
  assert (Rr' : regs_ok reg') by (unfold reg'; repeat apply upd_regs_ok; try assumption; apply rd_range; assumption).
  assert (R10' : rd reg' 10 = rd regn 10) by (apply restore_rd10_gen; exact (proj1 Hrn)).
  split; [reflexivity|]. split; [lia|]. split; [|split].
  - intros r Hr6. destruct (Z.eq_dec r 10) as [->|N10].
    + rewrite rd_upd_same by (try assumption; lia). rewrite R10', E10. unfold u64.
      rewrite (Z.mod_small (rd reg 10 - u)) by (change (2 ^ 16) with 65536 in *; fold_pows; lia).
      replace (rd reg 10 - u + u) with (rd reg 10) by lia. apply Z.mod_small. fold_pows. lia.
    + rewrite rd_upd_other by lia. unfold reg'.
      destruct (Z.eq_dec r 9) as [->|N9]; [now rewrite rd_upd_same by (try (repeat apply upd_regs_ok; try assumption; apply rd_range; assumption); lia)|].
      rewrite rd_upd_other by lia.
      destruct (Z.eq_dec r 8) as [->|N8]; [now rewrite rd_upd_same by (try (repeat apply upd_regs_ok; try assumption; apply rd_range; assumption); lia)|].
      rewrite rd_upd_other by lia.
      destruct (Z.eq_dec r 7) as [->|N7]; [now rewrite rd_upd_same by (try (repeat apply upd_regs_ok; try assumption; apply rd_range; assumption); lia)|].
      rewrite rd_upd_other by lia.
      assert (r = 6) by lia. subst r. now rewrite rd_upd_same by (try assumption; lia).
  - intros r Hr5. rewrite rd_upd_other by lia. unfold reg'. rewrite !rd_upd_other by lia. reflexivity.
  - intros r Hr9. cbn [regs_of]. rewrite rd_upd_other by lia. reflexivity.
Qed.
