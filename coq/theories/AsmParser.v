(** Hand-written model of src/asm_parser.rs: the parser-combinator expressions of that file, with the
    semantics of the `combine` crate (4.6): a parser either succeeds (having consumed input or not), fails
    without having consumed (the alternative of an `or`, the end of a `many` / `sep_by` / `optional`) or
    fails after consuming (the whole parse fails, unless under `attempt`).
    Input = the Unicode scalar values of the string.  The classification of non-ASCII characters
    (char::is_alphanumeric / is_alphabetic / is_whitespace) is a parameter. *)
From Coq Require Import ZArith List Bool.
From RbpfV Require Import MachInt AsmDefs.
Import ListNotations.
Open Scope Z_scope.

Record uclass := { u_alnum : Z -> bool; u_alpha : Z -> bool; u_space : Z -> bool }.

Inductive pr (A : Type) := POk (c : bool) (v : A) (rest : list Z) | PErr (c : bool) | PFuel.
Arguments POk {A} c v rest. Arguments PErr {A} c. Arguments PFuel {A}.

Definition instr := (list Z * list operand)%type.     (* name, operands *)

Fixpoint span (f : Z -> bool) (l : list Z) : list Z * list Z :=
  match l with
  | c :: r => if f c then let (a, b) := span f r in (c :: a, b) else ([], l)
  | [] => ([], [])
  end.

Section Parser.
Variable U : uclass.

Definition is_digit (c : Z) : bool := (48 <=? c) && (c <=? 57).
Definition is_hex (c : Z) : bool := is_digit c || ((97 <=? c) && (c <=? 102)) || ((65 <=? c) && (c <=? 70)).
Definition is_ascii_alpha (c : Z) : bool := ((97 <=? c) && (c <=? 122)) || ((65 <=? c) && (c <=? 90)).
Definition is_alpha (c : Z) : bool := if c <? 128 then is_ascii_alpha c else u_alpha U c.
Definition is_alnum (c : Z) : bool := if c <? 128 then is_ascii_alpha c || is_digit c else u_alnum U c.
Definition is_space (c : Z) : bool := if c <? 128 then ((9 <=? c) && (c <=? 13)) || (c =? 32) else u_space U c.

Definition digit_val (c : Z) : Z := if c <=? 57 then c - 48 else if c <=? 70 then c - 55 else c - 87.
Definition num_of (base : Z) (ds : list Z) : Z := fold_left (fun acc c => acc * base + digit_val c) ds 0.

Definition skip_spaces (l : list Z) : list Z := snd (span is_space l).

(** ident = many1(alpha_num()) *)
Definition p_ident (l : list Z) : pr (list Z) :=
  let (a, r) := span is_alnum l in match a with [] => PErr false | _ => POk true a r end.

(** attempt(string("0x").with(many1(hex_digit())).and_then(u64::from_str_radix(.., 16) as i64)):
    under `attempt` no failure commits *)
Definition p_hex (l : list Z) : pr Z :=
  match l with
  | c0 :: c1 :: r =>
    if (c0 =? 48) && (c1 =? 120) then
      let (ds, rest) := span is_hex r in
      match ds with
      | [] => PErr false
      | _ => let v := num_of 16 ds in if v <? 2 ^ 64 then POk true (norm I64 v) rest else PErr false
      end
    else PErr false
  | _ => PErr false
  end.

(** many1(digit()).and_then(parse::<i64>): an out-of-range literal fails after consuming *)
Definition p_dec (l : list Z) : pr Z :=
  let (ds, rest) := span is_digit l in
  match ds with
  | [] => PErr false
  | _ => let v := num_of 10 ds in if v <? 2 ^ 63 then POk true v rest else PErr true
  end.

(** (optional(one_of("-+")), attempt(hex).or(dec)).map(|(s, x)| s.wrapping_mul(x)) *)
Definition p_integer (l : list Z) : pr Z :=
  let '(s, cs, l1) :=
    match l with
    | c :: r => if c =? 45 then (-1, true, r) else if c =? 43 then (1, true, r) else (1, false, l)
    | [] => (1, false, l)
    end in
  match p_hex l1 with
  | POk _ v r => POk true (norm I64 (s * v)) r
  | PFuel => PFuel
  | PErr _ =>
    match p_dec l1 with
    | POk _ v r => POk true (norm I64 (s * v)) r
    | PErr c => PErr (cs || c)
    | PFuel => PFuel
    end
  end.

(** attempt(char('r').skip(not_followed_by(letter()))).with(many1(digit())).and_then(parse::<i64>) *)
Definition reg_digits (r : list Z) : pr Z :=
  let (ds, rest) := span is_digit r in
  match ds with
  | [] => PErr true
  | _ => let v := num_of 10 ds in if v <? 2 ^ 63 then POk true v rest else PErr true
  end.
Definition p_register (l : list Z) : pr Z :=
  match l with
  | c :: r =>
    if c =? 114 then
      match r with
      | c2 :: _ => if is_alpha c2 then PErr false else reg_digits r
      | [] => reg_digits r
      end
    else PErr false
  | [] => PErr false
  end.

(** between(char('['), char(']'), (register(), optional(integer()))) *)
Definition p_close (reg off : Z) (r : list Z) : pr operand :=
  match r with
  | c :: r' => if c =? 93 then POk true (Memory reg off) r' else PErr true
  | [] => PErr true
  end.
Definition p_memory (l : list Z) : pr operand :=
  match l with
  | c :: r =>
    if c =? 91 then
      match p_register r with
      | POk _ reg r1 =>
        match p_integer r1 with
        | POk _ off r2 => p_close reg off r2
        | PErr false => p_close reg 0 r1
        | PErr true => PErr true
        | PFuel => PFuel
        end
      | PErr _ => PErr true
      | PFuel => PFuel
      end
    else PErr false
  | [] => PErr false
  end.

(** register_operand.or(immediate).or(memory) *)
Definition p_operand (l : list Z) : pr operand :=
  match p_register l with
  | POk c v r => POk c (Register v) r
  | PErr true => PErr true
  | PFuel => PFuel
  | PErr false =>
    match p_integer l with
    | POk c v r => POk c (Integer v) r
    | PErr true => PErr true
    | PFuel => PFuel
    | PErr false => p_memory l
    end
  end.

(** char(',').skip(spaces()) *)
Definition p_sep (l : list Z) : option (list Z) :=
  match l with c :: r => if c =? 44 then Some (skip_spaces r) else None | [] => None end.

(** sep_by(operand(), sep): the part after the first operand, many(sep.with(operand())) *)
Fixpoint p_more (fuel : nat) (l : list Z) : pr (list operand) :=
  match fuel with
  | O => PFuel
  | S f =>
    match p_sep l with
    | None => POk false [] l
    | Some l1 =>
      match p_operand l1 with
      | POk _ o r =>
        match p_more f r with
        | POk _ os r' => POk true (o :: os) r'
        | PErr _ => PErr true
        | PFuel => PFuel
        end
      | PErr _ => PErr true
      | PFuel => PFuel
      end
    end
  end.
Definition p_operands (l : list Z) : pr (list operand) :=
  match p_operand l with
  | PErr false => POk false [] l
  | PErr true => PErr true
  | PFuel => PFuel
  | POk _ o r =>
    match p_more (S (length r)) r with
    | POk _ os r' => POk true (o :: os) r'
    | PErr _ => PErr true
    | PFuel => PFuel
    end
  end.

(** (ident().skip(spaces()), operands, spaces()) *)
Definition p_instruction (l : list Z) : pr instr :=
  match p_ident l with
  | PErr _ => PErr false
  | PFuel => PFuel
  | POk _ name r =>
    match p_operands (skip_spaces r) with
    | POk _ ops r2 => POk true (name, ops) (skip_spaces r2)
    | PErr _ => PErr true
    | PFuel => PFuel
    end
  end.

(** many(instruction()) *)
Fixpoint p_instructions (fuel : nat) (l : list Z) : pr (list instr) :=
  match fuel with
  | O => PFuel
  | S f =>
    match p_instruction l with
    | PErr false => POk false [] l
    | PErr true => PErr true
    | PFuel => PFuel
    | POk _ i r =>
      match p_instructions f r with
      | POk _ is r' => POk true (i :: is) r'
      | PErr _ => PErr true
      | PFuel => PFuel
      end
    end
  end.

(** parse: spaces().with(many(instruction()).skip(eof())) *)
Definition parse (s : list Z) : res (list instr) :=
  let l := skip_spaces s in
  match p_instructions (S (length l)) l with
  | POk _ is [] => Ok is
  | POk _ _ (_ :: _) => Err 0
  | PErr _ => Err 0
  | PFuel => OutOfFuel
  end.
End Parser.
