(** "Undefined state" made precise for the ISA: [reads i] = the registers whose value the step of instruction i depends
    on, [defd_after D i] = the registers that hold a defined value after it when those of D did before (a helper call defines
    r0 and un-defines r1-r5).  Two register files that agree on D are taken by the same ISA step to files that agree on
    [defd_after D i], with the same next pc, memory and returned value -- whatever the other registers hold, and whatever a
    helper leaves in r1-r5.  This is what lets the theorems about the compiled engines, which start from other values in
    the unwritten registers, be read as statements about the interpreter. *)
From Coq Require Import ZArith Lia Bool List.
From RbpfV Require Import MachInt BitLemmas ArmBase Ebpf Mem Stack Helpers InterpDefs WellFormed Isa MemLemmas
  ClAluProofs ClJmpProofs ClMemProofs ClMiscProofs InterpArmsAlu InterpProofs ClStep JitStep.
Import ListNotations.
Open Scope Z_scope.

Definition EUndefined : Z := 104.   (* the step would read a register that holds no defined value *)

Definition alu_reads (o d s : Z) : list Z := (if o / 16 =? 0xb then [] else [d]) ++ (if Z.testbit o 3 then [s] else []).
Definition reads (i : insn) : list Z :=
  let o := opc i in
  if inl o cl_alu_ops then alu_reads o (dst i) (src i)
  else if (o =? op_le) || (o =? op_be) then [dst i]
  else if (o =? op_lddw) || (o =? op_ja) then []
  else if inl o cl_jmp_ops then dst i :: (if Z.testbit o 3 then [src i] else [])
  else if inl o cl_mem_ops then
    (if o mod 8 =? 0 then (if o / 32 =? 1 then [] else [src i])
     else if o mod 8 =? 1 then [src i]
     else if o mod 8 =? 2 then [dst i] else [dst i; src i])
  else if o =? op_call then [1; 2; 3; 4; 5]
  else if o =? op_exit then [0]
  else [].
Definition defd_after (D : list Z) (i : insn) : list Z :=
  let o := opc i in
  if inl o cl_alu_ops || (o =? op_le) || (o =? op_be) || (o =? op_lddw) then dst i :: D
  else if inl o cl_mem_ops then (if o mod 8 =? 0 then 0 :: D else if o mod 8 =? 1 then dst i :: D else D)
  else if o =? op_call then 0 :: filter (fun r => negb (inl r [1; 2; 3; 4; 5])) D
  else D.

Definition agree (D : list Z) (a b : list Z) : Prop :=
  regs_ok a /\ regs_ok b /\ forall k, 0 <= k <= 10 -> inl k D = true -> rd a k = rd b k.

Lemma inl_cons k x D : inl k (x :: D) = (k =? x) || inl k D.
Proof. reflexivity. Qed.

Lemma agree_set D a b k v : agree D a b -> 0 <= k <= 10 -> 0 <= v < 2 ^ 64 -> agree (k :: D) (set_reg a k v) (set_reg b k v).
Proof.
  intros (Ha & Hb & H) Hk Hv. split; [now apply set_reg_ok|]. split; [now apply set_reg_ok|].
  intros j Hj Hin. rewrite inl_cons in Hin. destruct (Z.eqb_spec j k) as [->|N].
  - now rewrite !rd_set_same by assumption.
  - rewrite !rd_set_other by lia. apply H; assumption.
Qed.
Lemma agree_sub D D' a b : agree D a b -> (forall k, inl k D' = true -> inl k D = true) -> agree D' a b.
Proof. intros (Ha & Hb & H) S. split; [exact Ha|]. split; [exact Hb|]. intros k Hk Hin. apply H; [exact Hk|now apply S]. Qed.
Lemma agree_rd D a b k : agree D a b -> 0 <= k <= 10 -> inl k D = true -> rd a k = rd b k.
Proof. intros (_ & _ & H). apply H. Qed.

Lemma forallb_app_inl D l1 l2 : forallb (fun r => inl r D) (l1 ++ l2) = true ->
  forallb (fun r => inl r D) l1 = true /\ forallb (fun r => inl r D) l2 = true.
Proof. rewrite forallb_app. apply andb_true_iff. Qed.

(** the ALU value depends on the registers of [alu_reads] only *)
Lemma alu_value_agree o i a1 b1 a2 b2 :
  (o / 16 =? 0xb = false -> a1 = a2) -> (Z.testbit o 3 = true -> b1 = b2) ->
  newval (isa_alu_value o i a1 b1) a1 = newval (isa_alu_value o i a2 b2) a2.
Proof.
  intros Ha Hb. unfold isa_alu_value.
  assert (B : (if Z.testbit o 3 then b1 else imm i) = (if Z.testbit o 3 then b2 else imm i)).
  { destruct (Z.testbit o 3); [now rewrite Hb|reflexivity]. }
  rewrite B. destruct (Z.eqb_spec (o / 16) 0xb) as [M|N].
  - rewrite M. reflexivity.
  - now rewrite Ha.
Qed.

Lemma reads_dispatch_alu i : In (opc i) cl_alu_ops -> reads i = alu_reads (opc i) (dst i) (src i) /\ forall D, defd_after D i = dst i :: D.
Proof. intros Hin. unfold reads, defd_after. cbv zeta. rewrite (inl_In _ _ Hin). split; reflexivity. Qed.

Theorem isa_exec_agree E i D reg1 reg2 next fidx stacks m st1 :
  agree D reg1 reg2 -> wf_insn i -> 0 <= dst i <= 10 -> 0 <= src i <= 10 -> In (opc i) cl_ops ->
  (opc i = op_call -> src i = 0) -> (opc i = op_exit -> fidx = 0) ->
  forallb (fun r => inl r D) (reads i) = true ->
  isa_exec E i reg1 next fidx stacks m = Ok st1 ->
  match st1 with
  | SNext (r1, pc1, f1, s1, m1) =>
      regs_ok r1 -> exists r2, isa_exec E i reg2 next fidx stacks m = Ok (SNext (r2, pc1, f1, s1, m1)) /\ agree (defd_after D i) r1 r2
  | SRet v m1 => isa_exec E i reg2 next fidx stacks m = Ok (SRet v m1)
  end.
Proof.
  intros Hag Hwf Hd Hs Hin Hcall Hexit Hrd H. pose proof Hag as (Ha & Hb & Hsame).
  unfold cl_ops in Hin. apply in_app_or in Hin as [Hin|Hin].
  { (* ALU *)
    destruct (reads_dispatch_alu i Hin) as [Er Ed]. rewrite Er in Hrd. rewrite Ed.
    pose proof (proj1 (forallb_forall _ _) alu_ops_class _ Hin) as C.
    apply andb_true_iff in C as [C Nbe]. apply andb_true_iff in C as [C Nle].
    apply negb_true_iff, Z.eqb_neq in Nbe. apply negb_true_iff, Z.eqb_neq in Nle.
    rewrite isa_alu_step in H by assumption. injection H as <-. intros Hr1.
    rewrite isa_alu_step by assumption. eexists. split; [reflexivity|].
    unfold alu_reads in Hrd. apply forallb_app_inl in Hrd as [R1 R2].
    assert (V : newval (isa_alu_value (opc i) i (rd reg1 (dst i)) (rd reg1 (src i))) (rd reg1 (dst i))
              = newval (isa_alu_value (opc i) i (rd reg2 (dst i)) (rd reg2 (src i))) (rd reg2 (dst i))).
    { apply alu_value_agree.
      - intros M. rewrite M in R1. cbn [forallb] in R1. apply andb_true_iff in R1 as [R1 _]. now apply Hsame.
      - intros T. rewrite T in R2. cbn [forallb] in R2. apply andb_true_iff in R2 as [R2 _]. now apply Hsame. }
    rewrite <- V. apply agree_set; try assumption.
    pose proof (rd_range _ (dst i) Hr1) as Rg. now rewrite rd_set_same in Rg by assumption. }
  apply in_app_or in Hin as [Hin|Hin].
  { (* conditional jumps *)
    pose proof (proj1 (forallb_forall _ _) jmp_ops_class _ Hin) as C.
    repeat (apply andb_true_iff in C as [C ?]).
    repeat match goal with H : negb (_ =? _) = true |- _ => apply negb_true_iff in H end.
    assert (A : (opc i mod 8 =? 7) || (opc i mod 8 =? 4) = false).
    { apply orb_true_iff in C. destruct C as [C|C]; apply Z.eqb_eq in C; rewrite C; reflexivity. }
    assert (Er : reads i = dst i :: (if Z.testbit (opc i) 3 then [src i] else [])).
    { unfold reads. cbv zeta. rewrite (inl_false _ _ _ alu_ops_class) by (rewrite A; reflexivity).
      repeat match goal with H : (opc i =? _) = false |- _ => rewrite H end. cbn [orb]. now rewrite (inl_In _ _ Hin). }
    assert (Ed : defd_after D i = D).
    { unfold defd_after. cbv zeta. rewrite (inl_false _ _ _ alu_ops_class) by (rewrite A; reflexivity).
      repeat match goal with H : (opc i =? _) = false |- _ => rewrite H end. cbn [orb].
      rewrite (inl_false _ _ _ mem_ops_class); [reflexivity|].
      apply orb_true_iff in C. destruct C as [C|C]; apply Z.eqb_eq in C; rewrite C; reflexivity. }
    rewrite Er in Hrd. rewrite Ed. cbn [forallb] in Hrd. apply andb_true_iff in Hrd as [R1 R2].
    repeat match goal with H : (opc i =? _) = false |- _ => apply Z.eqb_neq in H end.
    rewrite isa_jump_step in H by assumption. injection H as <-. intros _.
    rewrite isa_jump_step by assumption. eexists. split; [|exact Hag].
    assert (T : isa_jump_taken (opc i) i (rd reg1 (dst i)) (rd reg1 (src i)) = isa_jump_taken (opc i) i (rd reg2 (dst i)) (rd reg2 (src i))).
    { unfold isa_jump_taken. rewrite (Hsame _ Hd R1). destruct (Z.testbit (opc i) 3); [|reflexivity].
      cbn [forallb] in R2. apply andb_true_iff in R2 as [R2 _]. now rewrite (Hsame _ Hs R2). }
    now rewrite T. }
  apply in_app_or in Hin as [Hin|Hin].
  { (* memory *)
    pose proof (proj1 (forallb_forall _ _) mem_ops_class _ Hin) as C.
    apply andb_true_iff in C as [C Cx]. apply andb_true_iff in C as [C Nl]. apply andb_true_iff in C as [C0 C3].
    apply Z.leb_le in C0, C3. apply negb_true_iff in Nl. pose proof Nl as Nl'. apply Z.eqb_neq in Nl'.
    assert (Hx : is_xadd (opc i) = true -> opc i mod 8 = 3).
    { intros X. rewrite X in Cx. cbn [negb orb] in Cx. now apply Z.eqb_eq in Cx. }
    assert (A0 : (opc i mod 8 =? 7) || (opc i mod 8 =? 4) = false)
      by (destruct (Z.eqb_spec (opc i mod 8) 7); [lia|]; destruct (Z.eqb_spec (opc i mod 8) 4); [lia|]; reflexivity).
    assert (A1 : inl (opc i) cl_alu_ops = false) by (apply (inl_false _ _ _ alu_ops_class); rewrite A0; reflexivity).
    assert (A3 : inl (opc i) cl_jmp_ops = false) by (apply (inl_false _ _ _ jmp_ops_class);
      destruct (Z.eqb_spec (opc i mod 8) 5); [lia|]; destruct (Z.eqb_spec (opc i mod 8) 6); [lia|]; reflexivity).
    assert (Nle : (opc i =? op_le) = false) by (destruct (Z.eqb_spec (opc i) op_le) as [Q|]; [rewrite Q in C3; vm_compute in C3; now destruct C3|reflexivity]).
    assert (Nbe : (opc i =? op_be) = false) by (destruct (Z.eqb_spec (opc i) op_be) as [Q|]; [rewrite Q in C3; vm_compute in C3; now destruct C3|reflexivity]).
    assert (Nja : (opc i =? op_ja) = false) by (destruct (Z.eqb_spec (opc i) op_ja) as [Q|]; [rewrite Q in C3; vm_compute in C3; now destruct C3|reflexivity]).
    assert (Er : reads i = (if opc i mod 8 =? 0 then (if opc i / 32 =? 1 then [] else [src i])
                            else if opc i mod 8 =? 1 then [src i] else if opc i mod 8 =? 2 then [dst i] else [dst i; src i])).
    { unfold reads. cbv zeta. rewrite A1, Nle, Nbe, Nl, Nja, A3, (inl_In _ _ Hin). reflexivity. }
    assert (Ed : defd_after D i = (if opc i mod 8 =? 0 then 0 :: D else if opc i mod 8 =? 1 then dst i :: D else D)).
    { unfold defd_after. cbv zeta. rewrite A1, Nle, Nbe, Nl, (inl_In _ _ Hin). reflexivity. }
    rewrite Er in Hrd. rewrite Ed. clear Er Ed.
    rewrite (isa_mem_step E i reg1 next fidx stacks m (conj C0 C3) Nl' Hx) in H. cbv zeta in H.
    rewrite (isa_mem_step E i reg2 next fidx stacks m (conj C0 C3) Nl' Hx). cbv zeta.
    (* same address, same stored value *)
    assert (AD : isa_addr (opc i) i (rd reg1 (dst i)) (rd reg1 (src i)) (e_mem_base E) = isa_addr (opc i) i (rd reg2 (dst i)) (rd reg2 (src i)) (e_mem_base E)
                 /\ isa_val (opc i) i (rd reg1 (src i)) = isa_val (opc i) i (rd reg2 (src i))
                 /\ (isa_kind (opc i) =? 2 = true -> rd reg1 (src i) = rd reg2 (src i))).
    { unfold isa_addr, isa_val, isa_kind.
      destruct (Z.eqb_spec (opc i mod 8) 0) as [Z0|NZ0].
      - cbn [orb]. split; [|split; [reflexivity|]].
        + destruct (opc i / 32 =? 1) eqn:Q32; [reflexivity|]. cbn [forallb] in Hrd. apply andb_true_iff in Hrd as [R1 _]. now rewrite (Hsame _ Hs R1).
        + destruct (is_xadd (opc i)); [specialize (Hx eq_refl); lia|discriminate].
      - destruct (Z.eqb_spec (opc i mod 8) 1) as [Z1|NZ1].
        + cbn [orb]. cbn [forallb] in Hrd. apply andb_true_iff in Hrd as [R1 _]. rewrite (Hsame _ Hs R1).
          split; [reflexivity|split; [reflexivity|]]. destruct (is_xadd (opc i)); [specialize (Hx eq_refl); lia|discriminate].
        + cbn [orb]. destruct (Z.eqb_spec (opc i mod 8) 2) as [Z2|NZ2].
          * cbn [forallb] in Hrd. apply andb_true_iff in Hrd as [R1 _]. rewrite (Hsame _ Hd R1).
            split; [reflexivity|split; [reflexivity|]]. destruct (is_xadd (opc i)); [specialize (Hx eq_refl); lia|discriminate].
          * cbn [forallb] in Hrd. apply andb_true_iff in Hrd as [R1 R2]. apply andb_true_iff in R2 as [R2 _].
            rewrite (Hsame _ Hd R1), (Hsame _ Hs R2). repeat split; reflexivity. }
    destruct AD as (AD & AV & AX). rewrite <- AD, <- AV.
    set (ad := isa_addr (opc i) i (rd reg1 (dst i)) (rd reg1 (src i)) (e_mem_base E)) in *.
    set (n := size_of (opc i)) in *.
    destruct (isa_kind (opc i) =? 0) eqn:K0.
    - destruct (access_ok E ad n); [|discriminate H]. injection H as <-. intros Hr1. eexists. split; [reflexivity|].
      assert (Tk : 0 <= isa_target (opc i) i <= 10 /\ (if opc i mod 8 =? 0 then 0 :: D else if opc i mod 8 =? 1 then dst i :: D else D) = isa_target (opc i) i :: D).
      { unfold isa_target. destruct (Z.eqb_spec (opc i mod 8) 0) as [Z0|NZ0]; [split; [lia|reflexivity]|].
        destruct (Z.eqb_spec (opc i mod 8) 1) as [Z1|NZ1]; [split; [exact Hd|reflexivity]|].
        exfalso. unfold isa_kind in K0. destruct (is_xadd (opc i)); [discriminate K0|].
        rewrite (proj2 (Z.eqb_neq _ _) NZ0), (proj2 (Z.eqb_neq _ _) NZ1) in K0. discriminate K0. }
      destruct Tk as [Tr Te]. rewrite Te. apply agree_set; try assumption.
      pose proof (rd_range _ (isa_target (opc i) i) Hr1) as Rg. now rewrite rd_set_same in Rg by assumption.
    - assert (Ee : (if opc i mod 8 =? 0 then 0 :: D else if opc i mod 8 =? 1 then dst i :: D else D) = D).
      { unfold isa_kind in K0. destruct (is_xadd (opc i)).
        - rewrite (Hx eq_refl). reflexivity.
        - destruct (Z.eqb_spec (opc i mod 8) 0); [discriminate K0|]. destruct (Z.eqb_spec (opc i mod 8) 1); [discriminate K0|]. reflexivity. }
      rewrite Ee.
      destruct (access_ok E ad n); cbn [negb] in *; [|discriminate H].
      destruct (isa_kind (opc i) =? 2) eqn:K2.
      + destruct (ad mod n =? 0); [|discriminate H]. injection H as <-. intros _. rewrite <- (AX eq_refl).
        eexists. split; [reflexivity|exact Hag].
      + injection H as <-. intros _. eexists. split; [reflexivity|exact Hag]. }
  (* the single opcodes *)
  cbn [In] in Hin. destruct Hin as [Ho|[Ho|[Ho|[Ho|[Ho|[Ho|[]]]]]]]; symmetry in Ho;
    unfold reads, defd_after in *; cbv zeta in *; rewrite Ho in *; unfold isa_exec, isa_exec_dec in *; rewrite Ho in *.
  - (* le *)
    change (inl op_le cl_alu_ops) with false in *. change ((op_le =? op_le) || (op_le =? op_be)) with true in *.
    change ((op_le mod 8 =? 7) || (op_le mod 8 =? 4)) with true in *. change (op_le =? op_le) with true in *. cbv iota in *. cbn [orb] in *.
    cbn [forallb] in Hrd. apply andb_true_iff in Hrd as [R1 _]. injection H as <-. intros Hr1. eexists. split; [reflexivity|].
    rewrite <- (Hsame _ Hd R1). apply agree_set; try assumption.
    pose proof (rd_range _ (dst i) Hr1) as Rg. now rewrite rd_set_same in Rg by assumption.
  - (* be *)
    change (inl op_be cl_alu_ops) with false in *. change ((op_be =? op_le) || (op_be =? op_be)) with true in *.
    change ((op_be mod 8 =? 7) || (op_be mod 8 =? 4)) with true in *. change (op_be =? op_le) with false in *. change (op_be =? op_be) with true in *.
    cbv iota in *. cbn [orb] in *.
    cbn [forallb] in Hrd. apply andb_true_iff in Hrd as [R1 _]. injection H as <-. intros Hr1. eexists. split; [reflexivity|].
    rewrite <- (Hsame _ Hd R1). apply agree_set; try assumption.
    pose proof (rd_range _ (dst i) Hr1) as Rg. now rewrite rd_set_same in Rg by assumption.
  - (* lddw *)
    change (inl op_lddw cl_alu_ops) with false in *. change ((op_lddw =? op_le) || (op_lddw =? op_be)) with false in *.
    change (op_lddw =? op_lddw) with true in *. change ((op_lddw mod 8 =? 7) || (op_lddw mod 8 =? 4)) with false in *.
    change ((op_lddw mod 8 =? 5) || (op_lddw mod 8 =? 6)) with false in *. cbv iota in *. cbn [orb] in *.
    injection H as <-. intros Hr1. eexists. split; [reflexivity|]. apply agree_set; try assumption.
    unfold u64. apply Z.mod_pos_bound. change (2 ^ 64) with 18446744073709551616. lia.
  - (* ja *)
    change (inl op_ja cl_alu_ops) with false in *. change (op_ja =? op_le) with false in *. change (op_ja =? op_be) with false in *. change (op_ja =? op_lddw) with false in *.
    change ((op_ja mod 8 =? 7) || (op_ja mod 8 =? 4)) with false in *. change ((op_ja mod 8 =? 5) || (op_ja mod 8 =? 6)) with true in *.
    change (op_ja =? op_ja) with true in *. change (inl op_ja cl_mem_ops) with false in *. change (op_ja =? op_call) with false in *. cbv iota in *. cbn [orb] in *.
    injection H as <-. intros _. eexists. split; [reflexivity|exact Hag].
  - (* call *)
    rewrite (Hcall eq_refl) in *.
    change (inl op_call cl_alu_ops) with false in *. change (op_call =? op_le) with false in *. change (op_call =? op_be) with false in *. change (op_call =? op_lddw) with false in *.
    change (op_call =? op_ja) with false in *. change (inl op_call cl_jmp_ops) with false in *. change (inl op_call cl_mem_ops) with false in *.
    change ((op_call mod 8 =? 7) || (op_call mod 8 =? 4)) with false in *. change ((op_call mod 8 =? 5) || (op_call mod 8 =? 6)) with true in *.
    change (op_call =? op_call) with true in *. change (0 =? 0) with true in *. cbv iota in *. cbn [orb] in *.
    cbn [forallb] in Hrd. rewrite !andb_true_iff in Hrd. destruct Hrd as (R1 & R2 & R3 & R4 & R5 & _).
    rewrite <- (Hsame 1), <- (Hsame 2), <- (Hsame 3), <- (Hsame 4), <- (Hsame 5) by (assumption || lia).
    destruct (e_helpers E (u32 (imm i))) as [f|]; [|discriminate H]. injection H as <-. intros Hr1. eexists. split; [reflexivity|].
    apply (agree_sub (0 :: D)).
    + apply agree_set; [exact Hag|lia|]. pose proof (rd_range _ 0 Hr1) as Rg. now rewrite rd_set_same in Rg by (assumption || lia).
    + intros k Hk. rewrite inl_cons in *. destruct (k =? 0); [reflexivity|]. cbn [orb] in *.
      unfold inl in Hk. apply existsb_exists in Hk as (x & Hx & Ex). apply Z.eqb_eq in Ex. subst x. apply filter_In in Hx as [Hx _]. now apply inl_In.
  - (* exit *)
    rewrite (Hexit eq_refl) in *.
    change ((op_exit mod 8 =? 7) || (op_exit mod 8 =? 4)) with false in *. change ((op_exit mod 8 =? 5) || (op_exit mod 8 =? 6)) with true in *.
    change (op_exit =? op_ja) with false in *. change (op_exit =? op_call) with false in *. change (op_exit =? op_tail_call) with false in *.
    change (op_exit =? op_exit) with true in *. change (0 <? 0) with false in *.
    change (inl op_exit cl_alu_ops) with false in *. change (op_exit =? op_le) with false in *. change (op_exit =? op_be) with false in *. change (op_exit =? op_lddw) with false in *.
    change (inl op_exit cl_jmp_ops) with false in *. change (inl op_exit cl_mem_ops) with false in *. cbv iota in *. cbn [orb] in *.
    cbn [forallb] in Hrd. apply andb_true_iff in Hrd as [R1 _]. injection H as <-. now rewrite (Hsame 0) by (assumption || lia).
Qed.
