(** C19 specification-side definitions for the helpers (no proofs, no dependency on generated code). *)
From Coq Require Import ZArith Bool List.
From RbpfV Require Import MachInt.
Import ListNotations.
Open Scope Z_scope.

Definition shl64 (a n : Z) : Z := (a * 2 ^ n) mod 2 ^ 64.

Definition gather_spec (a1 a2 a3 a4 a5 : Z) : Z :=
  Z.lor (Z.lor (Z.lor (Z.lor (shl64 a1 32) (shl64 a2 24)) (shl64 a3 16)) (shl64 a4 8)) a5.

Fixpoint hexlen_fuel (fuel : nat) (x : Z) : Z :=
  match fuel with
  | O => 1
  | S f => if x <? 16 then 1 else 1 + hexlen_fuel f (x / 16)
  end.

Definition hexlen (x : Z) : Z := hexlen_fuel 16 x.     (* digits of `{:x}` for 0 <= x < 2^64 *)

Definition memfrob_bytes (l : list Z) : list Z := map (fun b => Z.lxor b 42) l.

(** C strings: bytes up to (not including) the first NUL; [strcmp_model] walks both as the helper does *)
Fixpoint strcmp_model (a b : list Z) : Z :=
  match a, b with
  | x :: a', y :: b' => if (x =? y) && negb (x =? 0) then strcmp_model a' b' else Z.abs (x - y)
  | x :: _, [] => Z.abs x
  | [], y :: _ => Z.abs y
  | [], [] => 0
  end.

Fixpoint cstr (l : list Z) : list Z := match l with [] => [] | x :: r => if x =? 0 then [] else x :: cstr r end.
