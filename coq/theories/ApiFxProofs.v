(** C10, tie to the source: running the effect lists regenerated from lib.rs (coq/gen/ApiFx.v) -- in program order, a
    failing step returning at once with the state as it is at that point -- is exactly the hand-written state machine
    VmApi.i_step over which the refinement theorem is proved.  So a method that changes the VM before a fallible step
    (for instance dropping compiled code, or storing the new verifier, before the verifier has run) no longer matches. *)
From Coq Require Import ZArith List Bool String.
From RbpfV Require Import VmApi ApiFx.
From RbpfV.gen Require Import ApiFx.
Import ListNotations.
Open Scope Z_scope.

Arguments i_prog {prog vf helpers calc}. Arguments i_vf {prog vf helpers calc}. Arguments i_helpers {prog vf helpers calc}.
Arguments i_jit {prog vf helpers calc}. Arguments i_cl {prog vf helpers calc}.
Arguments i_calc {prog vf helpers calc}. Arguments i_usage {prog vf helpers calc}.

Section Fx.
Variable prog : Type.
Variable vf : Type.
Variable accepts : vf -> prog -> bool.
Variable helpers : Type.
Variable hadd : helpers -> Z -> helpers.
Variable calc : Type.
Variable value : prog -> helpers -> option (prog * calc) -> Z + unit.
Variable cvalue : prog -> helpers -> Z + unit.
Variable compilable : prog -> helpers -> bool.

Notation ist := (ist prog vf helpers calc).
Notation out := VmApi.out.

(** the argument of the call *)
Inductive arg := AProg (p : prog) | AVf (v : vf) | AId (id : Z) | ACalc (c : calc) | ANone.

Definition set_jit (s : ist) (c : option (prog * helpers)) : ist :=
  {| i_prog := i_prog s; i_vf := i_vf s; i_helpers := i_helpers s; i_jit := c; i_cl := i_cl s; i_calc := i_calc s; i_usage := i_usage s |}.
Definition set_cl (s : ist) (c : option (prog * helpers)) : ist :=
  {| i_prog := i_prog s; i_vf := i_vf s; i_helpers := i_helpers s; i_jit := i_jit s; i_cl := c; i_calc := i_calc s; i_usage := i_usage s |}.
Definition set_usage (s : ist) (u : option (prog * calc)) : ist :=
  {| i_prog := i_prog s; i_vf := i_vf s; i_helpers := i_helpers s; i_jit := i_jit s; i_cl := i_cl s; i_calc := i_calc s; i_usage := u |}.
Definition set_calc (s : ist) (c : calc) : ist :=
  {| i_prog := i_prog s; i_vf := i_vf s; i_helpers := i_helpers s; i_jit := i_jit s; i_cl := i_cl s; i_calc := c; i_usage := i_usage s |}.

(** [lp]: the program bound by FxRequireProg; [tmp]: the code just compiled; [tu]: the table just computed; [tc]: the new calculator *)
Fixpoint run_fx (l : list fx) (a : arg) (s : ist) (lp : option prog) (tmp : option (prog * helpers))
    (tu : option (prog * calc)) (tc : option calc) : ist * out :=
  match l with
  | [] => (s, RUnit)
  | f :: l' =>
    match f with
    | FxVerifyField =>
      match a with
      | AProg p => if accepts (i_vf s) p then run_fx l' a s lp tmp tu tc else (s, RErrVerifier)
      | _ => (s, RErrVerifier)
      end
    | FxVerifyArgOnLoaded =>
      match a, i_prog s with
      | AVf v, Some p => if accepts v p then run_fx l' a s lp tmp tu tc else (s, RErrVerifier)
      | AVf v, None => run_fx l' a s lp tmp tu tc
      | _, _ => (s, RErrVerifier)
      end
    | FxVerifyFieldOnLoaded =>
      match i_prog s with
      | Some p => if accepts (i_vf s) p then run_fx l' a s lp tmp tu tc else (s, RErrVerifier)
      | None => run_fx l' a s lp tmp tu tc
      end
    | FxOtherFallible _ => run_fx l' a s lp tmp tu tc            (* assumed to succeed: outside the model *)
    | FxOther _ => run_fx l' a s lp tmp tu tc
    | FxValidateArg =>
      match a with
      | AProg p => run_fx l' a s lp tmp (Some (p, i_calc s)) tc        (* assumed to succeed *)
      | _ => (s, RErrVerifier)
      end
    | FxSetUsage => match tu with Some u => run_fx l' a (set_usage s (Some u)) lp tmp tu tc | None => (s, RErrVerifier) end
    | FxNewCalc => match a with ACalc c => run_fx l' a s lp tmp tu (Some c) | _ => (s, RErrVerifier) end
    | FxValidateLoadedIntoUsage =>
      match tc, i_prog s with
      | Some c, Some p => run_fx l' a (set_usage s (Some (p, c))) lp tmp tu tc     (* assumed to succeed *)
      | Some c, None => run_fx l' a s lp tmp tu tc
      | None, _ => (s, RErrVerifier)
      end
    | FxSetCalc => match tc with Some c => run_fx l' a (set_calc s c) lp tmp tu tc | None => (s, RErrVerifier) end
    | FxSetProg =>
      match a with
      | AProg p => run_fx l' a {| i_prog := Some p; i_vf := i_vf s; i_helpers := i_helpers s; i_jit := i_jit s; i_cl := i_cl s; i_calc := i_calc s; i_usage := i_usage s |} lp tmp tu tc
      | _ => (s, RErrVerifier)
      end
    | FxSetVerifier =>
      match a with
      | AVf v => run_fx l' a {| i_prog := i_prog s; i_vf := v; i_helpers := i_helpers s; i_jit := i_jit s; i_cl := i_cl s; i_calc := i_calc s; i_usage := i_usage s |} lp tmp tu tc
      | _ => (s, RErrVerifier)
      end
    | FxClear e => run_fx l' a (if String.eqb e "jit" then set_jit s None else set_cl s None) lp tmp tu tc
    | FxInsertHelper =>
      match a with
      | AId id => run_fx l' a {| i_prog := i_prog s; i_vf := i_vf s; i_helpers := hadd (i_helpers s) id; i_jit := i_jit s; i_cl := i_cl s; i_calc := i_calc s; i_usage := i_usage s |} lp tmp tu tc
      | _ => (s, RErrVerifier)
      end
    | FxTakeExecMem => run_fx l' a s lp tmp tu tc               (* executable memory is not part of this state machine *)
    | FxSetExecMem => run_fx l' a s lp tmp tu tc
    | FxRequireProg =>
      match i_prog s with
      | Some p => run_fx l' a s (Some p) tmp tu tc
      | None => (s, RErrNoProgram)
      end
    | FxCompile _ =>
      match lp with
      | Some p => if compilable p (i_helpers s) then run_fx l' a s lp (Some (p, i_helpers s)) tu tc else (s, RErrCompile)
      | None => (s, RErrNoProgram)
      end
    | FxStore e => run_fx l' a (if String.eqb e "jit" then set_jit s tmp else set_cl s tmp) lp tmp tu tc
    end
  end.

Definition fx_call (l : list fx) (a : arg) (s : ist) : ist * out := run_fx l a s None None None None.

Notation i_step := (i_step prog vf accepts helpers hadd calc value cvalue compilable).

Lemma ist_eta (s : ist) : {| i_prog := i_prog s; i_vf := i_vf s; i_helpers := i_helpers s; i_jit := i_jit s; i_cl := i_cl s; i_calc := i_calc s; i_usage := i_usage s |} = s.
Proof. destruct s; reflexivity. Qed.

Theorem fx_is_api (s : ist) :
  (forall p, fx_call gen_fx_set_program (AProg p) s = i_step s (OSetProgram _ _ _ p)) /\
  (forall v, fx_call gen_fx_set_verifier (AVf v) s = i_step s (OSetVerifier _ _ _ v)) /\
  (forall id, fx_call gen_fx_register_helper (AId id) s = i_step s (ORegisterHelper _ _ _ id)) /\
  (forall c, fx_call gen_fx_set_stack_usage_calculator (ACalc c) s = i_step s (OSetCalc _ _ _ c)) /\
  fx_call gen_fx_jit_compile ANone s = i_step s (OJitCompile _ _ _) /\
  fx_call gen_fx_cranelift_compile ANone s = i_step s (OCraneliftCompile _ _ _).
Proof.
  unfold fx_call, gen_fx_set_program, gen_fx_set_verifier, gen_fx_register_helper, gen_fx_set_stack_usage_calculator,
    gen_fx_jit_compile, gen_fx_cranelift_compile.
  destruct s as [sp sv sh sj sc sk su].
  split; [intros p|split; [intros v|split; [intros id|split; [intros c|split]]]];
    cbn [run_fx i_step String.eqb Ascii.eqb Bool.eqb set_jit set_cl set_usage set_calc i_prog i_vf i_helpers i_jit i_cl i_calc i_usage].
  - destruct (accepts sv p); reflexivity.
  - destruct sp as [p|]; [destruct (accepts v p)|]; reflexivity.
  - reflexivity.
  - destruct sp as [p|]; reflexivity.
  - destruct sp as [p|]; [destruct (compilable p sh)|]; reflexivity.
  - destruct sp as [p|]; [destruct (compilable p sh)|]; reflexivity.
Qed.

End Fx.

(** C20: the same methods compiled without the std feature have the same effects, except that jit_compile takes the
    caller-supplied executable memory -- after the check that a program is loaded, so a call refused for lack of a program
    leaves the memory in place for the next call *)
Definition not_take (f : fx) : bool := match f with FxTakeExecMem => false | _ => true end.
Theorem no_std_effects_agree :
  gen_fx_set_program_no_std = gen_fx_set_program /\ gen_fx_set_verifier_no_std = gen_fx_set_verifier /\
  gen_fx_register_helper_no_std = gen_fx_register_helper /\
  gen_fx_set_stack_usage_calculator_no_std = gen_fx_set_stack_usage_calculator /\
  gen_fx_cranelift_compile_no_std = gen_fx_cranelift_compile /\
  filter not_take gen_fx_jit_compile_no_std = gen_fx_jit_compile /\
  (exists rest, gen_fx_jit_compile_no_std = FxRequireProg :: FxTakeExecMem :: rest).
Proof. repeat split. eexists. reflexivity. Qed.

(** C20: handing executable memory to the VM (a method that exists only without std) changes nothing this state machine holds:
    program, verifier, helpers, frame sizes -- and the code compiled earlier, which keeps running from the memory it is in *)
Theorem exec_memory_setter_is_neutral :
  gen_fx_set_jit_exec_memory_no_std = [FxSetExecMem] /\
  forall (prog vf helpers calc : Type) (accepts : vf -> prog -> bool) (hadd : helpers -> Z -> helpers)
         (compilable : prog -> helpers -> bool) (a : arg prog vf calc) (s : ist prog vf helpers calc),
    fx_call prog vf accepts helpers hadd calc compilable gen_fx_set_jit_exec_memory_no_std a s = (s, RUnit).
Proof. split; [reflexivity|intros; reflexivity]. Qed.
