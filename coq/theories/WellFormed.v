(** C06 specification: which byte strings are well-formed eBPF programs.
    Written from the property text and the eBPF ISA encoding (class | op | source), not from
    verifier.rs.  Executable ([wellformedb]) so that it also serves as the oracle of the
    correspondence check. *)
From Coq Require Import ZArith List Bool Lia.
From RbpfV Require Import MachInt Ebpf.
Import ListNotations.
Open Scope Z_scope.

Definition nslots (p : list Z) : Z := len p / 8.
Definition slot_at (p : list Z) (k : Z) : list Z := firstn 8 (skipn (Z.to_nat (8 * k)) p).
Definition insn_at (p : list Z) (k : Z) : insn := spec_decode_slot (slot_at p k).

(** ** supported opcodes, by ISA class *)
Definition alu_ops : list Z := (* add sub mul div or and lsh rsh mod xor mov arsh *)
  [0x0; 0x1; 0x2; 0x3; 0x4; 0x5; 0x6; 0x7; 0x9; 0xa; 0xb; 0xc].
Definition jmp_ops : list Z := (* jeq jgt jge jset jne jsgt jsge jlt jle jslt jsle *)
  [0x1; 0x2; 0x3; 0x4; 0x5; 0x6; 0x7; 0xa; 0xb; 0xc; 0xd].
Definition mem_sizes : list Z := [0x00; 0x08; 0x10; 0x18]. (* w h b dw *)

Definition inb (x : Z) (l : list Z) : bool := existsb (Z.eqb x) l.

Definition op_lddw := 0x18.
Definition op_call := 0x85.
Definition op_exit := 0x95.
Definition op_ja := 0x05.
Definition op_tail_call := 0x8d.
Definition op_le := 0xd4.
Definition op_be := 0xdc.
Definition op_xadd_w := 0xc3.
Definition op_xadd_dw := 0xdb.

Definition cls (o : Z) : Z := o mod 8.

Definition is_alu_opcode (o : Z) : bool :=
  ((cls o =? 4) || (cls o =? 7)) &&
  (inb (o / 16) alu_ops                       (* binary ops, immediate or register source *)
   || ((o / 16 =? 0x8) && ((o / 8) mod 2 =? 0))  (* neg: no source operand *)
   || (o =? op_le) || (o =? op_be)).
Definition is_ld_abs_ind (o : Z) : bool :=
  (cls o =? 0) && (((o / 32) =? 1) || ((o / 32) =? 2)) && inb (o mod 32 - cls o) mem_sizes.
Definition is_ldx (o : Z) : bool := (cls o =? 1) && (o / 32 =? 3) && inb (o mod 32 - cls o) mem_sizes.
Definition is_st_imm (o : Z) : bool := (cls o =? 2) && (o / 32 =? 3) && inb (o mod 32 - cls o) mem_sizes.
Definition is_stx (o : Z) : bool := (cls o =? 3) && (o / 32 =? 3) && inb (o mod 32 - cls o) mem_sizes.
Definition is_xadd (o : Z) : bool := (o =? op_xadd_w) || (o =? op_xadd_dw).
Definition is_cond_jump (o : Z) : bool := ((cls o =? 5) || (cls o =? 6)) && inb (o / 16) jmp_ops.
Definition is_jump (o : Z) : bool := (o =? op_ja) || is_cond_jump o.
Definition is_store (o : Z) : bool := is_st_imm o || is_stx o || is_xadd o.

Definition supported (o : Z) : bool :=
  (0 <=? o) && (o <? 256) &&
  (is_alu_opcode o || is_ld_abs_ind o || (o =? op_lddw) || is_ldx o || is_store o
   || is_jump o || (o =? op_call) || (o =? op_exit)).

(** ** instruction starts: slot 0 is one; after a start holding a wide load one slot is skipped *)
Definition step_of (p : list Z) (k : Z) : Z := if opc (insn_at p k) =? op_lddw then 2 else 1.
Fixpoint starts_from (fuel : nat) (p : list Z) (k : Z) : list Z :=
  match fuel with
  | O => []
  | S f => if k <? nslots p then k :: starts_from f p (k + step_of p k) else []
  end.
Definition starts (p : list Z) : list Z := starts_from (Z.to_nat (nslots p)) p 0.

(** ** per-instruction conditions (instruction at start [k]); [lands t] = "t is a real instruction
    inside the program" *)
Definition insn_ok_gen (lands : Z -> bool) (p : list Z) (k : Z) : bool :=
  let i := insn_at p k in
  let o := opc i in
  let n := nslots p in
  supported o
  && (src i <=? 10)
  && ((dst i <=? 9) || ((dst i =? 10) && is_store o))
  && (if o =? op_lddw then (k + 1 <? n) && (opc (insn_at p (k + 1)) =? 0) else true)
  && (if is_jump o then negb (off i =? -1) && lands (k + 1 + off i) else true)
  && (if o =? op_call then (src i =? 0) || ((src i =? 1) && lands (k + 1 + imm i)) else true)
  && (if (o =? op_le) || (o =? op_be) then (imm i =? 16) || (imm i =? 32) || (imm i =? 64) else true)
  && (if is_xadd o then imm i =? 0 else true).

Definition lands_on_start (st : list Z) (t : Z) : bool := inb t st.
Definition insn_ok (p : list Z) (k : Z) : bool := insn_ok_gen (lands_on_start (starts p)) p k.

Definition wellformedb (p : list Z) : bool :=
  (len p mod 8 =? 0) && (0 <? len p) && (len p <=? 8 * 1000000)
  && (let last := opc (insn_at p (nslots p - 1)) in (last =? op_exit) || (last =? op_ja))
  && forallb (insn_ok p) (starts p).

Definition WellFormed (p : list Z) : Prop := wellformedb p = true.
