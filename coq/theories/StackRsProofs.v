(** C07: the frame sizes the interpreter uses are those of the hand-written model Stack.usage_map -- proved from the
    expressions regenerated from src/stack.rs (coq/gen/StackRs.v): a calculator's result is used as it is (no clamping, no
    rounding), the default is LOCAL_FUNCTION_STACK_SIZE, and the table has a key for pc 0 and for the target
    `(idx as isize + 1 + imm as isize) as usize` of every local call. *)
From Coq Require Import ZArith Lia Bool List.
From RbpfV Require Import MachInt BitLemmas Ebpf WellFormed Stack.
From RbpfV.gen Require Import Opcodes StackRs.
Import ListNotations.
Open Scope Z_scope.

Theorem stack_rs_pieces :
  (forall u, gen_stack_usage_value (Some u) = u) /\ gen_stack_usage_value None = 256 /\
  (forall r, gen_stack_usage_type true r = Some r) /\ (forall r, gen_stack_usage_type false r = None) /\
  (forall o s, gen_stack_is_local_call o s = (o =? op_call) && (s =? 1)) /\
  (forall idx imm, 0 <= idx < 2 ^ 62 -> - 2 ^ 31 <= imm < 2 ^ 31 -> gen_stack_call_key idx imm = Ok (cast USZ (idx + 1 + imm))).
Proof.
  repeat split; try reflexivity.
  intros idx imm Hi Hm. unfold gen_stack_call_key, cadd, chk.
  change (2 ^ 62) with 4611686018427387904 in Hi. change (2 ^ 31) with 2147483648 in Hm.
  assert (C1 : cast ISZ idx = idx) by (apply norm_idem; unfold in_ty, tmin, tmax; cbn [signed bits]; change (2 ^ (64 - 1)) with 9223372036854775808; lia).
  assert (C2 : cast ISZ imm = imm) by (apply norm_idem; unfold in_ty, tmin, tmax; cbn [signed bits]; change (2 ^ (64 - 1)) with 9223372036854775808; lia).
  rewrite C1, C2.
  rewrite (proj2 (in_tyb_spec ISZ (idx + 1))) by (unfold in_ty, tmin, tmax; cbn [signed bits]; change (2 ^ (64 - 1)) with 9223372036854775808; lia).
  cbn [bind].
  rewrite (proj2 (in_tyb_spec ISZ (idx + 1 + imm))) by (unfold in_ty, tmin, tmax; cbn [signed bits]; change (2 ^ (64 - 1)) with 9223372036854775808; lia).
  reflexivity.
Qed.

(** the model's table, rebuilt from those pieces *)
Definition is_some {A} (o : option A) : bool := match o with Some _ => true | None => false end.
Theorem usage_map_from_stack_rs prog calc pc :
  usage_map prog calc pc =
  if (pc =? 0) || inb pc (call_targets prog)
  then Some (gen_stack_usage_value (gen_stack_usage_type (is_some calc) (match calc with Some c => cast U16 (c pc) | None => 0 end)))
  else None.
Proof. unfold usage_map. destruct ((pc =? 0) || inb pc (call_targets prog)); [|reflexivity]. destruct calc; reflexivity. Qed.
