(** C04 / C12 (Cranelift, control-flow graph): blocks are registered (build_cfg) for exactly the instructions that end a
    block -- every jump, exit, tail call -- so the lookups `insn_targets[insn_ptr]` of the jump arms always succeed; on an
    accepted program the target pc computed for a jump is the ISA's k + 1 + offset, an instruction start (the `try_into`
    never panics), the fall-through pc is k + 1; `brif` is given the target block for "condition true" and the fall-through
    block otherwise, and `ja` jumps to the target block.  Everything named gen_* is regenerated from src/cranelift.rs
    (coq/gen/ClCfg.v); acceptance is the regenerated verifier. *)
From Coq Require Import ZArith Lia Bool List String.
From RbpfV Require Import MachInt BitLemmas ListLemmas Ebpf WellFormed Verifier VerifierProofs.
From RbpfV.gen Require Import Opcodes ClCfg.
Import ListNotations.
Open Scope Z_scope.
Ltac Zify.zify_post_hook ::= Z.div_mod_to_equations.

(** the instructions that get blocks are the jumps, exit and tail call; the wide load is the one two-slot instruction *)
Lemma cfg_ops_are_the_block_enders :
  forallb (fun o => is_jump o || (o =? op_exit) || (o =? op_tail_call)) gen_cl_cfg_ops = true /\
  forallb (fun o => negb (is_jump o || (o =? op_exit) || (o =? op_tail_call)) || existsb (Z.eqb o) gen_cl_cfg_ops) (map Z.of_nat (seq 0 256)) = true /\
  gen_cl_cfg_two_slots = [op_lddw] /\
  forallb (fun o => is_cond_jump o) gen_cl_cond_jump_ops = true /\
  forallb (fun o => negb (is_cond_jump o) || existsb (Z.eqb o) gen_cl_cond_jump_ops) (map Z.of_nat (seq 0 256)) = true.
Proof. repeat split; vm_compute; reflexivity. Qed.

Lemma brif_blocks :
  gen_cl_targets_pair = ("next_pc", "target_pc")%string /\ gen_cl_brif_taken_is_second = true /\ gen_cl_brif_else_is_first = true.
Proof. repeat split. Qed.

Section Accepted.
Variable p : list Z.
Hypothesis Hb : bytes_ok p.
Hypothesis Hacc : acc p.

Let Hs : shape p. Proof. exact (proj1 (acc_shape p Hb Hacc)). Qed.
Let Hall : forallb (insn_ok p) (starts p) = true. Proof. exact (proj2 (proj2 (acc_shape p Hb Hacc))). Qed.

Lemma next_pc_ok k : 0 <= k < nslots p -> gen_cl_next_pc k = Ok (k + 1).
Proof.
  intros Hk. pose proof (sh_max p Hs). pose proof (nslots_pos p Hs) as [Hn Hl]. unfold gen_cl_next_pc.
  assert (C : cast U32 k = k) by (apply norm_idem; unfold in_ty, tmin, tmax; cbn [signed bits]; fold_pows; lia).
  rewrite C. unfold cadd. rewrite chk_ok by (unfold in_ty, tmin, tmax; cbn [signed bits]; fold_pows; lia). reflexivity.
Qed.

Theorem cl_jump_targets k :
  In k (starts p) -> is_jump (opc (insn_at p k)) = true ->
  gen_cl_target_pc k (insn_at p k) = Ok (k + 1 + off (insn_at p k)) /\ In (k + 1 + off (insn_at p k)) (starts p) /\
  gen_cl_next_pc k = Ok (k + 1).
Proof.
  intros Hk Hj. pose proof (starts_in_range p _ _ _ Hk) as Rk. pose proof (sh_max p Hs) as Hmax. pose proof (nslots_pos p Hs) as [Hn Hl].
  pose proof (proj1 (forallb_forall _ _) Hall k Hk) as H. unfold insn_ok, insn_ok_gen in H. cbv zeta in H.
  rewrite !andb_true_iff in H. destruct H as (((((((_ & _) & _) & _) & H5) & _) & _) & _).
  rewrite Hj in H5. apply andb_true_iff in H5 as [_ H5]. unfold lands_on_start in H5. apply inb_In in H5.
  pose proof (insn_at_wf p k Hs ltac:(lia)) as (_ & _ & _ & Ho & _).
  set (t := k + 1 + off (insn_at p k)) in *.
  pose proof (starts_in_range p _ _ _ H5) as Rt.
  split; [|split; [exact H5|now apply next_pc_ok]].
  unfold gen_cl_target_pc.
  assert (N : (opc (insn_at p k) =? 149) || (opc (insn_at p k) =? 141) = false).
  { destruct (Z.eqb_spec (opc (insn_at p k)) 149) as [E|_]; [rewrite E in Hj; discriminate Hj|].
    destruct (Z.eqb_spec (opc (insn_at p k)) 141) as [E|_]; [rewrite E in Hj; discriminate Hj|]. reflexivity. }
  rewrite N.
  assert (C0 : cast U32 k = k) by (apply norm_idem; unfold in_ty, tmin, tmax; cbn [signed bits]; fold_pows; lia).
  assert (C1 : cast ISZ k = k) by (apply norm_idem; unfold in_ty, tmin, tmax; cbn [signed bits]; fold_pows; lia).
  assert (C2 : cast ISZ (off (insn_at p k)) = off (insn_at p k)) by (apply norm_idem; unfold in_ty, tmin, tmax; cbn [signed bits]; fold_pows; lia).
  rewrite C0, C1, C2. unfold cadd.
  rewrite chk_ok by (unfold in_ty, tmin, tmax; cbn [signed bits]; fold_pows; lia). cbn [bind].
  rewrite chk_ok by (unfold in_ty, tmin, tmax; cbn [signed bits]; fold_pows; lia). cbn [bind].
  replace (k + off (insn_at p k) + 1) with t by (subst t; lia).
  apply chk_ok. unfold in_ty, tmin, tmax; cbn [signed bits]; fold_pows; lia.
Qed.

(** exit (and tail call): both blocks are the one of the next pc *)
Theorem cl_exit_blocks k : 0 <= k < nslots p -> opc (insn_at p k) = op_exit \/ opc (insn_at p k) = op_tail_call ->
  gen_cl_target_pc k (insn_at p k) = Ok (k + 1).
Proof.
  intros Hk [E|E]; unfold gen_cl_target_pc; rewrite E; cbn [Z.eqb Pos.eqb orb]; now apply next_pc_ok.
Qed.
End Accepted.
