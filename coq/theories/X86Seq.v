(** Sequences of x86-64 instructions with a stack, condition flags and jumps inside the sequence, as emitted by
    jit.rs::emit_muldivmod.  Extends X86Sem (register effects, condition codes) with
    - MUL / DIV r/m (F7 /4, F7 /6; Intel SDM vol. 2): rdx:rax := rax * r/m;  rax, rdx := (rdx:rax) / r/m, (rdx:rax) mod r/m,
      with #DE (modelled as "stuck") on a zero divisor or a quotient that does not fit;
    - PUSH / POP on an abstract stack (RSP itself, register 4, is not tracked);
    - a lone REX.W prefix in front of a prefix-less register-direct instruction;
    - jcc rel32 over the next bytes of the same sequence (instruction lengths from the encodings of X86Enc.v, which the
      regenerated encoders are proved to emit: JitEncProofs / [emit_xi_bytes] below), and jumps to the code of another
      eBPF instruction, which end the sequence.
    Flags: set by CMP / TEST, kept by MOV / PUSH / POP, conservatively forgotten by everything else. *)
From Coq Require Import ZArith List Bool Lia.
From RbpfV Require Import MachInt X86Enc X86Sem.
Import ListNotations.
Open Scope Z_scope.

(** the bytes of an abstract instruction (None: not used inside sequences with internal jumps) *)
Definition xbytes (x : xi) : option (list Z) :=
  match x with
  | XAlu w op reg rm => Some (x_alu w op reg rm)
  | XAluI32 w op ext rm imm => Some (x_alu w op ext rm ++ le_bytes 4 (imm mod 2 ^ 32))
  | XLoadImm r imm => Some (x_load_imm r imm)
  | XPush r => Some (x_push r)
  | XPop r => Some (x_pop r)
  | XRex w r x b => Some [rex w r x b]
  | XJccRel code off => Some ([15; code] ++ le_bytes 4 (off mod 2 ^ 32))
  | XJmpPc t => Some (233 :: le_bytes 4 0)
  | XJccPc code t => Some ([15; code] ++ le_bytes 4 0)
  | XAluI8 w op ext rm imm => Some (x_alu w op ext rm ++ [imm mod 256])
  | XOpSize => Some [102]
  | XBswap w r => Some (x_basic_rex w 0 r ++ [15; 200 + lo r])
  | _ => None
  end.
Definition xsize (x : xi) : option Z := option_map (fun b => Z.of_nat (length b)) (xbytes x).

(** drop the instructions covering exactly the next n bytes *)
Fixpoint skip (n : Z) (l : list xi) : option (list xi) :=
  if n =? 0 then Some l else
  match l with
  | [] => None
  | x :: l' => match xsize x with
               | Some k => if (0 <? k) && (k <=? n) then skip (n - k) l' else None
               | None => None
               end
  end.

Definition flagsv := (bool * Z * Z * Z)%type.
Record xst := { x_r : regs; x_stk : list Z; x_fl : option flagsv }.
Inductive xout := XFall (s : xst) | XGoto (t : Z) (s : xst).

(** is `jcc code` taken, given the operands of the last CMP / TEST (same table as X86Sem.xcond) *)
Definition cc_of (f : flagsv) (code : Z) : option bool :=
  let '(is_test, W, a, b) := f in
  let l := if is_test then Z.land a b else a in
  let r := if is_test then 0 else b in
  if code =? 0x84 then Some (l =? r)
  else if code =? 0x85 then Some (negb (l =? r))
  else if is_test then None
  else if code =? 0x87 then Some (r <? l)
  else if code =? 0x83 then Some (r <=? l)
  else if code =? 0x82 then Some (l <? r)
  else if code =? 0x86 then Some (l <=? r)
  else if code =? 0x8f then Some (sgnw W r <? sgnw W l)
  else if code =? 0x8d then Some (sgnw W r <=? sgnw W l)
  else if code =? 0x8c then Some (sgnw W l <? sgnw W r)
  else if code =? 0x8e then Some (sgnw W l <=? sgnw W r)
  else None.
Lemma cc_of_xcond x code R : xcond x code R = match flag_operands x R with Some f => cc_of f code | None => None end.
Proof. unfold xcond. destruct (flag_operands x R) as [[[[t W] a] b]|]; reflexivity. Qed.

(** MUL (ext 4) / DIV (ext 6) by the register rm, at 32 or 64 bits; implicit operands rax (0) and rdx (2) *)
Definition mul_div (w ext rm : Z) (R : regs) : option regs :=
  let W := opw w in
  let a := R 0 mod 2 ^ W in
  let d := R 2 mod 2 ^ W in
  let b := R rm mod 2 ^ W in
  if ext =? 4 then Some (rset (rset R 0 ((a * b) mod 2 ^ W)) 2 ((a * b) / 2 ^ W))
  else if ext =? 6 then
    if b =? 0 then None
    else let n := d * 2 ^ W + a in
         if 2 ^ W <=? n / b then None else Some (rset (rset R 0 (n / b)) 2 (n mod b))
  else None.

(** ROL r/m16, imm8 (66 C1 /0 ib): the low 16 bits are rotated, the rest of the register is left as it is (16-bit
    operand size); the count is masked to 5 bits, then taken modulo 16 *)
Definition rol16 (v c : Z) : Z :=
  let lo16 := v mod 2 ^ 16 in
  let k := (c mod 32) mod 16 in
  (v - lo16) + ((lo16 * 2 ^ k) mod 2 ^ 16 + lo16 / 2 ^ (16 - k)) mod 2 ^ 16.
(** BSWAP: the bytes of the 32- or 64-bit register reversed; the 32-bit form clears the upper half *)
Definition bswapv (W v : Z) : Z := of_le_bytes (rev (le_bytes (Z.to_nat (W / 8)) (v mod 2 ^ W))).

Definition keeps_flags (x : xi) : bool :=
  match x with
  | XAlu _ op _ _ => op =? 0x89
  | XAluI32 _ op _ _ _ => op =? 0xc7
  | XLoadImm _ _ => true
  | _ => false
  end.

(** one instruction of the sequence; [rec] runs the rest *)
Definition sstep (rec : list xi -> xst -> option xout) (l : list xi) (s : xst) : option xout :=
  match l with
  | [] => Some (XFall s)
  | x :: l' =>
    match x with
    | XRex w r xx b =>
      match l' with
      | XAlu 0 op reg rm :: l'' =>
        if (w =? 1) && (r =? 0) && (xx =? 0) && (b =? 0) && (0 <=? reg) && (reg <? 8) && (0 <=? rm) && (rm <? 8)
        then rec (XAlu 1 op reg rm :: l'') s else None
      | _ => None
      end
    | XOpSize =>
      match l' with
      | XAluI8 0 0xc1 0 rm imm :: l'' =>
        rec l'' {| x_r := rset (x_r s) rm (rol16 (x_r s rm) (imm mod 256)); x_stk := x_stk s; x_fl := None |}
      | _ => None
      end
    | XBswap w r => rec l' {| x_r := rset (x_r s) r (bswapv (opw w) (x_r s r)); x_stk := x_stk s; x_fl := x_fl s |}
    | XPush r => rec l' {| x_r := x_r s; x_stk := x_r s r :: x_stk s; x_fl := x_fl s |}
    | XPop r =>
      match x_stk s with
      | v :: st => rec l' {| x_r := rset (x_r s) r v; x_stk := st; x_fl := x_fl s |}
      | [] => None
      end
    | XJmpPc t => Some (XGoto t s)
    | XJccPc code t =>
      match x_fl s with
      | Some fo => match cc_of fo code with
                   | Some true => Some (XGoto t s)
                   | Some false => rec l' s
                   | None => None
                   end
      | None => None
      end
    | XJccRel code off =>
      match x_fl s with
      | Some fo => match cc_of fo code with
                   | Some true => match skip off l' with Some l2 => rec l2 s | None => None end
                   | Some false => rec l' s
                   | None => None
                   end
      | None => None
      end
    | _ =>
      match flag_operands x (x_r s) with
      | Some fo => rec l' {| x_r := x_r s; x_stk := x_stk s; x_fl := Some fo |}          (* CMP / TEST *)
      | None =>
        match x with
        | XAlu w 0xf7 4 rm | XAlu w 0xf7 6 rm =>
          match mul_div w (match x with XAlu _ _ e _ => e | _ => 0 end) rm (x_r s) with
          | Some R' => rec l' {| x_r := R'; x_stk := x_stk s; x_fl := None |}
          | None => None
          end
        | _ =>
          match xstep x (x_r s) with
          | Some R' => rec l' {| x_r := R'; x_stk := x_stk s; x_fl := if keeps_flags x then x_fl s else None |}
          | None => None
          end
        end
      end
    end
  end.

Fixpoint srun (fuel : nat) (l : list xi) (s : xst) : option xout :=
  match fuel with
  | O => None
  | S f => sstep (srun f) l s
  end.

Definition run_seq (l : list xi) (R : regs) (stk : list Z) : option xout :=
  srun (S (length l)) l {| x_r := R; x_stk := stk; x_fl := None |}.

(** more fuel never changes an answer *)
Lemma sstep_mono (rec rec' : list xi -> xst -> option xout) :
  (forall l s o, rec l s = Some o -> rec' l s = Some o) ->
  forall l s o, sstep rec l s = Some o -> sstep rec' l s = Some o.
Proof.
  intros M l s o H. unfold sstep in *.
  repeat match type of H with
  | match ?c with _ => _ end = Some _ => destruct c eqn:?; try discriminate
  | (if ?c then _ else _) = Some _ => destruct c eqn:?; try discriminate
  end; try exact H; try (apply M; exact H).
Qed.
Lemma srun_mono f : forall l s o, srun f l s = Some o -> srun (S f) l s = Some o.
Proof.
  induction f as [|f IH]; intros l s o H; [discriminate|].
  change (sstep (srun (S f)) l s = Some o). change (sstep (srun f) l s = Some o) in H.
  revert H. apply sstep_mono. exact IH.
Qed.
Lemma srun_more k : forall f l s o, srun f l s = Some o -> srun (k + f) l s = Some o.
Proof. induction k as [|k IH]; intros f l s o H; [exact H|]. cbn [Nat.add]. apply srun_mono. now apply IH. Qed.
