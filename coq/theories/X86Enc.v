(** x86-64 instruction encoding, as far as src/jit.rs uses it: REX prefix, ModRM byte, displacement and immediate bytes,
    written with arithmetic on the register numbers (Intel SDM vol. 2, 2.1 and 2.2.1).  This is the specification the
    regenerated encoders (coq/gen/JitEnc.v) are proved against; it is also the support library of that file. *)
From Coq Require Import ZArith List Bool.
From RbpfV Require Import MachInt.
Import ListNotations.
Open Scope Z_scope.

(** emit_bytes!: append the little-endian bytes of a value of n bytes *)
Definition emit_le (mem : list Z) (n : Z) (data : Z) : list Z := mem ++ le_bytes (Z.to_nat n) (data mod 2 ^ (8 * n)).

Definition hi (r : Z) : Z := r / 8.
Definition lo (r : Z) : Z := r mod 8.
(** REX prefix 0100WRXB *)
Definition rex (w r x b : Z) : Z := 64 + 8 * w + 4 * r + 2 * x + b.
(** ModRM byte: mod (2 bits), reg (3 bits), r/m (3 bits) *)
Definition modrm (md reg rm : Z) : Z := 64 * md + 8 * lo reg + lo rm.

(** the prefix is omitted when it would carry no information *)
Definition x_basic_rex (w reg rm : Z) : list Z :=
  if (w =? 0) && (reg <? 8) && (rm <? 8) then [] else [rex w (hi reg) 0 (hi rm)].

(** register-direct form: [REX] opcode ModRM(11, reg, rm) *)
Definition x_alu (w op reg rm : Z) : list Z := x_basic_rex w reg rm ++ [op; modrm 3 reg rm].

(** memory operand [base + disp]: mod 00 without displacement (not for rbp / r13), mod 01 with a sign-extended byte,
    mod 10 with four bytes; base registers rsp / r12 would need a SIB byte and are not handled (the JIT never uses them) *)
Definition x_mem (reg base d : Z) : list Z :=
  if (d =? 0) && negb (lo base =? 5) then [modrm 0 reg base]
  else if (-128 <=? d) && (d <=? 127) then [modrm 1 reg base; d mod 256]
  else modrm 2 reg base :: le_bytes 4 (d mod 2 ^ 32).

Definition x_push (r : Z) : list Z := x_basic_rex 0 0 r ++ [80 + lo r].
Definition x_pop (r : Z) : list Z := x_basic_rex 0 0 r ++ [88 + lo r].

(** loads: movzx r32, m8 (0F B6) / movzx r32, m16 (0F B7) / mov r32, m32 (8B) / REX.W mov r64, m64 (8B) *)
Definition x_load (size base reg d : Z) : list Z :=
  x_basic_rex (if size =? 64 then 1 else 0) reg base ++
  (if size =? 8 then [15; 182] else if size =? 16 then [15; 183] else [139]) ++ x_mem reg base d.

(** stores: mov m8, r8 (88; REX always, so that sil/dil/... are addressed) / 66 mov m16, r16 / mov m32, r32 / REX.W mov m64, r64 (89) *)
Definition x_store (size reg base d : Z) : list Z :=
  (if size =? 16 then [102] else []) ++
  (if (size =? 64) || (8 <=? reg) || (8 <=? base) || (size =? 8)
   then [rex (if size =? 64 then 1 else 0) (hi reg) 0 (hi base)] else []) ++
  [if size =? 8 then 136 else 137] ++ x_mem reg base d.

(** mov imm: sign-extended imm32 (REX.W C7 /0 id) when it fits, else movabs (REX.W B8+r io) *)
Definition x_load_imm (r imm : Z) : list Z :=
  if (-2147483648 <=? imm) && (imm <=? 2147483647)
  then x_alu 1 199 0 r ++ le_bytes 4 (imm mod 2 ^ 32)
  else x_basic_rex 1 0 r ++ [184 + lo r] ++ le_bytes 8 (imm mod 2 ^ 64).
