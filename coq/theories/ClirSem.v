(** Value semantics of the Cranelift IR instructions that src/cranelift.rs emits (trusted model of
    cranelift-codegen's documented instruction semantics).  An IR value of an integer type of width w is
    represented by its unsigned value in [0, 2^w); comparison results are 1 / 0 of type i8. *)
From Coq Require Import ZArith Bool List.
From RbpfV Require Import MachInt.
Open Scope Z_scope.

Inductive intcc := CEq | CNe | CUge | CUgt | CUle | CUlt | CSge | CSgt | CSle | CSlt.

Definition ir_iconst (w : Z) (v : Z) : Z := v mod 2 ^ w.
Definition ir_iadd (w a b : Z) : Z := (a + b) mod 2 ^ w.
Definition ir_isub (w a b : Z) : Z := (a - b) mod 2 ^ w.
Definition ir_imul (w a b : Z) : Z := (a * b) mod 2 ^ w.
Definition ir_band (w a b : Z) : Z := Z.land a b.
Definition ir_bor (w a b : Z) : Z := Z.lor a b.
Definition ir_bxor (w a b : Z) : Z := Z.lxor a b.
Definition sgn (w a : Z) : Z := if a <? 2 ^ (w - 1) then a else a - 2 ^ w.
Definition ir_icmp (cc : intcc) (w a b : Z) : Z :=
  let r := match cc with
           | CEq => a =? b | CNe => negb (a =? b)
           | CUge => b <=? a | CUgt => b <? a | CUle => a <=? b | CUlt => a <? b
           | CSge => sgn w b <=? sgn w a | CSgt => sgn w b <? sgn w a | CSle => sgn w a <=? sgn w b | CSlt => sgn w a <? sgn w b
           end in
  if r then 1 else 0.
(** trapz v: trap when v is zero *)
Definition ir_trapz (v : Z) : bool := negb (v =? 0).

(** the variables of the compiled function used by the bounds check *)
Record clvars := { v_stack_start : Z; v_stack_end : Z; v_mem_start : Z; v_mem_end : Z; v_mbuf_start : Z; v_mbuf_end : Z }.

(** width changes *)
Definition ir_ireduce (wfrom wto v : Z) : Z := v mod 2 ^ wto.
Definition ir_uextend (wfrom wto v : Z) : Z := v.
Definition ir_sextend (wfrom wto v : Z) : Z := (sgn wfrom v) mod 2 ^ wto.
(** bswap reverses the bytes of a w-bit value *)
Definition ir_bswap (w v : Z) : Z := of_le_bytes (rev (le_bytes (Z.to_nat (w / 8)) (v mod 2 ^ w))).
(** division traps on a zero divisor *)
Definition ir_udiv (w a b : Z) : res Z := if b =? 0 then Panic 0 else Ok (a / b).
Definition ir_urem (w a b : Z) : res Z := if b =? 0 then Panic 0 else Ok (a mod b).
(** shifts: the amount is masked to the width of the shifted value *)
Definition ir_ishl (w a b : Z) : Z := (a * 2 ^ (b mod w)) mod 2 ^ w.
Definition ir_ushr (w a b : Z) : Z := a / 2 ^ (b mod w).
Definition ir_sshr (w a b : Z) : Z := (sgn w a / 2 ^ (b mod w)) mod 2 ^ w.
Definition ir_ineg (w a : Z) : Z := (- a) mod 2 ^ w.
Definition ir_select (c a b : Z) : Z := if c =? 0 then b else a.

(** a memory access made by a compiled instruction: kind 0 = load, 1 = store, 2 = atomic add; [a_bytes] wide at
    address (a_base + a_off) mod 2^64 (the bounds check of C11 is made on exactly these three values first);
    [a_val] = value stored / added; for loads [a_res loaded] = the value given to register [a_target] *)
Record claccess := { a_kind : Z; a_bytes : Z; a_base : Z; a_off : Z; a_val : Z; a_res : Z -> Z; a_target : Z }.
