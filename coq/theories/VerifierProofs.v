(** C06: the generated verifier accepts exactly the well-formed programs, and never panics. *)
From Coq Require Import ZArith Lia Bool List.
From RbpfV Require Import MachInt BitLemmas ListLemmas Ebpf CodecProofs WellFormed Verifier VerifierArms.
From RbpfV.gen Require Import Opcodes Codec Verifier.
Import ListNotations.
Open Scope Z_scope.
Ltac Zify.zify_post_hook ::= Z.div_mod_to_equations.

(** * B. the helper functions and special arms, semantically *)
Record shape (p : list Z) : Prop := {
  sh_bytes : bytes_ok p;
  sh_mod : len p mod 8 = 0;
  sh_pos : 0 < len p;
  sh_max : len p <= 8 * 1000000 }.

Lemma nslots_pos p : shape p -> 0 < nslots p /\ len p = 8 * nslots p.
Proof. intros [_ Hm Hp _]. unfold nslots. lia. Qed.

Lemma get_insn_at p k : shape p -> 0 <= k < nslots p -> gen_get_insn p k = Ok (insn_at p k).
Proof.
  intros Hs Hk. pose proof (nslots_pos p Hs) as [Hn Hl]. destruct Hs as [Hb Hm Hp Hx].
  rewrite get_insn_spec; [reflexivity|exact Hb|lia|lia|fold_pows; lia].
Qed.

Lemma get_insn_oob p k : shape p -> nslots p <= k < 2 ^ 62 -> exists s, gen_get_insn p k = Panic s.
Proof.
  intros Hs Hk. pose proof (nslots_pos p Hs) as [Hn Hl]. destruct Hs as [Hb Hm Hp Hx].
  apply get_insn_panics; fold_pows; change (2 ^ 62) with 4611686018427387904 in *; lia.
Qed.

Lemma insn_at_wf p k : shape p -> 0 <= k < nslots p -> wf_insn (insn_at p k).
Proof.
  intros Hs Hk. pose proof (nslots_pos p Hs) as [Hn Hl]. destruct Hs as [Hb Hm Hp Hx].
  unfold insn_at. apply decode_wf.
  - unfold slot_at. rewrite firstn_length, skipn_length. unfold len in *. lia.
  - unfold slot_at, bytes_ok. apply Forall_forall. intros x Hx'.
    apply In_firstn, In_skipn in Hx'. unfold bytes_ok in Hb. rewrite Forall_forall in Hb. now apply Hb.
Qed.

Lemma cadd_usz_ok a b : 0 <= a + b < 2 ^ 64 -> cadd USZ 0 a b = Ok (a + b).
Proof. intros H. unfold cadd. apply chk_ok, in_ty_usz, H. Qed.
Lemma cmul_usz_ok a b : 0 <= a * b < 2 ^ 64 -> cmul USZ 0 a b = Ok (a * b).
Proof. intros H. unfold cmul. apply chk_ok, in_ty_usz, H. Qed.
Lemma in_ty_isz x : - 2 ^ 63 <= x < 2 ^ 63 -> in_ty ISZ x.
Proof. unfold in_ty, tmin, tmax; cbn [signed bits]. change (64 - 1) with 63. lia. Qed.
Lemma cadd_isz_ok a b : - 2 ^ 63 <= a + b < 2 ^ 63 -> cadd ISZ 0 a b = Ok (a + b).
Proof. intros H. unfold cadd. apply chk_ok, in_ty_isz, H. Qed.
Lemma cast_isz_small x : - 2 ^ 63 <= x < 2 ^ 63 -> cast ISZ x = x.
Proof. intros H. unfold cast. apply norm_idem, in_ty_isz, H. Qed.
Lemma cast_usz_small x : 0 <= x < 2 ^ 64 -> cast USZ x = x.
Proof. intros H. unfold cast. apply norm_idem, in_ty_usz, H. Qed.

Definition regs_ok (i : insn) (st : bool) : bool :=
  (src i <=? 10) && ((dst i <=? 9) || ((dst i =? 10) && st)).

Lemma check_registers_sem i st ip : 0 <= dst i ->
  gen_check_registers i st ip = if regs_ok i st then Ok tt else Err 0.
Proof.
  intros Hd. unfold gen_check_registers, regs_ok.
  destruct (Z.gtb_spec (src i) 10) as [G|G]; destruct (Z.leb_spec (src i) 10) as [L|L]; try lia; cbn [andb]; [reflexivity|].
  destruct (Z.leb_spec 0 (dst i)) as [A|A]; [|lia]. cbn [andb].
  destruct (Z.leb_spec (dst i) 9) as [B|B]; cbn [orb]; [reflexivity|].
  destruct (Z.eqb_spec (dst i) 10) as [C|C]; cbn [andb]; destruct st; reflexivity.
Qed.

Lemma check_load_dw_sem p ip : shape p -> 0 <= ip -> ip + 1 < nslots p ->
  gen_check_load_dw p ip = if opc (insn_at p (ip + 1)) =? 0 then Ok tt else Err 0.
Proof.
  intros Hs H0 H1. pose proof (nslots_pos p Hs) as [Hn Hl]. pose proof (sh_max p Hs) as Hx.
  unfold gen_check_load_dw. rewrite cadd_usz_ok by (fold_pows; lia). cbn [bind].
  rewrite get_insn_at by (try assumption; lia). cbn [bind].
  destruct (opc (insn_at p (ip + 1)) =? 0); reflexivity.
Qed.

(** "lands inside the program on a slot whose opcode is not zero": what the verifier tests *)
Definition lands_nonzero (p : list Z) (t : Z) : bool :=
  (0 <=? t) && (t <? nslots p) && negb (opc (insn_at p t) =? 0).

Lemma check_jmp_offset_sem p ip : shape p -> 0 <= ip < nslots p ->
  gen_check_jmp_offset p ip =
  if negb (off (insn_at p ip) =? -1) && lands_nonzero p (ip + 1 + off (insn_at p ip)) then Ok tt else Err 0.
Proof.
  intros Hs Hk. pose proof (nslots_pos p Hs) as [Hn Hl]. pose proof (sh_max p Hs) as Hx.
  pose proof (insn_at_wf p ip Hs Hk) as (_ & _ & _ & Hoff & _).
  unfold gen_check_jmp_offset. rewrite get_insn_at by assumption. cbn [bind].
  set (f := off (insn_at p ip)) in *. change (- (1)) with (-1).
  destruct (Z.eqb_spec f (-1)) as [E|E]; cbn [negb andb]; [reflexivity|].
  rewrite (cast_isz_small ip) by (fold_pows; lia).
  rewrite cadd_isz_ok by (fold_pows; lia). cbn [bind].
  rewrite (cast_isz_small f) by (fold_pows; lia).
  rewrite cadd_isz_ok by (fold_pows; lia). cbn [bind]. cbv zeta.
  unfold lands_nonzero. fold (nslots p).
  destruct (Z.ltb_spec (ip + 1 + f) 0) as [A|A]; destruct (Z.leb_spec 0 (ip + 1 + f)) as [A'|A']; try lia;
    cbn [orb andb]; [reflexivity|].
  rewrite (cast_usz_small (ip + 1 + f)) by (fold_pows; lia).
  destruct (Z.geb_spec (ip + 1 + f) (nslots p)) as [B|B]; destruct (Z.ltb_spec (ip + 1 + f) (nslots p)) as [B'|B']; try lia;
    cbn [andb]; [reflexivity|].
  rewrite get_insn_at by (try assumption; lia). cbn [bind].
  destruct (opc (insn_at p (ip + 1 + f)) =? 0); reflexivity.
Qed.

Lemma arm_xadd_sem p i ip :
  gen_check_arm op_xadd_w p i ip false = if imm i =? 0 then Ok (ip, true) else Err 0.
Proof.
  change (gen_check_arm op_xadd_w p i ip false) with (gen_check_arm_ST_W_XADD p i ip false).
  unfold gen_check_arm_ST_W_XADD. destruct (imm i =? 0); reflexivity.
Qed.

Lemma arm_end_sem p i ip :
  gen_check_arm op_le p i ip false =
  if (imm i =? 16) || (imm i =? 32) || (imm i =? 64) then Ok (ip, false) else Err 0.
Proof.
  change (gen_check_arm op_le p i ip false) with (gen_check_arm_LE p i ip false).
  unfold gen_check_arm_LE, gen_check_imm_endian.
  destruct ((imm i =? 16) || (imm i =? 32) || (imm i =? 64)); reflexivity.
Qed.

Lemma arm_jmp_sem p i ip :
  gen_check_arm op_ja p i ip false = (u_ <- gen_check_jmp_offset p ip ;; Ok (ip, false)).
Proof. reflexivity. Qed.

Lemma arm_lddw_sem p i ip :
  gen_check_arm op_lddw p i ip false =
  (u_ <- gen_check_load_dw p ip ;; v <- cadd USZ 0 ip 1 ;; Ok (v, false)).
Proof. reflexivity. Qed.

Lemma arm_call_sem p i ip : shape p -> 0 <= ip < nslots p -> wf_insn i ->
  gen_check_arm op_call p i ip false =
  if (src i =? 0) || ((src i =? 1) && lands_nonzero p (ip + 1 + imm i)) then Ok (ip, false) else Err 0.
Proof.
  intros Hs Hk (_ & _ & Hsrc & _ & Himm). pose proof (nslots_pos p Hs) as [Hn Hl]. pose proof (sh_max p Hs) as Hx.
  change (gen_check_arm op_call p i ip false) with (gen_check_arm_CALL p i ip false).
  unfold gen_check_arm_CALL. cbv zeta.
  destruct (Z.eqb_spec (src i) 0) as [S0|S0]; cbn [orb bind]; [reflexivity|].
  destruct (Z.eqb_spec (src i) 1) as [S1|S1]; cbn [andb bind]; [|reflexivity].
  set (m := imm i) in *.
  rewrite (cast_isz_small ip) by (fold_pows; lia).
  rewrite cadd_isz_ok by (fold_pows; lia). cbn [bind].
  rewrite (cast_isz_small m) by (fold_pows; lia).
  rewrite cadd_isz_ok by (fold_pows; lia). cbn [bind].
  unfold lands_nonzero. fold (nslots p).
  destruct (Z.ltb_spec (ip + 1 + m) 0) as [A|A]; destruct (Z.leb_spec 0 (ip + 1 + m)) as [A'|A']; try lia;
    cbn [orb andb bind]; [reflexivity|].
  rewrite (cast_usz_small (ip + 1 + m)) by (fold_pows; lia).
  destruct (Z.geb_spec (ip + 1 + m) (nslots p)) as [B|B]; destruct (Z.ltb_spec (ip + 1 + m) (nslots p)) as [B'|B']; try lia;
    cbn [andb bind]; [reflexivity|].
  rewrite get_insn_at by (try assumption; lia). cbn [bind].
  destruct (opc (insn_at p (ip + 1 + m)) =? 0); reflexivity.
Qed.

(** * C. one iteration of the verifier loop, and the loop as a scan over instruction starts *)
Definition last_ok (p : list Z) : bool :=
  let l := opc (insn_at p (nslots p - 1)) in (l =? op_exit) || (l =? op_ja).

Lemma body_sem p ip : shape p -> last_ok p = true -> 0 <= ip < nslots p ->
  gen_check_loop_body p ip =
  if insn_ok_gen (lands_nonzero p) p ip then Ok (ip + step_of p ip) else Err 0.
Proof.
  intros Hs Hl Hk. pose proof (nslots_pos p Hs) as [Hn Hlen]. pose proof (sh_max p Hs) as Hx.
  pose proof (insn_at_wf p ip Hs Hk) as Hw. pose proof Hw as (Ho & Hd & Hsr & Hof & Him).
  unfold gen_check_loop_body. rewrite get_insn_at by assumption. cbn [bind]. cbv zeta.
  rewrite arm_class by exact Ho.
  pose proof (kind_facts _ Ho) as F. unfold kind_fact in F.
  unfold insn_ok_gen, step_of. cbv zeta.
  set (i := insn_at p ip) in *. set (o := opc i) in *.
  destruct (vkind_of o) eqn:K; cbn [arm_of_kind].
  - (* plain *)
    destruct F as (F1 & F2 & F3 & F4 & F5 & F6 & F7). rewrite F1, F2, F3, F4, F5, F6, F7.
    cbn [bind]. rewrite check_registers_sem by lia. unfold regs_ok.
    rewrite !andb_true_r. cbn [andb].
    destruct ((src i <=? 10) && ((dst i <=? 9) || (dst i =? 10) && st)); cbn [bind]; [|reflexivity].
    rewrite cadd_usz_ok by (fold_pows; lia). reflexivity.
  - (* lddw *)
    subst o. rewrite F. change (supported op_lddw) with true. change (is_jump op_lddw) with false.
    change (op_lddw =? op_lddw) with true. change (op_lddw =? op_call) with false.
    change ((op_lddw =? op_le) || (op_lddw =? op_be)) with false. change (is_xadd op_lddw) with false.
    change (is_store op_lddw) with false. rewrite !andb_true_r, !andb_false_r, !orb_false_r. cbn [andb].
    rewrite arm_lddw_sem.
    assert (Hne : ip <> nslots p - 1).
    { intros ->. unfold last_ok in Hl. fold i in Hl. rewrite F in Hl. discriminate. }
    rewrite check_load_dw_sem by (try assumption; lia).
    destruct (Z.ltb_spec (ip + 1) (nslots p)) as [L|L]; [|lia]. cbn [andb].
    destruct (opc (insn_at p (ip + 1)) =? 0); cbn [bind andb]; [|rewrite !andb_false_r; reflexivity].
    rewrite cadd_usz_ok by (fold_pows; lia). cbn [bind].
    rewrite check_registers_sem by lia. unfold regs_ok. rewrite !andb_false_r, !orb_false_r, !andb_true_r.
    destruct ((src i <=? 10) && (dst i <=? 9)); cbn [bind]; [|reflexivity].
    rewrite cadd_usz_ok by (clear - Hk Hlen Hx; fold_pows; lia). cbn [bind]. f_equal. lia.
  - (* jump *)
    destruct F as (F1 & F2 & F3 & F4 & F5 & F6 & F7). rewrite F1, F2, F3, F4, F5, F6, F7.
    rewrite arm_jmp_sem, check_jmp_offset_sem by assumption. fold i.
    rewrite !andb_true_r, !andb_false_r, !orb_false_r. cbn [andb].
    destruct (negb (off i =? -1) && lands_nonzero p (ip + 1 + off i)); cbn [bind]; [|rewrite !andb_false_r; reflexivity].
    rewrite check_registers_sem by lia. unfold regs_ok. rewrite !andb_false_r, !orb_false_r, !andb_true_r.
    destruct ((src i <=? 10) && (dst i <=? 9)); cbn [bind]; [|reflexivity].
    rewrite cadd_usz_ok by (fold_pows; lia). reflexivity.
  - (* endian *)
    destruct F as (F1 & F2 & F3 & F4 & F5 & F6 & F7). rewrite F1, F2, F3, F4, F5, F6, F7.
    rewrite arm_end_sem. rewrite !andb_true_r, !andb_false_r, !orb_false_r. cbn [andb].
    destruct ((imm i =? 16) || (imm i =? 32) || (imm i =? 64)); cbn [bind]; [|rewrite !andb_false_r; reflexivity].
    rewrite check_registers_sem by lia. unfold regs_ok. rewrite !andb_false_r, !orb_false_r, !andb_true_r.
    destruct ((src i <=? 10) && (dst i <=? 9)); cbn [bind]; [|reflexivity].
    rewrite cadd_usz_ok by (fold_pows; lia). reflexivity.
  - (* xadd *)
    destruct F as (F1 & F2 & F3 & F4 & F5 & F6 & F7). rewrite F1, F2, F3, F4, F5, F6, F7.
    rewrite arm_xadd_sem. rewrite !andb_true_r. cbn [andb].
    destruct (imm i =? 0); cbn [bind]; [|rewrite !andb_false_r; reflexivity].
    rewrite check_registers_sem by lia. unfold regs_ok. rewrite !andb_true_r.
    destruct ((src i <=? 10) && ((dst i <=? 9) || (dst i =? 10))); cbn [bind]; [|reflexivity].
    rewrite cadd_usz_ok by (fold_pows; lia). reflexivity.
  - (* call *)
    subst o. rewrite F. change (supported op_call) with true. change (is_jump op_call) with false.
    change (op_call =? op_lddw) with false. change (op_call =? op_call) with true.
    change ((op_call =? op_le) || (op_call =? op_be)) with false. change (is_xadd op_call) with false.
    change (is_store op_call) with false. rewrite !andb_true_r, !andb_false_r, !orb_false_r. cbn [andb].
    rewrite arm_call_sem by assumption. fold i.
    destruct ((src i =? 0) || (src i =? 1) && lands_nonzero p (ip + 1 + imm i)); cbn [bind]; [|rewrite !andb_false_r; reflexivity].
    rewrite check_registers_sem by lia. unfold regs_ok. rewrite !andb_false_r, !orb_false_r, !andb_true_r.
    destruct ((src i <=? 10) && (dst i <=? 9)); cbn [bind]; [|reflexivity].
    rewrite cadd_usz_ok by (fold_pows; lia). reflexivity.
  - (* reject *)
    rewrite F. cbn [bind andb]. reflexivity.
Qed.

Fixpoint scan (fuel : nat) (L : Z -> bool) (p : list Z) (k : Z) : res Z :=
  match fuel with
  | O => OutOfFuel
  | S f => if k <? nslots p
           then if insn_ok_gen L p k then scan f L p (k + step_of p k) else Err 0
           else Ok k
  end.

Lemma step_of_range p k : 1 <= step_of p k <= 2.
Proof. unfold step_of. destruct (_ =? _); lia. Qed.

Lemma ok_step_in_range L p k : insn_ok_gen L p k = true -> k + step_of p k <= nslots p \/ step_of p k = 1.
Proof.
  intros H. unfold step_of. destruct (Z.eqb_spec (opc (insn_at p k)) op_lddw) as [E|E]; [left|now right].
  unfold insn_ok_gen in H. cbv zeta in H. rewrite E in H. change (op_lddw =? op_lddw) with true in H.
  cbv iota in H. rewrite !andb_true_iff in H. destruct H as (((((_ & (H & _)) & _) & _) & _) & _).
  apply Z.ltb_lt in H. lia.
Qed.

Lemma loop_scan p fuel k : shape p -> last_ok p = true -> 0 <= k <= nslots p ->
  loop fuel (gen_check_loop_cond p) (gen_check_loop_body p) k = scan fuel (lands_nonzero p) p k.
Proof.
  intros Hs Hl. pose proof (nslots_pos p Hs) as [Hn Hlen]. pose proof (sh_max p Hs) as Hx.
  revert k. induction fuel as [|f IH]; intros k Hk; [reflexivity|].
  cbn [loop scan]. unfold gen_check_loop_cond at 1.
  rewrite cmul_usz_ok by (clear - Hk Hlen Hx; fold_pows; lia). cbn [bind].
  destruct (Z.ltb_spec (k * 8) (len p)) as [A|A]; destruct (Z.ltb_spec k (nslots p)) as [B|B];
    try (exfalso; clear - A B Hlen; lia); [|reflexivity].
  rewrite body_sem by (try assumption; lia).
  destruct (insn_ok_gen (lands_nonzero p) p k) eqn:E; cbn [bind]; [|reflexivity].
  apply IH. pose proof (step_of_range p k). destruct (ok_step_in_range _ _ _ E); lia.
Qed.

(** * D. the scan visits exactly the instruction starts *)
Lemma scan_starts L p : forall (m : nat) (f1 f2 : nat) (k : Z),
  0 <= k <= nslots p -> (Z.to_nat (nslots p - k) <= m)%nat -> (m < f1)%nat -> (m <= f2)%nat ->
  scan f1 L p k = if forallb (insn_ok_gen L p) (starts_from f2 p k) then Ok (nslots p) else Err 0.
Proof.
  induction m as [|m IH]; intros f1 f2 k Hk Hm H1 H2.
  - assert (k = nslots p) by lia. subst k.
    destruct f1 as [|f1]; [lia|]. cbn [scan]. rewrite Z.ltb_irrefl.
    destruct f2; cbn [starts_from]; [reflexivity|]. rewrite Z.ltb_irrefl. reflexivity.
  - destruct f1 as [|f1]; [lia|]. cbn [scan].
    destruct (Z.ltb_spec k (nslots p)) as [A|A].
    + destruct f2 as [|f2]; [lia|]. cbn [starts_from].
      destruct (Z.ltb_spec k (nslots p)) as [A'|A']; [|lia]. cbn [forallb].
      destruct (insn_ok_gen L p k) eqn:E; cbn [andb]; [|reflexivity].
      pose proof (step_of_range p k). apply IH; try lia.
      destruct (ok_step_in_range _ _ _ E); lia.
    + assert (k = nslots p) by lia. subst k.
      destruct f2; cbn [starts_from]; [reflexivity|]. rewrite Z.ltb_irrefl. reflexivity.
Qed.

(** * E. "lands on a slot with non-zero opcode" = "lands on an instruction start" for programs
      all of whose starts are fine *)
Lemma supported_nonzero o : supported o = true -> (o =? 0) = false.
Proof. intros H. destruct (Z.eqb_spec o 0) as [->|]; [discriminate H|reflexivity]. Qed.

Lemma insn_ok_supported L p k : insn_ok_gen L p k = true -> supported (opc (insn_at p k)) = true.
Proof. unfold insn_ok_gen. cbv zeta. rewrite !andb_true_iff. tauto. Qed.

Lemma insn_ok_lddw_next L p k : insn_ok_gen L p k = true -> opc (insn_at p k) = op_lddw ->
  opc (insn_at p (k + 1)) = 0.
Proof.
  unfold insn_ok_gen. cbv zeta. rewrite !andb_true_iff. intros (((((_ & H) & _) & _) & _) & _) E.
  rewrite E in H. change (op_lddw =? op_lddw) with true in H. cbv iota in H.
  rewrite andb_true_iff in H. destruct H as [_ H]. now apply Z.eqb_eq.
Qed.

(** every slot from a start onwards is a start, or the second half of a wide load at a start *)
Lemma slots_covered p : forall (m : nat) (f : nat) (k j : Z),
  0 <= k -> (Z.to_nat (nslots p - k) <= m)%nat -> (m <= f)%nat -> k <= j < nslots p ->
  In j (starts_from f p k) \/
  exists s, In s (starts_from f p k) /\ opc (insn_at p s) = op_lddw /\ j = s + 1.
Proof.
  induction m as [|m IH]; intros f k j Hk Hm Hf Hj; [lia|].
  destruct f as [|f]; [lia|]. cbn [starts_from].
  destruct (Z.ltb_spec k (nslots p)) as [A|A]; [|lia].
  destruct (Z.eq_dec j k) as [->|Nk]; [left; now left|].
  assert (Est : step_of p k = if opc (insn_at p k) =? op_lddw then 2 else 1) by reflexivity.
  destruct (Z.eqb_spec (opc (insn_at p k)) op_lddw) as [E|E]; rewrite Est.
  - destruct (Z.eq_dec j (k + 1)) as [->|Nk1].
    + right. exists k. split; [now left|]. split; [exact E|reflexivity].
    + destruct (IH f (k + 2) j) as [H|(s & H1 & H2 & H3)]; try lia.
      * left. right. exact H.
      * right. exists s. split; [right; exact H1|tauto].
  - destruct (IH f (k + 1) j) as [H|(s & H1 & H2 & H3)]; try lia.
    + left. right. exact H.
    + right. exists s. split; [right; exact H1|tauto].
Qed.

Lemma starts_in_range p : forall f k s, In s (starts_from f p k) -> k <= s < nslots p.
Proof.
  induction f as [|f IH]; intros k s H; [destruct H|]. cbn [starts_from] in H.
  destruct (Z.ltb_spec k (nslots p)) as [A|A]; [|destruct H].
  destruct H as [<-|H]; [lia|]. apply IH in H. pose proof (step_of_range p k). lia.
Qed.

Lemma inb_In t l : inb t l = true <-> In t l.
Proof.
  unfold inb. rewrite existsb_exists. split.
  - intros (x & H1 & H2). apply Z.eqb_eq in H2. now subst.
  - intros H. exists t. split; [exact H|apply Z.eqb_refl].
Qed.

Lemma insn_ok_gen_ext L1 L2 p k :
  (forall t, L1 t = L2 t) -> insn_ok_gen L1 p k = insn_ok_gen L2 p k.
Proof. intros H. unfold insn_ok_gen. cbv zeta. now rewrite !H. Qed.

Lemma forallb_ext_in {A} (f g : A -> bool) l : (forall x, In x l -> f x = g x) -> forallb f l = forallb g l.
Proof. induction l as [|a l IH]; intros H; cbn; [reflexivity|]. rewrite H by now left. f_equal. apply IH. intros; apply H; now right. Qed.

(** if all starts are fine under one notion of landing, the two notions coincide on every target *)
Lemma lands_agree p (L : Z -> bool) :
  (L = lands_nonzero p \/ L = lands_on_start (starts p)) ->
  forallb (insn_ok_gen L p) (starts p) = true ->
  forall t, lands_nonzero p t = lands_on_start (starts p) t.
Proof.
  intros HL Hall t. rewrite forallb_forall in Hall.
  unfold lands_on_start. apply eq_true_iff_eq. rewrite inb_In. unfold lands_nonzero.
  rewrite !andb_true_iff, negb_true_iff, Z.leb_le, Z.ltb_lt. split.
  - intros [[H0 H1] Hz].
    destruct (slots_covered p (Z.to_nat (nslots p)) (Z.to_nat (nslots p)) 0 t) as [H|(s & H1' & H2 & H3)]; try lia.
    + exact H.
    + exfalso. pose proof (insn_ok_lddw_next L p s (Hall s H1') H2) as Hn. subst t. rewrite Hn in Hz. discriminate.
  - intros H. pose proof (starts_in_range p _ _ _ H) as R. split; [lia|].
    apply supported_nonzero, (insn_ok_supported L), Hall, H.
Qed.

Lemma starts_ok_equiv p :
  forallb (insn_ok_gen (lands_nonzero p) p) (starts p) = forallb (insn_ok p) (starts p).
Proof.
  unfold insn_ok.
  destruct (forallb (insn_ok_gen (lands_nonzero p) p) (starts p)) eqn:A.
  - symmetry. rewrite <- A. apply forallb_ext_in. intros x _. apply insn_ok_gen_ext.
    intros t. symmetry. apply (lands_agree p (lands_nonzero p)); [now left|exact A].
  - destruct (forallb (insn_ok_gen (lands_on_start (starts p)) p) (starts p)) eqn:B; [|reflexivity].
    rewrite <- A, <- B. apply forallb_ext_in. intros x _. apply insn_ok_gen_ext.
    intros t. apply (lands_agree p (lands_on_start (starts p))); [now right|exact B].
Qed.

(** * F. the whole verifier *)
Lemma prog_len_sem p : bytes_ok p ->
  gen_check_prog_len p =
  if (len p mod 8 =? 0) && (0 <? len p) && (len p <=? 8 * 1000000) && last_ok p then Ok tt else Err 0.
Proof.
  intros Hb. unfold gen_check_prog_len, is_multiple_of. change (8 =? 0) with false. cbv iota.
  destruct (Z.eqb_spec (len p mod 8) 0) as [M|M]; cbn [negb andb]; [|reflexivity].
  assert (Hnn : 0 <= len p) by (unfold len; lia).
  destruct (Z.gtb_spec (len p) 8000000) as [G|G]; destruct (Z.leb_spec (len p) (8 * 1000000)) as [G'|G']; try lia.
  - destruct (0 <? len p); reflexivity.
  - destruct (Z.eqb_spec (len p) 0) as [Z0|Z0]; destruct (Z.ltb_spec 0 (len p)) as [P|P]; try lia; cbn [andb]; [reflexivity|].
    assert (Hs : shape p) by (constructor; assumption).
    pose proof (nslots_pos p Hs) as [Hn Hlen]. unfold nslots in *.
    unfold csub. rewrite chk_ok by (apply in_ty_usz; clear - Hn Hlen G'; fold_pows; lia). cbn [bind].
    rewrite get_insn_at by (try assumption; unfold nslots; lia). cbn [bind]. cbv zeta.
    unfold last_ok, nslots. cbv zeta. change EXIT with op_exit. change JA with op_ja.
    change 149 with op_exit. change 5 with op_ja.
    destruct (opc (insn_at p (len p / 8 - 1)) =? op_exit); destruct (opc (insn_at p (len p / 8 - 1)) =? op_ja); reflexivity.
Qed.

Lemma check_model_sem p : bytes_ok p ->
  check_model p = if wellformedb p then Ok tt else Err 0.
Proof.
  intros Hb. unfold check_model, gen_check, wellformedb. rewrite prog_len_sem by exact Hb.
  fold (last_ok p).
  destruct (Z.eqb_spec (len p mod 8) 0) as [M|M]; cbn [andb bind]; [|reflexivity].
  destruct (Z.ltb_spec 0 (len p)) as [P|P]; cbn [andb bind]; [|reflexivity].
  destruct (Z.leb_spec (len p) (8 * 1000000)) as [X|X]; cbn [andb bind]; [|reflexivity].
  destruct (last_ok p) eqn:L; cbn [andb bind]; [|reflexivity].
  assert (Hs : shape p) by (constructor; assumption).
  pose proof (nslots_pos p Hs) as [Hn Hlen].
  cbv zeta. rewrite loop_scan by (try assumption; lia).
  rewrite (scan_starts _ p (Z.to_nat (nslots p)) (S (length p)) (Z.to_nat (nslots p)) 0);
    try lia; [|unfold len in Hlen; lia].
  fold (starts p). rewrite starts_ok_equiv.
  destruct (forallb (insn_ok p) (starts p)); cbn [bind]; [|reflexivity].
  unfold nslots. rewrite Z.eqb_refl. reflexivity.
Qed.

Theorem verifier_iff p : bytes_ok p -> (check_model p = Ok tt <-> WellFormed p).
Proof.
  intros Hb. rewrite check_model_sem by exact Hb. unfold WellFormed.
  destruct (wellformedb p); split; intro H; try reflexivity; discriminate.
Qed.

Theorem verifier_total p : bytes_ok p -> check_model p = Ok tt \/ check_model p = Err 0.
Proof. intros Hb. rewrite check_model_sem by exact Hb. destruct (wellformedb p); auto. Qed.

(** * G. what acceptance gives the interpreter and the compilers (used by C05, C12) *)
Lemma acc_shape p : bytes_ok p -> acc p -> shape p /\ last_ok p = true /\ forallb (insn_ok p) (starts p) = true.
Proof.
  intros Hb H. apply verifier_iff in H; [|exact Hb]. unfold WellFormed, wellformedb in H.
  rewrite !andb_true_iff in H. destruct H as ((((M & P) & X) & L) & A).
  apply Z.eqb_eq in M. apply Z.ltb_lt in P. apply Z.leb_le in X.
  split; [constructor; assumption|]. split; [exact L|exact A].
Qed.
