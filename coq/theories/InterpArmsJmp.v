(** C01, jump arms: generated interpreter arm = ISA specification. *)
From Coq Require Import ZArith Lia Bool List.
From RbpfV Require Import MachInt BitLemmas ListLemmas Ebpf Mem InterpDefs WellFormed Isa ArmBase ArmVals.
From RbpfV.gen Require Import Opcodes Codec Interp.
Import ListNotations.
Open Scope Z_scope.
Ltac Zify.zify_post_hook ::= Z.div_mod_to_equations.

Section Arms.
Variables (E : ienv) (i : insn) (reg : list Z) (next fidx : Z) (stacks : list frame) (m : mem).
Hypothesis Hw : wf_insn i.
Hypothesis Hr : regs_ok reg.
Hypothesis Hnext : 0 <= next < 2 ^ 62.
Hypothesis Htgt : 0 <= next + off i < 2 ^ 62.          (* the verifier: jump targets lie inside the program *)

Lemma jcast_dst : cast USZ (dst i) = dst i.
Proof. destruct Hw as (_ & H & _). apply cast_usz_id. fold_pows. lia. Qed.
Lemma jcast_src : cast USZ (src i) = src i.
Proof. destruct Hw as (_ & _ & H & _). apply cast_usz_id. fold_pows. lia. Qed.
Lemma jimm_rng : - 2 ^ 31 <= imm i < 2 ^ 31. Proof. destruct Hw as (_ & _ & _ & _ & H). exact H. Qed.

Lemma jump_target :
  (v <- cadd ISZ 0 (cast ISZ next) (cast ISZ (off i)) ;; Ok (cast USZ v)) = Ok (next + off i).
Proof.
  destruct Hw as (_ & _ & _ & Ho & _). change (2 ^ 62) with 4611686018427387904 in *.
  assert (C1 : cast ISZ next = next) by (apply norm_idem; unfold in_ty, tmin, tmax; cbn [signed bits]; change (64 - 1) with 63; fold_pows; lia).
  assert (C2 : cast ISZ (off i) = off i) by (apply norm_idem; unfold in_ty, tmin, tmax; cbn [signed bits]; change (64 - 1) with 63; fold_pows; lia).
  rewrite C1, C2. unfold cadd. rewrite chk_ok by (unfold in_ty, tmin, tmax; cbn [signed bits]; change (64 - 1) with 63; fold_pows; lia).
  cbn [bind]. f_equal. apply cast_usz_id. fold_pows. lia.
Qed.

Lemma ja_arm : opc i = 0x05 ->
  gen_interp_arm 0x05 E i (cast USZ (dst i)) (cast USZ (src i)) reg next fidx stacks m
  = conv (isa_exec E i reg next fidx stacks m).
Proof.
  intros Ho. arm_start.
  pose proof jump_target as J. unfold bind in J.
  destruct (cadd ISZ 0 (cast ISZ next) (cast ISZ (off i))) eqn:Ec; try discriminate J.
  cbn [bind]. inversion J as [J']. rewrite J'. reflexivity.
Qed.

Ltac rdr := match goal with |- context [rd reg ?k] =>
  lazymatch goal with
  | H : 0 <= rd reg k < 2 ^ 64 |- _ => fail
  | _ => pose proof (rd_range reg k Hr)
  end end.
Ltac unf := unfold cast, norm; cbn [signed bits]; unfold umod.

(** the branch condition computed by the arm is the ISA's *)
Ltac cond_tac :=
  pose proof jimm_rng;
  rewrite ?Z.gtb_ltb, ?Z.geb_leb; unf; repeat rdr;
  rewrite ?(Z.mod_small (rd reg _) (2 ^ 64)) by assumption;
  rewrite ?smod_of_mod by lia;
  rewrite ?(smod_idem 32 (imm i)) by (change (32 - 1) with 31; lia);
  try reflexivity.

Ltac jmp_tac :=
  arm_start; rewrite ?jcast_dst, ?jcast_src; rewrite jump_target;
  match goal with
  | |- (_ <- (if ?c1 then _ else _) ;; _) = Ok (Next (_, (if ?c2 then _ else _), _, _, _)) =>
      replace c1 with c2; [destruct c2; reflexivity|]
  end.

(** jumps whose semantics does not depend on how a 64-bit immediate is extended *)
Lemma jmp_arms o :
  In o [0x1d; 0x2d; 0x3d; 0x4d; 0x5d; 0x6d; 0x7d; 0xad; 0xbd; 0xcd; 0xdd;      (* 64-bit, register operand *)
        0x45; 0x65; 0x75; 0xc5; 0xd5;                                       (* jset / signed, immediate *)
        0x16; 0x1e; 0x26; 0x2e; 0x36; 0x3e; 0x46; 0x4e; 0x56; 0x5e; 0x66; 0x6e; 0x76; 0x7e;
        0xa6; 0xae; 0xb6; 0xbe; 0xc6; 0xce; 0xd6; 0xde] ->                  (* all 32-bit jumps *)
  opc i = o ->
  gen_interp_arm o E i (cast USZ (dst i)) (cast USZ (src i)) reg next fidx stacks m
  = conv (isa_exec E i reg next fidx stacks m).
Proof.
  intros Hin.
  repeat (destruct Hin as [<-|Hin]; [intros Ho; jmp_tac; symmetry; cond_tac|]).
  destruct Hin.
Qed.

(** unsigned / equality jumps against a 64-bit immediate: the interpreter zero-extends the
    immediate (known finding D7), so it agrees with the ISA exactly when the immediate is >= 0 *)
Lemma jmp_imm64_arms o : In o [0x15; 0x25; 0x35; 0x55; 0xa5; 0xb5] -> opc i = o -> 0 <= imm i ->
  gen_interp_arm o E i (cast USZ (dst i)) (cast USZ (src i)) reg next fidx stacks m
  = conv (isa_exec E i reg next fidx stacks m).
Proof.
  intros Hin Ho Hpos. revert Ho. pose proof jimm_rng as Hi.
  assert (M32 : imm i mod 2 ^ 32 = imm i) by (apply Z.mod_small; fold_pows; lia).
  assert (M64 : imm i mod 2 ^ 64 = imm i) by (apply Z.mod_small; fold_pows; lia).
  repeat (destruct Hin as [<-|Hin]; [intros Ho; jmp_tac; symmetry; cond_tac; rewrite ?M32, ?M64; reflexivity|]).
  destruct Hin.
Qed.

(** whatever the comparison yields, these arms only choose between the two successors *)
Lemma jmp_imm64_shape o : In o [0x15; 0x25; 0x35; 0x55; 0xa5; 0xb5] ->
  exists c : bool,
  gen_interp_arm o E i (cast USZ (dst i)) (cast USZ (src i)) reg next fidx stacks m
  = Ok (Next (reg, (if c then next + off i else next), fidx, stacks, m)).
Proof.
  intros Hin.
  repeat (destruct Hin as [<-|Hin];
    [unfold gen_interp_arm; simpl;
     repeat match goal with |- context [?f ?E ?i ?d ?s ?r ?n ?x ?st ?m] =>
       match type of f with ienv -> insn -> Z -> Z -> list Z -> Z -> Z -> list frame -> mem -> _ => unfold f end end;
     simpl; rewrite jump_target;
     match goal with |- exists c, (_ <- (if ?c1 then _ else _) ;; _) = _ => exists c1; destruct c1; reflexivity end|]).
  destruct Hin.
Qed.
End Arms.
