(** Straight-line x86-64 code with the real stack: registers (rsp = register 4 included) and a byte-addressed memory.
    Used for the prologue and epilogue that jit.rs emits.  PUSH r: rsp := rsp - 8, then [rsp] := r.  POP r: r := [rsp], then
    rsp := rsp + 8.  MOV [base + disp], r64 and MOV r64, [base + disp] move 8 bytes, little-endian.  Register-to-register
    and immediate forms are those of X86Sem.xstep.  Addresses are taken modulo 2^64. *)
From Coq Require Import ZArith List Bool Lia.
From RbpfV Require Import MachInt X86Sem.
Import ListNotations.
Open Scope Z_scope.
Ltac Zify.zify_post_hook ::= Z.div_mod_to_equations.

Definition bmem := Z -> Z.                        (* address -> byte *)
Definition wrap64 (a : Z) : Z := a mod 2 ^ 64.
Definition byte_of (v k : Z) : Z := (v / 2 ^ (8 * k)) mod 256.
Definition store8 (m : bmem) (a v : Z) : bmem :=
  fun x => let k := (x - a) mod 2 ^ 64 in if k <? 8 then byte_of v k else m x.
Definition load8 (m : bmem) (a : Z) : Z :=
  m (wrap64 a) + 2 ^ 8 * m (wrap64 (a + 1)) + 2 ^ 16 * m (wrap64 (a + 2)) + 2 ^ 24 * m (wrap64 (a + 3)) +
  2 ^ 32 * m (wrap64 (a + 4)) + 2 ^ 40 * m (wrap64 (a + 5)) + 2 ^ 48 * m (wrap64 (a + 6)) + 2 ^ 56 * m (wrap64 (a + 7)).

Definition mstate := (regs * bmem)%type.
Definition kstep (x : xi) (s : mstate) : option mstate :=
  let '(R, m) := s in
  match x with
  | XPush r => let sp := wrap64 (R 4 - 8) in Some (rset R 4 sp, store8 m sp (R r))
  | XPop r => let v := load8 m (R 4) in Some (rset (rset R r v) 4 (wrap64 (R 4 + 8)), m)
  | XStore 64 reg base d => Some (R, store8 m (wrap64 (R base + d)) (R reg))
  | XLoad 64 base reg d => Some (rset R reg (load8 m (wrap64 (R base + d))), m)
  | XAlu _ _ _ _ | XAluI32 _ _ _ _ _ => match xstep x R with Some R' => Some (R', m) | None => None end
  | _ => None
  end.
Fixpoint krun (l : list xi) (s : mstate) : option mstate :=
  match l with [] => Some s | x :: l' => match kstep x s with Some s' => krun l' s' | None => None end end.

(** ** load after store *)
Lemma byte_of_range v k : 0 <= byte_of v k < 256.
Proof. unfold byte_of. apply Z.mod_pos_bound. lia. Qed.

Lemma store8_same m a v k : 0 <= a < 2 ^ 64 -> 0 <= k < 8 -> store8 m a v (wrap64 (a + k)) = byte_of v k.
Proof.
  intros Ha Hk. unfold store8, wrap64.
  assert (E : ((a + k) mod 2 ^ 64 - a) mod 2 ^ 64 = k).
  { rewrite Zminus_mod_idemp_l. replace (a + k - a) with k by ring. apply Z.mod_small. change (2 ^ 64) with 18446744073709551616. lia. }
  rewrite E. destruct (Z.ltb_spec k 8); [reflexivity|lia].
Qed.

Lemma bytes_sum v : 0 <= v < 2 ^ 64 ->
  byte_of v 0 + 2 ^ 8 * byte_of v 1 + 2 ^ 16 * byte_of v 2 + 2 ^ 24 * byte_of v 3 + 2 ^ 32 * byte_of v 4 + 2 ^ 40 * byte_of v 5 +
  2 ^ 48 * byte_of v 6 + 2 ^ 56 * byte_of v 7 = v.
Proof.
  intros Hv. unfold byte_of. cbn [Z.mul]. 
  change (8 * 0) with 0. change (8 * 1) with 8. change (8 * 2) with 16. change (8 * 3) with 24. change (8 * 4) with 32.
  change (8 * 5) with 40. change (8 * 6) with 48. change (8 * 7) with 56.
  change (2 ^ 0) with 1. change (2 ^ 8) with 256. change (2 ^ 16) with 65536. change (2 ^ 24) with 16777216. change (2 ^ 32) with 4294967296.
  change (2 ^ 40) with 1099511627776. change (2 ^ 48) with 281474976710656. change (2 ^ 56) with 72057594037927936.
  change (2 ^ 64) with 18446744073709551616 in Hv. lia.
Qed.

Lemma load_store_same m a v : 0 <= a < 2 ^ 64 -> 0 <= v < 2 ^ 64 -> load8 (store8 m a v) a = v.
Proof.
  intros Ha Hv. unfold load8.
  replace (wrap64 a) with (wrap64 (a + 0)) by (f_equal; lia).
  rewrite !store8_same by lia. now apply bytes_sum.
Qed.

(** a store does not change words that do not overlap it (circular distance at least 8 both ways) *)
Definition apart (a b : Z) : Prop := 8 <= (b - a) mod 2 ^ 64 <= 2 ^ 64 - 8.
Lemma store8_other m a v x : 8 <= (x - a) mod 2 ^ 64 -> store8 m a v x = m x.
Proof. intros H. unfold store8. destruct (Z.ltb_spec ((x - a) mod 2 ^ 64) 8); [lia|reflexivity]. Qed.
Lemma load_store_other m a v b : apart a b -> load8 (store8 m a v) b = load8 m b.
Proof.
  intros [H1 H2]. unfold load8, wrap64.
  assert (K : forall k, 0 <= k < 8 -> 8 <= ((b + k) mod 2 ^ 64 - a) mod 2 ^ 64).
  { intros k Hk. rewrite Zminus_mod_idemp_l. replace (b + k - a) with ((b - a) + k) by ring.
    rewrite <- Zplus_mod_idemp_l. set (q := (b - a) mod 2 ^ 64) in *.
    change (2 ^ 64) with 18446744073709551616 in *. rewrite Z.mod_small by lia. lia. }
  replace (b mod 2 ^ 64) with ((b + 0) mod 2 ^ 64) by (f_equal; lia).
  rewrite !store8_other by (apply K; lia). reflexivity.
Qed.
