(** High-level instruction record returned by disassembler::to_insn_vec (struct HLInsn). *)
From Coq Require Import ZArith String.
Open Scope Z_scope.

Record hlinsn := { h_opc : Z; h_name : string; h_desc : string; h_dst : Z; h_src : Z; h_off : Z; h_imm : Z }.
