(** C15: the regenerated disassembler (coq/gen/Disasm.v) returns, on every program in the property's
    domain, exactly the entries of the specification DisasmSpec.hl_list -- and therefore never panics there. *)
From Coq Require Import ZArith Lia Bool List String.
From RbpfV Require Import MachInt BitLemmas ListLemmas Ebpf Fmt DisasmDefs DisasmSpec CodecProofs.
From RbpfV.gen Require Import Opcodes Codec Disasm.
Import ListNotations.
Open Scope Z_scope.
Ltac Zify.zify_post_hook ::= Z.div_mod_to_equations.

Arguments fmt_dec : simpl never.
Arguments fmt_hex : simpl never.
Arguments fmt_unsigned : simpl never.
Arguments hex : simpl never.
Arguments hex32 : simpl never.
Arguments soff : simpl never.
Arguments reg : simpl never.

(** ** formatting facts *)
Lemma fmt_dec_nonneg x : 0 <= x -> fmt_dec x = fmt_unsigned 10 x.
Proof. intros H. unfold fmt_dec. destruct (Z.ltb_spec x 0); [lia|reflexivity]. Qed.

Lemma fmt_hex_i32 x : fmt_hex I32 x = hex32 x.
Proof. reflexivity. Qed.

Lemma fmt_hex_i16_pos o : 0 <= o < 2 ^ 15 -> fmt_hex I16 o = hex o.
Proof. intros H. unfold fmt_hex, hex. cbn [bits]. rewrite Z.mod_small by (fold_pows; lia). reflexivity. Qed.

Lemma fmt_hex_isz n : 0 <= n < 2 ^ 64 -> fmt_hex ISZ n = hex n.
Proof. intros H. unfold fmt_hex, hex. cbn [bits]. rewrite Z.mod_small by lia. reflexivity. Qed.

Lemma fmt_hex_i64 n : fmt_hex I64 n = hex (n mod 2 ^ 64).
Proof. reflexivity. Qed.

Lemma reg_dec r : 0 <= r -> ("r" ++ fmt_dec r)%string = reg r.
Proof. intros H. rewrite fmt_dec_nonneg by exact H. reflexivity. Qed.

(** the signed-offset text: `+0x..` / `-0x..` *)
Lemma neg_off_ok o : - 2 ^ 15 <= o < 0 -> cneg ISZ 0 (cast ISZ o) = Ok (- o).
Proof.
  intros H. unfold cast, norm. cbn [signed bits].
  rewrite smod_idem by (change (64 - 1) with 63; fold_pows; lia).
  unfold cneg. apply chk_ok. unfold in_ty, tmin, tmax; cbn [signed bits]. fold_pows. lia.
Qed.

Section Helpers.
Variable i : insn.
Hypothesis Hw : wf_insn i.
Variable name : string.
Variable x : Z.

Let Hd : 0 <= dst i. Proof. destruct Hw as (_ & ? & _); lia. Qed.
Let Hs : 0 <= src i. Proof. destruct Hw as (_ & _ & ? & _); lia. Qed.
Let Ho : - 2 ^ 15 <= off i < 2 ^ 15. Proof. destruct Hw as (_ & _ & _ & ? & _); fold_pows; lia. Qed.

Ltac offcase :=
  destruct (Z.geb_spec (off i) 0) as [P|P];
  [ unfold soff; destruct (Z.leb_spec 0 (off i)); [|lia]; rewrite fmt_hex_i16_pos by lia
  | unfold soff; destruct (Z.leb_spec 0 (off i)); [lia|]; rewrite neg_off_ok by lia; cbn [bind];
    rewrite fmt_hex_isz by (fold_pows; lia) ].

Lemma alu_imm_str_ok : gen_alu_imm_str name i = Ok (render name ShAluImm i x).
Proof. unfold gen_alu_imm_str, render. rewrite fmt_dec_nonneg by exact Hd. timeout 30 reflexivity. Qed.
Lemma alu_reg_str_ok : gen_alu_reg_str name i = Ok (render name ShAluReg i x).
Proof. unfold gen_alu_reg_str, render. rewrite !fmt_dec_nonneg by assumption. timeout 30 reflexivity. Qed.
Lemma byteswap_str_ok : gen_byteswap_str name i = Ok (render name ShEndian i x).
Proof. unfold gen_byteswap_str, render. rewrite (fmt_dec_nonneg (dst i)) by assumption. timeout 30 reflexivity. Qed.
Lemma ldabs_str_ok : gen_ldabs_str name i = Ok (render name ShLdAbs i x).
Proof. timeout 30 reflexivity. Qed.
Lemma ldind_str_ok : gen_ldind_str name i = Ok (render name ShLdInd i x).
Proof. unfold gen_ldind_str, render. rewrite fmt_dec_nonneg by exact Hs. timeout 30 reflexivity. Qed.
Lemma ld_reg_str_ok : gen_ld_reg_str name i = Ok (render name ShLdReg i x).
Proof. unfold gen_ld_reg_str, render. rewrite !fmt_dec_nonneg by assumption. offcase; timeout 30 timeout 30 reflexivity. Qed.
Lemma ld_st_imm_str_ok : gen_ld_st_imm_str name i = Ok (render name ShStImm i x).
Proof. unfold gen_ld_st_imm_str, render. rewrite !fmt_dec_nonneg by assumption. offcase; timeout 30 timeout 30 reflexivity. Qed.
Lemma st_reg_str_ok : gen_st_reg_str name i = Ok (render name ShStReg i x).
Proof. unfold gen_st_reg_str, render. rewrite !fmt_dec_nonneg by assumption. offcase; timeout 30 timeout 30 reflexivity. Qed.
Lemma jmp_imm_str_ok : gen_jmp_imm_str name i = Ok (render name ShJmpImm i x).
Proof. unfold gen_jmp_imm_str, render. rewrite !fmt_dec_nonneg by assumption. offcase; timeout 30 timeout 30 reflexivity. Qed.
Lemma jmp_reg_str_ok : gen_jmp_reg_str name i = Ok (render name ShJmpReg i x).
Proof. unfold gen_jmp_reg_str, render. rewrite !fmt_dec_nonneg by assumption. offcase; timeout 30 timeout 30 reflexivity. Qed.
Lemma soff_text :
  (if off i >=? 0 then Ok (name ++ " +" ++ fmt_hex I16 (off i))%string
   else v <- cneg ISZ 0 (cast ISZ (off i)) ;; Ok (name ++ " -" ++ fmt_hex ISZ v)%string)
  = Ok (render name ShJa i x).
Proof. unfold render. offcase; timeout 30 timeout 30 reflexivity. Qed.
Lemma unary_text : (name ++ " r" ++ fmt_dec (dst i))%string = render name ShUnary i x.
Proof. unfold render. rewrite fmt_dec_nonneg by exact Hd. timeout 30 reflexivity. Qed.
End Helpers.

Opaque gen_alu_imm_str gen_alu_reg_str gen_byteswap_str gen_ldabs_str gen_ldind_str gen_ld_reg_str gen_ld_st_imm_str
  gen_st_reg_str gen_jmp_imm_str gen_jmp_reg_str fmt_hex fmt_unsigned.

(** ** every arm of the opcode dispatcher produces the table's mnemonic and the rendered operands *)
Definition arm_prop (e : Z * (string * shape)) : Prop :=
  match snd (snd e) with
  | ShLddw | ShCall => True
  | sh => forall p i n0 d0 im k, wf_insn i ->
      gen_disasm_arm (fst e) p i n0 d0 im k = Ok (fst (snd e), render (fst (snd e)) sh i im, im, k)
  end.

Ltac arm_tac :=
  cbv [arm_prop fst snd]; intros p i n0 d0 im k Hw;
  unfold gen_disasm_arm; simpl;
  match goal with |- context [?f p i n0 d0 im k] => unfold f end;
  cbv zeta;
  repeat match goal with
  | |- context [gen_alu_imm_str ?n i] => rewrite (alu_imm_str_ok i Hw n im)
  | |- context [gen_alu_reg_str ?n i] => rewrite (alu_reg_str_ok i Hw n im)
  | |- context [gen_byteswap_str ?n i] => rewrite (byteswap_str_ok i Hw n im)
  | |- context [gen_ldabs_str ?n i] => rewrite (ldabs_str_ok i n im)
  | |- context [gen_ldind_str ?n i] => rewrite (ldind_str_ok i Hw n im)
  | |- context [gen_ld_reg_str ?n i] => rewrite (ld_reg_str_ok i Hw n im)
  | |- context [gen_ld_st_imm_str ?n i] => rewrite (ld_st_imm_str_ok i Hw n im)
  | |- context [gen_st_reg_str ?n i] => rewrite (st_reg_str_ok i Hw n im)
  | |- context [gen_jmp_imm_str ?n i] => rewrite (jmp_imm_str_ok i Hw n im)
  | |- context [gen_jmp_reg_str ?n i] => rewrite (jmp_reg_str_ok i Hw n im)
  | |- context [if off i >=? 0 then Ok (?n ++ _)%string else _] => rewrite (soff_text i Hw n im)
  end;
  try rewrite (fmt_dec_nonneg (dst i)) by (destruct Hw as (_ & ? & _); lia);
  cbn [bind]; reflexivity.

Lemma arms_ok : Forall arm_prop mnemonics.
Proof. unfold mnemonics. repeat (apply Forall_cons; [first [exact I | arm_tac]|]). apply Forall_nil. Qed.

Lemma lookup_in o t v : lookup o t = Some v -> In (o, v) t.
Proof.
  induction t as [|[k w] t IH]; cbn [lookup]; [discriminate|].
  destruct (Z.eqb_spec k o) as [->|N]; [intros [= ->]; now left|intros H; right; auto].
Qed.

Lemma arm_generic o name sh p i n0 d0 im k :
  lookup o mnemonics = Some (name, sh) -> sh <> ShLddw -> sh <> ShCall -> wf_insn i ->
  gen_disasm_arm o p i n0 d0 im k = Ok (name, render name sh i im, im, k).
Proof.
  intros L N1 N2 Hw. apply lookup_in in L.
  pose proof (proj1 (Forall_forall _ _) arms_ok _ L) as A. unfold arm_prop in A. cbn [fst snd] in A.
  destruct sh; try contradiction; apply A; exact Hw.
Qed.

Lemma call_arm p i n0 d0 im k :
  gen_disasm_arm 0x85 p i n0 d0 im k =
  if src i =? 0 then Ok ("call"%string, render "call" ShCall i im, im, k)
  else if src i =? 1 then Ok ("callx"%string, render "callx" ShCall i im, im, k) else Panic 0.
Proof.
  unfold gen_disasm_arm; simpl. unfold gen_disasm_arm_CALL.
  destruct (src i =? 0); [reflexivity|]. destruct (src i =? 1); reflexivity.
Qed.

Lemma imm64_value a b : - 2 ^ 31 <= a < 2 ^ 31 -> - 2 ^ 31 <= b < 2 ^ 31 ->
  cast U64 (cast U32 a) + norm U64 (cast U64 b * 2 ^ 32) = a mod 2 ^ 32 + 2 ^ 32 * (b mod 2 ^ 32)
  /\ 0 <= a mod 2 ^ 32 + 2 ^ 32 * (b mod 2 ^ 32) < 2 ^ 64.
Proof.
  intros Ha Hb. unfold cast, norm. cbn [signed bits]. unfold umod. fold_pows. lia.
Qed.

Lemma lddw_arm p i i2 n0 d0 im k :
  wf_insn i -> wf_insn i2 -> 0 <= k < 2 ^ 62 -> gen_get_insn p (k + 1) = Ok i2 ->
  gen_disasm_arm 0x18 p i n0 d0 im k
  = Ok ("lddw"%string, render "lddw" ShLddw i (imm64_of (imm i) (imm i2)), imm64_of (imm i) (imm i2), k + 1).
Proof.
  intros Hw Hw2 Hk Hg. unfold gen_disasm_arm; simpl. unfold gen_disasm_arm_LD_DW_IMM.
  unfold cadd at 1. rewrite chk_ok by (apply in_ty_usz; fold_pows; lia). cbn [bind]. cbv zeta.
  rewrite Hg. cbn [bind]. unfold cshl. cbn [bits]. change ((0 <=? 32) && (32 <? 64)) with true. cbv iota. cbn [bind].
  destruct Hw as (_ & Hd & _ & _ & Hi). destruct Hw2 as (_ & _ & _ & _ & Hi2).
  destruct (imm64_value (imm i) (imm i2)) as [E R]; [fold_pows; lia|fold_pows; lia|].
  unfold cadd. rewrite E. rewrite chk_ok by (unfold in_ty, tmin, tmax; cbn [signed bits]; lia). cbn [bind].
  rewrite fmt_dec_nonneg by lia. reflexivity.
Qed.

Ltac lookup_inv H o :=
  unfold mnemonics in H; cbn [lookup] in H;
  repeat match type of H with (if ?k =? o then _ else _) = _ =>
    destruct (Z.eqb_spec k o) as [<-|_]; [first [discriminate H | injection H as <-; split; reflexivity]|] end;
  discriminate H.
Lemma lookup_call o name : lookup o mnemonics = Some (name, ShCall) -> o = 0x85 /\ name = "call"%string.
Proof. intros H. lookup_inv H o. Qed.
Lemma lookup_lddw o name : lookup o mnemonics = Some (name, ShLddw) -> o = 0x18 /\ name = "lddw"%string.
Proof. intros H. lookup_inv H o. Qed.

(** ** the loop: one entry per instruction, wide loads merged *)

Lemma slot_length p k : 0 <= k -> 8 * (k + 1) <= len p -> List.length (slot p k) = 8%nat.
Proof.
  intros H0 H1. unfold slot, len in *. rewrite firstn_length, skipn_length. lia.
Qed.
Lemma slot_bytes p k : bytes_ok p -> bytes_ok (slot p k).
Proof.
  intros H. unfold slot, bytes_ok in *. apply Forall_forall. intros x Hx.
  apply (proj1 (Forall_forall _ _) H). apply In_firstn, In_skipn in Hx. exact Hx.
Qed.

Lemma insn_k_wf p k : bytes_ok p -> 0 <= k -> 8 * (k + 1) <= len p -> wf_insn (insn_k p k).
Proof. intros Hb H0 H1. apply decode_wf; [now apply slot_length|now apply slot_bytes]. Qed.

Lemma loop_cond_at p k res : 0 <= k < 2 ^ 60 ->
  gen_disasm_loop_cond p (k, res) = Ok (k * 8 <? len p).
Proof.
  intros Hk. unfold gen_disasm_loop_cond, cmul. rewrite chk_ok by (apply in_ty_usz; fold_pows; lia). reflexivity.
Qed.

Section Loop.
Variable p : list Z.
Hypothesis Hb : bytes_ok p.
Hypothesis Hm : len p mod 8 = 0.
Hypothesis Hx : len p < 2 ^ 63.

Let Hlen : len p = 8 * nsl p.
Proof. unfold nsl. pose proof (Z.div_mod (len p) 8 ltac:(lia)). lia. Qed.
Let Hn : 0 <= nsl p < 2 ^ 60.
Proof. unfold nsl, len in *. fold_pows. lia. Qed.

Lemma get_k k : 0 <= k < nsl p -> gen_get_insn p k = Ok (insn_k p k).
Proof. intros Hk. apply get_insn_spec; [exact Hb|lia|lia|exact Hx]. Qed.

Lemma body_generic k res name sh :
  0 <= k < nsl p -> lookup (opc (insn_k p k)) mnemonics = Some (name, sh) -> sh <> ShLddw -> sh <> ShCall ->
  gen_disasm_loop_body p (k, res) = Ok (k + 1, res ++ [hl_entry name sh (insn_k p k) (imm (insn_k p k))]).
Proof.
  intros Hk L N1 N2. unfold gen_disasm_loop_body. rewrite get_k by exact Hk. cbn [bind]. cbv zeta.
  pose proof (insn_k_wf p k Hb ltac:(lia) ltac:(lia)) as Hw.
  assert (Ci : cast I64 (imm (insn_k p k)) = imm (insn_k p k)).
  { destruct Hw as (_ & _ & _ & _ & Hi). unfold cast, norm. cbn [signed bits].
    apply smod_idem; [lia|change (64 - 1) with 63; fold_pows; lia]. }
  rewrite Ci. rewrite (arm_generic _ name sh) by assumption. cbn [bind].
  unfold cadd. rewrite chk_ok by (apply in_ty_usz; fold_pows; lia). cbn [bind]. reflexivity.
Qed.

Lemma cast_imm_k k : 0 <= k < nsl p -> cast I64 (imm (insn_k p k)) = imm (insn_k p k).
Proof.
  intros Hk. pose proof (insn_k_wf p k Hb ltac:(lia) ltac:(lia)) as (_ & _ & _ & _ & Hi).
  unfold cast, norm. cbn [signed bits]. apply smod_idem; [lia|change (64 - 1) with 63; fold_pows; lia].
Qed.

Lemma body_call k res :
  0 <= k < nsl p -> opc (insn_k p k) = 0x85 ->
  gen_disasm_loop_body p (k, res) =
  let i := insn_k p k in
  if src i =? 0 then Ok (k + 1, res ++ [hl_entry "call" ShCall i (imm i)])
  else if src i =? 1 then Ok (k + 1, res ++ [hl_entry "callx" ShCall i (imm i)]) else Panic 0.
Proof.
  intros Hk Ho. unfold gen_disasm_loop_body. rewrite get_k by exact Hk. cbn [bind]. cbv zeta.
  rewrite cast_imm_k by exact Hk. rewrite Ho, call_arm.
  destruct (src (insn_k p k) =? 0).
  { cbn [bind]. unfold cadd. rewrite chk_ok by (apply in_ty_usz; fold_pows; lia). cbn [bind]. unfold hl_entry. now rewrite Ho. }
  destruct (src (insn_k p k) =? 1); [|reflexivity].
  cbn [bind]. unfold cadd. rewrite chk_ok by (apply in_ty_usz; fold_pows; lia). cbn [bind]. unfold hl_entry. now rewrite Ho.
Qed.

Lemma body_lddw k res :
  0 <= k -> k + 1 < nsl p -> opc (insn_k p k) = 0x18 ->
  gen_disasm_loop_body p (k, res) =
  Ok (k + 2, res ++ [hl_entry "lddw" ShLddw (insn_k p k) (imm64_of (imm (insn_k p k)) (imm (insn_k p (k + 1))))]).
Proof.
  intros H0 Hk Ho. unfold gen_disasm_loop_body. rewrite get_k by lia. cbn [bind]. cbv zeta.
  rewrite Ho.
  rewrite (lddw_arm p _ (insn_k p (k + 1))); try (apply insn_k_wf; [exact Hb|lia|lia]); [|fold_pows; lia|apply get_k; lia].
  cbn [bind]. unfold cadd. rewrite chk_ok by (apply in_ty_usz; fold_pows; lia). cbn [bind].
  unfold hl_entry. rewrite Ho. replace (k + 1 + 1) with (k + 2) by lia. reflexivity.
Qed.

Lemma loop_spec fuel : forall n k res t,
  0 <= k -> k + Z.of_nat n = nsl p -> (n < fuel)%nat ->
  hl_list (decode_from p k n) = Some t ->
  loop fuel (gen_disasm_loop_cond p) (gen_disasm_loop_body p) (k, res) = Ok (nsl p, res ++ t).
Proof.
  induction fuel as [|f IH]; intros n k res t H0 Hkn Hf Hl; [lia|].
  cbn [loop]. rewrite loop_cond_at by lia. cbn [bind].
  destruct n as [|n].
  { cbn [decode_from hl_list] in Hl. injection Hl as <-. rewrite app_nil_r.
    destruct (Z.ltb_spec (k * 8) (len p)); [lia|]. f_equal. f_equal. lia. }
  destruct (Z.ltb_spec (k * 8) (len p)); [|lia].
  cbn [decode_from hl_list] in Hl.
  destruct (lookup (opc (insn_k p k)) mnemonics) as [[name sh]|] eqn:L; [|discriminate].
  assert (Hk : 0 <= k < nsl p) by lia.
  assert (G : forall sh', sh = sh' -> sh' <> ShLddw -> sh' <> ShCall ->
              option_map (cons (hl_entry name sh' (insn_k p k) (imm (insn_k p k)))) (hl_list (decode_from p (k + 1) n)) = Some t ->
              s' <- gen_disasm_loop_body p (k, res);; loop f (gen_disasm_loop_cond p) (gen_disasm_loop_body p) s' = Ok (nsl p, res ++ t)).
  { intros sh' -> N1 N2 Hl'. rewrite (body_generic k res name sh') by assumption. cbn [bind].
    destruct (hl_list (decode_from p (k + 1) n)) as [t'|] eqn:T; [|discriminate]. cbn [option_map] in Hl'. injection Hl' as <-.
    rewrite (IH n (k + 1) _ t') by (try assumption; lia). rewrite <- app_assoc. reflexivity. }
  destruct sh; try (apply (G _ eq_refl); [discriminate|discriminate|exact Hl]).
  - (* call *)
    destruct (lookup_call _ _ L) as [Ho ->].
    rewrite body_call by assumption. cbv zeta.
    destruct (src (insn_k p k) =? 0).
    { cbn [bind]. destruct (hl_list (decode_from p (k + 1) n)) as [t'|] eqn:T; [|discriminate]. cbn [option_map] in Hl. injection Hl as <-.
      rewrite (IH n (k + 1) _ t') by (try assumption; lia). rewrite <- app_assoc. reflexivity. }
    destruct (src (insn_k p k) =? 1); [|discriminate].
    cbn [bind]. destruct (hl_list (decode_from p (k + 1) n)) as [t'|] eqn:T; [|discriminate]. cbn [option_map] in Hl. injection Hl as <-.
    rewrite (IH n (k + 1) _ t') by (try assumption; lia). rewrite <- app_assoc. reflexivity.
  - (* lddw *)
    destruct (lookup_lddw _ _ L) as [Ho ->].
    destruct n as [|n]; [discriminate|]. cbn [decode_from] in Hl.
    destruct (hl_list (decode_from p (k + 1 + 1) n)) as [t'|] eqn:T; [|discriminate]. cbn [option_map] in Hl. injection Hl as <-.
    rewrite body_lddw by (try assumption; lia). cbn [bind].
    replace (k + 1 + 1) with (k + 2) in T by lia.
    rewrite (IH n (k + 2) _ t') by (try assumption; lia). rewrite <- app_assoc. reflexivity.
Qed.
End Loop.

(** ** C15 *)
Theorem disasm_correct p t :
  bytes_ok p -> len p mod 8 = 0 -> len p < 2 ^ 63 ->
  hl_list (decode_all p) = Some t ->
  forall fuel, (Z.to_nat (nsl p) < fuel)%nat -> gen_to_insn_vec fuel p = Ok t.
Proof.
  intros Hb Hm Hx Hl fuel Hf. unfold gen_to_insn_vec.
  unfold is_multiple_of. change (8 =? 0) with false. cbv iota. rewrite Hm. change (0 =? 0) with true. cbn [negb]. cbv iota.
  destruct (Z.eqb_spec (len p) 0) as [E|E].
  - cbn [bind]. unfold decode_all, nsl in Hl. rewrite E in Hl. cbn in Hl. now injection Hl as <-.
  - cbn [bind]. cbv zeta.
    assert (Hn : 0 <= nsl p) by (unfold nsl, len; apply Z.div_pos; lia).
    rewrite (loop_spec p Hb Hm Hx fuel (Z.to_nat (nsl p)) 0 [] t); try assumption; try lia. reflexivity.
Qed.
