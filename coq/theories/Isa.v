(** The eBPF instruction semantics the interpreter (and the compilers) must implement: written from
    the eBPF ISA and the text of properties C01, C02, C07, C08 -- not from interpreter.rs.
    Registers are 64-bit values in Z, the opcode is decoded structurally (class / operation /
    source bit / size), memory accesses are confined to the execution's regions. *)
From Coq Require Import ZArith List Bool.
From RbpfV Require Import MachInt Ebpf Mem InterpDefs WellFormed.
Import ListNotations.
Open Scope Z_scope.

Definition u64 (x : Z) : Z := x mod 2 ^ 64.
Definition u32 (x : Z) : Z := x mod 2 ^ 32.
Definition s64 (x : Z) : Z := smod 64 x.
Definition s32 (x : Z) : Z := smod 32 x.

(** ** ALU: operation [op] (high nibble of the opcode) at width [w] on operands already reduced
    to [0, 2^w); [None] = the destination register is left untouched *)
Definition alu (w : Z) (op a b : Z) : option Z :=
  let m := 2 ^ w in
  match op with
  | 0x0 => Some ((a + b) mod m)
  | 0x1 => Some ((a - b) mod m)
  | 0x2 => Some ((a * b) mod m)
  | 0x3 => Some (if b =? 0 then 0 else a / b)                       (* division by zero gives 0 *)
  | 0x4 => Some (Z.lor a b)
  | 0x5 => Some (Z.land a b)
  | 0x6 => Some ((a * 2 ^ (b mod w)) mod m)                         (* shift counts masked to the width *)
  | 0x7 => Some (a / 2 ^ (b mod w))
  | 0x8 => Some ((- a) mod m)
  | 0x9 => if b =? 0 then None else Some (a mod b)                  (* modulo by zero leaves the destination *)
  | 0xa => Some (Z.lxor a b)
  | 0xb => Some b
  | 0xc => Some ((smod w a / 2 ^ (b mod w)) mod m)                  (* arithmetic shift *)
  | _ => None
  end.

(** byte swaps truncate to their width *)
Definition to_little (width v : Z) : Z := v mod 2 ^ width.
Definition to_big (width v : Z) : Z :=
  of_le_bytes (rev (le_bytes (Z.to_nat (width / 8)) (v mod 2 ^ width))).

(** ** branch conditions at width [w] (operands reduced to [0, 2^w)) *)
Definition cond (w : Z) (op a b : Z) : bool :=
  match op with
  | 0x1 => a =? b
  | 0x2 => b <? a
  | 0x3 => b <=? a
  | 0x4 => negb (Z.land a b =? 0)
  | 0x5 => negb (a =? b)
  | 0x6 => smod w b <? smod w a
  | 0x7 => smod w b <=? smod w a
  | 0xa => a <? b
  | 0xb => a <=? b
  | 0xc => smod w a <? smod w b
  | 0xd => smod w a <=? smod w b
  | _ => false
  end.

(** ** memory: an access of [n] bytes at [a] is allowed iff all its bytes lie in the metadata
    buffer, the packet, the stack or one registered range (C02) *)
Definition in_range (lo hi a n : Z) : bool := (lo <=? a) && (a + n <=? hi).
Definition access_ok (E : ienv) (a n : Z) : bool :=
  (a + n <? 2 ^ 64) &&
  (in_range (e_mbuff_base E) (e_mbuff_base E + e_mbuff_len E) a n
   || in_range (e_mem_base E) (e_mem_base E + e_mem_len E) a n
   || in_range (e_stack_base E) (e_stack_base E + e_stack_len E) a n
   || existsb (fun r => in_range (fst r) (snd r) a n) (e_allowed E)).

Definition size_of (o : Z) : Z :=   (* access width from the size bits of the opcode *)
  match (o / 8) mod 4 with 0 => 4 | 1 => 2 | 2 => 1 | _ => 8 end.

Inductive stepres := SNext (s : istate) | SRet (r : Z) (m : mem).

Definition set_reg (reg : list Z) (i v : Z) : list Z := upd reg i v.

(** the frame size recorded for a frame slot is refreshed whenever execution passes a
    function entry known to the stack-usage map (at pc 0 and at every local-call target) *)
Definition refresh_usage (E : ienv) (stacks : list frame) (idx pc : Z) : res (list frame) :=
  if idx <? 8 then
    match e_usage E pc with
    | Some u => frames_set_usage stacks idx u
    | None => Ok stacks
    end
  else Ok stacks.

(** ** one instruction: [i] is the instruction at [pc], [next] = pc + 1 *)
Definition isa_exec_dec (o cl op : Z) (use_reg : bool)
    (E : ienv) (i : insn) (reg : list Z) (next fidx : Z) (stacks : list frame) (m : mem)
  : res stepres :=
  let d := dst i in
  let sr := src i in
  if (cl =? 7) || (cl =? 4) then
    (* ALU64 / ALU32 *)
    if o =? op_le then Ok (SNext (set_reg reg d (to_little (imm i) (rd reg d)), next, fidx, stacks, m))
    else if o =? op_be then Ok (SNext (set_reg reg d (to_big (imm i) (rd reg d)), next, fidx, stacks, m))
    else
      let w := if cl =? 7 then 64 else 32 in
      let a := rd reg d mod 2 ^ w in
      let b := (if use_reg then rd reg sr else imm i) mod 2 ^ w in     (* immediates sign-extended *)
      match alu w op a b with
      | Some v => Ok (SNext (set_reg reg d v, next, fidx, stacks, m))  (* 32-bit results zero-extended *)
      | None => Ok (SNext (reg, next, fidx, stacks, m))
      end
  else if (cl =? 5) || (cl =? 6) then
    if o =? op_ja then Ok (SNext (reg, next + off i, fidx, stacks, m))
    else if o =? op_call then
      if sr =? 0 then
        (* helper call: exactly the registered function, once, on (r1..r5); result in r0 *)
        match e_helpers E (u32 (imm i)) with
        | Some f => Ok (SNext (set_reg reg 0 (f (rd reg 1) (rd reg 2) (rd reg 3) (rd reg 4) (rd reg 5)), next, fidx, stacks, m))
        | None => Err EUnknownHelper
        end
      else if sr =? 1 then
        (* local call: at most 8 nested frames; r6-r9 and the return address are saved; the callee's
           frame lies below the caller's by the caller's frame size *)
        if 8 <=? fidx then Err ECallDepth else
        stacks <- frames_save_regs stacks fidx reg ;;
        stacks <- frames_save_ret stacks fidx next ;;
        u <- frames_usage stacks fidx ;;
        Ok (SNext (set_reg reg 10 (u64 (rd reg 10 - u)), next + imm i, fidx + 1, stacks, m))
      else Err EBadCallType
    else if o =? op_tail_call then Err ETailCall
    else if o =? op_exit then
      if 0 <? fidx then
        reg' <- frames_restore_regs stacks (fidx - 1) reg ;;
        ra <- frames_ret stacks (fidx - 1) ;;
        u <- frames_usage stacks (fidx - 1) ;;
        Ok (SNext (set_reg reg' 10 (u64 (rd reg' 10 + u)), ra, fidx - 1, stacks, m))
      else Ok (SRet (rd reg 0) m)
    else
      let w := if cl =? 5 then 64 else 32 in
      let a := rd reg d mod 2 ^ w in
      let b := (if use_reg then rd reg sr else imm i) mod 2 ^ w in
      Ok (SNext (reg, (if cond w op a b then next + off i else next), fidx, stacks, m))
  else if o =? op_lddw then
    let hi := imm (insn_at (e_prog E) next) in
    Ok (SNext (set_reg reg d (u64 (u32 (imm i) + u32 hi * 2 ^ 32)), next + 1, fidx, stacks, m))
  else if cl =? 0 then
    (* absolute / indirect packet loads: address = packet start + immediate (+ source register) *)
    let n := size_of o in
    let a := if o / 32 =? 1 then u64 (e_mem_base E + u32 (imm i))
             else u64 (e_mem_base E + rd reg sr + u32 (imm i)) in
    if access_ok E a n then Ok (SNext (set_reg reg 0 (mload m a n), next, fidx, stacks, m)) else Err EOobLoad
  else if cl =? 1 then
    let n := size_of o in
    let a := u64 (rd reg sr + off i) in
    if access_ok E a n then Ok (SNext (set_reg reg d (mload m a n), next, fidx, stacks, m)) else Err EOobLoad
  else
    (* ST / STX / XADD *)
    let n := size_of o in
    let a := u64 (rd reg d + off i) in
    if negb (access_ok E a n) then Err EOobStore
    else if is_xadd o then
      if a mod n =? 0
      then Ok (SNext (reg, next, fidx, stacks, mstore m a n ((mload m a n + rd reg sr) mod 2 ^ (8 * n))))
      else Err EUnaligned
    else
      let v := if cl =? 2 then imm i else rd reg sr in        (* stores truncate to the width *)
      Ok (SNext (reg, next, fidx, stacks, mstore m a n (v mod 2 ^ (8 * n)))).

(** decoding of the opcode byte: class = low 3 bits, operation = high nibble, source bit = bit 3 *)
Definition isa_exec (E : ienv) (i : insn) (reg : list Z) (next fidx : Z) (stacks : list frame) (m : mem)
  : res stepres :=
  let o := opc i in
  isa_exec_dec o (o mod 8) (o / 16) ((o / 8) mod 2 =? 1) E i reg next fidx stacks m.

Definition isa_step (E : ienv) (s : istate) : res stepres :=
  let '(reg, pc, fidx, stacks, m) := s in
  let i := insn_at (e_prog E) pc in
  stacks <- refresh_usage E stacks fidx pc ;;
  isa_exec E i reg (pc + 1) fidx stacks m.

(** ** a whole execution, on the same driver shape as the implementation model *)
Fixpoint isa_steps (fuel : nat) (E : ienv) (s : istate) : outcome :=
  match fuel with
  | O => OFuel
  | S f =>
      match isa_step E s with
      | Ok (SNext s') => isa_steps f E s'
      | Ok (SRet r m) => ODone r m
      | Err e => OErr e (snd s)
      | Panic _ => OPanic
      | OutOfFuel => OFuel
      end
  end.

(** entry state (C09): r1 = metadata buffer if there is one, else the packet if non-empty, else 0;
    r10 = top of the 512-byte stack; every other register 0 *)
Definition isa_init_regs (E : ienv) : list Z :=
  let r1 := if negb (e_mbuff_len E =? 0) then e_mbuff_base E
            else if negb (e_mem_len E =? 0) then e_mem_base E else 0 in
  [0; r1; 0; 0; 0; 0; 0; 0; 0; 0; e_stack_base E + e_stack_len E].

Definition isa_run (fuel : nat) (E : ienv) (m0 : mem) : outcome :=
  isa_steps fuel E (isa_init_regs E, 0, 0, stacks0, m0).
