(** C12 (logic part): on every program the verifier accepts, the jump-target bookkeeping of the x86-64 JIT stays in
    range -- the target recorded for every jump and local call is an instruction start of the program, so the
    indexing `pc_locs[jump.target_pc as usize]` in resolve_jumps is within the vector jit_compile allocated and hits
    an entry that was filled in; and the eBPF -> x86 register map is injective and avoids the scratch registers.
    Everything named gen_* is regenerated from src/jit.rs (coq/gen/JitLogic.v); acceptance is the regenerated verifier. *)
From Coq Require Import ZArith Lia Bool List.
From RbpfV Require Import MachInt BitLemmas ListLemmas Ebpf WellFormed Verifier VerifierProofs.
From RbpfV.gen Require Import JitLogic.
Import ListNotations.
Open Scope Z_scope.
Ltac Zify.zify_post_hook ::= Z.div_mod_to_equations.

Lemma register_map_ok :
  List.length gen_register_map = 11%nat /\ NoDup gen_register_map /\
  Forall (fun r => 0 <= r < 16 /\ ~ In r gen_jit_scratch) gen_register_map.
Proof.
  split; [reflexivity|]. split.
  - unfold gen_register_map. repeat (constructor; [cbn [In]; intros H; repeat (destruct H as [H|H]; [discriminate H|]); exact H|]). constructor.
  - unfold gen_register_map, gen_jit_scratch. repeat (constructor; [split; [lia|cbn [In]; intros H; repeat (destruct H as [H|H]; [discriminate H|]); exact H]|]). constructor.
Qed.

Section Accepted.
Variable p : list Z.
Hypothesis Hb : bytes_ok p.
Hypothesis Hacc : acc p.

Let Hs : shape p. Proof. exact (proj1 (acc_shape p Hb Hacc)). Qed.
Let Hall : forallb (insn_ok p) (starts p) = true. Proof. exact (proj2 (proj2 (acc_shape p Hb Hacc))). Qed.

Lemma pc_locs_len : gen_jit_pc_locs_len p = Ok (nslots p + 1).
Proof.
  unfold gen_jit_pc_locs_len. pose proof (nslots_pos p Hs) as [Hn Hl]. pose proof (sh_max p Hs).
  unfold cadd. fold (nslots p). rewrite chk_ok by (apply in_ty_usz; fold_pows; lia). reflexivity.
Qed.

Lemma target_ok k (t : Z) : 0 <= k < nslots p -> - 2 ^ 31 <= t - k - 1 < 2 ^ 31 -> In t (starts p) ->
  cadd ISZ 0 (cast ISZ k) (cast ISZ (t - k - 1)) = Ok (t - 1) /\ cadd ISZ 0 (t - 1) 1 = Ok t /\
  0 <= gen_jit_resolve_index t < nslots p + 1.
Proof.
  intros Hk Hd Hin. pose proof (nslots_pos p Hs) as [Hn Hl]. pose proof (sh_max p Hs).
  pose proof (starts_in_range p _ _ _ Hin) as Rt.
  assert (C1 : cast ISZ k = k) by (apply norm_idem; unfold in_ty, tmin, tmax; cbn [signed bits]; fold_pows; lia).
  assert (C2 : cast ISZ (t - k - 1) = t - k - 1) by (apply norm_idem; unfold in_ty, tmin, tmax; cbn [signed bits]; fold_pows; lia).
  rewrite C1, C2. unfold cadd. replace (k + (t - k - 1)) with (t - 1) by lia.
  rewrite !chk_ok by (unfold in_ty, tmin, tmax; cbn [signed bits]; fold_pows; lia).
  replace (t - 1 + 1) with t by lia. split; [reflexivity|]. split; [reflexivity|].
  unfold gen_jit_resolve_index. rewrite cast_usz_small; [lia|fold_pows; lia].
Qed.

Theorem jit_jump_targets_in_range k :
  In k (starts p) -> is_jump (opc (insn_at p k)) = true ->
  exists t, gen_jit_jump_target k (insn_at p k) = Ok t /\ In t (starts p) /\
            0 <= gen_jit_resolve_index t < nslots p + 1.
Proof.
  intros Hk Hj. pose proof (starts_in_range p _ _ _ Hk) as Rk.
  pose proof (proj1 (forallb_forall _ _) Hall k Hk) as H. unfold insn_ok, insn_ok_gen in H. cbv zeta in H.
  rewrite !andb_true_iff in H. destruct H as (((((((_ & _) & _) & _) & H5) & _) & _) & _).
  rewrite Hj in H5. apply andb_true_iff in H5 as [_ H5]. unfold lands_on_start in H5. apply inb_In in H5.
  pose proof (insn_at_wf p k Hs ltac:(lia)) as (_ & _ & _ & Ho & _).
  set (t := k + 1 + off (insn_at p k)) in *.
  destruct (target_ok k t ltac:(lia) ltac:(subst t; fold_pows; lia) H5) as (A & B & C).
  exists t. split; [|split; assumption].
  unfold gen_jit_jump_target. replace (off (insn_at p k)) with (t - k - 1) by (subst t; lia).
  rewrite A. cbn [bind]. rewrite B. reflexivity.
Qed.

Theorem jit_call_targets_in_range k :
  In k (starts p) -> opc (insn_at p k) = op_call -> src (insn_at p k) = 1 ->
  exists t, gen_jit_call_target k (insn_at p k) = Ok t /\ In t (starts p) /\
            0 <= gen_jit_resolve_index t < nslots p + 1.
Proof.
  intros Hk Hc Hsrc. pose proof (starts_in_range p _ _ _ Hk) as Rk.
  pose proof (proj1 (forallb_forall _ _) Hall k Hk) as H. unfold insn_ok, insn_ok_gen in H. cbv zeta in H.
  rewrite !andb_true_iff in H. destruct H as (((((((_ & _) & _) & _) & _) & H6) & _) & _).
  rewrite Hc in H6. change (op_call =? op_call) with true in H6. cbv iota in H6.
  rewrite Hsrc in H6. change (1 =? 0) with false in H6. change (1 =? 1) with true in H6. cbn [orb andb] in H6.
  unfold lands_on_start in H6. apply inb_In in H6.
  pose proof (insn_at_wf p k Hs ltac:(lia)) as (_ & _ & _ & _ & Hi).
  set (t := k + 1 + imm (insn_at p k)) in *.
  destruct (target_ok k t ltac:(lia) ltac:(subst t; fold_pows; lia) H6) as (A & B & C).
  exists t. split; [|split; assumption].
  unfold gen_jit_call_target. replace (imm (insn_at p k)) with (t - k - 1) by (subst t; lia).
  rewrite A. cbn [bind]. rewrite B. reflexivity.
Qed.
End Accepted.

(** resolve_jumps: the displacement written after a jump opcode makes the x86 jump (next instruction address + rel32)
    land on the recorded target location, for code buffers below 2 GiB; and the computation does not overflow *)
Theorem jit_rel32_lands offset_loc target_loc :
  0 <= offset_loc -> offset_loc + 4 < 2 ^ 31 -> 0 <= target_loc < 2 ^ 31 ->
  exists rel, gen_jit_rel32 offset_loc target_loc = Ok rel /\ (offset_loc + 4) + rel = target_loc /\ - 2 ^ 31 <= rel < 2 ^ 31.
Proof.
  intros H0 H1 H2. unfold gen_jit_rel32.
  assert (C : forall x, - 2 ^ 31 <= x < 2 ^ 31 -> cast I32 x = x) by (intros x Hx; apply norm_idem; unfold in_ty, tmin, tmax; cbn [signed bits]; fold_pows; lia).
  rewrite !C by (fold_pows; lia). unfold cadd, csub.
  rewrite chk_ok by (unfold in_ty, tmin, tmax; cbn [signed bits]; fold_pows; lia). cbn [bind]. cbv zeta.
  rewrite chk_ok by (unfold in_ty, tmin, tmax; cbn [signed bits]; fold_pows; lia). cbn [bind].
  eexists; split; [reflexivity|]. fold_pows. lia.
Qed.
