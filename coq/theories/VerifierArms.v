(** C06: the generated verifier accepts exactly the well-formed programs, and never panics. *)
From Coq Require Import ZArith Lia Bool List.
From RbpfV Require Import MachInt BitLemmas ListLemmas Ebpf CodecProofs WellFormed Verifier.
From RbpfV.gen Require Import Opcodes Codec Verifier.
Import ListNotations.
Open Scope Z_scope.
Ltac Zify.zify_post_hook ::= Z.div_mod_to_equations.

(** * A. every arm of the generated opcode table is one of eight kinds *)
Inductive vkind := KPlain (st : bool) | KLddw | KJmp | KEnd | KXadd | KCall | KReject.

Definition vkind_of (o : Z) : vkind :=
  if negb (supported o) then KReject
  else if o =? op_lddw then KLddw
  else if is_jump o then KJmp
  else if (o =? op_le) || (o =? op_be) then KEnd
  else if is_xadd o then KXadd
  else if o =? op_call then KCall
  else KPlain (is_store o).

Definition arm_of_kind (k : vkind) (prog : list Z) (i : insn) (ip : Z) : res (Z * bool) :=
  match k with
  | KPlain st => Ok (ip, st)
  | KLddw => gen_check_arm op_lddw prog i ip false
  | KJmp => gen_check_arm op_ja prog i ip false
  | KEnd => gen_check_arm op_le prog i ip false
  | KXadd => gen_check_arm op_xadd_w prog i ip false
  | KCall => gen_check_arm op_call prog i ip false
  | KReject => Err 0
  end.

Lemma below_256 (P : Z -> Prop) :
  (forall n : nat, (n < 256)%nat -> P (Z.of_nat n)) -> forall o, 0 <= o < 256 -> P o.
Proof. intros H o Ho. rewrite <- (Z2Nat.id o) by lia. apply H. lia. Qed.

Lemma arm_class prog i ip o : 0 <= o < 256 ->
  gen_check_arm o prog i ip false = arm_of_kind (vkind_of o) prog i ip.
Proof.
  revert o. apply below_256. intros n Hn.
  Time do 256 (destruct n as [|n];
    [reflexivity|]).
  lia.
Qed.


(** facts about each kind, by enumeration of the 256 opcode bytes *)
Definition kind_fact (o : Z) : Prop :=
  match vkind_of o with
  | KReject => supported o = false
  | KLddw => o = op_lddw
  | KJmp => supported o = true /\ is_jump o = true /\ (o =? op_lddw) = false /\ (o =? op_call) = false
            /\ ((o =? op_le) || (o =? op_be)) = false /\ is_xadd o = false /\ is_store o = false
  | KEnd => supported o = true /\ is_jump o = false /\ (o =? op_lddw) = false /\ (o =? op_call) = false
            /\ ((o =? op_le) || (o =? op_be)) = true /\ is_xadd o = false /\ is_store o = false
  | KXadd => supported o = true /\ is_jump o = false /\ (o =? op_lddw) = false /\ (o =? op_call) = false
            /\ ((o =? op_le) || (o =? op_be)) = false /\ is_xadd o = true /\ is_store o = true
  | KCall => o = op_call
  | KPlain st => supported o = true /\ is_jump o = false /\ (o =? op_lddw) = false /\ (o =? op_call) = false
            /\ ((o =? op_le) || (o =? op_be)) = false /\ is_xadd o = false /\ is_store o = st
  end.

Lemma kind_facts o : 0 <= o < 256 -> kind_fact o.
Proof.
  revert o. apply below_256. intros n Hn.
  do 256 (destruct n as [|n]; [vm_compute; repeat split; reflexivity|]).
  lia.
Qed.
