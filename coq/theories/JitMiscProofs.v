(** C03 (byte swaps, the wide load): the x86 instructions jit.rs emits for LE / BE at each width and for LD_DW_IMM
    (regenerated into coq/gen/JitMisc.v; machine model X86Seq.v) leave the ISA value in the destination and change no other
    register. *)
From Coq Require Import ZArith Lia Bool List.
From RbpfV Require Import MachInt BitLemmas ArmBase ArmVals Ebpf X86Enc X86Sem X86Seq Isa ClAluProofs ClMiscProofs JitArmsProofs JitMulDivProofs.
From RbpfV.gen Require Import Opcodes JitMisc.
Import ListNotations.
Open Scope Z_scope.
Ltac Zify.zify_post_hook ::= Z.div_mod_to_equations.

Definition gen_jit_endian (big : bool) (w : Z) : Z -> list xi :=
  if big then (if w =? 16 then gen_jit_be16 else if w =? 32 then gen_jit_be32 else gen_jit_be64)
  else (if w =? 16 then gen_jit_le16 else if w =? 32 then gen_jit_le32 else gen_jit_le64).

Lemma iconst64_norm v : 0 <= v < 2 ^ 64 -> cast I64 v mod 2 ^ 64 = v mod 2 ^ 64.
Proof. intros Hv. unfold cast, norm. cbn [signed bits]. now rewrite smod_mod by lia. Qed.
Lemma land_ffff a : 0 <= a -> Z.land a 65535 = a mod 2 ^ 16.
Proof. intros H. change 65535 with (Z.ones 16). apply Z.land_ones. lia. Qed.

Lemma rol16_8_swap v : 0 <= v < 2 ^ 64 -> rol16 v 8 mod 2 ^ 16 = to_big 16 v.
Proof.
  intros Hv. unfold rol16, to_big. change (16 / 8) with 2. change (Z.to_nat 2) with 2%nat.
  change ((8 mod 32) mod 16) with 8. change (16 - 8) with 8.
  set (x := v mod 2 ^ 16). change (le_bytes 2 x) with [x mod 256; x / 256 mod 256]. cbn [rev app].
  change (of_le_bytes [x / 256 mod 256; x mod 256]) with (x / 256 mod 256 + 256 * (x mod 256 + 256 * 0)).
  assert (Hx : 0 <= x < 2 ^ 16) by (apply Z.mod_pos_bound; fold_pows; lia).
  replace (v - x) with (2 ^ 16 * (v / 2 ^ 16)) by (unfold x; fold_pows; lia).
  set (y := ((x * 2 ^ 8) mod 2 ^ 16 + x / 2 ^ 8) mod 2 ^ 16).
  replace (2 ^ 16 * (v / 2 ^ 16) + y) with (y + (v / 2 ^ 16) * 2 ^ 16) by ring.
  rewrite Z.mod_add by (fold_pows; lia). unfold y. rewrite Z.mod_mod by (fold_pows; lia).
  fold_pows. lia.
Qed.

Section Steps2.
Variables (f : nat) (l : list xi) (s : xst).
Lemma srun_and32 r m : srun (S f) (XAluI32 0 129 4 r m :: l) s
  = srun f l {| x_r := rset (x_r s) r (Z.land (x_r s r mod 2 ^ 32) (m mod 2 ^ 32) mod 2 ^ 32); x_stk := x_stk s; x_fl := None |}.
Proof. reflexivity. Qed.
Lemma srun_mov32 a b : srun (S f) (XAlu 0 137 a b :: l) s
  = srun f l {| x_r := rset (x_r s) b (x_r s a mod 2 ^ 32 mod 2 ^ 32); x_stk := x_stk s; x_fl := x_fl s |}.
Proof. reflexivity. Qed.
Lemma srun_rol16 r c : srun (S (S f)) (XOpSize :: XAluI8 0 193 0 r c :: l) s
  = srun (S f) l {| x_r := rset (x_r s) r (rol16 (x_r s r) (c mod 256)); x_stk := x_stk s; x_fl := None |}.
Proof. reflexivity. Qed.
Lemma srun_bswap w r : srun (S f) (XBswap w r :: l) s
  = srun f l {| x_r := rset (x_r s) r (bswapv (opw w) (x_r s r)); x_stk := x_stk s; x_fl := x_fl s |}.
Proof. reflexivity. Qed.
End Steps2.

Theorem jit_endian_arms big w R stk d : In w [16; 32; 64] -> (forall r, 0 <= R r < 2 ^ 64) ->
  exists R' fl, run_seq (gen_jit_endian big w d) R stk = Some (XFall {| x_r := R'; x_stk := stk; x_fl := fl |})
             /\ R' d = isa_endian_value big w (R d) /\ forall r, r <> d -> R' r = R r.
Proof.
  intros Hw HR. pose proof (HR d) as Rd.
  assert (W : w = 16 \/ w = 32 \/ w = 64) by (cbn [In] in Hw; destruct Hw as [<-|[<-|[<-|[]]]]; tauto).
  destruct W as [-> | [-> | ->]]; destruct big; unfold gen_jit_endian, isa_endian_value; cbn [Z.eqb Pos.eqb];
    unfold gen_jit_be16, gen_jit_be32, gen_jit_be64, gen_jit_le16, gen_jit_le32, gen_jit_le64, run_seq; cbn [length].
  - (* be16: rol r16, 8; and r32, 0xffff *)
    rewrite srun_rol16. cbn [x_r x_stk x_fl]. rewrite srun_and32. cbn [x_r x_stk x_fl]. rewrite srun_nil.
    eexists; eexists; split; [reflexivity|]. split.
    + rewrite !rset_same. change (65535 mod 2 ^ 32) with 65535. change (8 mod 256) with 8.
      rewrite land_ffff by (apply Z.mod_pos_bound; fold_pows; lia).
      rewrite mod_pow_small by lia. rewrite mod_mod_pow by lia.
      now apply rol16_8_swap.
    + intros r N. now rewrite !rset_other by assumption.
  - (* le16: and r32, 0xffff *)
    rewrite srun_and32. cbn [x_r x_stk x_fl]. rewrite srun_nil.
    eexists; eexists; split; [reflexivity|]. split.
    + rewrite rset_same. change (65535 mod 2 ^ 32) with 65535. rewrite land_ffff by (apply Z.mod_pos_bound; fold_pows; lia).
      rewrite mod_pow_small by lia. rewrite mod_mod_pow by lia. reflexivity.
    + intros r N. now rewrite rset_other by assumption.
  - (* be32: bswap r32 *)
    rewrite srun_bswap. cbn [x_r x_stk x_fl]. rewrite srun_nil.
    eexists; eexists; split; [reflexivity|]. split; [rewrite rset_same; reflexivity | intros r N; now rewrite rset_other by assumption].
  - (* le32: mov r32, r32 *)
    rewrite srun_mov32. cbn [x_r x_stk x_fl]. rewrite srun_nil.
    eexists; eexists; split; [reflexivity|]. split.
    + rewrite rset_same. unfold to_little. apply Z.mod_mod. fold_pows; lia.
    + intros r N. now rewrite rset_other by assumption.
  - (* be64: bswap r64 *)
    rewrite srun_bswap. cbn [x_r x_stk x_fl]. rewrite srun_nil.
    eexists; eexists; split; [reflexivity|]. split; [rewrite rset_same; reflexivity | intros r N; now rewrite rset_other by assumption].
  - (* le64: nothing *)
    rewrite srun_nil. eexists; eexists; split; [reflexivity|]. split; [|reflexivity].
    cbn [x_r]. unfold to_little. symmetry. now apply Z.mod_small.
Qed.

(** the wide load: the constant handed to emit_load_imm is low + high * 2^32, and the emitted mov puts it in the destination *)
Theorem jit_lddw_arm lo hi R stk d : - 2 ^ 31 <= lo < 2 ^ 31 -> - 2 ^ 31 <= hi < 2 ^ 31 ->
  exists v, gen_jit_lddw_value lo hi = Ok v /\
  exists R' fl, run_seq (gen_jit_lddw d v) R stk = Some (XFall {| x_r := R'; x_stk := stk; x_fl := fl |})
             /\ R' d = u64 (u32 lo + u32 hi * 2 ^ 32) /\ forall r, r <> d -> R' r = R r.
Proof.
  intros Hlo Hhi. unfold gen_jit_lddw_value. eexists; split; [reflexivity|].
  unfold gen_jit_lddw, run_seq. cbn [length]. rewrite srun_loadimm. cbn [x_r x_stk x_fl]. rewrite srun_nil.
  eexists; eexists; split; [reflexivity|]. split; [|intros r N; now rewrite rset_other by assumption].
  rewrite rset_same.
  unfold wshl. cbn [bits]. change (32 mod 64) with 32.
  assert (A : cast U64 (cast U32 lo) = u32 lo).
  { unfold cast, norm, u32. cbn [signed bits]. unfold umod. apply mod_pow_small. lia. }
  assert (B : norm U64 (cast U64 hi * 2 ^ 32) = u32 hi * 2 ^ 32).
  { unfold cast, norm, u32. cbn [signed bits]. unfold umod.
    change (2 ^ 64) with (2 ^ 32 * 2 ^ 32) at 2. rewrite Z.mul_mod_distr_r by (fold_pows; lia).
    now rewrite mod_mod_pow by lia. }
  rewrite A, B. pose proof (Z.mod_pos_bound lo (2 ^ 32) ltac:(fold_pows; lia)) as L. pose proof (Z.mod_pos_bound hi (2 ^ 32) ltac:(fold_pows; lia)) as H.
  fold (u32 lo) in L. fold (u32 hi) in H.
  rewrite Z.lor_comm, lor_disjoint_add by (assumption || lia).
  assert (Rg : 0 <= u32 hi * 2 ^ 32 + u32 lo < 2 ^ 64) by (fold_pows; lia).
  rewrite iconst64_norm by exact Rg. unfold u64. rewrite Z.add_comm. reflexivity.
Qed.

(** ** helper calls.  System V AMD64 ABI: integer arguments in rdi, rsi, rdx, rcx, r8; result in rax; rbx, rbp, r12-r15 are
    preserved by the callee; rsp must be 16-byte aligned at the call (the prologue establishes it -- exercised by C08's
    alignment probes -- and an even number of pushes keeps it). *)
From RbpfV.gen Require Import JitLogic.
Definition sysv_args : list Z := [7; 6; 2; 1; 8].
Definition sysv_callee_saved : list Z := [3; 5; 12; 13; 14; 15].
Definition ereg (k : nat) : Z := nth k gen_register_map 0.     (* x86 register holding eBPF register k *)

Theorem jit_helper_call_contract R stk : (forall r, 0 <= R r < 2 ^ 64) ->
  exists R1 fl1,
    (* before the call: two pushes (an even number: the alignment parity of rsp is kept) *)
    run_seq gen_jit_call_pre R stk = Some (XFall {| x_r := R1; x_stk := R 10 :: R 10 :: stk; x_fl := fl1 |})
    (* the five argument registers hold eBPF r1..r5 *)
    /\ map R1 sysv_args = map (fun k => R (ereg k)) [1; 2; 3; 4; 5]%nat
    /\ (forall r, r <> 1 -> R1 r = R r)
    (* after it: whatever the helper did to the caller-saved registers, provided it kept the callee-saved ones *)
    /\ forall R2 fl2, (forall r, In r sysv_callee_saved -> R2 r = R1 r) ->
       exists R3 fl3,
         srun 3 gen_jit_call_post {| x_r := R2; x_stk := R 10 :: R 10 :: stk; x_fl := fl2 |}
           = Some (XFall {| x_r := R3; x_stk := stk; x_fl := fl3 |})
         /\ R3 (ereg 0) = R2 0
         /\ R3 10 = R 10
         /\ forall k, In k [6; 7; 8; 9; 10]%nat -> R3 (ereg k) = R (ereg k).
Proof.
  intros HR. unfold gen_jit_call_pre, gen_jit_call_post, run_seq. cbn [length].
  rewrite srun_mov, srun_push, srun_push, srun_nil. cbn [x_r x_stk x_fl].
  eexists; eexists. split; [rewrite !(rset_other R 1 _ 10) by lia; reflexivity|].
  split; [|split].
  - unfold sysv_args, ereg, gen_register_map. cbn [map nth].
    rewrite rset_same, !rset_other by lia. rewrite !(Z.mod_small (R 9)) by apply HR. reflexivity.
  - intros r N. now rewrite rset_other by assumption.
  - intros R2 fl2 Hsaved.
    erewrite srun_pop by reflexivity. cbn [x_r x_stk x_fl]. erewrite srun_pop by reflexivity. cbn [x_r x_stk x_fl]. rewrite srun_nil.
    eexists; eexists. split; [reflexivity|]. split; [|split].
    + unfold ereg, gen_register_map. cbn [nth]. now rewrite !rset_other by lia.
    + now rewrite rset_same.
    + intros k Hk. unfold ereg, gen_register_map. cbn [In] in Hk.
      destruct Hk as [<-|[<-|[<-|[<-|[<-|[]]]]]]; cbn [nth]; rewrite !rset_other by lia;
        (rewrite Hsaved by (unfold sysv_callee_saved; cbn [In]; lia)); now rewrite rset_other by lia.
Qed.

Lemma jit_call_key i : gen_jit_call_key i = u32 (imm i) /\ gen_jit_call_unknown_is_error = true.
Proof. split; reflexivity. Qed.

From RbpfV.gen Require Import ClMisc.
Lemma compiled_call_key : forall i, - 2 ^ 31 <= imm i < 2 ^ 31 ->
  gen_jit_call_key i = u32 (imm i) /\ gen_jit_call_unknown_is_error = true /\
  gen_cl_call_key i = u32 (imm i) /\ gen_cl_call_args = [1; 2; 3; 4; 5] /\ gen_cl_call_result = 0.
Proof. intros i Hi. destruct (jit_call_key i) as [A B]. destruct (cl_call_shape i Hi) as (_ & C & D & E). repeat split; assumption. Qed.
