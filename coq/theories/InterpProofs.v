(** C01 / C02 / C05 / C07 / C08 / C09 (interpreter): one step of the regenerated interpreter equals one
    step of the ISA specification on every reachable state of every accepted program; the
    invariant that makes this so is preserved; hence whole runs agree and never panic. *)
From Coq Require Import ZArith Lia Bool List.
From RbpfV Require Import MachInt BitLemmas ListLemmas Ebpf CodecProofs Mem InterpDefs WellFormed Verifier
  VerifierArms VerifierProofs Isa ArmBase ArmVals MemLemmas InterpArmsAlu InterpArmsJmp InterpArmsMem InterpArmsCall Interp.
From RbpfV.gen Require Import Opcodes Codec Interp.
Import ListNotations.
Open Scope Z_scope.
Ltac Zify.zify_post_hook ::= Z.div_mod_to_equations.

(** * A. every supported opcode belongs to one of the proved groups *)
Definition L_alu := [0x04; 0x0c; 0x14; 0x1c; 0x24; 0x2c; 0x44; 0x4c; 0x54; 0x5c; 0x64; 0x6c; 0x74; 0x7c;
                     0xa4; 0xac; 0xb4; 0xbc;
                     0x07; 0x0f; 0x17; 0x1f; 0x27; 0x2f; 0x47; 0x4f; 0x57; 0x5f; 0xa7; 0xaf; 0xb7; 0xbf; 0x87].
Definition L_sh64 := [0x67; 0x6f; 0x77; 0x7f; 0xc7; 0xcf].
Definition L_arsh32 := [0xc4; 0xcc; 0x84].
Definition L_div := [0x34; 0x3c; 0x37; 0x3f].
Definition L_mod := [0x94; 0x9c; 0x97; 0x9f].
Definition L_end := [0xd4; 0xdc].
Definition L_jmp := [0x1d; 0x2d; 0x3d; 0x4d; 0x5d; 0x6d; 0x7d; 0xad; 0xbd; 0xcd; 0xdd;
        0x45; 0x65; 0x75; 0xc5; 0xd5;
        0x16; 0x1e; 0x26; 0x2e; 0x36; 0x3e; 0x46; 0x4e; 0x56; 0x5e; 0x66; 0x6e; 0x76; 0x7e;
        0xa6; 0xae; 0xb6; 0xbe; 0xc6; 0xce; 0xd6; 0xde].
Definition L_jimm := [0x15; 0x25; 0x35; 0x55; 0xa5; 0xb5].
Definition L_ldx := [0x61; 0x69; 0x71; 0x79].
Definition L_st := [0x62; 0x6a; 0x72; 0x7a; 0x63; 0x6b; 0x73; 0x7b].
Definition L_xadd := [0xc3; 0xdb].
Definition L_ldabs := [0x20; 0x28; 0x30; 0x38].
Definition L_ldind := [0x40; 0x48; 0x50; 0x58].

Definition group_of (o : Z) : Z :=
  if inb o L_alu then 1 else if inb o L_sh64 then 2 else if inb o L_arsh32 then 3 else if inb o L_div then 4
  else if inb o L_mod then 5 else if inb o L_end then 6 else if o =? 0x18 then 7 else if o =? 0x05 then 8
  else if inb o L_jmp then 9 else if inb o L_jimm then 10 else if inb o L_ldx then 11 else if inb o L_st then 12
  else if inb o L_xadd then 13 else if inb o L_ldabs then 14 else if inb o L_ldind then 15
  else if o =? 0x85 then 16 else if o =? 0x95 then 17 else 0.

Lemma supported_grouped o : supported o = true ->
  group_of o <> 0 /\ (is_jump o = (group_of o =? 8) || (group_of o =? 9) || (group_of o =? 10))
  /\ (is_store o = (group_of o =? 12) || (group_of o =? 13)) /\ (is_xadd o = (group_of o =? 13))
  /\ ((o =? op_le) || (o =? op_be) = (group_of o =? 6)).
Proof.
  intros H. assert (R : 0 <= o < 256).
  { unfold supported in H. rewrite !andb_true_iff in H. destruct H as [[A B] _]. apply Z.leb_le in A. apply Z.ltb_lt in B. lia. }
  revert H. revert o R.
  apply (below_256 (fun o => supported o = true ->
    group_of o <> 0 /\ (is_jump o = (group_of o =? 8) || (group_of o =? 9) || (group_of o =? 10))
    /\ (is_store o = (group_of o =? 12) || (group_of o =? 13)) /\ (is_xadd o = (group_of o =? 13))
    /\ ((o =? op_le) || (o =? op_be) = (group_of o =? 6)))). intros n Hn.
  do 256 (destruct n as [|n]; [vm_compute; first [discriminate | intros _; repeat split; discriminate]|]).
  lia.
Qed.

Lemma jmp_class o : supported o = true -> (o mod 8 =? 5) || (o mod 8 =? 6) = true ->
  (o =? op_ja) = false -> (o =? op_call) = false -> (o =? op_exit) = false -> is_jump o = true.
Proof.
  intros H. assert (R : 0 <= o < 256).
  { unfold supported in H. rewrite !andb_true_iff in H. destruct H as [[A B] _]. apply Z.leb_le in A. apply Z.ltb_lt in B. lia. }
  revert H. revert o R.
  apply (below_256 (fun o => supported o = true -> (o mod 8 =? 5) || (o mod 8 =? 6) = true ->
    (o =? op_ja) = false -> (o =? op_call) = false -> (o =? op_exit) = false -> is_jump o = true)). intros n Hn.
  do 256 (destruct n as [|n]; [vm_compute; intros A B C D F; first [reflexivity|discriminate A|discriminate B|discriminate C|discriminate D|discriminate F]|]).
  lia.
Qed.

(** * B. the arm of every instruction of an accepted program *)
Definition no_d7 (i : insn) : Prop := In (opc i) L_jimm -> 0 <= imm i.

Section Step.
Variable E : ienv.
Let p := e_prog E.
Hypothesis Hb : bytes_ok p.
Hypothesis Hacc : acc p.
Hypothesis He : env_ok E.

Lemma p_shape : shape p. Proof. exact (proj1 (acc_shape p Hb Hacc)). Qed.
Lemma p_last : last_ok p = true. Proof. exact (proj1 (proj2 (acc_shape p Hb Hacc))). Qed.
Lemma p_all : forall k, In k (starts p) -> insn_ok p k = true.
Proof. apply forallb_forall. exact (proj2 (proj2 (acc_shape p Hb Hacc))). Qed.
Lemma p_small : nslots p <= 1000000.
Proof. pose proof p_shape as Hs. pose proof (nslots_pos p Hs). pose proof (sh_max p Hs). lia. Qed.

Lemma start_range k : In k (starts p) -> 0 <= k < nslots p.
Proof. intros H. apply starts_in_range in H. lia. Qed.

Lemma lands_start t : lands_on_start (starts p) t = true -> In t (starts p).
Proof. unfold lands_on_start. apply inb_In. Qed.

(** what the verifier established about the instruction at a start *)
Record vfacts (k : Z) : Prop := {
  vf_wf : wf_insn (insn_at p k);
  vf_sup : supported (opc (insn_at p k)) = true;
  vf_src : src (insn_at p k) <= 10;
  vf_dst : dst (insn_at p k) <= 9 \/ (dst (insn_at p k) = 10 /\ is_store (opc (insn_at p k)) = true);
  vf_lddw : opc (insn_at p k) = op_lddw -> k + 1 < nslots p /\ opc (insn_at p (k + 1)) = 0;
  vf_jump : is_jump (opc (insn_at p k)) = true -> In (k + 1 + off (insn_at p k)) (starts p);
  vf_call : opc (insn_at p k) = op_call -> src (insn_at p k) = 0 \/ (src (insn_at p k) = 1 /\ In (k + 1 + imm (insn_at p k)) (starts p));
  vf_end : (opc (insn_at p k) =? op_le) || (opc (insn_at p k) =? op_be) = true ->
           imm (insn_at p k) = 16 \/ imm (insn_at p k) = 32 \/ imm (insn_at p k) = 64;
  vf_xadd : is_xadd (opc (insn_at p k)) = true -> imm (insn_at p k) = 0 }.

Lemma verifier_facts k : In k (starts p) -> vfacts k.
Proof.
  intros Hk. pose proof (p_all k Hk) as H. pose proof (start_range k Hk) as Rk.
  unfold insn_ok, insn_ok_gen in H. cbv zeta in H. rewrite !andb_true_iff in H.
  destruct H as (((((((H1 & H2) & H3) & H4) & H5) & H6) & H7) & H8).
  constructor.
  - apply insn_at_wf; [exact p_shape|exact Rk].
  - exact H1.
  - now apply Z.leb_le.
  - rewrite orb_true_iff, andb_true_iff, Z.leb_le, Z.eqb_eq in H3. tauto.
  - intros E1. rewrite E1 in H4. change (op_lddw =? op_lddw) with true in H4. cbv iota in H4.
    rewrite andb_true_iff, Z.ltb_lt, Z.eqb_eq in H4. exact H4.
  - intros E1. rewrite E1 in H5. rewrite andb_true_iff in H5. apply lands_start, H5.
  - intros E1. rewrite E1 in H6. change (op_call =? op_call) with true in H6. cbv iota in H6.
    rewrite orb_true_iff, andb_true_iff, !Z.eqb_eq in H6. destruct H6 as [A|[A B]]; [now left|right; split; [exact A|now apply lands_start]].
  - intros E1. rewrite E1 in H7. rewrite !orb_true_iff, !Z.eqb_eq in H7. tauto.
  - intros E1. rewrite E1 in H8. now apply Z.eqb_eq.
Qed.

Lemma arm_ok k reg fidx stacks m :
  In k (starts p) -> regs_ok reg -> frames_ok stacks -> 0 <= fidx <= 8 ->
  2 ^ 16 <= rd reg 10 <= 2 ^ 63 -> mem_ok m -> no_d7 (insn_at p k) ->
  gen_interp_arm (opc (insn_at p k)) E (insn_at p k) (cast USZ (dst (insn_at p k))) (cast USZ (src (insn_at p k)))
                 reg (k + 1) fidx stacks m
  = conv (isa_exec E (insn_at p k) reg (k + 1) fidx stacks m).
Proof.
  intros Hk Hr Hf Hfi Hr10 Hm Hd7.
  pose proof (verifier_facts k Hk) as [Hw Hsup Hsrc Hdst Hlddw Hjump Hcall Hend Hxadd].
  pose proof (start_range k Hk) as Rk. pose proof p_small as Pn.
  unfold p in *. set (i := insn_at (e_prog E) k) in *. set (o := opc i) in *.
  pose proof (supported_grouped o Hsup) as (G0 & Gj & Gs & Gx & Ge).
  assert (Hd10 : dst i <= 10).
  { destruct Hdst as [D|[D _]]; [apply Z.le_trans with 9; [exact D|discriminate]|rewrite D; discriminate]. }
  assert (Hn62 : 0 <= k + 1 < 2 ^ 62) by (change (2 ^ 62) with 4611686018427387904; lia).
  assert (Tj : is_jump o = true -> 0 <= k + 1 + off i < 2 ^ 62).
  { intros J. pose proof (start_range _ (Hjump J)) as T. unfold p in T. change (2 ^ 62) with 4611686018427387904; clear - T Pn; lia. }
  unfold group_of in G0, Gj, Gs, Gx, Ge.
  destruct (inb o L_alu) eqn:C1; [apply inb_In in C1; now apply alu_arms|].
  destruct (inb o L_sh64) eqn:C2; [apply inb_In in C2; now apply sh64_arms|].
  destruct (inb o L_arsh32) eqn:C3; [apply inb_In in C3; now apply arsh32_arms|].
  destruct (inb o L_div) eqn:C4; [apply inb_In in C4; now apply div_arms|].
  destruct (inb o L_mod) eqn:C5; [apply inb_In in C5; now apply mod_arms|].
  destruct (inb o L_end) eqn:C6; [apply inb_In in C6; apply endian_arms; auto|].
  destruct (Z.eqb_spec o 24) as [C7|C7].
  { fold o. rewrite C7. destruct (Hlddw C7) as [L1 L2].
    apply lddw_arm; auto.
    - apply get_insn_at; [exact p_shape|clear - Rk L1; lia].
    - assert (R1 : 0 <= k + 1 < nslots (e_prog E)) by (clear - Rk L1; lia).
      exact (proj2 (proj2 (proj2 (proj2 (insn_at_wf (e_prog E) (k + 1) p_shape R1))))). }
  destruct (Z.eqb_spec o 5) as [C8|C8].
  { fold o. rewrite C8. apply ja_arm; auto; apply Tj; rewrite Gj; reflexivity. }
  destruct (inb o L_jmp) eqn:C9; [apply inb_In in C9; apply jmp_arms; auto; apply Tj; rewrite Gj; reflexivity|].
  destruct (inb o L_jimm) eqn:C10; [apply inb_In in C10; apply jmp_imm64_arms; auto; apply Tj; rewrite Gj; reflexivity|].
  destruct (inb o L_ldx) eqn:C11; [apply inb_In in C11; now apply ldx_arms|].
  destruct (inb o L_st) eqn:C12; [apply inb_In in C12; now apply st_arms|].
  destruct (inb o L_xadd) eqn:C13; [apply inb_In in C13; now apply xadd_arms|].
  destruct (inb o L_ldabs) eqn:C14; [apply inb_In in C14; now apply ldabs_arms|].
  destruct (inb o L_ldind) eqn:C15; [apply inb_In in C15; now apply ldind_arms|].
  destruct (Z.eqb_spec o 133) as [C16|C16].
  { fold o. rewrite C16. apply call_arm; auto.
    intros S1. destruct (Hcall C16) as [S0|[_ T]]; [clear - S0 S1; lia|]. pose proof (start_range _ T) as T'. unfold p in T'.
    change (2 ^ 62) with 4611686018427387904; clear - T' Pn; lia. }
  destruct (Z.eqb_spec o 149) as [C17|C17].
  { fold o. rewrite C17. apply exit_arm; auto. }
  contradiction G0. reflexivity.
Qed.

(** * C. instruction starts are closed under fall-through *)
Lemma starts_from_closed : forall f k0, (Z.to_nat (nslots p - k0) <= f)%nat ->
  forall k, In k (starts_from f p k0) -> k + step_of p k < nslots p -> In (k + step_of p k) (starts_from f p k0).
Proof.
  induction f as [|f IH]; intros k0 Hf k Hk Hlt; [destruct Hk|].
  cbn [starts_from] in Hk |- *. destruct (Z.ltb_spec k0 (nslots p)) as [A|A]; [|destruct Hk].
  pose proof (step_of_range p k0) as R0.
  destruct Hk as [<-|Hk].
  - right. destruct f as [|f]; [lia|]. cbn [starts_from].
    destruct (Z.ltb_spec (k0 + step_of p k0) (nslots p)) as [B|B]; [now left|lia].
  - right. apply IH; [lia|exact Hk|exact Hlt].
Qed.

Lemma next_start k : In k (starts p) -> k + step_of p k < nslots p -> In (k + step_of p k) (starts p).
Proof. intros Hk Hlt. unfold starts in *. apply starts_from_closed; [lia|exact Hk|exact Hlt]. Qed.

Lemma not_last k : In k (starts p) -> opc (insn_at p k) <> op_exit -> opc (insn_at p k) <> op_ja -> k + 1 < nslots p.
Proof.
  intros Hk N1 N2. pose proof (start_range k Hk) as R. pose proof p_last as L. unfold last_ok in L.
  destruct (Z.eq_dec k (nslots p - 1)) as [->|]; [|lia].
  rewrite orb_true_iff, !Z.eqb_eq in L. tauto.
Qed.

Lemma fallthrough_start k : In k (starts p) ->
  opc (insn_at p k) <> op_lddw -> opc (insn_at p k) <> op_exit -> opc (insn_at p k) <> op_ja ->
  In (k + 1) (starts p).
Proof.
  intros Hk N0 N1 N2. pose proof (not_last k Hk N1 N2) as L.
  assert (S1 : step_of p k = 1) by (unfold step_of; destruct (Z.eqb_spec (opc (insn_at p k)) op_lddw); [contradiction|reflexivity]).
  rewrite <- S1 at 1. apply next_start; [exact Hk|rewrite S1; exact L].
Qed.

Lemma lddw_next_start k : In k (starts p) -> opc (insn_at p k) = op_lddw -> In (k + 2) (starts p).
Proof.
  intros Hk E1. destruct (vf_lddw k (verifier_facts k Hk) E1) as [L1 L2].
  assert (S2 : step_of p k = 2) by (unfold step_of; rewrite E1; reflexivity).
  rewrite <- S2 at 1. apply next_start; [exact Hk|rewrite S2].
  pose proof p_last as L. unfold last_ok in L. rewrite orb_true_iff, !Z.eqb_eq in L.
  destruct (Z.eq_dec (k + 1) (nslots p - 1)) as [Eq|]; [|lia].
  rewrite <- Eq, L2 in L. destruct L; discriminate.
Qed.

(** * D. the invariant of interpreter states *)
Definition usage_sum (stacks : list frame) (n : Z) : Z :=
  fold_right Z.add 0 (map f_usage (firstn (Z.to_nat n) stacks)).

Definition Inv (s : istate) : Prop :=
  let '(reg, pc, fidx, stacks, m) := s in
  In pc (starts p) /\ regs_ok reg /\ 0 <= fidx <= 8 /\ frames_ok stacks /\ mem_ok m /\
  rd reg 10 + usage_sum stacks fidx = e_stack_base E + 512 /\
  (forall j, 0 <= j < fidx -> exists f, frame_get stacks j = Ok f /\ In (f_ret f) (starts p)).

Lemma sum_bound (l : list frame) : Forall frame_ok l -> forall k,
  0 <= fold_right Z.add 0 (map f_usage (firstn k l)) <= Z.of_nat k * 65535.
Proof.
  induction 1 as [|f l Hf Hl IH]; intros k.
  - rewrite firstn_nil. cbn. lia.
  - destruct k as [|k]; [cbn; lia|]. cbn [firstn map fold_right]. specialize (IH k).
    destruct Hf as (U & _). change (2 ^ 16) with 65536 in U. lia.
Qed.

Lemma sum_firstn_succ (l : list frame) n f : nth_error l n = Some f ->
  fold_right Z.add 0 (map f_usage (firstn (S n) l)) = fold_right Z.add 0 (map f_usage (firstn n l)) + f_usage f.
Proof.
  revert l. induction n as [|n IH]; intros [|h t] H; cbn in H; try discriminate.
  - inversion H; subst. cbn. lia.
  - specialize (IH t H). cbn [firstn map fold_right] in *. lia.
Qed.

Lemma usage_sum_bound stacks n : frames_ok stacks -> 0 <= n <= 8 -> 0 <= usage_sum stacks n <= 8 * 65535.
Proof.
  intros [_ Hf] Hn. pose proof (sum_bound stacks Hf (Z.to_nat n)). unfold usage_sum. lia.
Qed.

Lemma inv_r10 reg pc fidx stacks m : Inv (reg, pc, fidx, stacks, m) -> 2 ^ 16 <= rd reg 10 <= 2 ^ 63.
Proof.
  intros (_ & _ & Hfi & Hf & _ & Hs & _). pose proof (usage_sum_bound stacks fidx Hf Hfi) as B.
  destruct He as [_ _ (S1 & S2 & S3) _ _]. change (2 ^ 20) with 1048576 in S1. change (2 ^ 16) with 65536. lia.
Qed.

(** frame-array updates at one index *)
Lemma upd_nat_nth_other {A} (l : list A) k j v d : j <> k -> nth j (upd_nat l k v) d = nth j l d.
Proof.
  revert k j. induction l as [|h t IH]; intros [|k] [|j] N; cbn; try reflexivity; try lia. apply IH. lia.
Qed.
Lemma upd_nat_firstn {A} (l : list A) k n v : (n <= k)%nat -> firstn n (upd_nat l k v) = firstn n l.
Proof.
  revert k n. induction l as [|h t IH]; intros [|k] [|n] N; cbn; try reflexivity; try lia. f_equal. apply IH. lia.
Qed.

Lemma frame_set_other stacks k f st' j : frame_set stacks k f = Ok st' -> j <> k -> frame_get st' j = frame_get stacks j.
Proof.
  unfold frame_set, frame_get, flen. intros H N. destruct ((0 <=? k) && (k <? Z.of_nat (length stacks))) eqn:C; [|discriminate].
  inversion H; subst. rewrite upd_nat_length.
  destruct ((0 <=? j) && (j <? Z.of_nat (length stacks))) eqn:D; [|reflexivity].
  rewrite andb_true_iff, Z.leb_le, Z.ltb_lt in C, D. f_equal. apply upd_nat_nth_other. lia.
Qed.
Lemma frame_set_sum stacks k f st' n : frame_set stacks k f = Ok st' -> 0 <= n <= k -> usage_sum st' n = usage_sum stacks n.
Proof.
  unfold frame_set, usage_sum. intros H N. destruct ((0 <=? k) && (k <? flen stacks)); [|discriminate].
  inversion H; subst. rewrite upd_nat_firstn by lia. reflexivity.
Qed.

Lemma refresh_ok stacks fidx pc : frames_ok stacks -> 0 <= fidx <= 8 ->
  exists st', refresh_usage E stacks fidx pc = Ok st' /\ frames_ok st'
    /\ (forall j, j <> fidx -> frame_get st' j = frame_get stacks j)
    /\ usage_sum st' fidx = usage_sum stacks fidx.
Proof.
  intros Hf Hfi. unfold refresh_usage.
  assert (Same : exists st', Ok stacks = Ok st' /\ frames_ok st' /\ (forall j, j <> fidx -> frame_get st' j = frame_get stacks j) /\ usage_sum st' fidx = usage_sum stacks fidx).
  { exists stacks. split; [reflexivity|]. split; [exact Hf|]. split; [intros; reflexivity|reflexivity]. }
  destruct (Z.ltb_spec fidx 8) as [L|L]; [|exact Same].
  destruct (e_usage E pc) as [u|] eqn:Eu; [|exact Same]. clear Same.
  pose proof (eo_usage E He pc u Eu) as Ru.
  destruct (frame_get_ok stacks fidx Hf ltac:(lia)) as (f0 & G0 & U0 & R0 & V0).
  unfold frames_set_usage. rewrite G0. cbn [bind].
  destruct (frame_set_ok stacks fidx {| f_ret := f_ret f0; f_regs := f_regs f0; f_usage := u |} Hf ltac:(lia))
    as (st' & S' & F' & _); [split; [exact Ru|split; assumption]|].
  exists st'. split; [exact S'|]. split; [exact F'|]. split.
  - intros j N. eapply frame_set_other; eauto.
  - eapply frame_set_sum; eauto. lia.
Qed.

Lemma ctl_eta (r : res (ctl (Z * mem) istate)) :
  (c_ <- r ;; match c_ with
              | Ret r_ => Ok (Ret r_)
              | Next (reg, insn_ptr, stack_frame_idx, stacks, m) => Ok (Next (reg, insn_ptr, stack_frame_idx, stacks, m))
              end) = r.
Proof. destruct r as [[[[[[? ?] ?] ?] ?]|?]| | |]; reflexivity. Qed.

(** * E. one iteration of the generated loop = one ISA step *)
Theorem body_refines s : Inv s -> (let '(_, pc, _, _, _) := s in no_d7 (insn_at p pc)) ->
  gen_interp_loop_body E s = conv (isa_step E s).
Proof.
  destruct s as [[[[reg pc] fidx] stacks] m]. intros HI Hd7.
  pose proof (inv_r10 _ _ _ _ _ HI) as R10.
  destruct HI as (Hpc & Hr & Hfi & Hf & Hm & Hs & Hrets).
  pose proof (start_range pc Hpc) as Rpc. pose proof p_small as Pn.
  unfold gen_interp_loop_body, isa_step. fold p.
  rewrite get_insn_at by (try exact p_shape; exact Rpc). cbn [bind].
  change (if fidx <? 8 then match e_usage E pc with Some usage => frames_set_usage stacks fidx usage | None => Ok stacks end else Ok stacks)
    with (refresh_usage E stacks fidx pc).
  destruct (refresh_ok stacks fidx pc Hf Hfi) as (st' & Rf & Hf' & _ & _). rewrite Rf. cbn [bind].
  rewrite cadd_usz_ok by (unfold p in *; clear - Rpc Pn; fold_pows; lia). cbn [bind]. cbv zeta.
  rewrite ctl_eta. apply arm_ok; assumption.
Qed.

(** * F. the invariant is preserved by every ISA step *)
Lemma rd_upd_other reg d v k : d <> k -> 0 <= d -> 0 <= k -> rd (upd reg d v) k = rd reg k.
Proof. intros N Hd Hk. unfold rd, upd. apply upd_nat_nth_other. lia. Qed.

Lemma store_class o : is_store o = true -> o mod 8 = 2 \/ o mod 8 = 3.
Proof.
  unfold is_store, is_st_imm, is_stx, is_xadd, cls. rewrite !orb_true_iff, !andb_true_iff, !Z.eqb_eq.
  intros [[[[H _] _]|[[H _] _]]|[->| ->]]; auto.
Qed.

Lemma alu_range w op a b v : (w = 32 \/ w = 64) -> 0 <= a < 2 ^ w -> 0 <= b < 2 ^ w ->
  alu w op a b = Some v -> 0 <= v < 2 ^ 64.
Proof.
  intros Hw Ra Rb H.
  assert (W : 0 < w <= 64) by lia.
  assert (P : 2 ^ w <= 2 ^ 64) by (apply Z.pow_le_mono_r; lia).
  assert (Q : 0 < 2 ^ w) by (apply pow2_pos; lia).
  assert (K : 0 <= b mod w) by (apply Z.mod_pos_bound; lia).
  assert (M : forall x, 0 <= x mod 2 ^ w < 2 ^ 64) by (intros x; pose proof (Z.mod_pos_bound x (2 ^ w) Q); lia).
  unfold alu in H.
  destruct op as [|q|q]; [|repeat (destruct q as [q|q|]; try discriminate H)|discriminate H];
    try (destruct (Z.eqb_spec b 0); [try discriminate H|]);
    inversion H; subst v; clear H;
    first [ apply M
          | clear - Ra P; lia
          | clear - Rb P; lia
          | pose proof (div_range a b w Ra ltac:(lia)); lia
          | pose proof (Z.mod_pos_bound a b ltac:(lia)); lia
          | pose proof (lor_range a b w ltac:(lia) Ra Rb); lia
          | pose proof (land_range a b w ltac:(lia) Ra ltac:(lia)); lia
          | pose proof (lxor_range a b w ltac:(lia) Ra Rb); lia
          | pose proof (div_pow_range a (b mod w) w Ra K); lia ].
Qed.

Lemma to_little_range wd v : 0 <= wd <= 64 -> 0 <= to_little wd v < 2 ^ 64.
Proof.
  intros H. unfold to_little. pose proof (modp_range v wd ltac:(lia)).
  assert (2 ^ wd <= 2 ^ 64) by (apply Z.pow_le_mono_r; lia). lia.
Qed.
Lemma to_big_range wd v : wd = 16 \/ wd = 32 \/ wd = 64 -> 0 <= to_big wd v < 2 ^ 64.
Proof.
  intros H. unfold to_big. destruct H as [->|[->| ->]].
  - pose proof (rev_le_bytes_range 2 (v mod 2 ^ 16)) as R. change (Z.to_nat (16 / 8)) with 2%nat.
    change (256 ^ Z.of_nat 2) with 65536 in R. fold_pows. lia.
  - pose proof (rev_le_bytes_range 4 (v mod 2 ^ 32)) as R. change (Z.to_nat (32 / 8)) with 4%nat.
    change (256 ^ Z.of_nat 4) with 4294967296 in R. fold_pows. lia.
  - pose proof (rev_le_bytes_range 8 (v mod 2 ^ 64)) as R. change (Z.to_nat (64 / 8)) with 8%nat.
    change (256 ^ Z.of_nat 8) with 18446744073709551616 in R. fold_pows. lia.
Qed.

Lemma inv_keep reg pc fidx stacks m st' pc' m' :
  Inv (reg, pc, fidx, stacks, m) -> frames_ok st' ->
  (forall j, j <> fidx -> frame_get st' j = frame_get stacks j) -> usage_sum st' fidx = usage_sum stacks fidx ->
  In pc' (starts p) -> mem_ok m' -> Inv (reg, pc', fidx, st', m').
Proof.
  intros (Hpc & Hr & Hfi & Hf & Hm & Hs & Hrets) Hf' Ho Hsum Hpc' Hm'.
  refine (conj Hpc' (conj Hr (conj Hfi (conj Hf' (conj Hm' (conj _ _)))))).
  - rewrite Hsum. exact Hs.
  - intros j Hj. rewrite Ho by lia. apply Hrets. exact Hj.
Qed.

Lemma inv_set_reg reg pc fidx stacks m st' d v pc' m' :
  Inv (reg, pc, fidx, stacks, m) -> frames_ok st' ->
  (forall j, j <> fidx -> frame_get st' j = frame_get stacks j) -> usage_sum st' fidx = usage_sum stacks fidx ->
  0 <= d <= 9 -> 0 <= v < 2 ^ 64 -> In pc' (starts p) -> mem_ok m' ->
  Inv (upd reg d v, pc', fidx, st', m').
Proof.
  intros HI Hf' Ho Hsum Hd Hv Hpc' Hm'.
  pose proof (inv_keep _ _ _ _ _ st' pc' m' HI Hf' Ho Hsum Hpc' Hm') as (A & B & C & D & F & G & H).
  refine (conj A (conj _ (conj C (conj D (conj F (conj _ H)))))).
  - apply upd_regs_ok; assumption.
  - rewrite rd_upd_other by lia. exact G.
Qed.

Theorem step_preserves s s' : Inv s -> isa_step E s = Ok (SNext s') -> Inv s'.
Proof.
  destruct s as [[[[reg pc] fidx] stacks] m]. intros HI H.
  pose proof (inv_r10 _ _ _ _ _ HI) as R10. pose proof HI as (Hpc & Hr & Hfi & Hf & Hm & Hs & Hrets).
  pose proof (start_range pc Hpc) as Rpc.
  unfold isa_step in H. fold p in H.
  destruct (refresh_ok stacks fidx pc Hf Hfi) as (st' & Rf & Hf' & Hoth & Hsum). rewrite Rf in H. cbn [bind] in H.
  pose proof (verifier_facts pc Hpc) as [Hw Hsup Hsrc Hdst Hlddw Hjump Hcall Hend Hxadd].
  pose proof Hw as (Ro & Rd & Rs & Roff & Rimm).
  remember (insn_at p pc) as i eqn:Ei in *. remember (opc i) as o eqn:Eo in *.
  pose proof (supported_grouped o Hsup) as (G0 & Gj & Gs & Gx & Ge).
  assert (KEEP : forall pc' m', In pc' (starts p) -> mem_ok m' -> Inv (reg, pc', fidx, st', m'))
    by (intros; eapply inv_keep; eauto).
  assert (SET : forall d v pc' m', 0 <= d <= 9 -> 0 <= v < 2 ^ 64 -> In pc' (starts p) -> mem_ok m' ->
                 Inv (upd reg d v, pc', fidx, st', m')) by (intros; eapply inv_set_reg; eauto).
  assert (FT : o <> op_lddw -> o <> op_exit -> o <> op_ja -> In (pc + 1) (starts p))
    by (intros; apply fallthrough_start; [assumption|rewrite <- Ei, <- Eo; assumption..]).
  unfold isa_exec, isa_exec_dec in H. rewrite <- Eo in H. cbv zeta in H. unfold set_reg in H.
  destruct ((o mod 8 =? 7) || (o mod 8 =? 4)) eqn:Calu.
  { (* ALU *)
    assert (Cl : o mod 8 = 7 \/ o mod 8 = 4) by (rewrite orb_true_iff, !Z.eqb_eq in Calu; exact Calu).
    assert (Hd9 : 0 <= dst i <= 9).
    { destruct Hdst as [D|[_ D]]; [clear - D Rd; lia|]. apply store_class in D. clear - D Cl; lia. }
    assert (Hft : In (pc + 1) (starts p)) by (apply FT; intros C; rewrite C in Cl; vm_compute in Cl; clear - Cl; destruct Cl; discriminate).
    destruct (o =? op_le) eqn:Cle.
    { inversion H; subst s'. apply SET; auto. apply to_little_range.
      destruct Hend as [W|[W|W]]; [reflexivity|rewrite W; clear; lia..]. }
    destruct (o =? op_be) eqn:Cbe.
    { inversion H; subst s'. apply SET; auto. apply to_big_range. apply Hend. reflexivity. }
    remember (if o mod 8 =? 7 then 64 else 32) as w eqn:Ew.
    assert (Hw2 : w = 32 \/ w = 64) by (rewrite Ew; destruct (o mod 8 =? 7); auto).
    match type of H with match alu w ?op ?a ?b with _ => _ end = _ => destruct (alu w op a b) as [v|] eqn:Ealu end.
    - inversion H; subst s'. apply SET; auto.
      eapply alu_range; [exact Hw2| | |exact Ealu]; apply modp_range; clear - Hw2; lia.
    - inversion H; subst s'. apply KEEP; auto. }
  destruct ((o mod 8 =? 5) || (o mod 8 =? 6)) eqn:Cjmp.
  { (* JMP / JMP32 *)
    destruct (o =? op_ja) eqn:Cja.
    { inversion H; subst s'. apply KEEP; auto.
      apply Hjump. rewrite Gj. apply Z.eqb_eq in Cja. rewrite Cja. reflexivity. }
    destruct (o =? op_call) eqn:Ccall.
    { apply Z.eqb_eq in Ccall.
      assert (Hft : In (pc + 1) (starts p)) by (apply FT; rewrite Ccall; discriminate).
      destruct (src i =? 0) eqn:S0.
      { destruct (e_helpers E (u32 (imm i))) as [f|] eqn:Eh; [|discriminate H].
        inversion H; subst s'. apply SET; auto; [clear; lia|]. eapply (eo_helpers E He); eauto. }
      destruct (src i =? 1) eqn:S1; [|discriminate H].
      destruct (8 <=? fidx) eqn:C8; [discriminate H|]. apply Z.leb_gt in C8.
      (* local call *)
      destruct (Hcall Ccall) as [Z0|[_ Tgt]]; [apply Z.eqb_neq in S0; contradiction|].
      destruct (frame_get_ok st' fidx Hf' ltac:(lia)) as (f0 & G0' & U0 & _).
      assert (FK : forall ra, frame_ok {| f_ret := ra; f_regs := [rd reg 6; rd reg 7; rd reg 8; rd reg 9]; f_usage := f_usage f0 |}).
      { intros ra. split; [exact U0|]. split; [reflexivity|]. repeat constructor; apply rd_range; exact Hr. }
      unfold frames_save_regs in H. rewrite G0' in H. cbn [bind] in H.
      destruct (frame_set_ok st' fidx _ Hf' ltac:(lia) (FK (f_ret f0))) as (st1 & S1' & F1 & G1).
      rewrite S1' in H. cbn [bind] in H. unfold frames_save_ret in H. rewrite G1 in H. cbn [bind f_ret f_regs f_usage] in H.
      destruct (frame_set_ok st1 fidx _ F1 ltac:(lia) (FK (pc + 1))) as (st2 & S2' & F2 & G2).
      rewrite S2' in H. cbn [bind] in H. unfold frames_usage in H. rewrite G2 in H. cbn [bind f_usage] in H.
      inversion H; subst s'. clear H.
      assert (Sum1 : usage_sum st2 fidx = usage_sum stacks fidx).
      { rewrite (frame_set_sum st1 fidx _ st2 fidx S2') by lia. rewrite (frame_set_sum st' fidx _ st1 fidx S1') by lia. exact Hsum. }
      assert (Sum2 : usage_sum st2 (fidx + 1) = usage_sum stacks fidx + f_usage f0).
      { unfold usage_sum in *. replace (Z.to_nat (fidx + 1)) with (S (Z.to_nat fidx)) by lia.
        assert (Nth : nth_error st2 (Z.to_nat fidx) = Some {| f_ret := pc + 1; f_regs := [rd reg 6; rd reg 7; rd reg 8; rd reg 9]; f_usage := f_usage f0 |}).
        { unfold frame_get in G2. destruct ((0 <=? fidx) && (fidx <? flen st2)) eqn:C; [|discriminate].
          inversion G2 as [N2]. rewrite andb_true_iff, Z.leb_le, Z.ltb_lt in C. unfold flen in C.
          rewrite (nth_error_nth' st2 frame0) by lia. now rewrite N2. }
        rewrite (sum_firstn_succ st2 (Z.to_nat fidx) _ Nth). cbn [f_usage]. exact (f_equal (fun x => x + f_usage f0) Sum1). }
      pose proof (usage_sum_bound stacks fidx Hf Hfi) as SB.
      destruct U0 as [U0a U0b].
      assert (Rv : 0 <= rd reg 10 - f_usage f0 < 2 ^ 64) by (clear - R10 U0a U0b; change (2 ^ 16) with 65536 in *; fold_pows; lia).
      refine (conj Tgt (conj _ (conj _ (conj F2 (conj Hm (conj _ _)))))).
      + apply upd_regs_ok; [exact Hr|]. unfold u64. apply modp_range. clear; lia.
      + clear - C8 Hfi; lia.
      + rewrite rd_upd_same by (try exact Hr; clear; lia). rewrite Sum2. unfold u64.
        rewrite Z.mod_small by exact Rv. clear - Hs. lia.
      + intros j Hj. destruct (Z.eq_dec j fidx) as [->|Nj].
        * eexists; split; [exact G2|]. cbn [f_ret]. exact Hft.
        * rewrite (frame_set_other st1 fidx _ st2 j S2') by exact Nj.
          rewrite (frame_set_other st' fidx _ st1 j S1') by exact Nj.
          rewrite Hoth by exact Nj. apply Hrets. clear - Hj Nj; lia. }
    destruct (o =? op_tail_call) eqn:Ctc; [discriminate H|].
    destruct (o =? op_exit) eqn:Cex.
    { destruct (0 <? fidx) eqn:Cf; [|discriminate H]. apply Z.ltb_lt in Cf.
      destruct (frame_get_ok st' (fidx - 1) Hf' ltac:(clear - Cf Hfi; lia)) as (f0 & G0' & (U0a & U0b) & R0 & V0).
      unfold frames_restore_regs, frames_ret, frames_usage in H. rewrite G0' in H. cbn [bind] in H.
      inversion H; subst s'. clear H.
      destruct (Hrets (fidx - 1) ltac:(clear - Cf Hfi; lia)) as (f1 & G1 & T1).
      rewrite <- Hoth in G1 by (clear - Cf Hfi; lia). rewrite G0' in G1. inversion G1; subst f1.
      set (reg' := upd (upd (upd (upd reg 6 (nth 0 (f_regs f0) 0)) 7 (nth 1 (f_regs f0) 0)) 8 (nth 2 (f_regs f0) 0)) 9 (nth 3 (f_regs f0) 0)).
      assert (Rr' : regs_ok reg').
      { unfold reg'. destruct (f_regs f0) as [|a [|b [|c [|d [|]]]]]; try discriminate R0.
        inversion V0 as [|? ? Va V1]; subst. inversion V1 as [|? ? Vb V2]; subst. inversion V2 as [|? ? Vc V3]; subst. inversion V3 as [|? ? Vd V4]; subst.
        cbn [nth]. repeat apply upd_regs_ok; assumption. }
      assert (R10' : rd reg' 10 = rd reg 10) by (apply restore_rd10_gen; exact (proj1 Hr)).
      assert (SumE : usage_sum st' fidx = usage_sum st' (fidx - 1) + f_usage f0).
      { unfold usage_sum. replace (Z.to_nat fidx) with (S (Z.to_nat (fidx - 1))) by (clear - Cf Hfi; lia).
        assert (Nth : nth_error st' (Z.to_nat (fidx - 1)) = Some f0).
        { unfold frame_get in G0'. destruct ((0 <=? fidx - 1) && (fidx - 1 <? flen st')) eqn:C; [|discriminate].
          inversion G0' as [N2]. rewrite andb_true_iff, Z.leb_le, Z.ltb_lt in C. unfold flen in C.
          rewrite (nth_error_nth' st' frame0) by (clear - C Cf; lia). reflexivity. }
        exact (sum_firstn_succ st' (Z.to_nat (fidx - 1)) f0 Nth). }
      pose proof (usage_sum_bound st' (fidx - 1) Hf' ltac:(clear - Cf Hfi; lia)) as SB.
      assert (Rv : 0 <= rd reg 10 + f_usage f0 < 2 ^ 64) by (clear - R10 U0a U0b; change (2 ^ 16) with 65536 in *; fold_pows; lia).
      refine (conj T1 (conj _ (conj _ (conj Hf' (conj Hm (conj _ _)))))).
      + apply upd_regs_ok; [exact Rr'|]. unfold u64. apply modp_range. clear; lia.
      + clear - Cf Hfi; lia.
      + rewrite rd_upd_same by (try exact Rr'; clear; lia). rewrite R10'. unfold u64.
        rewrite Z.mod_small by exact Rv. clear - Hs Hsum SumE. lia.
      + intros j Hj. rewrite Hoth by (clear - Hj; lia). apply Hrets. clear - Hj; lia. }
    (* conditional jump *)
    inversion H; subst s'. apply KEEP; auto.
    assert (J : is_jump o = true) by (apply jmp_class; assumption).
    match goal with |- In (if ?c then _ else _) _ => destruct c end.
    - apply Hjump. exact J.
    - apply FT; [intros C; rewrite C in Cjmp; discriminate|apply Z.eqb_neq; assumption..]. }
  assert (Nex : o <> op_exit) by (intros C; rewrite C in Cjmp; discriminate).
  assert (Nja : o <> op_ja) by (intros C; rewrite C in Cjmp; discriminate).
  destruct (o =? op_lddw) eqn:Clddw.
  { apply Z.eqb_eq in Clddw. inversion H; subst s'. apply SET; auto.
    - destruct Hdst as [D|[_ D]]; [clear - D Rd; lia|]. rewrite Clddw in D. discriminate D.
    - unfold u64. apply modp_range. clear; lia.
    - replace (pc + 1 + 1) with (pc + 2) by (clear; lia). apply lddw_next_start; [assumption|rewrite <- Ei, <- Eo; exact Clddw]. }
  apply Z.eqb_neq in Clddw.
  assert (Hft : In (pc + 1) (starts p)) by (apply FT; assumption).
  destruct (o mod 8 =? 0) eqn:Cld.
  { match type of H with (if ?c then _ else _) = _ => destruct c; [|discriminate H] end.
    inversion H; subst s'. apply SET; auto; [clear; lia|]. apply mload_u64; [exact Hm|].
    unfold size_of. clear. destruct ((o / 8) mod 4) as [|[[|[]|]|[]|]|]; lia. }
  destruct (o mod 8 =? 1) eqn:Cldx.
  { match type of H with (if ?c then _ else _) = _ => destruct c; [|discriminate H] end.
    inversion H; subst s'. apply SET; auto.
    - destruct Hdst as [D|[_ D]]; [clear - D Rd; lia|]. apply store_class in D. apply Z.eqb_eq in Cldx. clear - D Cldx; lia.
    - apply mload_u64; [exact Hm|]. unfold size_of. clear. destruct ((o / 8) mod 4) as [|[[|[]|]|[]|]|]; lia. }
  (* stores *)
  match type of H with (if negb ?c then _ else _) = _ => destruct c; cbn [negb] in H; [|discriminate H] end.
  destruct (is_xadd o).
  - match type of H with (if ?c then _ else _) = _ => destruct c; [|discriminate H] end.
    inversion H; subst s'. apply KEEP; auto. apply mstore_ok. exact Hm.
  - inversion H; subst s'. apply KEEP; auto. apply mstore_ok. exact Hm.
Qed.

(** * G. an ISA step from a state satisfying the invariant never panics *)
Theorem isa_step_total s : Inv s ->
  (exists r, isa_step E s = Ok r) \/ (exists e, isa_step E s = Err e).
Proof.
  destruct s as [[[[reg pc] fidx] stacks] m]. intros HI.
  pose proof HI as (Hpc & Hr & Hfi & Hf & Hm & Hs & Hrets).
  unfold isa_step. fold p.
  destruct (refresh_ok stacks fidx pc Hf Hfi) as (st' & Rf & Hf' & Hoth & Hsum). rewrite Rf. cbn [bind].
  unfold isa_exec, isa_exec_dec. cbv zeta.
  remember (insn_at p pc) as i eqn:Ei. remember (opc i) as o eqn:Eo.
  destruct ((o mod 8 =? 7) || (o mod 8 =? 4)).
  { destruct (o =? op_le); [left; eexists; reflexivity|]. destruct (o =? op_be); [left; eexists; reflexivity|].
    match goal with |- context [alu ?w ?op ?a ?b] => destruct (alu w op a b) end; left; eexists; reflexivity. }
  destruct ((o mod 8 =? 5) || (o mod 8 =? 6)).
  { destruct (o =? op_ja); [left; eexists; reflexivity|].
    destruct (o =? op_call).
    { destruct (src i =? 0); [destruct (e_helpers E (u32 (imm i))); [left|right]; eexists; reflexivity|].
      destruct (src i =? 1); [|right; eexists; reflexivity].
      destruct (8 <=? fidx) eqn:C8; [right; eexists; reflexivity|]. apply Z.leb_gt in C8.
      destruct (frame_get_ok st' fidx Hf' ltac:(clear - C8 Hfi; lia)) as (f0 & G0' & U0 & _).
      assert (FK : forall ra, frame_ok {| f_ret := ra; f_regs := [rd reg 6; rd reg 7; rd reg 8; rd reg 9]; f_usage := f_usage f0 |}).
      { intros ra. split; [exact U0|]. split; [reflexivity|]. repeat constructor; apply rd_range; exact Hr. }
      unfold frames_save_regs. rewrite G0'. cbn [bind].
      destruct (frame_set_ok st' fidx _ Hf' ltac:(clear - C8 Hfi; lia) (FK (f_ret f0))) as (st1 & S1' & F1 & G1).
      rewrite S1'. cbn [bind]. unfold frames_save_ret. rewrite G1. cbn [bind f_ret f_regs f_usage].
      destruct (frame_set_ok st1 fidx _ F1 ltac:(clear - C8 Hfi; lia) (FK (pc + 1))) as (st2 & S2' & F2 & G2).
      rewrite S2'. cbn [bind]. unfold frames_usage. rewrite G2. cbn [bind]. left; eexists; reflexivity. }
    destruct (o =? op_tail_call); [right; eexists; reflexivity|].
    destruct (o =? op_exit); [|left; eexists; reflexivity].
    destruct (0 <? fidx) eqn:Cf; [|left; eexists; reflexivity]. apply Z.ltb_lt in Cf.
    destruct (frame_get_ok st' (fidx - 1) Hf' ltac:(clear - Cf Hfi; lia)) as (f0 & G0' & _).
    unfold frames_restore_regs, frames_ret, frames_usage. rewrite G0'. cbn [bind]. left; eexists; reflexivity. }
  destruct (o =? op_lddw); [left; eexists; reflexivity|].
  destruct (o mod 8 =? 0).
  { match goal with |- context [if ?c then _ else _] => destruct c end; [left|right]; eexists; reflexivity. }
  destruct (o mod 8 =? 1).
  { match goal with |- context [if ?c then _ else _] => destruct c end; [left|right]; eexists; reflexivity. }
  match goal with |- context [if negb ?c then _ else _] => destruct c end; cbn [negb]; [|right; eexists; reflexivity].
  destruct (is_xadd o); [|left; eexists; reflexivity].
  match goal with |- context [if ?c then _ else _] => destruct c end; [left|right]; eexists; reflexivity.
Qed.

(** * H. one iteration of the generated loop is safe and keeps the invariant (also on the
      instructions of known finding D7, where it may differ from the ISA) *)
Definition d7_free : Prop := forall k, In k (starts p) -> no_d7 (insn_at p k).

Theorem body_safe s : Inv s ->
  match gen_interp_loop_body E s with
  | Ok (Next s') => Inv s'
  | Ok (Ret _) => True
  | Err _ => True
  | Panic _ => False
  | OutOfFuel => False
  end.
Proof.
  intros HI. destruct s as [[[[reg pc] fidx] stacks] m].
  destruct (inb (opc (insn_at p pc)) L_jimm) eqn:Cd7.
  - (* an unsigned 64-bit jump against an immediate *)
    apply inb_In in Cd7.
    pose proof (inv_r10 _ _ _ _ _ HI) as R10.
    pose proof HI as (Hpc & Hr & Hfi & Hf & Hm & Hs & Hrets).
    pose proof (start_range pc Hpc) as Rpc. pose proof p_small as Pn.
    pose proof (verifier_facts pc Hpc) as [Hw Hsup Hsrc Hdst Hlddw Hjump Hcall Hend Hxadd].
    unfold gen_interp_loop_body. fold p.
    rewrite get_insn_at by (try exact p_shape; exact Rpc). cbn [bind].
    change (if fidx <? 8 then match e_usage E pc with Some usage => frames_set_usage stacks fidx usage | None => Ok stacks end else Ok stacks)
      with (refresh_usage E stacks fidx pc).
    destruct (refresh_ok stacks fidx pc Hf Hfi) as (st' & Rf & Hf' & Hoth & Hsum). rewrite Rf. cbn [bind].
    rewrite cadd_usz_ok by (unfold p in *; clear - Rpc Pn; fold_pows; lia). cbn [bind]. cbv zeta.
    rewrite ctl_eta.
    assert (J : is_jump (opc (insn_at p pc)) = true).
    { clear - Cd7. unfold L_jimm in Cd7. cbn in Cd7. intuition (match goal with H : _ = opc _ |- _ => rewrite <- H end; reflexivity). }
    assert (Tgt : 0 <= pc + 1 + off (insn_at p pc) < 2 ^ 62).
    { pose proof (start_range _ (Hjump J)) as T. unfold p in *. change (2 ^ 62) with 4611686018427387904. clear - T Pn. lia. }
    destruct (jmp_imm64_shape E (insn_at p pc) reg (pc + 1) fidx st' m Hw
                ltac:(unfold p in *; change (2 ^ 62) with 4611686018427387904; clear - Rpc Pn; lia) Tgt _ Cd7) as (c & Harm).
    rewrite Harm. eapply inv_keep; eauto.
    destruct c; [exact (Hjump J)|].
    apply fallthrough_start; auto; intros C; rewrite C in Cd7; unfold L_jimm in Cd7; cbn in Cd7; intuition discriminate.
  - rewrite body_refines; [|exact HI|intros C; apply inb_In in C; rewrite C in Cd7; discriminate].
    destruct (isa_step_total _ HI) as [[r Hr]|[e He']]; rewrite ?Hr, ?He'; cbn [conv]; [|exact I].
    destruct r as [s'|v m']; [|exact I]. eapply step_preserves; eauto.
Qed.

(** * I. whole runs *)
Lemma cond_true s : Inv s -> gen_interp_loop_cond E s = Ok true.
Proof.
  destruct s as [[[[reg pc] fidx] stacks] m]. intros (Hpc & _).
  pose proof (start_range pc Hpc) as Rpc. pose proof p_small as Pn. pose proof (nslots_pos p p_shape) as [Hn Hlen].
  unfold gen_interp_loop_cond. fold p.
  rewrite cmul_usz_ok by (unfold p in *; clear - Rpc Pn; fold_pows; lia). cbn [bind].
  destruct (Z.ltb_spec (pc * 8) (len p)) as [A|A]; [reflexivity|]. exfalso. clear - A Rpc Hlen. lia.
Qed.

Theorem run_steps_safe fuel s : Inv s -> run_steps fuel E s <> OPanic.
Proof.
  revert s. induction fuel as [|f IH]; intros s HI; [discriminate|].
  cbn [run_steps]. rewrite cond_true by exact HI.
  pose proof (body_safe s HI) as B.
  destruct (gen_interp_loop_body E s) as [[s'|[r m']]|e| |]; try discriminate; try contradiction.
  apply IH. exact B.
Qed.

Theorem run_steps_refine fuel s : d7_free -> Inv s -> run_steps fuel E s = isa_steps fuel E s.
Proof.
  intros Hd. revert s. induction fuel as [|f IH]; intros s HI; [reflexivity|].
  cbn [run_steps isa_steps]. rewrite cond_true by exact HI.
  assert (Hnd : let '(_, pc, _, _, _) := s in no_d7 (insn_at p pc)).
  { destruct s as [[[[reg pc] fidx] stacks] m]. apply Hd. exact (proj1 HI). }
  rewrite (body_refines s HI Hnd).
  destruct (isa_step E s) as [[s'|v m']|e| |] eqn:Hs; cbn [conv]; try reflexivity.
  apply IH. eapply step_preserves; eauto.
Qed.
End Step.

(** * J. from the entry state *)
Lemma init_regs_spec E : env_ok E -> gen_init_regs E = Ok (isa_init_regs E).
Proof.
  intros [_ _ (S1 & S2 & S3) _ _]. unfold gen_init_regs, isa_init_regs.
  rewrite S2. rewrite (cast_u64_id 512) by (fold_pows; lia).
  unfold cadd. rewrite chk_u64 by (change (2 ^ 20) with 1048576 in S1; fold_pows; lia). cbn [bind].
  destruct (negb (e_mbuff_len E =? 0)); cbn [bind]; [reflexivity|].
  destruct (negb (e_mem_len E =? 0)); cbn [bind]; reflexivity.
Qed.

Lemma stacks0_ok : frames_ok stacks0.
Proof.
  split; [reflexivity|]. unfold stacks0. cbn [repeat].
  repeat constructor; cbn; try lia; fold_pows; lia.
Qed.

Lemma init_inv E m0 : bytes_ok (e_prog E) -> acc (e_prog E) -> env_ok E -> mem_ok m0 ->
  Inv E (isa_init_regs E, 0, 0, stacks0, m0).
Proof.
  intros Hb Ha He Hm. pose proof (p_shape E Hb Ha) as Hs. pose proof (nslots_pos _ Hs) as [Hn _].
  pose proof He as [(B1 & B2 & B3) (M1 & M2 & M3) (S1 & S2 & S3) _ _].
  refine (conj _ (conj _ (conj _ (conj stacks0_ok (conj Hm (conj _ _)))))).
  - unfold starts. destruct (Z.to_nat (nslots (e_prog E))) eqn:En; [lia|]. cbn [starts_from].
    destruct (Z.ltb_spec 0 (nslots (e_prog E))); [now left|lia].
  - split; [reflexivity|]. unfold isa_init_regs. change (2 ^ 20) with 1048576 in S1.
    assert (R1 : 0 <= (if negb (e_mbuff_len E =? 0) then e_mbuff_base E else if negb (e_mem_len E =? 0) then e_mem_base E else 0) < 2 ^ 64).
    { destruct (negb (e_mbuff_len E =? 0)); [fold_pows; lia|]. destruct (negb (e_mem_len E =? 0)); fold_pows; lia. }
    repeat (constructor; [first [exact R1 | fold_pows; lia]|]). constructor.
  - lia.
  - unfold isa_init_regs, rd, usage_sum. change (Z.to_nat 10) with 10%nat. change (Z.to_nat 0) with 0%nat.
    cbn [nth firstn map fold_right]. rewrite S2. clear. lia.
  - intros j Hj. clear - Hj. lia.
Qed.

(** C05: an accepted program never makes the interpreter panic, whatever the input, the helper
    set and the instruction budget *)
Theorem interp_never_panics E m0 fuel :
  bytes_ok (e_prog E) -> acc (e_prog E) -> env_ok E -> mem_ok m0 -> run fuel E m0 <> OPanic.
Proof.
  intros Hb Ha He Hm. unfold run. rewrite init_regs_spec by exact He.
  apply run_steps_safe; try assumption. now apply init_inv.
Qed.

(** C01: on accepted programs free of the D7 instruction forms, the interpreter and the ISA
    specification produce the same outcome (value, error kind, memory) for every budget *)
Theorem interp_refines_isa E m0 fuel :
  bytes_ok (e_prog E) -> acc (e_prog E) -> env_ok E -> mem_ok m0 -> d7_free E ->
  run fuel E m0 = isa_run fuel E m0.
Proof.
  intros Hb Ha He Hm Hd. unfold run, isa_run. rewrite init_regs_spec by exact He.
  apply run_steps_refine; try assumption. now apply init_inv.
Qed.
