(** C03, one instruction at a time: the effect of the x86 instructions jit.rs emits for an eBPF instruction -- assembled
    from the regenerated arms (gen_jit_alu, gen_jit_muldivmod, byte swaps, lddw, gen_jit_jmp, gen_jit_mem) run on the
    machine models X86Sem / X86Seq -- simulates the ISA step: with eBPF register k held in x86 register REGISTER_MAP[k] and
    R10 holding the packet address, whenever the ISA step succeeds the emitted code ends in the related state.
    [jit_exec] itself is hand-written: it says which arm is emitted for which opcode and what happens between two arms
    (registers are 64-bit: taken modulo 2^64; a taken branch continues at the ISA target -- C03_jump_fixup).  The JIT makes
    no bounds check: the statement is about steps the ISA allows.  Calls are not covered here (helper calls leave r1-r5
    undefined; local calls are known finding D18). *)
From Coq Require Import ZArith Lia Bool List.
From RbpfV Require Import MachInt BitLemmas ArmBase ArmVals Ebpf X86Enc X86Sem X86Seq Mem Stack Helpers InterpDefs WellFormed Isa MemLemmas
  ClAluProofs ClJmpProofs ClMemProofs ClMiscProofs InterpArmsAlu InterpProofs JitLogicProofs JitArmsProofs JitMulDivProofs JitMiscProofs ClStep.
From RbpfV.gen Require Import Opcodes JitLogic JitArms JitMulDiv JitMisc.
Import ListNotations.
Open Scope Z_scope.
Ltac Zify.zify_post_hook ::= Z.div_mod_to_equations.

Definition EStuck : Z := 102.       (* the machine model does not define the emitted sequence on this state *)
Definition ENotModelled : Z := 103. (* local call / tail call *)

(** x86 register holding eBPF register k *)
Definition ez (k : Z) : Z := nth (Z.to_nat k) gen_register_map 0.
Definition norm64 (R : regs) : regs := fun r => R r mod 2 ^ 64.
Definition seq_regs (o : option xout) : option regs :=
  match o with Some (XFall s) => Some (x_r s) | Some (XGoto _ s) => Some (x_r s) | None => None end.
(** registers before the last instruction of a sequence *)
Fixpoint xpre (l : list xi) (R : regs) : option regs :=
  match l with
  | [] => Some R
  | [x] => Some R
  | x :: l' => match xstep x R with Some R' => xpre l' R' | None => None end
  end.

Inductive jres := JNext (R : regs) (pc : Z) (m : mem) | JRet (r : Z) (m : mem).

Definition jit_exec (g : Z -> Z) (E : ienv) (i : insn) (next : Z) (R : regs) (m : mem) : res jres :=
  let o := opc i in
  let d := ez (dst i) in
  let s := ez (src i) in
  if inl o jit_alu_ops then
    match xrun (gen_jit_alu o i d s) R with Some R' => Ok (JNext (norm64 R') next m) | None => Err EStuck end
  else if inl o gen_jit_muldiv_ops then
    match seq_regs (run_seq (gen_jit_muldivmod (next - 1) o s d (imm i)) R []) with
    | Some R' => Ok (JNext (norm64 R') next m) | None => Err EStuck end
  else if (o =? op_le) || (o =? op_be) then
    match seq_regs (run_seq (gen_jit_endian (o =? op_be) (imm i) d) R []) with
    | Some R' => Ok (JNext (norm64 R') next m) | None => Err EStuck end
  else if o =? op_lddw then
    match gen_jit_lddw_value (imm i) (imm (insn_at (e_prog E) next)) with
    | Ok v => match seq_regs (run_seq (gen_jit_lddw d v) R []) with
              | Some R' => Ok (JNext (norm64 R') (next + 1) m) | None => Err EStuck end
    | _ => Err EStuck
    end
  else if o =? op_ja then Ok (JNext R (next + off i) m)
  else if inl o cl_jmp_ops then
    match xcond (fst (gen_jit_jmp o i d s)) (snd (gen_jit_jmp o i d s)) R with
    | Some b => Ok (JNext R (if b then next + off i else next) m)
    | None => Err EStuck
    end
  else if inl o cl_mem_ops then
    match xrun_mem (gen_jit_mem o i d s) R, xpre (gen_jit_mem o i d s) R with
    | Some a, Some Rp =>
      let n := x_bytes a in
      if x_kind a =? 0 then Ok (JNext (norm64 (rset Rp (x_target a) (mload m (x_addr a) n))) next m)
      else if x_kind a =? 1 then Ok (JNext (norm64 Rp) next (mstore m (x_addr a) n (x_val a)))
      else Ok (JNext (norm64 Rp) next (mstore m (x_addr a) n ((mload m (x_addr a) n + x_val a) mod 2 ^ (8 * n))))
    | _, _ => Err EStuck
    end
  else if o =? op_call then
    (* a helper call: mov rcx <- r9, push r10 twice, call, pop r10 twice.  The helper returns its value in rax, keeps the
       callee-saved registers of the System V ABI, and leaves [g r] -- anything -- in every other register r *)
    if src i =? 0 then
      match e_helpers E (gen_jit_call_key i) with
      | Some f =>
        match run_seq gen_jit_call_pre R [] with
        | Some (XFall s1) =>
          let R1 := x_r s1 in
          let R2 : regs := fun r => if r =? 0 then f (R1 7) (R1 6) (R1 2) (R1 1) (R1 8)
                                    else if inl r sysv_callee_saved then R1 r else g r in
          match srun 3 gen_jit_call_post {| x_r := R2; x_stk := x_stk s1; x_fl := None |} with
          | Some (XFall s3) => Ok (JNext (norm64 (x_r s3)) next m)
          | _ => Err EStuck
          end
        | _ => Err EStuck
        end
      | None => Err ENotCompiled
      end
    else Err ENotModelled                              (* local call: known finding D18 *)
  else if o =? op_exit then Ok (JRet (R 0) m)        (* the epilogue leaves rax alone (C03_epilogue) *)
  else Err ENotModelled.

(** the simulation relation *)
Definition jrel (reg : list Z) (R : regs) : Prop :=
  (forall r, 0 <= R r < 2 ^ 64) /\ forall k, 0 <= k <= 10 -> R (ez k) = rd reg k.

Lemma ez_facts k : 0 <= k <= 10 -> 0 <= ez k < 16 /\ ez k <> 1 /\ ez k <> 4 /\ ez k <> 10 /\ ez k <> 11.
Proof.
  intros Hk. assert (C : k = 0 \/ k = 1 \/ k = 2 \/ k = 3 \/ k = 4 \/ k = 5 \/ k = 6 \/ k = 7 \/ k = 8 \/ k = 9 \/ k = 10) by lia.
  repeat (destruct C as [->|C]; [vm_compute; repeat split; try discriminate; reflexivity|]). subst k. vm_compute; repeat split; try discriminate; reflexivity.
Qed.
Lemma ez_inj a b : 0 <= a <= 10 -> 0 <= b <= 10 -> ez a = ez b -> a = b.
Proof.
  intros Ha Hb.
  assert (Ca : a = 0 \/ a = 1 \/ a = 2 \/ a = 3 \/ a = 4 \/ a = 5 \/ a = 6 \/ a = 7 \/ a = 8 \/ a = 9 \/ a = 10) by lia.
  assert (Cb : b = 0 \/ b = 1 \/ b = 2 \/ b = 3 \/ b = 4 \/ b = 5 \/ b = 6 \/ b = 7 \/ b = 8 \/ b = 9 \/ b = 10) by lia.
  repeat (destruct Ca as [->|Ca]); try subst a; repeat (destruct Cb as [->|Cb]); try subst b; vm_compute; intros H; try reflexivity; discriminate H.
Qed.

Lemma norm64_range R r : 0 <= norm64 R r < 2 ^ 64.
Proof. unfold norm64. apply Z.mod_pos_bound. change (2 ^ 64) with 18446744073709551616. lia. Qed.
Lemma norm64_id R r : 0 <= R r < 2 ^ 64 -> norm64 R r = R r.
Proof. intros H. unfold norm64. now apply Z.mod_small. Qed.

Lemma rd_set_same reg k v : regs_ok reg -> 0 <= k <= 10 -> rd (set_reg reg k v) k = v.
Proof. intros. unfold set_reg. now apply rd_upd_same. Qed.
Lemma rd_set_other reg k v j : k <> j -> 0 <= k -> 0 <= j -> rd (set_reg reg k v) j = rd reg j.
Proof. intros. unfold set_reg. now apply rd_upd_other. Qed.

(** an arm that leaves v in the x86 register of eBPF register k and touches nothing else but the scratch registers *)
Lemma jrel_update reg R R' k v : regs_ok reg -> jrel reg R -> 0 <= k <= 10 -> 0 <= v < 2 ^ 64 ->
  R' (ez k) = v -> (forall r, r <> ez k -> r <> 1 -> r <> 11 -> R' r = R r) ->
  jrel (set_reg reg k v) (norm64 R') /\ norm64 R' 10 = R 10.
Proof.
  intros Hr [HR Hm] Hk Hv Hd Ho. destruct (ez_facts k Hk) as (_ & K1 & _ & K10 & K11). split; [split|].
  - intros r. apply norm64_range.
  - intros j Hj. destruct (Z.eq_dec j k) as [->|N].
    + rewrite rd_set_same by assumption. rewrite norm64_id; rewrite Hd; [reflexivity|exact Hv].
    + destruct (ez_facts j Hj) as (_ & J1 & _ & _ & J11).
      assert (NE : ez j <> ez k) by (intros Q; apply N; now apply ez_inj).
      rewrite rd_set_other by lia. rewrite norm64_id; rewrite (Ho _ NE J1 J11); [apply Hm; exact Hj|apply HR].
  - rewrite norm64_id; rewrite Ho by (try lia; intros Q; now symmetry in Q); [reflexivity|apply HR].
Qed.
Lemma jrel_keep reg R R' : jrel reg R -> (forall r, r <> 1 -> r <> 11 -> R' r = R r) ->
  jrel reg (norm64 R') /\ norm64 R' 10 = R 10.
Proof.
  intros [HR Hm] Ho. split; [split|].
  - intros r. apply norm64_range.
  - intros j Hj. destruct (ez_facts j Hj) as (_ & J1 & _ & _ & J11).
    rewrite norm64_id; rewrite (Ho _ J1 J11); [apply Hm; exact Hj|apply HR].
  - rewrite norm64_id; rewrite Ho by lia; [reflexivity|apply HR].
Qed.

Lemma disjoint_inl l1 l2 o : forallb (fun x => negb (inl x l2)) l1 = true -> In o l1 -> inl o l2 = false.
Proof. intros H Hin. apply negb_true_iff. exact (proj1 (forallb_forall _ _) H o Hin). Qed.

(** the instructions before the access of a memory arm only compute the address into the scratch register R11 *)
Lemma xpre_mem i R d s :
  Forall (fun o => exists Rp, xpre (gen_jit_mem o i d s) R = Some Rp /\ forall r, r <> 11 -> Rp r = R r) cl_mem_ops.
Proof.
  unfold cl_mem_ops.
  repeat (apply Forall_cons;
    [ unfold gen_jit_mem;
      match goal with |- exists Rp, xpre ?L _ = _ /\ _ => let L2 := eval simpl in L in change L with L2 end;
      match goal with |- exists Rp, xpre (?f _ _ _) _ = _ /\ _ => unfold f end;
      cbv beta iota zeta delta [xpre xstep binop wr opw Z.eqb Pos.eqb];
      eexists; split; [reflexivity|intros r Nr; rewrite ?rset_other by assumption; reflexivity]
    | ]).
  apply Forall_nil.
Qed.

(** ** ALU *)
Section Sim.
Variable g : Z -> Z.
Variable E : ienv.
Variables (i : insn) (reg : list Z) (R : regs) (next : Z) (m : mem).
Hypothesis Hr : regs_ok reg.
Hypothesis Hrel : jrel reg R.
Hypothesis Hwf : wf_insn i.
Hypothesis Hd : 0 <= dst i <= 10.
Hypothesis Hs : 0 <= src i <= 10.

Let Rd : R (ez (dst i)) = rd reg (dst i). Proof. exact (proj2 Hrel _ Hd). Qed.
Let Rs : R (ez (src i)) = rd reg (src i). Proof. exact (proj2 Hrel _ Hs). Qed.

Lemma jit_alu_sim : In (opc i) jit_alu_ops ->
  let v := newval (isa_alu_value (opc i) i (rd reg (dst i)) (rd reg (src i))) (rd reg (dst i)) in
  0 <= v < 2 ^ 64 ->
  exists R', jit_exec g E i next R m = Ok (JNext R' next m) /\ jrel (set_reg reg (dst i) v) R' /\ R' 10 = R 10.
Proof.
  intros Hin v Hv. destruct Hwf as (_ & _ & _ & _ & Hi). destruct (ez_facts _ Hd) as (_ & D1 & _).
  pose proof (proj1 (Forall_forall _ _) (jit_alu_arms i R (ez (dst i)) (ez (src i)) (proj1 Hrel) D1 Hi) _ Hin) as (R' & Hrun & Hval & Hoth).
  unfold jit_exec. cbv zeta. rewrite (inl_In _ _ Hin), Hrun. eexists. split; [reflexivity|].
  apply jrel_update; try assumption.
  - rewrite Hval, Rd, Rs. reflexivity.
  - intros r N1 N2 _. now apply Hoth.
Qed.

Lemma muldiv_not_alu : forallb (fun x => negb (inl x jit_alu_ops)) gen_jit_muldiv_ops = true.
Proof. vm_compute. reflexivity. Qed.

Lemma jit_muldiv_sim : In (opc i) gen_jit_muldiv_ops ->
  let v := newval (isa_alu_value (opc i) i (rd reg (dst i)) (rd reg (src i))) (rd reg (dst i)) in
  0 <= v < 2 ^ 64 ->
  exists R', jit_exec g E i next R m = Ok (JNext R' next m) /\ jrel (set_reg reg (dst i) v) R' /\ R' 10 = R 10.
Proof.
  intros Hin v Hv. destruct Hwf as (_ & _ & _ & _ & Hi).
  destruct (ez_facts _ Hd) as (D0 & D1 & D4 & _). destruct (ez_facts _ Hs) as (_ & S1 & _).
  pose proof (proj1 (Forall_forall _ _) (jit_muldiv_arms i (next - 1) R [] (ez (dst i)) (ez (src i)) (proj1 Hrel) D0 D1 D4 S1 Hi) _ Hin)
    as (R' & fl & Hrun & Hval & Hoth).
  unfold jit_exec. cbv zeta. rewrite (disjoint_inl _ _ _ muldiv_not_alu Hin), (inl_In _ _ Hin).
  assert (Hsr : seq_regs (run_seq (gen_jit_muldivmod (next - 1) (opc i) (ez (src i)) (ez (dst i)) (imm i)) R []) = Some R').
  { destruct Hrun as [Hrun|Hrun]; rewrite Hrun; reflexivity. }
  rewrite Hsr. eexists. split; [reflexivity|].
  apply jrel_update; try assumption.
  - rewrite Hval, Rd, Rs. reflexivity.
  - intros r N1 N2 _. now apply Hoth.
Qed.

(** dispatch facts *)
Lemma alu_cls_not_alu_ops o : (o mod 8 =? 7) || (o mod 8 =? 4) = false -> inl o jit_alu_ops = false /\ inl o gen_jit_muldiv_ops = false.
Proof.
  intros H. split.
  - apply (inl_false _ _ (fun o => (o mod 8 =? 7) || (o mod 8 =? 4))); [vm_compute; reflexivity|exact H].
  - apply (inl_false _ _ (fun o => (o mod 8 =? 7) || (o mod 8 =? 4))); [vm_compute; reflexivity|exact H].
Qed.
Lemma endian_not_alu_ops : inl op_le jit_alu_ops = false /\ inl op_le gen_jit_muldiv_ops = false /\
                           inl op_be jit_alu_ops = false /\ inl op_be gen_jit_muldiv_ops = false.
Proof. vm_compute. repeat split. Qed.

Lemma jit_endian_sim : opc i = op_le \/ opc i = op_be -> In (imm i) [16; 32; 64] ->
  let v := isa_endian_value (opc i =? op_be) (imm i) (rd reg (dst i)) in
  0 <= v < 2 ^ 64 ->
  exists R', jit_exec g E i next R m = Ok (JNext R' next m) /\ jrel (set_reg reg (dst i) v) R' /\ R' 10 = R 10.
Proof.
  intros Ho Hw v Hv. destruct endian_not_alu_ops as (A1 & A2 & A3 & A4).
  destruct (jit_endian_arms (opc i =? op_be) (imm i) R [] (ez (dst i)) Hw (proj1 Hrel)) as (R' & fl & Hrun & Hval & Hoth).
  unfold jit_exec. cbv zeta.
  assert (D : inl (opc i) jit_alu_ops = false /\ inl (opc i) gen_jit_muldiv_ops = false /\ (opc i =? op_le) || (opc i =? op_be) = true).
  { destruct Ho as [Ho|Ho]; rewrite Ho; repeat split; assumption || reflexivity. }
  destruct D as (D1 & D2 & D3). rewrite D1, D2, D3, Hrun. cbn [seq_regs x_r]. eexists. split; [reflexivity|].
  apply jrel_update; try assumption.
  - rewrite Hval, Rd. reflexivity.
  - intros r N1 _ _. now apply Hoth.
Qed.

Lemma jit_lddw_sim : opc i = op_lddw -> wf_insn (insn_at (e_prog E) next) ->
  let v := u64 (u32 (imm i) + u32 (imm (insn_at (e_prog E) next)) * 2 ^ 32) in
  exists R', jit_exec g E i next R m = Ok (JNext R' (next + 1) m) /\ jrel (set_reg reg (dst i) v) R' /\ R' 10 = R 10.
Proof.
  intros Ho (_ & _ & _ & _ & Hi2) v. destruct Hwf as (_ & _ & _ & _ & Hi).
  destruct (jit_lddw_arm (imm i) (imm (insn_at (e_prog E) next)) R [] (ez (dst i)) Hi Hi2) as (v0 & Hv0 & R' & fl & Hrun & Hval & Hoth).
  unfold jit_exec. cbv zeta. rewrite Ho.
  change (inl op_lddw jit_alu_ops) with false. change (inl op_lddw gen_jit_muldiv_ops) with false.
  change ((op_lddw =? op_le) || (op_lddw =? op_be)) with false. change (op_lddw =? op_lddw) with true. cbv iota.
  rewrite Hv0, Hrun. cbn [seq_regs x_r]. eexists. split; [reflexivity|].
  apply jrel_update; try assumption.
  - unfold v, u64. apply Z.mod_pos_bound. change (2 ^ 64) with 18446744073709551616. lia.
  - intros r N1 _ _. now apply Hoth.
Qed.

Lemma jit_ja_sim : opc i = op_ja -> jit_exec g E i next R m = Ok (JNext R (next + off i) m).
Proof.
  intros Ho. unfold jit_exec. cbv zeta. rewrite Ho.
  change (inl op_ja jit_alu_ops) with false. change (inl op_ja gen_jit_muldiv_ops) with false.
  change ((op_ja =? op_le) || (op_ja =? op_be)) with false. change (op_ja =? op_lddw) with false. change (op_ja =? op_ja) with true. reflexivity.
Qed.

Lemma jit_exit_sim : opc i = op_exit -> jit_exec g E i next R m = Ok (JRet (rd reg 0) m).
Proof.
  intros Ho. unfold jit_exec. cbv zeta. rewrite Ho.
  change (inl op_exit jit_alu_ops) with false. change (inl op_exit gen_jit_muldiv_ops) with false.
  change ((op_exit =? op_le) || (op_exit =? op_be)) with false. change (op_exit =? op_lddw) with false. change (op_exit =? op_ja) with false.
  change (inl op_exit cl_jmp_ops) with false. change (inl op_exit cl_mem_ops) with false. change (op_exit =? op_call) with false. change (op_exit =? op_exit) with true. cbv iota.
  rewrite <- (proj2 Hrel 0) by lia. reflexivity.
Qed.

Lemma jit_jmp_sim : In (opc i) cl_jmp_ops ->
  jit_exec g E i next R m
  = Ok (JNext R (if isa_jump_taken (opc i) i (rd reg (dst i)) (rd reg (src i)) then next + off i else next) m).
Proof.
  intros Hin.
  pose proof (proj1 (forallb_forall _ _) jmp_ops_class _ Hin) as C.
  repeat (apply andb_true_iff in C as [C ?]).
  repeat match goal with H : negb (_ =? _) = true |- _ => apply negb_true_iff in H end.
  assert (A : (opc i mod 8 =? 7) || (opc i mod 8 =? 4) = false).
  { apply orb_true_iff in C. destruct C as [C|C]; apply Z.eqb_eq in C; rewrite C; reflexivity. }
  destruct (alu_cls_not_alu_ops _ A) as [A1 A2].
  pose proof (proj1 (Forall_forall _ _) (jit_jmp_arms i R (ez (dst i)) (ez (src i)) (proj1 Hrel)) _ Hin) as Hc. cbv beta in Hc.
  unfold jit_exec. cbv zeta. rewrite A1, A2.
  repeat match goal with H : (opc i =? _) = false |- _ => rewrite H end. cbn [orb].
  rewrite (inl_In _ _ Hin), Hc, Rd, Rs. reflexivity.
Qed.

Lemma jit_mem_sim fidx stacks reg' pc' fidx' stacks' m' :
  In (opc i) cl_mem_ops -> mem_ok m -> R 10 = e_mem_base E -> (opc i mod 8 = 0 -> 0 <= imm i) ->
  isa_exec E i reg next fidx stacks m = Ok (SNext (reg', pc', fidx', stacks', m')) -> regs_ok reg' ->
  exists R', jit_exec g E i next R m = Ok (JNext R' pc' m') /\ jrel reg' R' /\ R' 10 = R 10.
Proof.
  intros Hin Hm H10 Himm H Hr'. destruct Hwf as (_ & _ & _ & Hoff & Hi).
  pose proof (proj1 (forallb_forall _ _) mem_ops_class _ Hin) as C.
  apply andb_true_iff in C as [C Cx]. apply andb_true_iff in C as [C Nl]. apply andb_true_iff in C as [C0 C3].
  apply Z.leb_le in C0, C3. apply negb_true_iff in Nl. pose proof Nl as Nl'. apply Z.eqb_neq in Nl'.
  assert (Hx : is_xadd (opc i) = true -> opc i mod 8 = 3).
  { intros X. rewrite X in Cx. cbn [negb orb] in Cx. now apply Z.eqb_eq in Cx. }
  assert (A0 : (opc i mod 8 =? 7) || (opc i mod 8 =? 4) = false)
    by (destruct (Z.eqb_spec (opc i mod 8) 7); [lia|]; destruct (Z.eqb_spec (opc i mod 8) 4); [lia|]; reflexivity).
  destruct (alu_cls_not_alu_ops _ A0) as [A1 A2].
  assert (A3 : inl (opc i) cl_jmp_ops = false) by (apply (inl_false _ _ _ jmp_ops_class);
    destruct (Z.eqb_spec (opc i mod 8) 5); [lia|]; destruct (Z.eqb_spec (opc i mod 8) 6); [lia|]; reflexivity).
  rewrite (isa_mem_step E i reg next fidx stacks m (conj C0 C3) Nl' Hx) in H. cbv zeta in H.
  destruct (ez_facts _ Hs) as (_ & _ & _ & _ & S11).
  assert (AM : jit_access_matches (opc i) i R (ez (dst i)) (ez (src i))).
  { change cl_mem_ops with ([0x20; 0x28; 0x30; 0x38; 0x40; 0x48; 0x50; 0x58] ++
      [0x61; 0x69; 0x71; 0x79; 0x62; 0x6a; 0x72; 0x7a; 0x63; 0x6b; 0x73; 0x7b; 0xc3; 0xdb]) in Hin.
    apply in_app_or in Hin as [Hin|Hin].
    - assert (Z0 : opc i mod 8 = 0) by (cbn [In] in Hin; repeat (destruct Hin as [<-|Hin]; [reflexivity|]); destruct Hin).
      apply (proj1 (Forall_forall _ _) (jit_mem_arms_packet i R _ _ (proj1 Hrel) S11 Hoff (conj (Himm Z0) (proj2 Hi))) _ Hin).
    - apply (proj1 (Forall_forall _ _) (jit_mem_arms_regs i R _ _ (proj1 Hrel) S11 Hoff Hi) _ Hin). }
  destruct AM as (a & Ha & K & B & A & V & T). rewrite Rd, Rs, H10 in A. rewrite Rs in V.
  destruct (proj1 (Forall_forall _ _) (xpre_mem i R (ez (dst i)) (ez (src i))) _ Hin) as (Rp & Hp & Hpo).
  unfold jit_exec. cbv zeta. rewrite A1, A2, A3, (inl_In _ _ Hin), Nl.
  destruct (Z.eqb_spec (opc i) op_le) as [E1|_]; [rewrite E1 in C3; vm_compute in C3; now destruct C3|].
  destruct (Z.eqb_spec (opc i) op_be) as [E1|_]; [rewrite E1 in C3; vm_compute in C3; now destruct C3|]. cbn [orb].
  destruct (Z.eqb_spec (opc i) op_ja) as [E1|_]; [rewrite E1 in C3; vm_compute in C3; now destruct C3|].
  rewrite Ha, Hp, K, B, A, V.
  set (ad := isa_addr (opc i) i (rd reg (dst i)) (rd reg (src i)) (e_mem_base E)) in *.
  set (n := size_of (opc i)) in *.
  destruct (isa_kind (opc i) =? 0) eqn:K0.
  - destruct (access_ok E ad n); [|discriminate H]. injection H as <- <- _ _ <-.
    eexists. split; [reflexivity|].
    assert (Tk : x_target a = ez (isa_target (opc i) i) /\ 0 <= isa_target (opc i) i <= 10).
    { rewrite T. unfold isa_target. destruct (Z.eqb_spec (opc i mod 8) 0) as [Z0|NZ0]; [split; [reflexivity|lia]|].
      destruct (Z.eqb_spec (opc i mod 8) 1) as [Z1|NZ1]; [split; [reflexivity|exact Hd]|].
      exfalso. unfold isa_kind in K0. destruct (is_xadd (opc i)); [discriminate K0|].
      rewrite (proj2 (Z.eqb_neq _ _) NZ0), (proj2 (Z.eqb_neq _ _) NZ1) in K0. discriminate K0. }
    destruct Tk as [Tk Tr]. rewrite Tk.
    apply jrel_update; try assumption.
    + pose proof (rd_range _ (isa_target (opc i) i) Hr') as Rg. rewrite rd_set_same in Rg by assumption. exact Rg.
    + now rewrite rset_same.
    + intros r N1 _ N11. rewrite rset_other by assumption. now apply Hpo.
  - destruct (access_ok E ad n); cbn [negb] in H; [|discriminate H].
    destruct (isa_kind (opc i) =? 2) eqn:K2.
    + assert (K1 : (isa_kind (opc i) =? 1) = false) by (apply Z.eqb_eq in K2; rewrite K2; reflexivity). rewrite K1.
      destruct (ad mod n =? 0); [|discriminate H]. injection H as <- <- _ _ <-.
      assert (X : is_xadd (opc i) = true) by (unfold isa_kind in K2; destruct (is_xadd (opc i)); [reflexivity|];
        destruct ((opc i mod 8 =? 0) || (opc i mod 8 =? 1)); discriminate).
      unfold isa_val. rewrite (Hx X). cbn [Z.eqb Pos.eqb orb]. fold n. rewrite Zplus_mod_idemp_r.
      eexists. split; [reflexivity|]. apply jrel_keep; [assumption|]. intros r _ N11. now apply Hpo.
    + assert (K1 : (isa_kind (opc i) =? 1) = true).
      { unfold isa_kind in *. destruct (is_xadd (opc i)); [discriminate|]. destruct ((opc i mod 8 =? 0) || (opc i mod 8 =? 1)); [discriminate|reflexivity]. }
      rewrite K1. injection H as <- <- _ _ <-.
      eexists. split; [reflexivity|]. apply jrel_keep; [assumption|]. intros r _ N11. now apply Hpo.
Qed.
End Sim.

Lemma inl_true_In o l : inl o l = true -> In o l.
Proof. unfold inl. intros H. apply existsb_exists in H as (x & Hx & Exo). apply Z.eqb_eq in Exo. now subst x. Qed.
Lemma alu_ops_split o : In o cl_alu_ops -> In o jit_alu_ops \/ In o gen_jit_muldiv_ops.
Proof.
  intros Hin. assert (H : forallb (fun o => inl o jit_alu_ops || inl o gen_jit_muldiv_ops) cl_alu_ops = true) by (vm_compute; reflexivity).
  pose proof (proj1 (forallb_forall _ _) H o Hin) as Ho. apply orb_true_iff in Ho as [Ho|Ho]; [left|right]; now apply inl_true_In.
Qed.

(** ** one instruction: every accepted opcode but the calls *)
Theorem jit_exec_simulates g E i reg R next fidx stacks m st :
  regs_ok reg -> jrel reg R -> R 10 = e_mem_base E -> mem_ok m ->
  wf_insn i -> 0 <= dst i <= 10 -> 0 <= src i <= 10 -> In (opc i) cl_ops -> opc i <> op_call ->
  ((opc i =? op_le) || (opc i =? op_be) = true -> In (imm i) [16; 32; 64]) ->
  (opc i = op_lddw -> wf_insn (insn_at (e_prog E) next)) ->
  (opc i = op_exit -> fidx = 0) ->
  (opc i mod 8 = 0 -> 0 <= imm i) ->
  isa_exec E i reg next fidx stacks m = Ok st ->
  match st with
  | SNext (reg', pc', _, _, m') =>
      regs_ok reg' -> exists R', jit_exec g E i next R m = Ok (JNext R' pc' m') /\ jrel reg' R' /\ R' 10 = R 10
  | SRet r m' => jit_exec g E i next R m = Ok (JRet r m')
  end.
Proof.
  intros Hr Hrel H10 Hm Hwf Hd Hs Hin Ncall Hend Hld Hexit Himm H.
  unfold cl_ops in Hin. apply in_app_or in Hin as [Hin|Hin].
  { (* ALU *)
    pose proof (proj1 (forallb_forall _ _) alu_ops_class _ Hin) as C.
    apply andb_true_iff in C as [C Nbe]. apply andb_true_iff in C as [C Nle].
    apply negb_true_iff, Z.eqb_neq in Nbe. apply negb_true_iff, Z.eqb_neq in Nle.
    rewrite isa_alu_step in H by assumption. injection H as <-. intros Hr'.
    assert (Hv : 0 <= newval (isa_alu_value (opc i) i (rd reg (dst i)) (rd reg (src i))) (rd reg (dst i)) < 2 ^ 64).
    { pose proof (rd_range _ (dst i) Hr') as Rg. now rewrite rd_set_same in Rg by assumption. }
    destruct (alu_ops_split _ Hin) as [Hj|Hj].
    - now apply jit_alu_sim.
    - now apply jit_muldiv_sim. }
  apply in_app_or in Hin as [Hin|Hin].
  { (* conditional jumps *)
    pose proof (proj1 (forallb_forall _ _) jmp_ops_class _ Hin) as C.
    repeat (apply andb_true_iff in C as [C ?]).
    repeat match goal with H : negb (_ =? _) = true |- _ => apply negb_true_iff, Z.eqb_neq in H end.
    rewrite isa_jump_step in H by assumption. injection H as <-. intros _.
    eexists. split; [now apply jit_jmp_sim|]. split; [exact Hrel|reflexivity]. }
  apply in_app_or in Hin as [Hin|Hin].
  { (* memory *)
    destruct st as [[[[[reg' pc'] fidx'] stacks'] m']|r m'].
    - intros Hr'. now apply (jit_mem_sim g E i reg R next m Hr Hrel Hwf Hd Hs fidx stacks reg' pc' fidx' stacks' m').
    - exfalso. pose proof (proj1 (forallb_forall _ _) mem_ops_class _ Hin) as C.
      apply andb_true_iff in C as [C Cx]. apply andb_true_iff in C as [C Nl]. apply andb_true_iff in C as [C0 C3].
      apply Z.leb_le in C0, C3. apply negb_true_iff, Z.eqb_neq in Nl.
      assert (Hx : is_xadd (opc i) = true -> opc i mod 8 = 3).
      { intros X. rewrite X in Cx. cbn [negb orb] in Cx. now apply Z.eqb_eq in Cx. }
      rewrite (isa_mem_step E i reg next fidx stacks m (conj C0 C3) Nl Hx) in H. cbv zeta in H.
      repeat match type of H with (if ?c then _ else _) = _ => destruct c end; discriminate H. }
  cbn [In] in Hin. destruct Hin as [Ho|[Ho|[Ho|[Ho|[Ho|[Ho|[]]]]]]]; symmetry in Ho.
  - (* le *)
    assert (Hw : In (imm i) [16; 32; 64]) by (apply Hend; rewrite Ho; reflexivity).
    unfold isa_exec, isa_exec_dec in H. rewrite Ho in H.
    change ((op_le mod 8 =? 7) || (op_le mod 8 =? 4)) with true in H. change (op_le =? op_le) with true in H. cbv iota in H.
    injection H as <-. intros Hr'.
    assert (Hv : 0 <= to_little (imm i) (rd reg (dst i)) < 2 ^ 64).
    { pose proof (rd_range _ (dst i) Hr') as Rg. now rewrite rd_set_same in Rg by assumption. }
    pose proof (jit_endian_sim g E i reg R next m Hr Hrel Hd (or_introl Ho) Hw) as S. rewrite Ho in S.
    change (op_le =? op_be) with false in S. exact (S Hv).
  - (* be *)
    assert (Hw : In (imm i) [16; 32; 64]) by (apply Hend; rewrite Ho; reflexivity).
    unfold isa_exec, isa_exec_dec in H. rewrite Ho in H.
    change ((op_be mod 8 =? 7) || (op_be mod 8 =? 4)) with true in H. change (op_be =? op_le) with false in H.
    change (op_be =? op_be) with true in H. cbv iota in H.
    injection H as <-. intros Hr'.
    assert (Hv : 0 <= to_big (imm i) (rd reg (dst i)) < 2 ^ 64).
    { pose proof (rd_range _ (dst i) Hr') as Rg. now rewrite rd_set_same in Rg by assumption. }
    pose proof (jit_endian_sim g E i reg R next m Hr Hrel Hd (or_intror Ho) Hw) as S. rewrite Ho in S.
    change (op_be =? op_be) with true in S. exact (S Hv).
  - (* lddw *)
    unfold isa_exec, isa_exec_dec in H. rewrite Ho in H.
    change ((op_lddw mod 8 =? 7) || (op_lddw mod 8 =? 4)) with false in H. change ((op_lddw mod 8 =? 5) || (op_lddw mod 8 =? 6)) with false in H.
    change (op_lddw =? op_lddw) with true in H. cbv iota in H. injection H as <-. intros _.
    apply jit_lddw_sim; auto.
  - (* ja *)
    unfold isa_exec, isa_exec_dec in H. rewrite Ho in H.
    change ((op_ja mod 8 =? 7) || (op_ja mod 8 =? 4)) with false in H. change ((op_ja mod 8 =? 5) || (op_ja mod 8 =? 6)) with true in H.
    change (op_ja =? op_ja) with true in H. cbv iota in H. injection H as <-. intros _.
    eexists. split; [now apply jit_ja_sim|]. split; [exact Hrel|reflexivity].
  - contradiction.
  - (* exit *)
    rewrite (Hexit Ho) in H. unfold isa_exec, isa_exec_dec in H. rewrite Ho in H.
    change ((op_exit mod 8 =? 7) || (op_exit mod 8 =? 4)) with false in H. change ((op_exit mod 8 =? 5) || (op_exit mod 8 =? 6)) with true in H.
    change (op_exit =? op_ja) with false in H. change (op_exit =? op_call) with false in H. change (op_exit =? op_tail_call) with false in H.
    change (op_exit =? op_exit) with true in H. change (0 <? 0) with false in H. cbv iota in H. injection H as <-.
    now apply (jit_exit_sim g E i reg R next m Hrel).
Qed.

(** ** helper calls.  The helper's value goes to r0; r6-r10 come back; r1-r5 are whatever the helper left in their
    (caller-saved) x86 registers: [clobber g] writes that garbage into the eBPF view, so that the statement says exactly
    which registers are undefined after a call *)
Definition clobber (g : Z -> Z) (reg : list Z) : list Z :=
  set_reg (set_reg (set_reg (set_reg (set_reg reg 1 (g (ez 1) mod 2 ^ 64)) 2 (g (ez 2) mod 2 ^ 64)) 3 (g (ez 3) mod 2 ^ 64))
            4 (g (ez 4) mod 2 ^ 64)) 5 (g (ez 5) mod 2 ^ 64).

Lemma set_reg_ok reg k v : regs_ok reg -> 0 <= v < 2 ^ 64 -> regs_ok (set_reg reg k v).
Proof. intros. unfold set_reg. now apply upd_regs_ok. Qed.
Lemma mod64_range v : 0 <= v mod 2 ^ 64 < 2 ^ 64.
Proof. apply Z.mod_pos_bound. change (2 ^ 64) with 18446744073709551616. lia. Qed.

Lemma clobber_ok g reg : regs_ok reg -> regs_ok (clobber g reg).
Proof. intros H. unfold clobber. repeat apply set_reg_ok; try apply mod64_range. exact H. Qed.

Lemma rd_clobber g reg k : regs_ok reg -> 0 <= k <= 10 ->
  rd (clobber g reg) k = if (1 <=? k) && (k <=? 5) then g (ez k) mod 2 ^ 64 else rd reg k.
Proof.
  intros Hr Hk. unfold clobber.
  assert (O1 := set_reg_ok reg 1 _ Hr (mod64_range (g (ez 1)))).
  assert (O2 := set_reg_ok _ 2 _ O1 (mod64_range (g (ez 2)))).
  assert (O3 := set_reg_ok _ 3 _ O2 (mod64_range (g (ez 3)))).
  assert (O4 := set_reg_ok _ 4 _ O3 (mod64_range (g (ez 4)))).
  assert (C : k = 0 \/ k = 1 \/ k = 2 \/ k = 3 \/ k = 4 \/ k = 5 \/ k = 6 \/ k = 7 \/ k = 8 \/ k = 9 \/ k = 10) by lia.
  destruct C as [->|[->|[->|[->|[->|[->|[->|[->|[->|[->| ->]]]]]]]]]]; cbn [Z.leb Z.compare Pos.compare Pos.compare_cont andb];
    repeat first [ rewrite rd_set_same by (assumption || lia) | rewrite rd_set_other by lia ]; reflexivity.
Qed.

Lemma jit_call_sim g E i reg R next m f : regs_ok reg -> jrel reg R -> env_ok E -> wf_insn i ->
  opc i = op_call -> src i = 0 -> e_helpers E (u32 (imm i)) = Some f ->
  exists R', jit_exec g E i next R m = Ok (JNext R' next m) /\
    jrel (clobber g (set_reg reg 0 (f (rd reg 1) (rd reg 2) (rd reg 3) (rd reg 4) (rd reg 5)))) R' /\ R' 10 = R 10.
Proof.
  intros Hr [HR Hm] He (_ & _ & _ & _ & Hi) Ho Hs Hf.
  assert (Hv : 0 <= f (rd reg 1) (rd reg 2) (rd reg 3) (rd reg 4) (rd reg 5) < 2 ^ 64) by (eapply (eo_helpers E He); exact Hf).
  unfold jit_exec. cbv zeta. rewrite Ho, Hs.
  change (inl op_call jit_alu_ops) with false. change (inl op_call gen_jit_muldiv_ops) with false.
  change ((op_call =? op_le) || (op_call =? op_be)) with false. change (op_call =? op_lddw) with false. change (op_call =? op_ja) with false.
  change (inl op_call cl_jmp_ops) with false. change (inl op_call cl_mem_ops) with false. change (op_call =? op_call) with true.
  change (0 =? 0) with true. cbv iota.
  rewrite (proj1 (jit_call_key i)), Hf.
  unfold gen_jit_call_pre, gen_jit_call_post, run_seq. cbn [length].
  rewrite srun_mov, srun_push, srun_push, srun_nil. cbn [x_r x_stk x_fl].
  erewrite srun_pop by reflexivity. cbn [x_r x_stk x_fl]. erewrite srun_pop by reflexivity. cbn [x_r x_stk x_fl]. rewrite srun_nil.
  cbn [x_r]. eexists. split; [reflexivity|].
  pose proof (Hm 1 ltac:(lia)) as E1. pose proof (Hm 2 ltac:(lia)) as E2. pose proof (Hm 3 ltac:(lia)) as E3.
  pose proof (Hm 4 ltac:(lia)) as E4. pose proof (Hm 5 ltac:(lia)) as E5.
  change (ez 1) with 7 in E1. change (ez 2) with 6 in E2. change (ez 3) with 2 in E3. change (ez 4) with 9 in E4. change (ez 5) with 8 in E5.
  assert (Hr0 : regs_ok (set_reg reg 0 (f (rd reg 1) (rd reg 2) (rd reg 3) (rd reg 4) (rd reg 5)))) by (now apply set_reg_ok).
  split; [split|].
  - intros r. apply norm64_range.
  - intros k Hk. rewrite rd_clobber by assumption.
    assert (C : k = 0 \/ k = 1 \/ k = 2 \/ k = 3 \/ k = 4 \/ k = 5 \/ k = 6 \/ k = 7 \/ k = 8 \/ k = 9 \/ k = 10) by lia.
    destruct C as [->|[->|[->|[->|[->|[->|[->|[->|[->|[->| ->]]]]]]]]]];
      cbn [Z.leb Z.compare Pos.compare Pos.compare_cont andb]; unfold norm64;
      match goal with |- context [ez ?n] => let v := eval vm_compute in (ez n) in change (ez n) with v end;
      rewrite ?rset_same; rewrite ?rset_other by lia; cbn [Z.eqb Pos.eqb inl existsb sysv_callee_saved orb];
      rewrite ?rset_same; rewrite ?rset_other by lia; try reflexivity.
    + (* r0 *) rewrite rd_set_same by (assumption || lia).
      rewrite !(Z.mod_small (R 9)) by apply HR. rewrite E1, E2, E3, E4, E5. now apply Z.mod_small.
    + rewrite rd_set_other by lia. rewrite <- (Hm 6) by lia. apply Z.mod_small, HR.
    + rewrite rd_set_other by lia. rewrite <- (Hm 7) by lia. apply Z.mod_small, HR.
    + rewrite rd_set_other by lia. rewrite <- (Hm 8) by lia. apply Z.mod_small, HR.
    + rewrite rd_set_other by lia. rewrite <- (Hm 9) by lia. apply Z.mod_small, HR.
    + rewrite rd_set_other by lia. rewrite <- (Hm 10) by lia. apply Z.mod_small, HR.
  - unfold norm64. rewrite rset_same. apply Z.mod_small, HR.
Qed.
