(** C19, sqrti: `(x as f64).sqrt() as u64` modelled with Flocq's IEEE-754 binary64. *)
From Coq Require Import ZArith Lia.
From Flocq Require Import Core.Core IEEE754.BinarySingleNaN.
Open Scope Z_scope.

Definition prec := 53.
Definition emax := 1024.
Lemma Hprec : Prec_gt_0 prec. Proof. reflexivity. Qed.
Lemma Hmax : (prec < emax)%Z. Proof. reflexivity. Qed.
Definition f64 := binary_float prec emax.

(** u64 -> f64 (round to nearest even) *)
Definition f64_of_u64 (x : Z) : f64 := @binary_normalize prec emax Hprec Hmax mode_NE x 0 false.
Definition f64_sqrt (a : f64) : f64 := @Bsqrt prec emax Hprec Hmax mode_NE a.
(** f64 -> u64: truncation toward zero, saturating (Rust `as`) *)
Definition u64_of_f64 (a : f64) : Z :=
  match a with
  | B754_finite false m e _ =>
      let v := if 0 <=? e then Z.pos m * 2 ^ e else Z.pos m / 2 ^ (- e) in
      Z.min v (2 ^ 64 - 1)
  | B754_infinity false => 2 ^ 64 - 1
  | _ => 0
  end.
Definition sqrti_model (x : Z) : Z := u64_of_f64 (f64_sqrt (f64_of_u64 x)).
