(** C04, one instruction at a time: the effect of the Cranelift IR built for an eBPF instruction, assembled from the
    regenerated arm functions (gen_cl_alu, gen_cl_jmp, gen_cl_mem with its bounds check, byte swaps, lddw, helper call),
    is the ISA step whenever the ISA step succeeds.  [cl_exec] itself is hand-written: it says in which order the pieces
    regenerated from translate_program act on the registers and the memory (value -> set_dst; check -> access; condition ->
    brif), which is what the arm translators verify shape by shape. *)
From Coq Require Import ZArith Lia Bool List.
From RbpfV Require Import MachInt BitLemmas ArmBase Ebpf ClirSem Mem Stack Helpers InterpDefs WellFormed Isa MemLemmas
  ClAluProofs ClJmpProofs ClMemProofs ClMiscProofs ClirProofs.
From RbpfV.gen Require Import Opcodes ClAlu ClJmp ClMem ClMisc Clir.
Import ListNotations.
Open Scope Z_scope.
Ltac Zify.zify_post_hook ::= Z.div_mod_to_equations.

Definition ETrap : Z := 100.         (* the compiled code traps (bounds check) *)
Definition ENotCompiled : Z := 101.  (* compilation refuses the program (local call, unknown helper, unsupported opcode) *)

Definition inl (o : Z) (l : list Z) : bool := existsb (Z.eqb o) l.

Section Step.
Variable E : ienv.
(** what lib.rs hands to the compiled function (LibWrap): a null packet pointer for an empty packet *)
Definition cl_p0 : Z := if e_mem_len E =? 0 then 0 else e_mem_base E.
Definition clV : clvars :=
  gen_prelude_vars cl_p0 (e_mem_len E) (e_mbuff_base E) (e_mbuff_len E) (e_stack_base E) (e_stack_len E).

Definition cl_exec (i : insn) (reg : list Z) (next fidx : Z) (stacks : list frame) (m : mem) : res stepres :=
  let o := opc i in
  let d := dst i in
  let rdv := rd reg (dst i) in
  let rsv := rd reg (src i) in
  if inl o cl_alu_ops then
    match gen_cl_alu o i rdv rsv with
    | Ok r => Ok (SNext (set_reg reg d (newval r rdv), next, fidx, stacks, m))
    | _ => Err ETrap
    end
  else if (o =? op_le) || (o =? op_be) then
    Ok (SNext (set_reg reg d (newval (gen_cl_endian (o =? op_be) (imm i) rdv rsv) rdv), next, fidx, stacks, m))
  else if o =? op_lddw then
    match gen_cl_lddw (imm i) (imm (insn_at (e_prog E) next)) with
    | Ok v => Ok (SNext (set_reg reg d v, next + 1, fidx, stacks, m))
    | _ => Err ETrap
    end
  else if o =? op_ja then Ok (SNext (reg, next + off i, fidx, stacks, m))
  else if inl o cl_jmp_ops then
    Ok (SNext (reg, (if negb (gen_cl_jmp o i rdv rsv =? 0) then next + off i else next), fidx, stacks, m))
  else if inl o cl_mem_ops then
    let a := gen_cl_mem o i rdv rsv (v_mem_start clV) in
    if gen_bounds_check clV (a_bytes a) (a_base a) (a_off a) then
      let addr := (a_base a + a_off a) mod 2 ^ 64 in
      let n := a_bytes a in
      if a_kind a =? 0 then Ok (SNext (set_reg reg (a_target a) (a_res a (mload m addr n)), next, fidx, stacks, m))
      else if a_kind a =? 1 then Ok (SNext (reg, next, fidx, stacks, mstore m addr n (a_val a)))
      else Ok (SNext (reg, next, fidx, stacks, mstore m addr n ((mload m addr n + a_val a) mod 2 ^ (8 * n))))
    else Err ETrap
  else if o =? op_call then
    if src i =? 0 then
      match e_helpers E (gen_cl_call_key i) with
      | Some f => Ok (SNext (set_reg reg gen_cl_call_result
                               (f (rd reg (nth 0 gen_cl_call_args 0)) (rd reg (nth 1 gen_cl_call_args 0)) (rd reg (nth 2 gen_cl_call_args 0))
                                  (rd reg (nth 3 gen_cl_call_args 0)) (rd reg (nth 4 gen_cl_call_args 0))), next, fidx, stacks, m))
      | None => Err ENotCompiled
      end
    else Err ENotCompiled
  else if o =? op_exit then Ok (SRet (rd reg 0) m)
  else Err ENotCompiled.
End Step.

(** ** the ISA step of an ALU / jump instruction in terms of [isa_alu_value] / [isa_jump_taken] *)
Lemma upd_nat_same {A} (l : list A) k (d0 : A) : (k < length l)%nat -> upd_nat l k (nth k l d0) = l.
Proof. revert k. induction l as [|h t IH]; intros [|k] H; cbn [upd_nat nth length] in *; try lia; [reflexivity|]. f_equal. apply IH. lia. Qed.
Lemma set_reg_same reg d : ArmBase.regs_ok reg -> 0 <= d <= 10 -> set_reg reg d (rd reg d) = reg.
Proof. intros [L _] Hd. unfold set_reg, upd, rd. apply upd_nat_same. rewrite L. lia. Qed.

Lemma isa_alu_step E i reg next fidx stacks m :
  ArmBase.regs_ok reg -> 0 <= dst i <= 10 ->
  (opc i mod 8 =? 7) || (opc i mod 8 =? 4) = true -> opc i <> op_le -> opc i <> op_be ->
  isa_exec E i reg next fidx stacks m
  = Ok (SNext (set_reg reg (dst i) (newval (isa_alu_value (opc i) i (rd reg (dst i)) (rd reg (src i))) (rd reg (dst i))), next, fidx, stacks, m)).
Proof.
  intros Hr Hd Hc Nle Nbe. unfold isa_exec, isa_exec_dec. rewrite Hc.
  destruct (Z.eqb_spec (opc i) op_le) as [E1|_]; [contradiction|].
  destruct (Z.eqb_spec (opc i) op_be) as [E1|_]; [contradiction|].
  unfold isa_alu_value.
  assert (W : (if opc i mod 8 =? 7 then 64 else 32) = (if opc i mod 8 =? 7 then 64 else 32)) by reflexivity.
  assert (T : ((opc i / 8) mod 2 =? 1) = Z.testbit (opc i) 3).
  { destruct (Z.testbit (opc i) 3) eqn:Tb.
    - apply Z.testbit_true in Tb; [|lia]. change (2 ^ 3) with 8 in Tb. now rewrite Tb.
    - apply Z.testbit_false in Tb; [|lia]. change (2 ^ 3) with 8 in Tb. now rewrite Tb. }
  rewrite T.
  destruct (alu _ _ _ _) as [v|]; cbn [newval]; [reflexivity|].
  now rewrite set_reg_same.
Qed.

Lemma inl_In o l : In o l -> inl o l = true.
Proof. intros H. unfold inl. apply existsb_exists. exists o. split; [exact H|apply Z.eqb_refl]. Qed.
Lemma inl_false o l (P : Z -> bool) : forallb P l = true -> P o = false -> inl o l = false.
Proof.
  intros Hall Ho. unfold inl. destruct (existsb (Z.eqb o) l) eqn:Ex; [|reflexivity].
  apply existsb_exists in Ex as (x & Hx & Exo). apply Z.eqb_eq in Exo. subst x.
  rewrite (proj1 (forallb_forall _ _) Hall o Hx) in Ho. discriminate.
Qed.

Lemma alu_ops_class : forallb (fun o => ((o mod 8 =? 7) || (o mod 8 =? 4)) && negb (o =? op_le) && negb (o =? op_be)) cl_alu_ops = true.
Proof. vm_compute. reflexivity. Qed.

(** base address in range, offset a 16-bit value (or 0), for every memory arm *)
Lemma cl_mem_shape i rdv rsv mb : 0 <= rdv < 2 ^ 64 -> 0 <= rsv < 2 ^ 64 -> - 2 ^ 15 <= off i < 2 ^ 15 ->
  Forall (fun o => 0 <= a_base (gen_cl_mem o i rdv rsv mb) < 2 ^ 64 /\ - 2 ^ 15 <= a_off (gen_cl_mem o i rdv rsv mb) < 2 ^ 15) cl_mem_ops.
Proof.
  intros Hd Hs Ho. unfold cl_mem_ops.
  repeat (apply Forall_cons;
    [ cbv beta; unfold gen_cl_mem;
      repeat match goal with |- context [a_base ?L] =>
        lazymatch L with (if _ then _ else _) => let L2 := eval simpl in L in change L with L2 end end;
      match goal with |- context [a_base (?f ?ii ?a ?b ?c)] => unfold f end;
      cbv zeta; cbn [a_base a_off];
      split; [first [assumption | unfold ir_iadd; apply Z.mod_pos_bound; change (2 ^ 64) with 18446744073709551616; lia]
             | first [assumption | change (2 ^ 15) with 32768; lia]]
    | ]).
  apply Forall_nil.
Qed.

Section Refine.
Variable E : ienv.

Lemma cl_alu_step i reg next fidx stacks m :
  wf_insn i -> ArmBase.regs_ok reg -> 0 <= dst i <= 10 -> In (opc i) cl_alu_ops ->
  cl_exec E i reg next fidx stacks m = isa_exec E i reg next fidx stacks m.
Proof.
  intros (_ & _ & _ & _ & Hi) Hr Hd Hin.
  pose proof (proj1 (forallb_forall _ _) alu_ops_class _ Hin) as C.
  apply andb_true_iff in C as [C Nbe]. apply andb_true_iff in C as [C Nle].
  apply negb_true_iff, Z.eqb_neq in Nbe. apply negb_true_iff, Z.eqb_neq in Nle.
  rewrite isa_alu_step by assumption.
  unfold cl_exec. rewrite (inl_In _ _ Hin).
  pose proof (proj1 (Forall_forall _ _) (cl_alu_arms i (rd reg (dst i)) (rd reg (src i)) (rd_range reg _ Hr) (rd_range reg _ Hr) Hi) _ Hin)
    as (r & Er & Ev).
  rewrite Er, Ev. reflexivity.
Qed.

Lemma jmp_ops_class : forallb (fun o => ((o mod 8 =? 5) || (o mod 8 =? 6)) && negb (o =? op_ja) && negb (o =? op_call)
                                         && negb (o =? op_tail_call) && negb (o =? op_exit)
                                         && negb (o =? op_le) && negb (o =? op_be) && negb (o =? op_lddw)) cl_jmp_ops = true.
Proof. vm_compute. reflexivity. Qed.

Lemma isa_jump_step i reg next fidx stacks m :
  (opc i mod 8 =? 5) || (opc i mod 8 =? 6) = true ->
  opc i <> op_ja -> opc i <> op_call -> opc i <> op_tail_call -> opc i <> op_exit ->
  isa_exec E i reg next fidx stacks m
  = Ok (SNext (reg, (if isa_jump_taken (opc i) i (rd reg (dst i)) (rd reg (src i)) then next + off i else next), fidx, stacks, m)).
Proof.
  intros Hc N1 N2 N3 N4. unfold isa_exec, isa_exec_dec.
  assert (A : (opc i mod 8 =? 7) || (opc i mod 8 =? 4) = false).
  { apply orb_true_iff in Hc. destruct Hc as [H|H]; apply Z.eqb_eq in H; rewrite H; reflexivity. }
  rewrite A, Hc.
  destruct (Z.eqb_spec (opc i) op_ja); [contradiction|]. destruct (Z.eqb_spec (opc i) op_call); [contradiction|].
  destruct (Z.eqb_spec (opc i) op_tail_call); [contradiction|]. destruct (Z.eqb_spec (opc i) op_exit); [contradiction|].
  unfold isa_jump_taken.
  assert (T : ((opc i / 8) mod 2 =? 1) = Z.testbit (opc i) 3).
  { destruct (Z.testbit (opc i) 3) eqn:Tb.
    - apply Z.testbit_true in Tb; [|lia]. change (2 ^ 3) with 8 in Tb. now rewrite Tb.
    - apply Z.testbit_false in Tb; [|lia]. change (2 ^ 3) with 8 in Tb. now rewrite Tb. }
  rewrite T. reflexivity.
Qed.

Lemma cl_jmp_step i reg next fidx stacks m :
  ArmBase.regs_ok reg -> In (opc i) cl_jmp_ops ->
  cl_exec E i reg next fidx stacks m = isa_exec E i reg next fidx stacks m.
Proof.
  intros Hr Hin.
  pose proof (proj1 (forallb_forall _ _) jmp_ops_class _ Hin) as C.
  repeat (apply andb_true_iff in C as [C ?]).
  repeat match goal with H : negb (_ =? _) = true |- _ => apply negb_true_iff, Z.eqb_neq in H end.
  rewrite isa_jump_step by assumption.
  unfold cl_exec.
  assert (A : inl (opc i) cl_alu_ops = false).
  { apply (inl_false _ _ _ alu_ops_class). apply orb_true_iff in C. destruct C as [C|C]; apply Z.eqb_eq in C; rewrite C; reflexivity. }
  rewrite A.
  destruct (Z.eqb_spec (opc i) op_le) as [E1|_]; [contradiction|]. destruct (Z.eqb_spec (opc i) op_be) as [E1|_]; [contradiction|].
  cbn [orb].
  destruct (Z.eqb_spec (opc i) op_lddw) as [E1|_]; [contradiction|].
  destruct (Z.eqb_spec (opc i) op_ja) as [E1|_]; [contradiction|].
  rewrite (inl_In _ _ Hin).
  rewrite (proj1 (Forall_forall _ _) (cl_jmp_arms i (rd reg (dst i)) (rd reg (src i)) (rd_range reg _ Hr) (rd_range reg _ Hr)) _ Hin).
  reflexivity.
Qed.

(** byte swaps, wide load, ja, exit, helper call: one opcode each *)
Lemma cl_endian_step i reg next fidx stacks m :
  ArmBase.regs_ok reg -> 0 <= dst i <= 10 -> opc i = op_le \/ opc i = op_be -> In (imm i) [16; 32; 64] ->
  cl_exec E i reg next fidx stacks m = isa_exec E i reg next fidx stacks m.
Proof.
  intros Hr Hd Ho Hw. pose proof (rd_range reg (dst i) Hr) as Rd.
  pose proof (fun big => cl_endian_arms big (imm i) (rd reg (dst i)) (rd reg (src i)) Hw Rd) as A.
  unfold cl_exec, isa_exec, isa_exec_dec.
  destruct Ho as [Ho|Ho]; rewrite Ho.
  - change (inl op_le cl_alu_ops) with false. change ((op_le =? op_le) || (op_le =? op_be)) with true.
    change ((op_le mod 8 =? 7) || (op_le mod 8 =? 4)) with true. change (op_le =? op_le) with true. change (op_le =? op_be) with false. cbv iota.
    rewrite (A false). reflexivity.
  - change (inl op_be cl_alu_ops) with false. change ((op_be =? op_le) || (op_be =? op_be)) with true.
    change ((op_be mod 8 =? 7) || (op_be mod 8 =? 4)) with true. change (op_be =? op_le) with false. change (op_be =? op_be) with true. cbv iota.
    rewrite (A true). reflexivity.
Qed.

Lemma cl_lddw_step i reg next fidx stacks m :
  wf_insn i -> wf_insn (insn_at (e_prog E) next) -> opc i = op_lddw ->
  cl_exec E i reg next fidx stacks m = isa_exec E i reg next fidx stacks m.
Proof.
  intros (_ & _ & _ & _ & Hi) (_ & _ & _ & _ & Hi2) Ho.
  unfold cl_exec, isa_exec, isa_exec_dec. rewrite Ho.
  change (inl op_lddw cl_alu_ops) with false. change ((op_lddw =? op_le) || (op_lddw =? op_be)) with false. change (op_lddw =? op_lddw) with true.
  change ((op_lddw mod 8 =? 7) || (op_lddw mod 8 =? 4)) with false. change ((op_lddw mod 8 =? 5) || (op_lddw mod 8 =? 6)) with false. cbv iota.
  rewrite cl_lddw_arm by assumption. reflexivity.
Qed.

Lemma cl_ja_step i reg next fidx stacks m : opc i = op_ja ->
  cl_exec E i reg next fidx stacks m = isa_exec E i reg next fidx stacks m.
Proof.
  intros Ho. unfold cl_exec, isa_exec, isa_exec_dec. rewrite Ho.
  change (inl op_ja cl_alu_ops) with false. change ((op_ja =? op_le) || (op_ja =? op_be)) with false. change (op_ja =? op_lddw) with false.
  change (op_ja =? op_ja) with true. change ((op_ja mod 8 =? 7) || (op_ja mod 8 =? 4)) with false.
  change ((op_ja mod 8 =? 5) || (op_ja mod 8 =? 6)) with true. reflexivity.
Qed.

Lemma cl_exit_step i reg next stacks m : opc i = op_exit ->
  cl_exec E i reg next 0 stacks m = isa_exec E i reg next 0 stacks m.
Proof.
  intros Ho. unfold cl_exec, isa_exec, isa_exec_dec. rewrite Ho.
  change (inl op_exit cl_alu_ops) with false. change ((op_exit =? op_le) || (op_exit =? op_be)) with false. change (op_exit =? op_lddw) with false.
  change (op_exit =? op_ja) with false. change (inl op_exit cl_jmp_ops) with false. change (inl op_exit cl_mem_ops) with false.
  change (op_exit =? op_call) with false. change (op_exit =? op_exit) with true.
  change ((op_exit mod 8 =? 7) || (op_exit mod 8 =? 4)) with false. change ((op_exit mod 8 =? 5) || (op_exit mod 8 =? 6)) with true.
  change (op_exit =? op_tail_call) with false. reflexivity.
Qed.

(** a helper call (src = 0) whose helper is registered; an unregistered id or a local call makes compilation fail *)
Lemma cl_call_step i reg next fidx stacks m f : wf_insn i -> opc i = op_call -> src i = 0 ->
  e_helpers E (u32 (imm i)) = Some f ->
  cl_exec E i reg next fidx stacks m = isa_exec E i reg next fidx stacks m.
Proof.
  intros (_ & _ & _ & _ & Hi) Ho Hs Hf. destruct (cl_call_shape i Hi) as (_ & K & A & R).
  unfold cl_exec, isa_exec, isa_exec_dec. rewrite Ho, Hs.
  change (inl op_call cl_alu_ops) with false. change ((op_call =? op_le) || (op_call =? op_be)) with false. change (op_call =? op_lddw) with false.
  change (op_call =? op_ja) with false. change (inl op_call cl_jmp_ops) with false. change (inl op_call cl_mem_ops) with false.
  change (op_call =? op_call) with true. change ((op_call mod 8 =? 7) || (op_call mod 8 =? 4)) with false.
  change ((op_call mod 8 =? 5) || (op_call mod 8 =? 6)) with true. change (0 =? 0) with true. cbv iota.
  rewrite K, Hf, A, R. reflexivity.
Qed.

(** ** memory: an access the ISA allows (no registered ranges; real, non-null slices) passes the compiled bounds check *)
Hypothesis HE : env_ok E.
Hypothesis Hno_ranges : e_allowed E = [].
Hypothesis Hmem_nonnull : e_mem_len E <> 0 -> e_mem_base E <> 0.
Hypothesis Hmbuff_nonnull : e_mbuff_len E <> 0 -> e_mbuff_base E <> 0.

Lemma clV_facts :
  vars_ok (clV E) /\ v_stack_start (clV E) = e_stack_base E /\ v_stack_end (clV E) = e_stack_base E + e_stack_len E /\
  v_mem_start (clV E) = cl_p0 E /\ v_mem_end (clV E) = cl_p0 E + e_mem_len E /\
  v_mbuf_start (clV E) = e_mbuff_base E /\ v_mbuf_end (clV E) = e_mbuff_base E + e_mbuff_len E.
Proof.
  clear Hno_ranges Hmem_nonnull Hmbuff_nonnull.
  destruct HE as [(M1 & M2 & M3) (P1 & P2 & P3) (S1 & S2 & S3) _ _].
  assert (Q : 0 <= cl_p0 E /\ cl_p0 E + e_mem_len E <= 2 ^ 63).
  { unfold cl_p0. destruct (Z.eqb_spec (e_mem_len E) 0) as [Z0|_]; [rewrite Z0; change (2 ^ 63) with 9223372036854775808; lia|lia]. }
  change (2 ^ 63) with 9223372036854775808 in *. change (2 ^ 20) with 1048576 in *.
  assert (P := prelude_vars (cl_p0 E) (e_mem_len E) (e_mbuff_base E) (e_mbuff_len E) (e_stack_base E) (e_stack_len E)).
  unfold ClirProofs.u64 in P. change (2 ^ 64) with 18446744073709551616 in P. cbv zeta in P.
  destruct P as (A1 & A2 & A3 & A4 & A5 & A6 & A7); try lia.
  unfold clV. split; [exact A7|]. repeat split; assumption.
Qed.

Lemma access_ok_passes a n : 0 < n <= 8 -> access_ok E a n = true -> access_allowed (clV E) a n.
Proof.
  intros Hn H. destruct clV_facts as (_ & S1 & S2 & M1 & M2 & B1 & B2).
  unfold access_ok in H. rewrite Hno_ranges in H. cbn [existsb] in H. rewrite orb_false_r in H.
  apply andb_true_iff in H as [Hlt H]. apply Z.ltb_lt in Hlt.
  unfold access_allowed, within. rewrite S1, S2, M1, M2, B1, B2. split; [exact Hlt|].
  unfold in_range in H. rewrite !orb_true_iff, !andb_true_iff, !Z.leb_le in H.
  destruct H as [[H|H]|H].
  - right. right. split; [|lia]. apply Hmbuff_nonnull. lia.
  - right. left. assert (L : e_mem_len E <> 0) by lia. unfold cl_p0. destruct (Z.eqb_spec (e_mem_len E) 0); [contradiction|].
    split; [now apply Hmem_nonnull|lia].
  - left. lia.
Qed.

Lemma check_passes n base off : 0 < n <= 8 -> 0 <= base < 2 ^ 64 -> - 2 ^ 15 <= off < 2 ^ 15 ->
  access_ok E ((base + off) mod 2 ^ 64) n = true -> gen_bounds_check (clV E) n base off = true.
Proof.
  intros Hn Hb Ho H. destruct clV_facts as (V & _).
  apply (bounds_check_iff (clV E) n base off V Hb Ho Hn). now apply access_ok_passes.
Qed.

Lemma mem_ops_class : forallb (fun o => (0 <=? o mod 8) && (o mod 8 <=? 3) && negb (o =? op_lddw)
                                         && (negb (is_xadd o) || (o mod 8 =? 3))) cl_mem_ops = true.
Proof. vm_compute. reflexivity. Qed.

(** the ISA step of a memory instruction, in the vocabulary of ClMemProofs *)
Lemma isa_mem_step i reg next fidx stacks m :
  0 <= opc i mod 8 <= 3 -> opc i <> op_lddw -> (is_xadd (opc i) = true -> opc i mod 8 = 3) ->
  let o := opc i in
  let n := size_of o in
  let a := isa_addr o i (rd reg (dst i)) (rd reg (src i)) (e_mem_base E) in
  isa_exec E i reg next fidx stacks m =
    if isa_kind o =? 0 then
      (if access_ok E a n then Ok (SNext (set_reg reg (isa_target o i) (mload m a n), next, fidx, stacks, m)) else Err EOobLoad)
    else if negb (access_ok E a n) then Err EOobStore
    else if isa_kind o =? 2 then
      (if a mod n =? 0 then Ok (SNext (reg, next, fidx, stacks, mstore m a n ((mload m a n + rd reg (src i)) mod 2 ^ (8 * n))))
       else Err EUnaligned)
    else Ok (SNext (reg, next, fidx, stacks, mstore m a n (isa_val o i (rd reg (src i))))).
Proof.
  intros Hc Nl Hx. cbv zeta. unfold isa_exec, isa_exec_dec, isa_kind, isa_addr, isa_target, isa_val.
  destruct (Z.eqb_spec (opc i) op_lddw) as [E1|_]; [contradiction|].
  assert (C : opc i mod 8 = 0 \/ opc i mod 8 = 1 \/ opc i mod 8 = 2 \/ opc i mod 8 = 3) by lia.
  destruct C as [C|[C|[C|C]]]; rewrite C; cbn [Z.eqb Pos.eqb orb andb].
  - assert (X : is_xadd (opc i) = false) by (destruct (is_xadd (opc i)); [specialize (Hx eq_refl); lia|reflexivity]). rewrite X.
    reflexivity.
  - assert (X : is_xadd (opc i) = false) by (destruct (is_xadd (opc i)); [specialize (Hx eq_refl); lia|reflexivity]). rewrite X.
    reflexivity.
  - assert (X : is_xadd (opc i) = false) by (destruct (is_xadd (opc i)); [specialize (Hx eq_refl); lia|reflexivity]). rewrite X.
    cbn [Z.eqb]. reflexivity.
  - destruct (is_xadd (opc i)); cbn [Z.eqb Pos.eqb]; reflexivity.
Qed.
Lemma size_of_range o : 0 < size_of o <= 8.
Proof. unfold size_of. destruct ((o / 8) mod 4) as [|[[|[]|]|[|[]|]|]|]; lia. Qed.

Lemma cl_mem_step i reg next fidx stacks m st :
  wf_insn i -> ArmBase.regs_ok reg -> mem_ok m -> In (opc i) cl_mem_ops ->
  (opc i mod 8 = 0 -> e_mem_len E <> 0) ->
  isa_exec E i reg next fidx stacks m = Ok st -> cl_exec E i reg next fidx stacks m = Ok st.
Proof.
  intros (_ & _ & _ & Hoff & Hi) Hr Hm Hin Hpk.
  pose proof (proj1 (forallb_forall _ _) mem_ops_class _ Hin) as C.
  apply andb_true_iff in C as [C Cx]. apply andb_true_iff in C as [C Nl]. apply andb_true_iff in C as [C0 C3].
  apply Z.leb_le in C0, C3. apply negb_true_iff, Z.eqb_neq in Nl.
  assert (Hx : is_xadd (opc i) = true -> opc i mod 8 = 3).
  { intros X. rewrite X in Cx. cbn [negb orb] in Cx. now apply Z.eqb_eq in Cx. }
  rewrite (isa_mem_step i reg next fidx stacks m (conj C0 C3) Nl Hx). cbv zeta.
  pose proof (rd_range reg (dst i) Hr) as Rd. pose proof (rd_range reg (src i) Hr) as Rs.
  destruct clV_facts as (_ & _ & _ & M1 & _).
  assert (P0 : 0 <= cl_p0 E < 2 ^ 64).
  { destruct HE as [_ (P1 & P2 & P3) _ _ _]. unfold cl_p0. change (2 ^ 63) with 9223372036854775808 in P3. change (2 ^ 64) with 18446744073709551616.
    destruct (e_mem_len E =? 0); lia. }
  pose proof (proj1 (Forall_forall _ _) (cl_mem_arms i _ _ (cl_p0 E) Rd Rs P0 Hoff Hi) _ Hin) as (K & B & A & V & T & R).
  pose proof (proj1 (Forall_forall _ _) (cl_mem_shape i _ _ (cl_p0 E) Rd Rs Hoff) _ Hin) as (Sb & So).
  assert (AE : isa_addr (opc i) i (rd reg (dst i)) (rd reg (src i)) (cl_p0 E)
             = isa_addr (opc i) i (rd reg (dst i)) (rd reg (src i)) (e_mem_base E)).
  { unfold isa_addr. destruct (Z.eqb_spec (opc i mod 8) 0) as [Z0|_]; [|reflexivity].
    unfold cl_p0. destruct (Z.eqb_spec (e_mem_len E) 0) as [L0|_]; [destruct (Hpk Z0 L0)|reflexivity]. }
  rewrite AE in A.
  unfold cl_exec. cbv zeta.
  assert (A1 : inl (opc i) cl_alu_ops = false) by (apply (inl_false _ _ _ alu_ops_class);
    destruct (Z.eqb_spec (opc i mod 8) 7); [lia|]; destruct (Z.eqb_spec (opc i mod 8) 4); [lia|]; reflexivity).
  assert (A2 : inl (opc i) cl_jmp_ops = false) by (apply (inl_false _ _ _ jmp_ops_class);
    destruct (Z.eqb_spec (opc i mod 8) 5); [lia|]; destruct (Z.eqb_spec (opc i mod 8) 6); [lia|]; reflexivity).
  rewrite A1, A2, (inl_In _ _ Hin).
  destruct (Z.eqb_spec (opc i) op_le) as [E1|_]; [rewrite E1 in C3; vm_compute in C3; now destruct C3|].
  destruct (Z.eqb_spec (opc i) op_be) as [E1|_]; [rewrite E1 in C3; vm_compute in C3; now destruct C3|]. cbn [orb].
  destruct (Z.eqb_spec (opc i) op_lddw) as [E1|_]; [contradiction|].
  destruct (Z.eqb_spec (opc i) op_ja) as [E1|_]; [rewrite E1 in C3; vm_compute in C3; now destruct C3|].
  rewrite M1, K, B, V, T, A.
  set (a := isa_addr (opc i) i (rd reg (dst i)) (rd reg (src i)) (e_mem_base E)) in *.
  set (n := size_of (opc i)) in *. pose proof (size_of_range (opc i)) as Hn. fold n in Hn.
  assert (CP : access_ok E a n = true ->
               gen_bounds_check (clV E) n (a_base (gen_cl_mem (opc i) i (rd reg (dst i)) (rd reg (src i)) (cl_p0 E)))
                 (a_off (gen_cl_mem (opc i) i (rd reg (dst i)) (rd reg (src i)) (cl_p0 E))) = true).
  { intros Ok1. apply check_passes; try assumption. rewrite A. exact Ok1. }
  destruct (isa_kind (opc i) =? 0) eqn:K0.
  - destruct (access_ok E a n) eqn:Ok1; [|discriminate]. intros [= <-]. rewrite (CP eq_refl).
    rewrite R by (apply mload_range; [assumption|lia]). reflexivity.
  - destruct (access_ok E a n) eqn:Ok1; cbn [negb]; [|discriminate]. rewrite (CP eq_refl).
    destruct (isa_kind (opc i) =? 2) eqn:K2.
    + assert (K1 : (isa_kind (opc i) =? 1) = false) by (apply Z.eqb_eq in K2; rewrite K2; reflexivity). rewrite K1.
      destruct (a mod n =? 0); [|discriminate]. intros [= <-].
      assert (X : is_xadd (opc i) = true) by (unfold isa_kind in K2; destruct (is_xadd (opc i)); [reflexivity|];
        destruct ((opc i mod 8 =? 0) || (opc i mod 8 =? 1)); discriminate).
      unfold isa_val. rewrite (Hx X). cbn [Z.eqb Pos.eqb orb]. fold n.
      rewrite Zplus_mod_idemp_r. reflexivity.
    + assert (K1 : (isa_kind (opc i) =? 1) = true).
      { unfold isa_kind in *. destruct (is_xadd (opc i)); [discriminate|]. destruct ((opc i mod 8 =? 0) || (opc i mod 8 =? 1)); [discriminate|reflexivity]. }
      rewrite K1. intros [= <-]. reflexivity.
Qed.

(** C11 as a property of the compiled step: a memory instruction whose compiled code completes (does not trap) made its
    access -- [a_bytes] bytes at (a_base + a_off) mod 2^64, the ISA's address by cl_mem_arms -- entirely inside the stack, the
    packet (when there is one) or the metadata buffer (when there is one), without wrapping; otherwise it trapped before
    touching memory *)
Theorem cl_exec_mem_safe i reg next fidx stacks m :
  wf_insn i -> ArmBase.regs_ok reg -> In (opc i) cl_mem_ops ->
  let a := gen_cl_mem (opc i) i (rd reg (dst i)) (rd reg (src i)) (cl_p0 E) in
  (exists st, cl_exec E i reg next fidx stacks m = Ok st /\ access_allowed (clV E) ((a_base a + a_off a) mod 2 ^ 64) (a_bytes a))
  \/ (cl_exec E i reg next fidx stacks m = Err ETrap /\ ~ access_allowed (clV E) ((a_base a + a_off a) mod 2 ^ 64) (a_bytes a)).
Proof.
  clear Hno_ranges Hmem_nonnull Hmbuff_nonnull.
  intros (_ & _ & _ & Hoff & Hi) Hr Hin. cbv zeta.
  pose proof (proj1 (forallb_forall _ _) mem_ops_class _ Hin) as C.
  apply andb_true_iff in C as [C Cx]. apply andb_true_iff in C as [C Nl]. apply andb_true_iff in C as [C0 C3].
  apply Z.leb_le in C0, C3. apply negb_true_iff, Z.eqb_neq in Nl.
  pose proof (rd_range reg (dst i) Hr) as Rd. pose proof (rd_range reg (src i) Hr) as Rs.
  destruct clV_facts as (V & _ & _ & M1 & _).
  assert (P0 : 0 <= cl_p0 E < 2 ^ 64).
  { destruct HE as [_ (P1 & P2 & P3) _ _ _]. unfold cl_p0. change (2 ^ 63) with 9223372036854775808 in P3. change (2 ^ 64) with 18446744073709551616.
    destruct (e_mem_len E =? 0); lia. }
  pose proof (proj1 (Forall_forall _ _) (cl_mem_arms i _ _ (cl_p0 E) Rd Rs P0 Hoff Hi) _ Hin) as (K & B & _).
  pose proof (proj1 (Forall_forall _ _) (cl_mem_shape i _ _ (cl_p0 E) Rd Rs Hoff) _ Hin) as (Sb & So).
  pose proof (size_of_range (opc i)) as Hn. rewrite <- B in Hn.
  pose proof (bounds_check_iff (clV E) _ _ _ V Sb So Hn) as IFF.
  assert (A1 : inl (opc i) cl_alu_ops = false) by (apply (inl_false _ _ _ alu_ops_class);
    destruct (Z.eqb_spec (opc i mod 8) 7); [lia|]; destruct (Z.eqb_spec (opc i mod 8) 4); [lia|]; reflexivity).
  assert (A2 : inl (opc i) cl_jmp_ops = false) by (apply (inl_false _ _ _ jmp_ops_class);
    destruct (Z.eqb_spec (opc i mod 8) 5); [lia|]; destruct (Z.eqb_spec (opc i mod 8) 6); [lia|]; reflexivity).
  unfold cl_exec. cbv zeta. rewrite A1, A2, (inl_In _ _ Hin).
  destruct (Z.eqb_spec (opc i) op_le) as [E1|_]; [rewrite E1 in C3; vm_compute in C3; now destruct C3|].
  destruct (Z.eqb_spec (opc i) op_be) as [E1|_]; [rewrite E1 in C3; vm_compute in C3; now destruct C3|]. cbn [orb].
  destruct (Z.eqb_spec (opc i) op_lddw) as [E1|_]; [contradiction|].
  destruct (Z.eqb_spec (opc i) op_ja) as [E1|_]; [rewrite E1 in C3; vm_compute in C3; now destruct C3|].
  rewrite M1.
  destruct (gen_bounds_check (clV E) _ _ _) eqn:G.
  - left. destruct (a_kind _ =? 0); [|destruct (a_kind _ =? 1)]; eexists; (split; [reflexivity|now apply IFF]).
  - right. split; [reflexivity|]. intros Q. apply IFF in Q. congruence.
Qed.

(** every opcode Cranelift translates *)
Definition cl_ops : list Z := cl_alu_ops ++ cl_jmp_ops ++ cl_mem_ops ++ [op_le; op_be; op_lddw; op_ja; op_call; op_exit].

Theorem cl_exec_refines i reg next fidx stacks m st :
  wf_insn i -> ArmBase.regs_ok reg -> mem_ok m -> 0 <= dst i <= 10 -> In (opc i) cl_ops ->
  ((opc i =? op_le) || (opc i =? op_be) = true -> In (imm i) [16; 32; 64]) ->
  (opc i = op_lddw -> wf_insn (insn_at (e_prog E) next)) ->
  (opc i = op_call -> src i = 0 /\ e_helpers E (u32 (imm i)) <> None) ->
  (opc i = op_exit -> fidx = 0) ->
  (opc i mod 8 = 0 -> e_mem_len E <> 0) ->
  isa_exec E i reg next fidx stacks m = Ok st -> cl_exec E i reg next fidx stacks m = Ok st.
Proof.
  intros Hwf Hr Hm Hd Hin Hend Hld Hcall Hexit Hpk H.
  unfold cl_ops in Hin. apply in_app_or in Hin as [Hin|Hin]; [rewrite cl_alu_step; assumption|].
  apply in_app_or in Hin as [Hin|Hin]; [rewrite cl_jmp_step; assumption|].
  apply in_app_or in Hin as [Hin|Hin]; [now apply cl_mem_step|].
  cbn [In] in Hin. destruct Hin as [Ho|[Ho|[Ho|[Ho|[Ho|[Ho|[]]]]]]]; symmetry in Ho.
  - rewrite cl_endian_step; try assumption; [now left|]. apply Hend. rewrite Ho. reflexivity.
  - rewrite cl_endian_step; try assumption; [now right|]. apply Hend. rewrite Ho. reflexivity.
  - rewrite cl_lddw_step; try assumption. now apply Hld.
  - rewrite cl_ja_step; assumption.
  - destruct (Hcall Ho) as [Hs Hf]. destruct (e_helpers E (u32 (imm i))) as [f|] eqn:Ef; [|now destruct Hf].
    rewrite (cl_call_step i reg next fidx stacks m f); assumption.
  - rewrite (Hexit Ho) in *. rewrite cl_exit_step; assumption.
Qed.

(** the compiled step never touches the call depth or the frames (no local calls in compiled code) *)
Lemma cl_exec_frames i reg next fidx stacks m reg' pc' fidx' stacks' m' :
  cl_exec E i reg next fidx stacks m = Ok (SNext (reg', pc', fidx', stacks', m')) -> fidx' = fidx /\ stacks' = stacks.
Proof.
  unfold cl_exec. cbv zeta.
  repeat match goal with
  | |- (if ?c then _ else _) = _ -> _ => destruct c
  | |- match ?x with _ => _ end = _ -> _ => destruct x
  end; intros [= ]; subst; split; reflexivity.
Qed.
End Refine.
