(** Model of verifier::check: the generated body run with enough fuel for the program. *)
From Coq Require Import ZArith List Bool.
From RbpfV Require Import MachInt Ebpf.
From RbpfV.gen Require Import Verifier.
Open Scope Z_scope.

Definition check_model (prog : list Z) : res unit := gen_check (S (length prog)) prog.
Definition acc (prog : list Z) : Prop := check_model prog = Ok tt.
Definition accb (prog : list Z) : bool := match check_model prog with Ok _ => true | _ => false end.
