(** Value lemmas: what the Rust integer expressions of the ALU / jump arms compute, in plain
    modular arithmetic.  Each is stated for all operand values. *)
From Coq Require Import ZArith Lia Bool List.
From RbpfV Require Import MachInt BitLemmas ListLemmas Ebpf Mem InterpDefs WellFormed Isa ArmBase.
Import ListNotations.
Open Scope Z_scope.
Ltac Zify.zify_post_hook ::= Z.div_mod_to_equations.

Lemma land_63 x : Z.land x 63 = x mod 64.
Proof. exact (land_ones_mod x 6 ltac:(lia)). Qed.
Lemma land_u32max x : Z.land x 4294967295 = x mod 2 ^ 32.
Proof. exact (land_ones_mod x 32 ltac:(lia)). Qed.

Lemma mod64_range x : 0 <= x mod 64 < 64. Proof. apply Z.mod_pos_bound; lia. Qed.
Lemma mod32_range x : 0 <= x mod 32 < 32. Proof. apply Z.mod_pos_bound; lia. Qed.
Lemma modp_range x w : 0 <= w -> 0 <= x mod 2 ^ w < 2 ^ w. Proof. intros; apply Z.mod_pos_bound, pow2_pos; lia. Qed.

(** bitwise operations stay inside the width *)
Lemma lor_range a b n : 0 <= n -> 0 <= a < 2 ^ n -> 0 <= b < 2 ^ n -> 0 <= Z.lor a b < 2 ^ n.
Proof.
  intros Hn Ha Hb. split; [apply Z.lor_nonneg; lia|].
  destruct (Z.eq_dec (Z.lor a b) 0) as [->|NZ]; [apply pow2_pos; lia|].
  assert (Hn0 : 0 < n).
  { destruct (Z.eq_dec n 0) as [->|]; [|lia]. change (2 ^ 0) with 1 in *. assert (a = 0) by lia. subst a.
    exfalso. apply NZ. assert (b = 0) by lia. subst b. reflexivity. }
  assert (0 <= Z.lor a b) by (apply Z.lor_nonneg; lia). apply Z.log2_lt_pow2; [lia|].
  rewrite Z.log2_lor by lia. apply Z.max_lub_lt.
  - destruct (Z.eq_dec a 0) as [->|]; [cbn; lia|]. apply Z.log2_lt_pow2; lia.
  - destruct (Z.eq_dec b 0) as [->|]; [cbn; lia|]. apply Z.log2_lt_pow2; lia.
Qed.
Lemma land_range a b n : 0 <= n -> 0 <= a < 2 ^ n -> 0 <= b -> 0 <= Z.land a b < 2 ^ n.
Proof.
  intros Hn Ha Hb. split; [apply Z.land_nonneg; lia|].
  destruct (Z.eq_dec (Z.land a b) 0) as [->|NZ]; [apply pow2_pos; lia|].
  assert (Hn0 : 0 < n).
  { destruct (Z.eq_dec n 0) as [->|]; [|lia]. change (2 ^ 0) with 1 in *. assert (a = 0) by lia. subst a.
    exfalso. apply NZ. apply Z.land_0_l. }
  assert (0 <= Z.land a b) by (apply Z.land_nonneg; lia). apply Z.log2_lt_pow2; [lia|].
  apply Z.le_lt_trans with (Z.min (Z.log2 a) (Z.log2 b)); [apply Z.log2_land; lia|].
  destruct (Z.eq_dec a 0) as [->|]; [rewrite Z.land_0_l in NZ; contradiction|].
  apply Z.le_lt_trans with (Z.log2 a); [apply Z.le_min_l|apply Z.log2_lt_pow2; lia].
Qed.
Lemma lxor_range a b n : 0 <= n -> 0 <= a < 2 ^ n -> 0 <= b < 2 ^ n -> 0 <= Z.lxor a b < 2 ^ n.
Proof.
  intros Hn Ha Hb. split; [apply Z.lxor_nonneg; lia|].
  destruct (Z.eq_dec (Z.lxor a b) 0) as [->|NZ]; [apply pow2_pos; lia|].
  assert (Hn0 : 0 < n).
  { destruct (Z.eq_dec n 0) as [->|]; [|lia]. change (2 ^ 0) with 1 in *. assert (a = 0) by lia. subst a.
    exfalso. apply NZ. assert (b = 0) by lia. subst b. reflexivity. }
  assert (0 <= Z.lxor a b) by (apply Z.lxor_nonneg; lia). apply Z.log2_lt_pow2; [lia|].
  apply Z.le_lt_trans with (Z.max (Z.log2 a) (Z.log2 b)); [apply Z.log2_lxor; lia|].
  apply Z.max_lub_lt.
  - destruct (Z.eq_dec a 0) as [->|]; [cbn; lia|]. apply Z.log2_lt_pow2; lia.
  - destruct (Z.eq_dec b 0) as [->|]; [cbn; lia|]. apply Z.log2_lt_pow2; lia.
Qed.

Lemma div_pow_range a k n : 0 <= a < 2 ^ n -> 0 <= k -> 0 <= a / 2 ^ k < 2 ^ n.
Proof.
  intros Ha Hk. pose proof (pow2_pos k Hk). split; [apply Z.div_pos; lia|].
  apply Z.le_lt_trans with a; [|lia]. apply Z.div_le_upper_bound; [lia|]. nia.
Qed.
Lemma div_range a b n : 0 <= a < 2 ^ n -> 0 < b -> 0 <= a / b < 2 ^ n.
Proof.
  intros Ha Hb. split; [apply Z.div_pos; lia|].
  apply Z.le_lt_trans with a; [|lia]. apply Z.div_le_upper_bound; [lia|]. nia.
Qed.
Lemma sdiv_pow_range a k w : 0 < w -> - 2 ^ (w - 1) <= a < 2 ^ (w - 1) -> 0 <= k ->
  - 2 ^ (w - 1) <= a / 2 ^ k < 2 ^ (w - 1).
Proof.
  intros Hw Ha Hk. pose proof (pow2_pos k Hk) as P. pose proof (pow2_pos (w - 1) ltac:(lia)) as Q.
  generalize dependent (2 ^ k). generalize dependent (2 ^ (w - 1)). clear. intros h Ha Hh p Hp. split.
  - apply Z.div_le_lower_bound; [lia|]. nia.
  - apply Z.div_lt_upper_bound; [lia|]. nia.
Qed.

(** checked operations that cannot panic *)
Lemma chk_u64 s x : 0 <= x < 2 ^ 64 -> chk U64 s x = Ok x.
Proof. intros. apply chk_ok. unfold in_ty, tmin, tmax; cbn [signed bits]. lia. Qed.
Lemma chk_u32 s x : 0 <= x < 2 ^ 32 -> chk U32 s x = Ok x.
Proof. intros. apply chk_ok. unfold in_ty, tmin, tmax; cbn [signed bits]. lia. Qed.

Lemma cshl64_ok a x : cshl U64 0 a (x mod 64) = Ok ((a * 2 ^ (x mod 64)) mod 2 ^ 64).
Proof.
  unfold cshl. cbn [bits]. pose proof (mod64_range x).
  destruct (Z.leb_spec 0 (x mod 64)); [|lia]. destruct (Z.ltb_spec (x mod 64) 64); [|lia]. reflexivity.
Qed.
Lemma cshr64_ok t a x : bits t = 64 -> cshr t 0 a (x mod 64) = Ok (a / 2 ^ (x mod 64)).
Proof.
  intros Hb. unfold cshr. rewrite Hb. pose proof (mod64_range x).
  destruct (Z.leb_spec 0 (x mod 64)); [|lia]. destruct (Z.ltb_spec (x mod 64) 64); [|lia]. reflexivity.
Qed.
Lemma cdiv_u64_ok a b : 0 <= a < 2 ^ 64 -> 0 < b -> cdiv U64 0 a b = Ok (a / b).
Proof.
  intros Ha Hb. unfold cdiv. destruct (Z.eqb_spec b 0); [lia|]. cbn [signed].
  apply chk_u64, div_range; assumption.
Qed.
Lemma cdiv_u32_ok a b : 0 <= a < 2 ^ 32 -> 0 < b -> cdiv U32 0 a b = Ok (a / b).
Proof.
  intros Ha Hb. unfold cdiv. destruct (Z.eqb_spec b 0); [lia|]. cbn [signed].
  apply chk_u32, div_range; assumption.
Qed.
Lemma crem_u_ok t a b : signed t = false -> 0 < b -> crem t 0 a b = Ok (a mod b).
Proof. intros Hs Hb. unfold crem. destruct (Z.eqb_spec b 0); [lia|]. rewrite Hs. reflexivity. Qed.

(** i32 range of an immediate *)
Lemma imm_mod32_zero x : - 2 ^ 31 <= x < 2 ^ 31 -> (x mod 2 ^ 32 =? 0) = (x =? 0).
Proof. intros H. destruct (Z.eqb_spec x 0) as [->|N]; [reflexivity|]. apply Z.eqb_neq. fold_pows. lia. Qed.
Lemma imm_mod64_zero x : - 2 ^ 31 <= x < 2 ^ 31 -> (x mod 2 ^ 64 =? 0) = (x =? 0).
Proof. intros H. destruct (Z.eqb_spec x 0) as [->|N]; [reflexivity|]. apply Z.eqb_neq. fold_pows. lia. Qed.

(** byte swaps *)
Lemma rev_le_bytes_range n x : 0 <= of_le_bytes (rev (le_bytes n x)) < 256 ^ Z.of_nat n.
Proof.
  pose proof (of_le_bytes_range (rev (le_bytes n x)) (Forall_rev (le_bytes_bytes n x))) as H.
  rewrite rev_length, le_bytes_length in H. exact H.
Qed.
Lemma swap_u16 a : cast U64 (to_be U16 (cast U16 a)) = to_big 16 a.
Proof.
  unfold to_be, swap_bytes, to_big, cast, norm. cbn [signed bits]. unfold umod.
  change (Z.to_nat (16 / 8)) with 2%nat. rewrite Z.mod_mod by (fold_pows; lia).
  pose proof (rev_le_bytes_range 2 (a mod 2 ^ 16)) as R. change (256 ^ Z.of_nat 2) with (2 ^ 16) in R.
  rewrite (Z.mod_small _ (2 ^ 16)) by exact R. apply Z.mod_small. fold_pows. lia.
Qed.
Lemma swap_u32 a : cast U64 (to_be U32 (cast U32 a)) = to_big 32 a.
Proof.
  unfold to_be, swap_bytes, to_big, cast, norm. cbn [signed bits]. unfold umod.
  change (Z.to_nat (32 / 8)) with 4%nat. rewrite Z.mod_mod by (fold_pows; lia).
  pose proof (rev_le_bytes_range 4 (a mod 2 ^ 32)) as R. change (256 ^ Z.of_nat 4) with (2 ^ 32) in R.
  rewrite (Z.mod_small _ (2 ^ 32)) by exact R. apply Z.mod_small. fold_pows. lia.
Qed.
Lemma swap_u64 a : 0 <= a < 2 ^ 64 -> to_be U64 a = to_big 64 a.
Proof.
  intros Ha. unfold to_be, swap_bytes, to_big, cast, norm. cbn [signed bits]. unfold umod.
  change (Z.to_nat (64 / 8)) with 8%nat.
  pose proof (rev_le_bytes_range 8 (a mod 2 ^ 64)) as R. change (256 ^ Z.of_nat 8) with (2 ^ 64) in R.
  apply Z.mod_small. exact R.
Qed.
Lemma le_u16 a : cast U64 (to_le U16 (cast U16 a)) = to_little 16 a.
Proof. unfold to_le, to_little, cast, norm. cbn [signed bits]. unfold umod. apply mod_pow_small. lia. Qed.
Lemma le_u32 a : cast U64 (to_le U32 (cast U32 a)) = to_little 32 a.
Proof. unfold to_le, to_little, cast, norm. cbn [signed bits]. unfold umod. apply mod_pow_small. lia. Qed.
Lemma le_u64 a : 0 <= a < 2 ^ 64 -> to_le U64 a = to_little 64 a.
Proof. intros. unfold to_le, to_little. symmetry. now apply Z.mod_small. Qed.
