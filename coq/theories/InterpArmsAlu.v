(** C01, ALU / byte-swap / wide-load arms: generated interpreter arm = ISA specification. *)
From Coq Require Import ZArith Lia Bool List.
From RbpfV Require Import MachInt BitLemmas ListLemmas Ebpf Mem InterpDefs WellFormed Isa ArmBase ArmVals.
From RbpfV.gen Require Import Opcodes Codec Interp.
Import ListNotations.
Open Scope Z_scope.
Ltac Zify.zify_post_hook ::= Z.div_mod_to_equations.

Lemma rd_upd_same reg d v : regs_ok reg -> 0 <= d <= 10 -> rd (upd reg d v) d = v.
Proof.
  intros [Hl _] Hd. unfold rd, upd.
  assert (H : (Z.to_nat d < length reg)%nat) by lia. clear Hl Hd.
  revert H. generalize (Z.to_nat d). intros n. revert reg. induction n; intros [|h t] H; cbn in *; try lia; auto.
  apply IHn. lia.
Qed.
Lemma upd_upd reg d a b : upd (upd reg d a) d b = upd reg d b.
Proof.
  unfold upd. generalize (Z.to_nat d). intros n. revert reg. induction n; intros [|h t]; cbn; auto. now rewrite IHn.
Qed.

Section Arms.
Variables (E : ienv) (i : insn) (reg : list Z) (next fidx : Z) (stacks : list frame) (m : mem).
Hypothesis Hw : wf_insn i.
Hypothesis Hr : regs_ok reg.
Hypothesis Hd : dst i <= 10.
Hypothesis Hs : src i <= 10.

Lemma cast_dst : cast USZ (dst i) = dst i.
Proof. destruct Hw as (_ & H & _). apply cast_usz_id. fold_pows. lia. Qed.
Lemma cast_src : cast USZ (src i) = src i.
Proof. destruct Hw as (_ & _ & H & _). apply cast_usz_id. fold_pows. lia. Qed.
Lemma dst_rng : 0 <= dst i <= 10. Proof. destruct Hw as (_ & H & _). lia. Qed.
Lemma imm_rng : - 2 ^ 31 <= imm i < 2 ^ 31. Proof. destruct Hw as (_ & _ & _ & _ & H). exact H. Qed.

Ltac rdr := match goal with |- context [rd reg ?k] =>
  lazymatch goal with
  | H : 0 <= rd reg k < 2 ^ 64 |- _ => fail
  | _ => pose proof (rd_range reg k Hr)
  end end.

(** finishing tactics for the value equations *)
Ltac unf := unfold cast, wadd, wsub, wmul, wneg, wshl, wshr, norm; cbn [signed bits]; unfold umod.
Ltac small64 := repeat rdr; rewrite ?(Z.mod_small (rd reg _) (2 ^ 64)) by assumption.
Ltac val_cong w :=
  unf; rewrite ?mod_pow_small by lia;
  match goal with |- ?X mod 2 ^ _ = ?Y mod 2 ^ _ => change (cong w X Y); cong_tac w end.

Ltac fin_val :=
  first
  [ reflexivity
  | small64; reflexivity
  | val_cong 64
  | val_cong 32
  | (* 32-bit results: drop the zero-extension, then bit-operation / shift ranges *)
    unf; repeat rdr;
    rewrite ?mod_pow_small by lia;
    first [ reflexivity
          | apply Z.mod_small; pose proof (modp_range (rd reg (dst i)) 32 ltac:(lia));
            first [ apply lor_range | apply land_range | apply lxor_range | apply div_pow_range ];
            try lia; try (apply modp_range; lia); try (apply mod32_range) ] ].

Ltac start := intros Ho; arm_start; rewrite ?cast_dst, ?cast_src; unfold set_reg.

Lemma alu_arms o : In o [0x04; 0x0c; 0x14; 0x1c; 0x24; 0x2c; 0x44; 0x4c; 0x54; 0x5c; 0x64; 0x6c; 0x74; 0x7c;
                         0xa4; 0xac; 0xb4; 0xbc;
                         0x07; 0x0f; 0x17; 0x1f; 0x27; 0x2f; 0x47; 0x4f; 0x57; 0x5f; 0xa7; 0xaf; 0xb7; 0xbf; 0x87] ->
  opc i = o ->
  gen_interp_arm o E i (cast USZ (dst i)) (cast USZ (src i)) reg next fidx stacks m
  = conv (isa_exec E i reg next fidx stacks m).
Proof.
  intros Hin.
  repeat (destruct Hin as [<-|Hin]; [start; apply next_reg_eq; fin_val|]).
  destruct Hin.
Qed.

(** shifts by a masked 64-bit amount *)
Lemma sh64_arms o : In o [0x67; 0x6f; 0x77; 0x7f; 0xc7; 0xcf] -> opc i = o ->
  gen_interp_arm o E i (cast USZ (dst i)) (cast USZ (src i)) reg next fidx stacks m
  = conv (isa_exec E i reg next fidx stacks m).
Proof.
  intros Hin.
  repeat (destruct Hin as [<-|Hin];
    [start; rewrite land_63; rewrite ?cshl64_ok, ?(cshr64_ok U64), ?(cshr64_ok I64) by reflexivity; cbn [bind];
     apply next_reg_eq; small64; unf; rewrite ?Z.mod_mod by (fold_pows; lia); reflexivity|]).
  destruct Hin.
Qed.

(** arithmetic right shift and negation at 32 bits: computed signed, then masked *)
Lemma arsh32_arms o : In o [0xc4; 0xcc; 0x84] -> opc i = o ->
  gen_interp_arm o E i (cast USZ (dst i)) (cast USZ (src i)) reg next fidx stacks m
  = conv (isa_exec E i reg next fidx stacks m).
Proof.
  intros Hin. pose proof dst_rng as Hdr.
  repeat (destruct Hin as [<-|Hin];
    [start; rewrite rd_upd_same, upd_upd by assumption; apply next_reg_eq; rewrite land_u32max;
     unf; rewrite ?mod_mod_pow by lia; rewrite ?smod_of_mod by lia;
     first [reflexivity | match goal with |- ?X mod 2 ^ 32 = ?Y mod 2 ^ 32 => change (cong 32 X Y); cong_tac 32 end]|]).
  destruct Hin.
Qed.

(** division and modulo: by zero gives 0 / leaves the destination *)
Lemma div_arms o : In o [0x34; 0x3c; 0x37; 0x3f] -> opc i = o ->
  gen_interp_arm o E i (cast USZ (dst i)) (cast USZ (src i)) reg next fidx stacks m
  = conv (isa_exec E i reg next fidx stacks m).
Proof.
  intros Hin. pose proof imm_rng as Hi.
  repeat (destruct Hin as [<-|Hin];
    [start; repeat rdr; rewrite ?cast_u32_mod, ?cast_u64_mod, ?imm_mod64_zero, ?(Z.mod_small (rd reg _) (2 ^ 64)) by assumption;
     match goal with |- (if ?c then _ else _) = _ => destruct c eqn:Ec end;
     [reflexivity|];
     apply Z.eqb_neq in Ec;
     first [ rewrite cdiv_u32_ok by (try (apply modp_range; lia); match goal with |- 0 < ?x mod ?y => pose proof (modp_range x 32 ltac:(lia)); lia end)
           | rewrite cdiv_u64_ok by (try assumption; try (pose proof (modp_range (imm i) 64 ltac:(lia)); fold_pows; lia); lia) ];
     cbn [bind]; apply next_reg_eq;
     first [ reflexivity
           | unf; apply Z.mod_small;
             match goal with |- 0 <= ?a mod ?p / (?b mod ?p) < _ =>
               pose proof (modp_range a 32 ltac:(lia)) as Ra; pose proof (modp_range b 32 ltac:(lia)) as Rb;
               pose proof (div_range (a mod p) (b mod p) 32 Ra ltac:(lia)) end;
             fold_pows; lia ]|]).
  destruct Hin.
Qed.

Lemma mod_arms o : In o [0x94; 0x9c; 0x97; 0x9f] -> opc i = o ->
  gen_interp_arm o E i (cast USZ (dst i)) (cast USZ (src i)) reg next fidx stacks m
  = conv (isa_exec E i reg next fidx stacks m).
Proof.
  intros Hin. pose proof imm_rng as Hi.
  repeat (destruct Hin as [<-|Hin];
    [start; repeat rdr; rewrite ?cast_u32_mod, ?cast_u64_mod, ?imm_mod64_zero, ?(Z.mod_small (rd reg _) (2 ^ 64)) by assumption;
     match goal with |- (if ?c then _ else _) = _ => destruct c eqn:Ec end;
     [reflexivity|];
     apply Z.eqb_neq in Ec;
     rewrite crem_u_ok by (try reflexivity;
        match goal with |- 0 < ?x mod 2 ^ ?w => pose proof (modp_range x w ltac:(lia)); lia | _ => lia end);
     cbn [bind conv]; apply next_reg_eq;
     first [ reflexivity
           | unf; apply Z.mod_small;
             match goal with |- 0 <= (?a mod ?p) mod (?b mod ?p) < _ =>
               pose proof (modp_range a 32 ltac:(lia)) as Ra; pose proof (modp_range b 32 ltac:(lia)) as Rb;
               pose proof (Z.mod_pos_bound (a mod p) (b mod p) ltac:(lia)) end;
             fold_pows; lia ]|]).
  destruct Hin.
Qed.

(** byte swaps: the verifier guarantees a width of 16, 32 or 64 *)
Lemma endian_arms o : In o [0xd4; 0xdc] -> opc i = o -> (imm i = 16 \/ imm i = 32 \/ imm i = 64) ->
  gen_interp_arm o E i (cast USZ (dst i)) (cast USZ (src i)) reg next fidx stacks m
  = conv (isa_exec E i reg next fidx stacks m).
Proof.
  intros Hin Ho Hwid. revert Ho. pose proof (rd_range reg (dst i) Hr) as Ra.
  repeat (destruct Hin as [<-|Hin];
    [start; destruct Hwid as [W|[W|W]]; rewrite W; cbn [Z.eqb Pos.eqb bind]; apply next_reg_eq;
     lazymatch goal with
     | |- cast U64 (to_be U16 _) = _ => apply swap_u16
     | |- cast U64 (to_be U32 _) = _ => apply swap_u32
     | |- to_be U64 _ = _ => apply swap_u64; assumption
     | |- cast U64 (to_le U16 _) = _ => apply le_u16
     | |- cast U64 (to_le U32 _) = _ => apply le_u32
     | |- to_le U64 _ = _ => apply le_u64; assumption
     end|]).
  destruct Hin.
Qed.

(** wide load: the immediate of the next slot supplies the upper half *)
Lemma lddw_arm : opc i = 0x18 ->
  gen_get_insn (e_prog E) next = Ok (insn_at (e_prog E) next) -> 0 <= next < 2 ^ 62 ->
  - 2 ^ 31 <= imm (insn_at (e_prog E) next) < 2 ^ 31 ->
  gen_interp_arm 0x18 E i (cast USZ (dst i)) (cast USZ (src i)) reg next fidx stacks m
  = conv (isa_exec E i reg next fidx stacks m).
Proof.
  intros Ho Hg Hn Hi2. pose proof imm_rng as Hi.
  unfold isa_exec. rewrite Ho. decode_isa.
  change (gen_interp_arm 24 E i (cast USZ (dst i)) (cast USZ (src i)) reg next fidx stacks m)
    with (gen_interp_arm_LD_DW_IMM E i (cast USZ (dst i)) (cast USZ (src i)) reg next fidx stacks m).
  unfold gen_interp_arm_LD_DW_IMM, isa_exec_dec. rewrite Hg. cbn [bind].
  set (hi := imm (insn_at (e_prog E) next)) in *.
  change (24 mod 8) with 0. cbn [Z.eqb orb]. change (24 =? op_lddw) with true. cbv iota. cbv zeta.
  unfold cadd at 1. rewrite chk_ok by (apply in_ty_usz; change (2 ^ 62) with 4611686018427387904 in Hn; fold_pows; lia).
  cbn [bind]. unfold cshl. cbn [bits]. change ((0 <=? 32) && (32 <? 64)) with true. cbv iota. cbn [bind].
  unfold cadd. rewrite cast_dst. unfold set_reg, conv.
  assert (V : cast U64 (cast U32 (imm i)) + norm U64 (cast U64 hi * 2 ^ 32) = u64 (u32 (imm i) + u32 hi * 2 ^ 32)).
  { unfold cast, norm, u64, u32; cbn [signed bits]; unfold umod.
    rewrite mod_pow_small by lia.
    pose proof (modp_range (imm i) 32 ltac:(lia)) as R1. pose proof (modp_range hi 32 ltac:(lia)) as R2.
    assert (E1 : (hi mod 2 ^ 64 * 2 ^ 32) mod 2 ^ 64 = (hi mod 2 ^ 32) * 2 ^ 32).
    { change (2 ^ 64) with (2 ^ 32 * 2 ^ 32) at 2. rewrite Z.mul_mod_distr_r by (fold_pows; lia).
      now rewrite mod_mod_pow by lia. }
    rewrite E1. symmetry. apply Z.mod_small. clear - R1 R2. fold_pows. lia. }
  rewrite V. unfold chk. rewrite (proj2 (in_tyb_spec U64 _)) by (unfold in_ty, tmin, tmax, u64; cbn [signed bits]; pose proof (modp_range (u32 (imm i) + u32 hi * 2 ^ 32) 64 ltac:(lia)); lia).
  cbn [bind]. reflexivity.
Qed.
End Arms.
