(** The assembler: parser model (AsmParser.v, hand-written) + the code regenerated from src/assembler.rs
    (coq/gen/Asm.v) + the glue of assemble_internal / assemble (hand-written here, tied by the correspondence). *)
From Coq Require Import ZArith List Bool String.
From RbpfV Require Import MachInt Ebpf AsmDefs AsmParser.
From RbpfV.gen Require Import Codec Asm.
Import ListNotations.
Open Scope Z_scope.

(** for instruction in parsed { lookup; encode -> push | return Err; lddw second slot } *)
Fixpoint assemble_internal (parsed : list instr) : res (list insn) :=
  match parsed with
  | [] => Ok []
  | (name, ops) :: rest =>
    match map_get name gen_instruction_map with
    | None => Err 0
    | Some (ty, opc) =>
      i <- gen_encode ty opc ops ;;
      second <- gen_lddw_second ty ops ;;
      r <- assemble_internal rest ;;
      Ok (i :: second ++ r)
    end
  end.

Fixpoint emit (l : list insn) : res (list Z) :=
  match l with
  | [] => Ok []
  | i :: r => b <- gen_to_array i ;; t <- emit r ;; Ok (b ++ t)
  end.

Definition assemble (U : uclass) (src : list Z) : res (list Z) :=
  parsed <- parse U src ;; insns <- assemble_internal parsed ;; emit insns.
