#!/bin/sh
# run every claimed check (quick tier by default) on the current tree; prints one line per check (with the exit status of the
# check: 0 = held, 1 = violation reported, anything else = the check itself failed)
tier=${1:-quick}
cd /verif
for c in $(python3 -c "import json; print(' '.join(x['property_id'] for x in json.load(open('MANIFEST.json'))['checks']))"); do
  s=$(date +%s)
  all=$(bin/check $c $tier 2>&1)
  rc=$?
  out=$(echo "$all" | grep -E "^(VIOLATION|KNOWN-FINDING)" | cut -c1-120)
  e=$(date +%s)
  echo "$c $((e-s))s exit=$rc $(echo "$out" | grep -c VIOLATION) violations $(echo "$out" | grep -c KNOWN-FINDING) known"
  if [ $rc -gt 1 ]; then echo "$all" | tail -5; fi
done
