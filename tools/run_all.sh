#!/bin/sh
# run every claimed check (quick tier by default) on the current tree; prints one line per check
tier=${1:-quick}
cd /verif
for c in $(python3 -c "import json; print(' '.join(x['property_id'] for x in json.load(open('MANIFEST.json'))['checks']))"); do
  s=$(date +%s)
  out=$(bin/check $c $tier 2>/dev/null | grep -E "^(VIOLATION|KNOWN-FINDING)" | cut -c1-120)
  rc=$?
  e=$(date +%s)
  echo "$c $((e-s))s $(echo "$out" | grep -c VIOLATION) violations $(echo "$out" | grep -c KNOWN-FINDING) known"
done
