#!/usr/bin/env python3
"""usage: tools/seed_round.py <suffix> [ids...]   -- process the seeded changes left by sub-agents in /tmp/seed/<id><suffix>:
run the check of the property against the change (tools/try_seed.sh), confirm the change in its worktree
(tools/confirm_seed.sh: suite passes with it, demo fails with it and passes without), and, when it is both confirmed and
reported with a concrete replay, store it under /verif/seeded/<id><suffix>/ and remove the worktree.  Seeds that are missed
(or only reported as a broken obligation) are left in place for the check to be strengthened."""
import json
import os
import re
import shutil
import subprocess
import sys

suffix = sys.argv[1]
ids = sys.argv[2:] or ['C%02d' % k for k in range(1, 21)]
os.chdir('/verif')
for pid in ids:
    sid = pid + suffix
    wt = '/tmp/seed/' + sid
    sd = wt + '/seeded'
    if not os.path.exists(sd + '/patch.diff') or not os.path.exists(sd + '/meta.json'):
        print('%s: not ready' % sid)
        continue
    st = subprocess.run(['git', '-C', '/repo', 'status', '--short'], capture_output=True, text=True).stdout.strip()
    if st:
        print('/repo is not clean: %s' % st)
        sys.exit(2)
    out = subprocess.run(['tools/try_seed.sh', sd + '/patch.diff', pid], capture_output=True, text=True).stdout
    lines = [l for l in out.splitlines() if l.startswith('VIOLATION property=' + pid)]
    concrete = len([l for l in lines if not l.rstrip().endswith('no-failing-input-found')])
    broken = len(lines) - concrete
    meta = json.load(open(sd + '/meta.json'))
    cmd = str(meta.get('demo_cmd', '')) + ' ' + str(meta.get('tests_cmd', ''))
    feat = []
    if 'no-default-features' in str(meta.get('demo_cmd', '')):
        feat = ['--no-default-features']
    elif re.search(r'features[ =]cranelift', str(meta.get('demo_cmd', ''))) or 'cranelift' in ' '.join(meta.get('files_changed', []) if isinstance(meta.get('files_changed'), list) else [str(meta.get('files_changed'))]):
        feat = ['--features', 'cranelift']
    conf = subprocess.run(['tools/confirm_seed.sh', wt, sid] + feat, capture_output=True, text=True).stdout.strip().splitlines()
    conf = conf[-1] if conf else ''
    m = re.search(r'(\d+) passed (\d+) failed \| demo with change: test result: (\w+)\. (\d+) passed; (\d+) failed.*demo without: test result: (\w+)\. (\d+) passed; (\d+) failed', conf)
    confirmed = bool(m) and m.group(2) == '0' and int(m.group(5)) > 0 and m.group(8) == '0' and int(m.group(7)) > 0
    print('%s: concrete=%d broken-only=%d confirmed=%s | %s' % (sid, concrete, broken, confirmed, conf[:150]))
    if concrete and confirmed:
        dst = '/verif/seeded/' + sid
        os.makedirs(dst, exist_ok=True)
        shutil.copy(sd + '/patch.diff', dst + '/patch.diff')
        shutil.copy(sd + '/demo.rs', dst + '/demo.rs')
        meta['confirmed_by_me'] = conf
        meta['checks_run'] = {'caught_by': [pid], 'how': 'tools/try_seed.sh seeded/%s/patch.diff %s (quick tier): %d concrete VIOLATION lines with replay files' % (sid, pid, concrete)}
        json.dump(meta, open(dst + '/meta.json', 'w'), indent=1)
        subprocess.run(['git', '-C', '/repo', 'worktree', 'remove', '--force', wt])
