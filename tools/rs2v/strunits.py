"""rs2v units working on text: src/disassembler.rs (Disasm) and src/assembler.rs (Asm).
Strings are Coq `string`s; `format!` becomes concatenation of literal pieces and Fmt.fmt_dec / Fmt.fmt_hex
applied to the (typed) arguments."""
import rsparse as R
from rsparse import Unsupported, Parser
from rsemit import Emitter, show
import rsimp
from rsimp import ImpTr, coqname
import units as U

LOG_MACROS = ('warn', 'info', 'debug', 'trace', 'error', 'println', 'eprintln')


def rust_str(tok):
    body = tok[1:-1]
    out, i = [], 0
    while i < len(body):
        c = body[i]
        if c == '\\':
            n = body[i + 1]
            m = {'n': '\n', 't': '\t', '"': '"', '\\': '\\', '0': '\0', 'r': '\r', "'": "'"}
            if n not in m:
                raise Unsupported("string escape \\%s" % n)
            out.append(m[n])
            i += 2
        else:
            out.append(c)
            i += 1
    return ''.join(out)


def coq_str(s):
    for ch in s:
        if ord(ch) < 32 or ord(ch) > 126:
            raise Unsupported("non-printable character in a string literal")
    return '"%s"' % s.replace('"', '""')


def parse_fmt(s):
    """format string -> [('lit', text) | ('arg', name or None, spec)]"""
    out, lit, i = [], [], 0
    while i < len(s):
        c = s[i]
        if c == '{':
            if s[i + 1:i + 2] == '{':
                lit.append('{')
                i += 2
                continue
            j = s.index('}', i)
            inner = s[i + 1:j]
            name, _, spec = inner.partition(':')
            if lit:
                out.append(('lit', ''.join(lit)))
                lit = []
            out.append(('arg', name or None, spec))
            i = j + 1
        elif c == '}':
            if s[i + 1:i + 2] != '}':
                raise Unsupported("format string: lone }")
            lit.append('}')
            i += 2
        else:
            lit.append(c)
            i += 1
    if lit:
        out.append(('lit', ''.join(lit)))
    return out


def split_args(raw):
    """token list -> list of token lists split at top-level commas"""
    groups, cur, depth = [], [], 0
    for t in raw:
        if t[0] == 'op' and t[1] in '([{':
            depth += 1
        if t[0] == 'op' and t[1] in ')]}':
            depth -= 1
        if t[0] == 'op' and t[1] == ',' and depth == 0:
            groups.append(cur)
            cur = []
        else:
            cur.append(t)
    if cur:
        groups.append(cur)
    return groups


def format_term(em, raw):
    groups = split_args(raw)
    if not groups or len(groups[0]) != 1 or groups[0][0][0] != 'str':
        raise Unsupported("format!: first argument is not a string literal")
    pieces = parse_fmt(rust_str(groups[0][0][1]))
    args = [Parser(g + [('eof', '', None, -1)]).expr() for g in groups[1:]]
    nxt = 0
    parts = []
    for p in pieces:
        if p[0] == 'lit':
            parts.append(coq_str(p[1]))
            continue
        _, name, spec = p
        if name is None:
            if nxt >= len(args):
                raise Unsupported("format!: too few arguments")
            a = args[nxt]
            nxt += 1
        elif name.isdigit():
            raise Unsupported("format!: positional index")
        else:
            a = ('path', name)
        t, ty = em.expr(a)
        if ty == 'STR':
            if spec not in ('',):
                raise Unsupported("format spec %r on a string" % spec)
            parts.append(t)
        elif ty == 'BOOL':
            raise Unsupported("format! of a bool")
        else:
            if spec in ('', '?'):
                parts.append('(fmt_dec %s)' % t)
            elif spec in ('#x', '#2x'):
                parts.append('(fmt_hex %s %s)' % (ty, t))
            else:
                raise Unsupported("format spec %r" % spec)
    if nxt != len(args):
        raise Unsupported("format!: unused arguments")
    if not parts:
        return 'EmptyString'
    return '(' + ' ++ '.join(parts) + ')%string' if len(parts) > 1 else parts[0]


def install_str_hooks(em, strfns):
    orig = em.expr

    def expr(e, expect=None):
        k = e[0]
        if k == 'str':
            return coq_str(rust_str(e[1])) + '%string', 'STR'
        if k == 'macro' and e[1] == 'format':
            return format_term(em, e[2]), 'STR'
        if k == 'mcall' and e[2] in ('to_string', 'as_str', 'to_owned', 'clone') and not e[3]:
            t, ty = em.expr(e[1])
            if ty == 'STR':
                return t, ty
        if k == 'call' and e[1][0] == 'path' and e[1][1] in strfns:
            ts = []
            for a in e[2]:
                t, _ = em.expr(a)
                ts.append(t)
            return em.hoist('gen_%s %s' % (e[1][1], ' '.join(ts))), 'STR'
        if k == 'path' and e[1] == 'insn':
            return 'insn', 'INSN'
        return orig(e, expect)
    em.expr = expr


def effect_free_match(e):
    if e[0] != 'match':
        return False
    for pat, guard, body, ln, attrs in e[2]:
        if body[0] == 'block' and not body[1]:
            continue
        if body[0] == 'unit':
            continue
        if body[0] == 'macro' and body[1] in LOG_MACROS:
            continue
        return False
    return True


DISASM_HDR = ("From Coq Require Import String.\nFrom RbpfV Require Import Ebpf Fmt DisasmDefs.\nFrom RbpfV.gen Require Import Opcodes Codec.\n\n")


def gen_disasm(src_dir):
    rsimp.RESERVED_EXTRA = {'imm'}
    try:
        return gen_disasm_(src_dir)
    finally:
        rsimp.RESERVED_EXTRA = set()


def gen_disasm_(src_dir):
    env, _ = U.read_consts(src_dir)
    toks = U.load(src_dir, 'disassembler.rs')
    out = [U.HDR % 'src/disassembler.rs (operand renderers and to_insn_vec)', DISASM_HDR]
    # every fn NAME(name: &str, insn: &ebpf::Insn) -> String
    strfns = []
    i = 0
    while i < len(toks):
        if toks[i][0] == 'id' and toks[i][1] == 'fn' and toks[i + 1][1].endswith('_str'):
            strfns.append(toks[i + 1][1])
        i += 1
    for fn in strfns:
        sig, body = R.parse_fn(toks, fn)
        sigtxt = ' '.join(t[1] for t in sig)
        if 'name : & str , insn : & ebpf :: Insn ) -> String' not in sigtxt:
            raise Unsupported("signature of %s" % fn)
        leaves = U.insn_leaves('insn', 'insn')
        em = Emitter(env, leaves)
        em.locals['name'] = ('name', 'STR')
        install_str_hooks(em, [])

        def hook(tr_, st, k, mode, names):
            if st[0] == 'stmt' and effect_free_match(st[1]):
                return k()
            return None
        tr = ImpTr(em, [], stmt_hook=hook)
        term = tr.value_block(body, 'STR')
        out.append("Definition gen_%s (name : string) (insn : insn) : res string :=\n  %s.\n\n" % (fn, term))
    # to_insn_vec
    _, body = R.parse_fn(toks, 'to_insn_vec')
    em = Emitter(env, {})
    install_str_hooks(em, strfns)
    gi_hook = U.get_insn_hook(em)
    for v, ty in (('name', 'STR'), ('desc', 'STR'), ('res', 'HLVEC')):
        em.locals[v] = (v, ty)

    def hook2(tr_, st, k, mode, names):
        r = gi_hook(tr_, st, k, mode, names)
        if r is not None:
            return r
        if st[0] == 'let' and st[3] is None and st[1][0] == 'ppath' and st[1][1] in ('name', 'desc'):
            # `let name;` -- assigned in every arm before use; the model starts it as the empty string
            return '(let %s := EmptyString in %s)' % (st[1][1], k())
        if st[0] == 'let' and st[3] is not None and st[3][0] == 'macro' and st[3][1] == 'vec' and not st[3][2]:
            em.locals[st[1][1]] = (coqname(st[1][1]), 'HLVEC')
            return '(let %s := @nil hlinsn in %s)' % (coqname(st[1][1]), k())
        if st[0] == 'let' and st[3] is not None and st[3][0] == 'struct' and st[3][1] == 'HLInsn':
            fs = []
            for fname, fe in st[3][2]:
                t, _ = em.expr(fe)
                fs.append('h_%s := %s' % (fname, t))
            binds = em.take_binds()
            em.locals[st[1][1]] = (coqname(st[1][1]), 'HL')
            return Emitter.wrap_binds(binds, '(let %s := {| %s |} in %s)' % (coqname(st[1][1]), '; '.join(fs), k()))
        if st[0] == 'stmt' and st[1][0] == 'mcall' and st[1][2] == 'push' and show(st[1][1]) == 'res':
            t, _ = em.expr(st[1][3][0])
            return '(let res := (res ++ [%s])%%list in %s)' % (t, k())
        if st[0] == 'stmt' and st[1][0] == 'return' and st[1][1] is not None and st[1][1][0] == 'macro' and st[1][1][1] == 'vec':
            return None
        return None

    tr = ImpTr(em, ['name', 'desc', 'imm', 'insn_ptr', 'res'], stmt_hook=hook2)

    def mutating_call(e):
        if e[0] == 'mcall' and e[2] == 'push' and show(e[1]) == 'res':
            return ['res']
        return []
    tr.mutating_call = mutating_call

    def ret_hook(tr_, mode, e):
        if e is not None and e[0] == 'macro' and e[1] == 'vec' and not e[2]:
            if mode == 'fn':
                return 'Ok (@nil hlinsn)'
            if mode == 'ctl':
                return 'Ok (Ret (@nil hlinsn))'
        return None
    tr.ret_hook = ret_hook
    tr.loop_name = 'gen_disasm_loop'
    tr.loop_params = '(prog : list Z)'
    tr.loop_state_type = '(Z * list hlinsn)'
    tr.named_matches['insn.opc'] = ('gen_disasm_arm', '(prog : list Z) (insn : insn) (name desc : string) (imm_ insn_ptr : Z)',
                                    'prog insn name desc imm_ insn_ptr', 'res (string * string * Z * Z)')
    term = tr.block(body, 'fn', [], tail_value=True)
    out.extend(d + '\n' for d in tr.aux_defs)
    out.append("Definition gen_to_insn_vec (fuel : nat) (prog : list Z) : res (list hlinsn) :=\n  %s.\n" % term)
    return ''.join(out)
