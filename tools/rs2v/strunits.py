"""rs2v units working on text: src/disassembler.rs (Disasm) and src/assembler.rs (Asm).
Strings are Coq `string`s; `format!` becomes concatenation of literal pieces and Fmt.fmt_dec / Fmt.fmt_hex
applied to the (typed) arguments."""
import rsparse as R
from rsparse import Unsupported, Parser
from rsemit import Emitter, show
import rsimp
from rsimp import ImpTr, coqname
import units as U

LOG_MACROS = ('warn', 'info', 'debug', 'trace', 'error', 'println', 'eprintln')


def rust_str(tok):
    body = tok[1:-1]
    out, i = [], 0
    while i < len(body):
        c = body[i]
        if c == '\\':
            n = body[i + 1]
            m = {'n': '\n', 't': '\t', '"': '"', '\\': '\\', '0': '\0', 'r': '\r', "'": "'"}
            if n not in m:
                raise Unsupported("string escape \\%s" % n)
            out.append(m[n])
            i += 2
        else:
            out.append(c)
            i += 1
    return ''.join(out)


def coq_str(s):
    for ch in s:
        if ord(ch) < 32 or ord(ch) > 126:
            raise Unsupported("non-printable character in a string literal")
    return '"%s"' % s.replace('"', '""')


def parse_fmt(s):
    """format string -> [('lit', text) | ('arg', name or None, spec)]"""
    out, lit, i = [], [], 0
    while i < len(s):
        c = s[i]
        if c == '{':
            if s[i + 1:i + 2] == '{':
                lit.append('{')
                i += 2
                continue
            j = s.index('}', i)
            inner = s[i + 1:j]
            name, _, spec = inner.partition(':')
            if lit:
                out.append(('lit', ''.join(lit)))
                lit = []
            out.append(('arg', name or None, spec))
            i = j + 1
        elif c == '}':
            if s[i + 1:i + 2] != '}':
                raise Unsupported("format string: lone }")
            lit.append('}')
            i += 2
        else:
            lit.append(c)
            i += 1
    if lit:
        out.append(('lit', ''.join(lit)))
    return out


def split_args(raw):
    """token list -> list of token lists split at top-level commas"""
    groups, cur, depth = [], [], 0
    for t in raw:
        if t[0] == 'op' and t[1] in '([{':
            depth += 1
        if t[0] == 'op' and t[1] in ')]}':
            depth -= 1
        if t[0] == 'op' and t[1] == ',' and depth == 0:
            groups.append(cur)
            cur = []
        else:
            cur.append(t)
    if cur:
        groups.append(cur)
    return groups


def format_term(em, raw):
    groups = split_args(raw)
    if not groups or len(groups[0]) != 1 or groups[0][0][0] != 'str':
        raise Unsupported("format!: first argument is not a string literal")
    pieces = parse_fmt(rust_str(groups[0][0][1]))
    args = [Parser(g + [('eof', '', None, -1)]).expr() for g in groups[1:]]
    nxt = 0
    parts = []
    for p in pieces:
        if p[0] == 'lit':
            parts.append(coq_str(p[1]))
            continue
        _, name, spec = p
        if name is None:
            if nxt >= len(args):
                raise Unsupported("format!: too few arguments")
            a = args[nxt]
            nxt += 1
        elif name.isdigit():
            raise Unsupported("format!: positional index")
        else:
            a = ('path', name)
        t, ty = em.expr(a)
        if ty == 'STR':
            if spec not in ('',):
                raise Unsupported("format spec %r on a string" % spec)
            parts.append(t)
        elif ty == 'BOOL':
            raise Unsupported("format! of a bool")
        else:
            if spec in ('', '?'):
                parts.append('(fmt_dec %s)' % t)
            elif spec in ('#x', '#2x'):
                parts.append('(fmt_hex %s %s)' % (ty, t))
            else:
                raise Unsupported("format spec %r" % spec)
    if nxt != len(args):
        raise Unsupported("format!: unused arguments")
    if not parts:
        return 'EmptyString'
    return '(' + ' ++ '.join(parts) + ')%string' if len(parts) > 1 else parts[0]


def install_str_hooks(em, strfns):
    orig = em.expr

    def expr(e, expect=None):
        k = e[0]
        if k == 'str':
            return coq_str(rust_str(e[1])) + '%string', 'STR'
        if k == 'macro' and e[1] == 'format':
            return format_term(em, e[2]), 'STR'
        if k == 'mcall' and e[2] in ('to_string', 'as_str', 'to_owned', 'clone') and not e[3]:
            t, ty = em.expr(e[1])
            if ty == 'STR':
                return t, ty
        if k == 'call' and e[1][0] == 'path' and e[1][1] in strfns:
            ts = []
            for a in e[2]:
                t, _ = em.expr(a)
                ts.append(t)
            return em.hoist('gen_%s %s' % (e[1][1], ' '.join(ts))), 'STR'
        if k == 'path' and e[1] == 'insn':
            return 'insn', 'INSN'
        return orig(e, expect)
    em.expr = expr


def effect_free_match(e):
    if e[0] != 'match':
        return False
    for pat, guard, body, ln, attrs in e[2]:
        if body[0] == 'block' and not body[1]:
            continue
        if body[0] == 'unit':
            continue
        if body[0] == 'macro' and body[1] in LOG_MACROS:
            continue
        return False
    return True


DISASM_HDR = ("From Coq Require Import String.\nFrom RbpfV Require Import Ebpf Fmt DisasmDefs.\nFrom RbpfV.gen Require Import Opcodes Codec.\n\n")


def gen_disasm(src_dir):
    rsimp.RESERVED_EXTRA = {'imm'}
    try:
        return gen_disasm_(src_dir)
    finally:
        rsimp.RESERVED_EXTRA = set()


def gen_disasm_(src_dir):
    env, _ = U.read_consts(src_dir)
    toks = U.load(src_dir, 'disassembler.rs')
    out = [U.HDR % 'src/disassembler.rs (operand renderers and to_insn_vec)', DISASM_HDR]
    # every fn NAME(name: &str, insn: &ebpf::Insn) -> String
    strfns = []
    i = 0
    while i < len(toks):
        if toks[i][0] == 'id' and toks[i][1] == 'fn' and toks[i + 1][1].endswith('_str'):
            strfns.append(toks[i + 1][1])
        i += 1
    for fn in strfns:
        sig, body = R.parse_fn(toks, fn)
        sigtxt = ' '.join(t[1] for t in sig)
        if 'name : & str , insn : & ebpf :: Insn ) -> String' not in sigtxt:
            raise Unsupported("signature of %s" % fn)
        leaves = U.insn_leaves('insn', 'insn')
        em = Emitter(env, leaves)
        em.locals['name'] = ('name', 'STR')
        install_str_hooks(em, [])

        def hook(tr_, st, k, mode, names):
            if st[0] == 'stmt' and effect_free_match(st[1]):
                return k()
            return None
        tr = ImpTr(em, [], stmt_hook=hook)
        term = tr.value_block(body, 'STR')
        out.append("Definition gen_%s (name : string) (insn : insn) : res string :=\n  %s.\n\n" % (fn, term))
    # to_insn_vec
    _, body = R.parse_fn(toks, 'to_insn_vec')
    em = Emitter(env, {})
    install_str_hooks(em, strfns)
    gi_hook = U.get_insn_hook(em)
    for v, ty in (('name', 'STR'), ('desc', 'STR'), ('res', 'HLVEC')):
        em.locals[v] = (v, ty)

    def hook2(tr_, st, k, mode, names):
        r = gi_hook(tr_, st, k, mode, names)
        if r is not None:
            return r
        if st[0] == 'let' and st[3] is None and st[1][0] == 'ppath' and st[1][1] in ('name', 'desc'):
            # `let name;` -- assigned in every arm before use; the model starts it as the empty string
            return '(let %s := EmptyString in %s)' % (st[1][1], k())
        if st[0] == 'let' and st[3] is not None and st[3][0] == 'macro' and st[3][1] == 'vec' and not st[3][2]:
            em.locals[st[1][1]] = (coqname(st[1][1]), 'HLVEC')
            return '(let %s := @nil hlinsn in %s)' % (coqname(st[1][1]), k())
        if st[0] == 'let' and st[3] is not None and st[3][0] == 'struct' and st[3][1] == 'HLInsn':
            fs = []
            for fname, fe in st[3][2]:
                t, _ = em.expr(fe)
                fs.append('h_%s := %s' % (fname, t))
            binds = em.take_binds()
            em.locals[st[1][1]] = (coqname(st[1][1]), 'HL')
            return Emitter.wrap_binds(binds, '(let %s := {| %s |} in %s)' % (coqname(st[1][1]), '; '.join(fs), k()))
        if st[0] == 'stmt' and st[1][0] == 'mcall' and st[1][2] == 'push' and show(st[1][1]) == 'res':
            t, _ = em.expr(st[1][3][0])
            return '(let res := (res ++ [%s])%%list in %s)' % (t, k())
        if st[0] == 'stmt' and st[1][0] == 'return' and st[1][1] is not None and st[1][1][0] == 'macro' and st[1][1][1] == 'vec':
            return None
        return None

    tr = ImpTr(em, ['name', 'desc', 'imm', 'insn_ptr', 'res'], stmt_hook=hook2)

    def mutating_call(e):
        if e[0] == 'mcall' and e[2] == 'push' and show(e[1]) == 'res':
            return ['res']
        return []
    tr.mutating_call = mutating_call

    def ret_hook(tr_, mode, e):
        if e is not None and e[0] == 'macro' and e[1] == 'vec' and not e[2]:
            if mode == 'fn':
                return 'Ok (@nil hlinsn)'
            if mode == 'ctl':
                return 'Ok (Ret (@nil hlinsn))'
        return None
    tr.ret_hook = ret_hook
    tr.loop_name = 'gen_disasm_loop'
    tr.loop_params = '(prog : list Z)'
    tr.loop_state_type = '(Z * list hlinsn)'
    tr.named_matches['insn.opc'] = ('gen_disasm_arm', '(prog : list Z) (insn : insn) (name desc : string) (imm_ insn_ptr : Z)',
                                    'prog insn name desc imm_ insn_ptr', 'res (string * string * Z * Z)')
    term = tr.block(body, 'fn', [], tail_value=True)
    out.extend(d + '\n' for d in tr.aux_defs)
    out.append("Definition gen_to_insn_vec (fuel : nat) (prog : list Z) : res (list hlinsn) :=\n  %s.\n" % term)
    return ''.join(out)


# ------------------------------------------------------------------ src/assembler.rs

ITYPES = ['AluBinary', 'AluUnary', 'LoadImm', 'LoadAbs', 'LoadInd', 'LoadReg', 'StoreImm', 'StoreReg', 'JumpUnconditional',
          'JumpConditional', 'Call', 'Callx', 'Endian(i64)', 'NoOperand']
OPERANDS = ['Register(i64)', 'Integer(i64)', 'Memory(i64,i64)', 'Nil']

ASM_HDR = ("From Coq Require Import String.\nFrom RbpfV Require Import Ebpf Fmt AsmDefs.\nFrom RbpfV.gen Require Import Opcodes.\n\n")


def enum_variants(toks, name):
    for i in range(len(toks) - 2):
        if toks[i][1] == 'enum' and toks[i + 1][1] == name:
            j = i + 2
            k = R.find_matching(toks, j)
            body = toks[j + 1:k]
            out, cur = [], []
            depth = 0
            for t in body:
                if t[0] == 'op' and t[1] in '([':
                    depth += 1
                if t[0] == 'op' and t[1] in ')]':
                    depth -= 1
                if t[0] == 'op' and t[1] == ',' and depth == 0:
                    if cur:
                        out.append(''.join(cur))
                    cur = []
                else:
                    cur.append(t[1])
            if cur:
                out.append(''.join(cur))
            return out
    raise Unsupported("enum %s not found" % name)


class MapEval:
    """partial evaluation of make_instruction_map(): straight-line inserts, `for` over literal arrays,
    names built with format!, opcodes built from ebpf constants"""

    def __init__(self, consts):
        self.consts = consts
        self.entries = []

    def value(self, e, env):
        k = e[0]
        if k == 'ref' or k == 'paren':
            return self.value(e[1], env)
        if k == 'str':
            return rust_str(e[1])
        if k == 'num':
            return e[1]
        if k == 'path':
            if e[1] in env:
                return env[e[1]]
            n = e[1].split('::')[-1]
            if n in self.consts:
                return self.consts[n][1]
            if e[1] in [v.split('(')[0] for v in ITYPES]:
                return ('itype', e[1])
            raise Unsupported("make_instruction_map: value %s" % e[1])
        if k == 'call' and e[1][0] == 'path' and e[1][1] == 'Endian':
            return ('itype', 'Endian', self.value(e[2][0], env))
        if k == 'bin' and e[1] == '|':
            return self.value(e[2], env) | self.value(e[3], env)
        if k == 'tuple':
            return tuple(self.value(x, env) for x in e[1])
        if k == 'array':
            return [self.value(x, env) for x in e[1]]
        if k == 'macro' and e[1] == 'format':
            groups = split_args(e[2])
            if len(groups) != 1:
                raise Unsupported("make_instruction_map: format! with positional arguments")
            s = ''
            for p in parse_fmt(rust_str(groups[0][0][1])):
                if p[0] == 'lit':
                    s += p[1]
                else:
                    if p[2] != '' or p[1] not in env:
                        raise Unsupported("make_instruction_map: format piece")
                    s += str(env[p[1]])
            return s
        raise Unsupported("make_instruction_map: expression %s" % k)

    def bind(self, pat, v, env):
        if pat[0] == 'ppath':
            env[pat[1]] = v
        elif pat[0] == 'ptuple':
            for p, x in zip(pat[1], v):
                self.bind(p, x, env)
        elif pat[0] == 'pref':
            self.bind(pat[1], v, env)
        else:
            raise Unsupported("make_instruction_map: pattern %s" % pat[0])

    def run(self, stmts, env):
        for st in stmts:
            if st[0] == 'let' and st[3] is not None and st[3][0] == 'call' and show(st[3][1]) == 'HashMap::new':
                self.map_name = st[1][1]
                continue
            if st[0] == 'let' and st[3] is not None and st[3][0] == 'closure':
                cl = st[3]
                params = [p[0][1] for p in cl[1]]
                b = cl[2]
                ok = (b[0] == 'block' and len(b[1]) == 1 and b[1][0][1][0] == 'mcall' and b[1][0][1][2] == 'insert'
                      and show(b[1][0][1][1]) == self.map_name)
                if not ok or len(params) != 3:
                    raise Unsupported("make_instruction_map: closure shape")
                ins = b[1][0][1][3]
                tup_ok = ins[1][0] == 'tuple' and [show(x) for x in ins[1][1]] == [params[1], params[2]]
                if show(ins[0]) != '%s.to_string()' % params[0] or not tup_ok:
                    raise Unsupported("make_instruction_map: insert arguments %s" % show(ins[1]))
                env[st[1][1]] = ('closure',)
                continue
            if st[0] == 'let' and st[3] is not None:
                self.bind(st[1], self.value(st[3], env), env)
                continue
            if st[0] in ('stmt', 'tail'):
                e = st[1]
                if e[0] == 'block':
                    self.run(e[1], dict(env))
                    continue
                if e[0] == 'call' and e[1][0] == 'path' and env.get(e[1][1]) == ('closure',):
                    name, ty, opc = [self.value(a, env) for a in e[2]]
                    self.entries.append((name, ty, opc))
                    continue
                if e[0] == 'for':
                    for v in self.value(e[2], env):
                        env2 = dict(env)
                        self.bind(e[1], v, env2)
                        self.run(e[3][1], env2)
                    continue
                if e[0] == 'path' and e[1] == self.map_name:
                    continue
            raise Unsupported("make_instruction_map: statement at line %s" % (st[2] if len(st) > 2 else '?'))


def itype_term(v):
    if len(v) == 3:
        return '(Endian %d)' % v[2]
    return v[1]


def gen_asm(src_dir):
    rsimp.RESERVED_EXTRA = {'opc', 'dst', 'src', 'off', 'imm'}
    try:
        return gen_asm_(src_dir)
    finally:
        rsimp.RESERVED_EXTRA = set()


def gen_asm_(src_dir):
    env, _ = U.read_consts(src_dir)
    toks = U.load(src_dir, 'assembler.rs')
    ptoks = U.load(src_dir, 'asm_parser.rs')
    if enum_variants(toks, 'InstructionType') != ITYPES:
        raise Unsupported("enum InstructionType changed: %s" % enum_variants(toks, 'InstructionType'))
    if enum_variants(ptoks, 'Operand') != OPERANDS:
        raise Unsupported("enum Operand changed: %s" % enum_variants(ptoks, 'Operand'))
    out = [U.HDR % 'src/assembler.rs (make_instruction_map, insn, operands_tuple, encode, the lddw second slot)', ASM_HDR]
    # --- instruction map
    _, body = R.parse_fn(toks, 'make_instruction_map')
    me = MapEval(env)
    me.run(body[1], {})
    rows = ['  (%s, (%s, %d))' % (coq_str(n), itype_term(t), o) for n, t, o in me.entries]
    out.append("(* in insertion order; a later insertion of the same key replaces the earlier one (AsmDefs.map_get) *)\n"
               "Definition gen_instruction_map : list (string * (itype * Z)) := [\n%s ]%%string.\n\n" % ';\n'.join(rows))
    # --- insn()
    _, body = R.parse_fn(toks, 'insn')
    leaves = {'opc': ('opc_', 'U8'), 'dst': ('dst_', 'I64'), 'src': ('src_', 'I64'), 'off': ('off_', 'I64'), 'imm': ('imm_', 'I64')}
    em = Emitter(env, leaves)
    install_asm_hooks(em)
    tr = ImpTr(em, [])
    term = tr.block(body, 'fn', [], tail_value=True)
    out.append("Definition gen_insn (opc_ dst_ src_ off_ imm_ : Z) : res insn :=\n  %s.\n\n" % term)
    # --- operands_tuple()
    _, body = R.parse_fn(toks, 'operands_tuple')
    st = body[1][0]
    if len(body[1]) != 1 or st[1][0] != 'match' or show(st[1][1]) != 'operands.len()':
        raise Unsupported("operands_tuple: expected a single match on operands.len()")
    t = 'Err 0'
    arms = st[1][2]
    chain = []
    for pat, guard, b, ln, attrs in arms:
        if guard is not None:
            raise Unsupported("operands_tuple: guard")
        if b[0] == 'call' and show(b[1]) == 'Err':
            r = 'Err 0'
        elif b[0] == 'call' and show(b[1]) == 'Ok' and b[2][0][0] == 'tuple' and len(b[2][0][1]) == 3:
            parts, binds = [], []
            for x in b[2][0][1]:
                if x[0] == 'path' and x[1] == 'Nil':
                    parts.append('Nil')
                elif x[0] == 'index' and show(x[1]) == 'operands' and x[2][0] == 'num':
                    v = 'o%d' % len(binds)
                    binds.append((v, 'op_get operands %d' % x[2][1]))
                    parts.append(v)
                else:
                    raise Unsupported("operands_tuple: component %s" % show(x))
            r = Emitter.wrap_binds(binds, 'Ok (%s)' % ', '.join(parts))
        else:
            raise Unsupported("operands_tuple: arm body")
        chain.append((pat, r))
    if chain[-1][0][0] != 'pwild':
        raise Unsupported("operands_tuple: last arm is not _")
    t = chain[-1][1]
    for pat, r in reversed(chain[:-1]):
        if pat[0] != 'pnum':
            raise Unsupported("operands_tuple: pattern")
        t = '(if len_ops operands =? %d then %s else %s)' % (pat[1], r, t)
    out.append("Definition gen_operands_tuple (operands : list operand) : res (operand * operand * operand) :=\n  %s.\n\n" % t)
    # --- encode()
    _, body = R.parse_fn(toks, 'encode')
    init = body[1][0][3] if len(body[1]) == 2 and body[1][0][0] == 'let' else None
    if init is not None and init[0] == 'try':
        init = init[1]
        while init[0] == 'paren':
            init = init[1]
    if init is None or init[0] != 'call' or show(init[1]) != 'operands_tuple' or [show(x) for x in init[2]] != ['operands']:
        raise Unsupported("encode: expected `let (a, b, c) = operands_tuple(operands)?;` then a match")
    names = [p[1] for p in body[1][0][1][1]]
    m = body[1][1][1]
    if m[0] != 'match' or m[1][0] != 'tuple' or [show(x) for x in m[1][1]] != ['inst_type'] + names:
        raise Unsupported("encode: scrutinee %s" % show(m[1]))
    arms = []
    for pat, guard, b, ln, attrs in m[2]:
        if guard is not None:
            raise Unsupported("encode: guard")
        alts = pat[1] if pat[0] == 'por' else [pat]
        pats, vars_ = [], None
        for a in alts:
            if a[0] == 'pwild':
                pats.append('_, _, _, _')
                vs = set()
            else:
                if a[0] != 'ptuple' or len(a[1]) != 4:
                    raise Unsupported("encode: pattern shape")
                vs = set()
                pats.append(', '.join(enc_pat(x, vs) for x in a[1]))
            if vars_ is not None and vars_ != vs:
                raise Unsupported("encode: alternatives bind different variables")
            vars_ = vs
        leaves = {'opc': ('opc_', 'U8')}
        for v in vars_:
            leaves[v] = (coqname(v), 'I64')
        em = Emitter(env, leaves)
        install_asm_hooks(em)
        while b[0] == 'block' and len(b[1]) == 1 and b[1][0][0] == 'tail':
            b = b[1][0][1]
        if b[0] == 'call' and show(b[1]) == 'Err':
            r = 'Err 0'
        elif b[0] == 'call' and show(b[1]) == 'insn' and len(b[2]) == 5:
            ts = []
            for x, ty in zip(b[2], ('U8', 'I64', 'I64', 'I64', 'I64')):
                t_, _ = em.expr(x, ty)
                ts.append(t_)
            r = Emitter.wrap_binds(em.take_binds(), 'gen_insn %s' % ' '.join(ts))
        else:
            raise Unsupported("encode: arm body %s" % show(b)[:60])
        arms.append('  | %s => %s' % ('\n  | '.join(pats), r))
    out.append("Definition gen_encode (inst_type : itype) (opc_ : Z) (operands : list operand) : res insn :=\n"
               "  bind (gen_operands_tuple operands) (fun '(%s) =>\n  match inst_type, %s with\n%s\n  end).\n\n"
               % (', '.join(names), ', '.join(names), '\n'.join(arms)))
    # --- the lddw second slot inside assemble_internal
    _, body = R.parse_fn(toks, 'assemble_internal')
    found = []

    def walk(e):
        if isinstance(e, tuple) and e and e[0] == 'if' and e[1][0] == 'chain' and len(e[1][1]) == 2 and all(c[0] == 'clet' for c in e[1][1]):
            found.append(e)
        if isinstance(e, (tuple, list)):
            for x in e:
                walk(x)
    walk(body)
    if len(found) != 1:
        raise Unsupported("assemble_internal: expected one `if let .. && let ..` (the lddw special case)")
    e = found[0]
    c1, c2 = e[1][1]
    if c1[1][0] != 'ppath' or show(c1[2]) != 'inst_type' or e[3] is not None:
        raise Unsupported("assemble_internal: first condition of the lddw case")
    if c2[1][0] != 'pctor' or len(c2[1][2]) != 1 or c2[2][0] != 'index' or show(c2[2][1]) != 'instruction.operands' or c2[2][2][0] != 'num':
        raise Unsupported("assemble_internal: second condition of the lddw case")
    var = c2[1][2][0][1]
    blk = e[2]
    if len(blk[1]) != 1 or blk[1][0][1][0] != 'mcall' or blk[1][0][1][2] != 'push' or show(blk[1][0][1][1]) != 'result':
        raise Unsupported("assemble_internal: body of the lddw case")
    arg = blk[1][0][1][3][0]
    if arg[0] != 'mcall' or arg[2] != 'unwrap' or arg[1][0] != 'call' or show(arg[1][1]) != 'insn' or len(arg[1][2]) != 5:
        raise Unsupported("assemble_internal: pushed value of the lddw case")
    em = Emitter(env, {var: (coqname(var), 'I64')})
    install_asm_hooks(em)
    ts = []
    for x, ty in zip(arg[1][2], ('U8', 'I64', 'I64', 'I64', 'I64')):
        t_, _ = em.expr(x, ty)
        ts.append(t_)
    inner = Emitter.wrap_binds(em.take_binds(), '(i_ <- unwrap_res (gen_insn %s) ;; Ok [i_])' % ' '.join(ts))
    out.append("(* `if let %s = inst_type && let %s(%s) = instruction.operands[%d] { result.push(insn(..).unwrap()) }` *)\n"
               "Definition gen_lddw_second (inst_type : itype) (operands : list operand) : res (list insn) :=\n"
               "  match inst_type with\n  | %s => (o_ <- op_get operands %d ;; match o_ with %s %s => %s | _ => Ok [] end)\n  | _ => Ok []\n  end.\n"
               % (c1[1][1], c2[1][1], var, c2[2][2][1], c1[1][1], c2[2][2][1], c2[1][1], coqname(var), inner))
    return ''.join(out)


def enc_pat(p, vs):
    if p[0] == 'ppath':
        return p[1]
    if p[0] == 'pwild':
        return '_'
    if p[0] == 'pctor':
        names = []
        for x in p[2]:
            if x[0] == 'ppath':
                vs.add(x[1])
                names.append(coqname(x[1]))
            elif x[0] == 'pwild':
                names.append('_')
            else:
                raise Unsupported("encode: nested pattern")
        return '%s %s' % (p[1], ' '.join(names))
    raise Unsupported("encode: pattern %s" % p[0])


def install_asm_hooks(em):
    orig = em.expr

    def expr(e, expect=None):
        k = e[0]
        if k == 'mcall' and e[2] == 'contains' and e[1][0] == 'paren' and e[1][1][0] == 'range' and e[1][1][1] == '..':
            x, ty = em.expr(e[3][0])
            lo = em.const_value(e[1][1][2])
            hi = em.const_value(e[1][1][3])
            if lo is None or hi is None:
                raise Unsupported("range bounds")
            return '((%s <=? %s) && (%s <? %s))' % ('(%d)' % lo if lo < 0 else lo, x, x, hi), 'BOOL'
        if k == 'struct' and e[1] == 'Insn':
            fs = []
            for fname, fe in e[2]:
                t, _ = em.expr(fe)
                fs.append('%s := %s' % (fname, t))
            return '{| %s |}' % '; '.join(fs), 'INSN'
        if k == 'macro' and e[1] == 'format':
            return 'EmptyString', 'STR'
        return orig(e, expect)
    em.expr = expr
