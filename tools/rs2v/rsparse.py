"""rs2v: tokenizer and recursive-descent parser for the subset of Rust used by rbpf's
table-like code.  Output is a plain tuple AST.  Anything outside the subset raises
Unsupported(span) -- callers treat that as "tie A unavailable for this unit"."""
import re


class Unsupported(Exception):
    pass


TOK = re.compile(r'''
  (?P<ws>\s+|//[^\n]*|/\*.*?\*/)
 |(?P<num>0x[0-9a-fA-F_]+|0b[01_]+|0o[0-7_]+|\d[\d_]*)(?P<suf>(?:u|i)(?:8|16|32|64|128|size))?
 |(?P<str>b?"(?:\\.|[^"\\])*")
 |(?P<chr>'(?:\\.|[^'\\])')
 |(?P<life>'[A-Za-z_]\w*)
 |(?P<id>[A-Za-z_]\w*!?)
 |(?P<op><<=|>>=|\.\.=|\.\.\.|::|->|=>|==|!=|<=|>=|&&|\|\||<<|>>|\+=|-=|\*=|/=|%=|\|=|&=|\^=|\.\.|[-+*/%&|^!<>=.,;:\#\[\](){}?@$~])
''', re.S | re.X)


def tokenize(src):
    """-> list of (kind, text, extra, line)"""
    out = []
    i = 0
    line = 1
    n = len(src)
    while i < n:
        m = TOK.match(src, i)
        if not m:
            raise Unsupported("lex error at line %d: %r" % (line, src[i:i + 20]))
        txt = m.group(0)
        if m.group('ws') is None:
            if m.group('num') is not None:
                out.append(('num', m.group('num'), m.group('suf'), line))
            elif m.group('str') is not None:
                out.append(('str', m.group('str'), None, line))
            elif m.group('chr') is not None:
                out.append(('chr', m.group('chr'), None, line))
            elif m.group('life') is not None:
                out.append(('life', m.group('life'), None, line))
            elif m.group('id') is not None:
                idt = m.group('id')
                # `x != y` without space after ident: split the '!' back off unless it's a macro
                if idt.endswith('!') and i + len(idt) < n and src[i + len(idt)] == '=':
                    idt = idt[:-1]
                    out.append(('id', idt, None, line))
                    line += txt.count('\n')
                    i += len(idt)
                    continue
                out.append(('id', idt, None, line))
            else:
                out.append(('op', m.group('op'), None, line))
        line += txt.count('\n')
        i = m.end()
    return out


BINPREC = [['||'], ['&&'], ['==', '!=', '<', '>', '<=', '>='], ['|'], ['^'], ['&'],
           ['<<', '>>'], ['+', '-'], ['*', '/', '%']]
ASSIGN = {'=', '+=', '-=', '*=', '/=', '%=', '|=', '&=', '^=', '<<=', '>>='}
CLOSE = {'(': ')', '[': ']', '{': '}'}


class Parser:
    def __init__(self, toks):
        self.t = toks
        self.i = 0

    # --- token helpers
    def peek(self, k=0):
        j = self.i + k
        return self.t[j] if j < len(self.t) else ('eof', '', None, -1)

    def line(self):
        return self.peek()[3]

    def isop(self, v, k=0):
        p = self.peek(k)
        return p[0] == 'op' and p[1] == v

    def isid(self, v, k=0):
        p = self.peek(k)
        return p[0] == 'id' and p[1] == v

    def eat(self, v=None):
        p = self.peek()
        if v is not None and not (p[0] in ('op', 'id') and p[1] == v):
            raise Unsupported("line %s: expected %r, got %r" % (p[3], v, p[1]))
        self.i += 1
        return p

    def skip_attrs(self):
        attrs = []
        while self.isop('#'):
            self.eat()
            if self.isop('!'):
                self.eat()
            start = self.i
            self.eat('[')
            depth = 1
            while depth:
                q = self.eat()
                if q[0] == 'op' and q[1] == '[':
                    depth += 1
                if q[0] == 'op' and q[1] == ']':
                    depth -= 1
            attrs.append(' '.join(x[1] for x in self.t[start + 1:self.i - 1]))
        return attrs

    # --- types
    def type_(self):
        if self.isop('&'):
            self.eat()
            if self.peek()[0] == 'life':
                self.eat()
            if self.isid('mut'):
                self.eat()
            return ('ref', self.type_())
        if self.isop('*'):
            self.eat()
            q = self.eat()[1]  # const / mut
            return ('ptr', q, self.type_())
        if self.isop('['):
            self.eat()
            t = self.type_()
            n = None
            if self.isop(';'):
                self.eat()
                n = self.expr()
            self.eat(']')
            return ('array', t, n)
        if self.isop('('):
            self.eat()
            items = []
            while not self.isop(')'):
                items.append(self.type_())
                if self.isop(','):
                    self.eat()
            self.eat(')')
            return ('tuple_t', items)
        name = self.eat()[1]
        while self.isop('::'):
            self.eat()
            name += '::' + self.eat()[1]
        if self.isop('<'):
            self.eat()
            args = []
            while not self.isop('>'):
                if self.peek()[0] == 'life':
                    self.eat()
                else:
                    args.append(self.type_())
                if self.isop(','):
                    self.eat()
            self.eat('>')
            return ('generic', name, args)
        return ('ty', name)

    # --- patterns
    def pattern(self):
        p = self.pattern1()
        if self.isop('|'):
            alts = [p]
            while self.isop('|'):
                self.eat()
                alts.append(self.pattern1())
            return ('por', alts)
        return p

    def pattern1(self):
        p = self.peek()
        if p[0] == 'num' or (self.isop('-') and self.peek(1)[0] == 'num'):
            lo = self.patnum()
            if self.isop('..=') or self.isop('...') or self.isop('..'):
                op = self.eat()[1]
                hi = self.patnum()
                return ('prange', lo, hi, op != '..')
            return ('pnum', lo)
        if p[0] == 'str':
            self.eat()
            return ('pstr', p[1])
        if p[0] == 'chr':
            self.eat()
            return ('pchr', p[1])
        if self.isop('('):
            self.eat()
            items = []
            while not self.isop(')'):
                items.append(self.pattern())
                if self.isop(','):
                    self.eat()
            self.eat(')')
            return ('ptuple', items)
        if self.isop('&'):
            self.eat()
            return self.pattern1()
        if self.isid('mut') or self.isid('ref'):
            self.eat()
            p = self.peek()
        if self.isid('_'):
            self.eat()
            return ('pwild',)
        if p[0] == 'id':
            self.eat()
            name = p[1]
            while self.isop('::'):
                self.eat()
                name += '::' + self.eat()[1]
            if self.isop('('):
                self.eat()
                items = []
                while not self.isop(')'):
                    items.append(self.pattern())
                    if self.isop(','):
                        self.eat()
                self.eat(')')
                return ('pctor', name, items)
            return ('ppath', name)
        raise Unsupported("line %s: pattern %r" % (p[3], p[1]))

    def patnum(self):
        neg = False
        if self.isop('-'):
            self.eat()
            neg = True
        p = self.eat()
        v = int(p[1].replace('_', ''), 0)
        return -v if neg else v

    # --- statements / blocks
    def block(self):
        self.eat('{')
        stmts = []
        while not self.isop('}'):
            st = self.stmt()
            if st is not None:
                stmts.append(st)
        self.eat('}')
        return ('block', stmts)

    def stmt(self):
        attrs = self.skip_attrs()
        ln = self.line()
        if self.isop(';'):
            self.eat()
            return None
        if self.isid('let'):
            self.eat()
            pat = self.pattern()
            ty = None
            if self.isop(':'):
                self.eat()
                ty = self.type_()
            e = None
            if self.isop('='):
                self.eat()
                e = self.expr()
            els = None
            if self.isid('else'):
                self.eat()
                els = self.block()
            self.eat(';')
            return ('let', pat, ty, e, ln, attrs, els)
        if self.isid('macro_rules!'):
            self.eat()
            name = self.eat()[1]
            raw = self.raw_group()
            return ('macro_rules', name, raw, ln)
        if self.isid('const') or self.isid('static'):
            self.eat()
            name = self.eat()[1]
            self.eat(':')
            ty = self.type_()
            self.eat('=')
            e = self.expr()
            self.eat(';')
            return ('const', name, ty, e, ln)
        if self.isid('use'):
            while not self.isop(';'):
                self.eat()
            self.eat(';')
            return None
        e = self.expr_stmt()
        if self.peek()[0] == 'op' and self.peek()[1] in ASSIGN:
            op = self.eat()[1]
            r = self.expr()
            e = ('assign', op, e, r, ln)
        if self.isop(';'):
            self.eat()
            return ('stmt', e, ln, attrs)
        if self.isop('}'):
            return ('tail', e, ln, attrs)
        # block-like expression statements need no semicolon
        if e[0] in ('if', 'match', 'block', 'unsafe', 'while', 'for', 'loop', 'iflet'):
            return ('stmt', e, ln, attrs)
        if e[0] == 'macro' and getattr(self, 'last_macro_brace', False):
            return ('stmt', e, ln, attrs)
        raise Unsupported("line %s: expected ';' or '}' after statement, got %r" % (self.line(), self.peek()[1]))

    BLOCKLIKE = ('if', 'match', 'unsafe', 'while', 'for', 'loop')

    def starts_blocklike(self):
        return self.isop('{') or (self.peek()[0] == 'id' and self.peek()[1] in self.BLOCKLIKE)

    def expr_stmt(self):
        """expression in statement / match-arm position: a block-like expression ends there"""
        if self.starts_blocklike():
            e = self.atom(False)
            if self.isop('.') or self.isop('?'):
                e = self.postfix_from(e)
            return e
        return self.expr()

    def raw_group(self):
        open_ = self.eat()[1]
        close = CLOSE[open_]
        depth = 1
        raw = []
        while depth:
            q = self.eat()
            if q[0] == 'eof':
                raise Unsupported("unterminated group")
            if q[0] == 'op' and q[1] == open_:
                depth += 1
            if q[0] == 'op' and q[1] == close:
                depth -= 1
            if depth:
                raw.append(q)
        return raw

    # --- expressions
    def expr(self, lvl=0, nostruct=False):
        if lvl == 0 and (self.isop('..') or self.isop('..=')):
            op = self.eat()[1]
            hi = self.expr(1, nostruct)
            return ('range', op, None, hi)
        if lvl == len(BINPREC):
            return self.cast(nostruct)
        l = self.expr(lvl + 1, nostruct)
        while self.peek()[0] == 'op' and self.peek()[1] in BINPREC[lvl]:
            ln = self.line()
            op = self.eat()[1]
            r = self.expr(lvl + 1, nostruct)
            l = ('bin', op, l, r, ln)
        if lvl == 0 and (self.isop('..') or self.isop('..=')):
            op = self.eat()[1]
            hi = None
            p = self.peek()
            if not (p[0] == 'op' and p[1] in (']', ')', '}', ',', ';', '{')):
                hi = self.expr(1, nostruct)
            l = ('range', op, l, hi)
        return l

    def cast(self, nostruct):
        e = self.unary(nostruct)
        while self.isid('as'):
            self.eat()
            e = ('as', e, self.type_())
        return e

    def unary(self, nostruct):
        if self.isop('-') or self.isop('!') or self.isop('*'):
            ln = self.line()
            op = self.eat()[1]
            return ('un', op, self.unary(nostruct), ln)
        if self.isop('&'):
            self.eat()
            if self.isid('mut'):
                self.eat()
            return ('ref', self.unary(nostruct))
        if self.isop('&&'):
            self.eat()
            return ('ref', ('ref', self.unary(nostruct)))
        return self.postfix(nostruct)

    def postfix(self, nostruct):
        return self.postfix_from(self.atom(nostruct))

    def postfix_from(self, e):
        while True:
            if self.isop('.'):
                self.eat()
                p = self.eat()
                name = p[1]
                if p[0] == 'num':
                    e = ('tfield', e, int(name))
                    continue
                if self.isop('::'):
                    self.eat()
                    self.eat('<')
                    targs = []
                    while not self.isop('>'):
                        targs.append(self.type_())
                        if self.isop(','):
                            self.eat()
                    self.eat('>')
                    name = (name, tuple(targs))
                if self.isop('('):
                    ln = self.line()
                    e = ('mcall', e, name, self.args(), ln)
                else:
                    e = ('field', e, name)
            elif self.isop('['):
                ln = self.line()
                self.eat()
                ix = self.expr()
                self.eat(']')
                e = ('index', e, ix, ln)
            elif self.isop('('):
                ln = self.line()
                e = ('call', e, self.args(), ln)
            elif self.isop('?'):
                self.eat()
                e = ('try', e)
            else:
                return e

    def args(self):
        self.eat('(')
        a = []
        while not self.isop(')'):
            a.append(self.expr())
            if self.isop(','):
                self.eat()
        self.eat(')')
        return a

    def atom(self, nostruct):
        p = self.peek()
        ln = p[3]
        if p[0] == 'num':
            self.eat()
            return ('num', int(p[1].replace('_', ''), 0), p[2])
        if p[0] == 'str':
            self.eat()
            return ('str', p[1])
        if p[0] == 'chr':
            self.eat()
            return ('chr', p[1])
        if self.isop('('):
            self.eat()
            if self.isop(')'):
                self.eat()
                return ('unit',)
            e = self.expr()
            if self.isop(','):
                items = [e]
                while self.isop(','):
                    self.eat()
                    if not self.isop(')'):
                        items.append(self.expr())
                self.eat(')')
                return ('tuple', items)
            self.eat(')')
            return ('paren', e)
        if self.isop('['):
            self.eat()
            items = []
            while not self.isop(']'):
                items.append(self.expr())
                if self.isop(';'):
                    self.eat()
                    n = self.expr()
                    self.eat(']')
                    return ('arrayrep', items[0], n)
                if self.isop(','):
                    self.eat()
            self.eat(']')
            return ('array', items)
        if self.isop('{'):
            return self.block()
        if self.isop('|') or self.isop('||'):
            params = []
            if self.isop('||'):
                self.eat()
            else:
                self.eat('|')
                while not self.isop('|'):
                    pat = self.pattern1()
                    ty = None
                    if self.isop(':'):
                        self.eat()
                        ty = self.type_()
                    params.append((pat, ty))
                    if self.isop(','):
                        self.eat()
                self.eat('|')
            body = self.expr()
            return ('closure', params, body)
        if self.isid('move'):
            self.eat()
            return self.atom(nostruct)
        if self.isid('unsafe'):
            self.eat()
            return ('unsafe', self.block())
        if self.isid('if'):
            self.eat()
            return self.if_rest()
        if self.isid('match'):
            self.eat()
            scrut = self.expr(nostruct=True)
            self.eat('{')
            arms = []
            while not self.isop('}'):
                attrs = self.skip_attrs()
                aln = self.line()
                if self.isop('|'):
                    self.eat()
                pat = self.pattern()
                guard = None
                if self.isid('if'):
                    self.eat()
                    guard = self.expr()
                self.eat('=>')
                body = self.expr_stmt()
                if self.peek()[0] == 'op' and self.peek()[1] in ASSIGN:
                    op = self.eat()[1]
                    body = ('assign', op, body, self.expr(), aln)
                if self.isop(','):
                    self.eat()
                arms.append((pat, guard, body, aln, attrs))
            self.eat('}')
            return ('match', scrut, arms)
        if self.isid('while'):
            self.eat()
            c = self.cond()
            b = self.block()
            return ('while', c, b)
        if self.isid('loop'):
            self.eat()
            return ('loop', self.block())
        if self.isid('for'):
            self.eat()
            pat = self.pattern()
            self.eat('in')
            it = self.expr(nostruct=True)
            b = self.block()
            return ('for', pat, it, b)
        if self.isid('return'):
            self.eat()
            if self.isop(';') or self.isop('}') or self.isop(','):
                return ('return', None)
            return ('return', self.expr())
        if self.isid('break'):
            self.eat()
            return ('break',)
        if self.isid('continue'):
            self.eat()
            return ('continue',)
        if self.isop('$') and self.peek(1)[0] == 'id':
            self.eat()
            return ('path', '$' + self.eat()[1])
        if p[0] == 'id':
            self.eat()
            name = p[1]
            while self.isop('::'):
                self.eat()
                if self.isop('<'):
                    self.eat()
                    ty = self.type_()
                    self.eat('>')
                    name += '::<%s>' % (tyname(ty),)
                else:
                    name += '::' + self.eat()[1]
            if name.endswith('!'):
                self.last_macro_brace = self.isop('{')
                raw = self.raw_group()
                return ('macro', name[:-1], raw, ln)
            if self.isop('{') and not nostruct and name[:1].isupper():
                # struct literal
                self.eat()
                fields = []
                while not self.isop('}'):
                    fname = self.eat()[1]
                    if self.isop(':'):
                        self.eat()
                        fe = self.expr()
                    else:
                        fe = ('path', fname)
                    fields.append((fname, fe))
                    if self.isop(','):
                        self.eat()
                self.eat('}')
                return ('struct', name, fields)
            return ('path', name)
        raise Unsupported("line %s: unexpected token %r" % (p[3], p[1]))

    def cond(self):
        """condition of if/while, possibly a `let` chain"""
        parts = []
        while True:
            if self.isid('let'):
                self.eat()
                pat = self.pattern()
                self.eat('=')
                e = self.expr(lvl=2, nostruct=True)
                parts.append(('clet', pat, e))
            else:
                parts.append(('cexpr', self.expr(lvl=2, nostruct=True)))
            if self.isop('&&'):
                self.eat()
                continue
            break
        if self.isop('||'):
            # only plain boolean expressions may contain ||: reparse is not needed for rbpf
            rest = [parts.pop()[1]]
            while self.isop('||'):
                self.eat()
                rest.append(self.expr(lvl=1, nostruct=True))
            e = rest[0]
            for r in rest[1:]:
                e = ('bin', '||', e, r, self.line())
            parts.append(('cexpr', e))
        if all(q[0] == 'cexpr' for q in parts):
            e = parts[0][1]
            for q in parts[1:]:
                e = ('bin', '&&', e, q[1], self.line())
            return e
        return ('chain', parts)

    def if_rest(self):
        c = self.cond()
        t = self.block()
        f = None
        if self.isid('else'):
            self.eat()
            if self.isid('if'):
                self.eat()
                f = ('block', [('tail', self.if_rest(), self.line(), [])])
            else:
                f = self.block()
        return ('if', c, t, f)


def tyname(ty):
    if ty[0] == 'ty':
        return ty[1]
    if ty[0] == 'ref':
        return '&' + tyname(ty[1])
    if ty[0] == 'ptr':
        return '*%s %s' % (ty[1], tyname(ty[2]))
    if ty[0] == 'generic':
        return '%s<%s>' % (ty[1], ','.join(tyname(a) for a in ty[2]))
    if ty[0] == 'array':
        return '[%s]' % tyname(ty[1])
    if ty[0] == 'tuple_t':
        return '(%s)' % ','.join(tyname(a) for a in ty[1])
    return str(ty)


# ------------------------------------------------------------------ source-level extraction

def find_matching(toks, i):
    """toks[i] is an opening bracket; return index of its closing partner"""
    open_ = toks[i][1]
    close = CLOSE[open_]
    depth = 0
    j = i
    while j < len(toks):
        t = toks[j]
        if t[0] == 'op' and t[1] == open_:
            depth += 1
        elif t[0] == 'op' and t[1] == close:
            depth -= 1
            if depth == 0:
                return j
        j += 1
    raise Unsupported("unbalanced %s" % open_)


def fn_body_tokens(toks, name, nth=0):
    """tokens of the body block (including braces) of the nth `fn name`"""
    seen = 0
    for i in range(len(toks) - 1):
        if toks[i][0] == 'id' and toks[i][1] == 'fn' and toks[i + 1][0] == 'id' and toks[i + 1][1] == name:
            if seen == nth:
                j = i + 2
                # skip generics / params / return type up to the body '{'
                depth = 0
                nobody = False
                while True:
                    t = toks[j]
                    if t[0] == 'op' and t[1] in '([':
                        depth += 1
                    elif t[0] == 'op' and t[1] in ')]':
                        depth -= 1
                    elif t[0] == 'op' and t[1] == '{' and depth == 0:
                        break
                    elif t[0] == 'op' and t[1] == ';' and depth == 0:
                        nobody = True
                        break
                    j += 1
                if nobody:
                    continue  # a trait method declaration: not counted
                k = find_matching(toks, j)
                return toks[i:j], toks[j:k + 1]
            seen += 1
    raise Unsupported("fn %s not found" % name)


def parse_fn(toks, name, nth=0):
    sig, body = fn_body_tokens(toks, name, nth)
    p = Parser(body)
    b = p.block()
    return sig, b


def consts(toks):
    """all `const NAME: T = expr;` items -> list of (name, type, expr AST, line)"""
    out = []
    i = 0
    while i < len(toks):
        t = toks[i]
        if t[0] == 'id' and t[1] == 'const' and toks[i + 1][0] == 'id' and toks[i + 2][0] == 'op' and toks[i + 2][1] == ':':
            name = toks[i + 1][1]
            p = Parser(toks)
            p.i = i + 3
            ty = p.type_()
            p.eat('=')
            e = p.expr()
            p.eat(';')
            out.append((name, ty, e, t[3]))
            i = p.i
        else:
            i += 1
    return out


def token_text(toks):
    return ' '.join(t[1] + (t[2] or '') for t in toks)
